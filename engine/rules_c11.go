package main

import (
	"fmt"
	"go/token"
	"go/types"
	"sort"
	"time"

	"golang.org/x/tools/go/ssa"
)

func init() {
	register("C11", c11Timed("R1", c11r1), c11Timed("R2", c11r2), c11Timed("R3", c11r3), c11Timed("R4", c11r4),
		c11Timed("R5", c11r5), c11Timed("R6", c11r6), c11Timed("R7", c11r7))
}

// c11Timed notes the wall time of a rule in the evidence.
func c11Timed(name string, f ruleFn) ruleFn {
	return func(c *Ctx) {
		t0 := time.Now()
		defer func() { c.Note("C11-%s took %.2fs", name, time.Since(t0).Seconds()) }()
		f(c)
	}
}

// c11Steps lists the calls in fn to functions of the security package that return an error: the
// protocol steps whose failures must not be lost.
func c11Steps(fn *ssa.Function) []*ssa.Call {
	var out []*ssa.Call
	allInstrs(fn, func(_ *ssa.BasicBlock, _ int, in ssa.Instruction) {
		call, ok := in.(*ssa.Call)
		if !ok {
			return
		}
		g := calleeFn(call)
		if g == nil || fnPkg(g) == nil || fnPkg(g) != fnPkg(fn) || len(errResults(call)) == 0 {
			return
		}
		out = append(out, call)
	})
	return out
}

// c11NetworkReturn: the return hands back errors.Unwrap(err) (or err itself) of a step whose failing
// edge dominates it -- the "network class, abort immediately" idiom. Such a return is an error return.
func (c *Ctx) c11NetworkReturn(fn *ssa.Function, r RetPoint, steps []*ssa.Call) bool {
	v := r.Ret.Results[len(r.Ret.Results)-1]
	if call, ok := v.(*ssa.Call); ok {
		co := calleeObj(call)
		if co != nil && co.Name() == "Unwrap" && len(call.Call.Args) == 1 {
			v = call.Call.Args[0]
		}
	}
	for _, s := range steps {
		for _, e := range errResults(s) {
			if !aliases(fn, e)[v] {
				continue
			}
			_, fail, _ := callErrEdges(fn, s)
			for _, fe := range fail {
				if edgeDominates(fn, fe, r.Ret.Block()) {
					return true
				}
			}
		}
	}
	return false
}

// C11-R1: deferred failures are not lost.
func c11r1(c *Ctx) {
	const rule = "C11-R1"
	c.Doc(rule, "performTokenAuthenticationClient/Server: the error of every step is tested and on its failing edge either returned (network class) or handed to storeAuthError before any success return; after every step each success return, the setSharedSecret call and the store to negotiation.User are behind an AuthError==nil edge; storeAuthError sets AuthError (to its non-nil argument) and ErrorStatus=AUTH_PW_ERROR together and is their only writer")
	a := c.c11Need(rule)
	if a == nil {
		return
	}
	setSecret := c.needFn(rule, "security", "(*SecurityNegotiation).setSharedSecret")
	if setSecret == nil {
		return
	}
	for _, side := range []struct {
		fn  *ssa.Function
		min int
	}{{a.client, 5}, {a.server, 4}} {
		fn := side.fn
		name := fnName(fn)
		steps := c11Steps(fn)
		c.MinCount(rule, "steps of "+name, len(steps), side.min)
		nilE, setE := fieldCondEdges(fn, a.fAuthErr)
		var succ []Target
		for _, r := range c.successTargets(fn) {
			if c.c11NetworkReturn(fn, r, steps) {
				c.Note("%s: return at %s hands back the step's own (unwrapped) network error; treated as an error return", rule, c.Pos(r.Ret.Pos()))
				continue
			}
			// "if authData.AuthError != nil { return authData.AuthError }": the gate's failing side
			if v := r.Ret.Results[len(r.Ret.Results)-1]; c11IsField(v, a.fAuthErr) {
				gated := false
				for _, e := range setE {
					if edgeDominates(fn, e, r.Ret.Block()) {
						gated = true
					}
				}
				if gated {
					continue
				}
			}
			succ = append(succ, r.Target())
		}
		c.MinCount(rule, "success returns of "+name, len(succ), 1)
		gate := newCuts().AddEdges(nilE...)
		stored := newCuts().AddInstrs(a.storeCalls(fn)...)
		// things that must stay behind the gate
		guarded := append([]Target{}, succ...)
		for _, cs := range callsIn(fn, setSecret.Object()) {
			guarded = append(guarded, Target{Instr: cs})
		}
		for _, st := range c11FieldStores(fn, a.fUser) {
			guarded = append(guarded, Target{Instr: st})
		}
		ord := map[string]int{}
		for _, s := range steps {
			label := calleeFn(s).Name()
			ord[label]++
			if ord[label] > 1 {
				label += fmt.Sprintf("#%d", ord[label])
			}
			_, fail, checked := callErrEdges(fn, s)
			if !checked {
				c.Violate(rule, name+"#step:"+label, "the error of this step is never tested", s.Pos())
				continue
			}
			okFail := true
			for _, fe := range fail {
				if len(fe.To().Instrs) == 0 {
					continue
				}
				start := Point{fe.To(), 0}
				for _, t := range succ {
					if p := findPath(start, t, stored); p != nil {
						okFail = false
						c.Violate(rule, name+"#step:"+label, "a failure of this step can reach a success return without being returned or stored with storeAuthError", s.Pos(), c.describePath(p)...)
						break
					}
				}
				if !okFail {
					break
				}
			}
			if okFail {
				c.Ok(rule, name+"#step:"+label, "a failure of this step is returned or stored before any success return", s.Pos())
			}
			start := after(s)
			c.c11MustPass(rule, name+"#gate-after:"+label, fn, &start, guarded, gate, len(nilE), "an AuthError == nil edge (the final gate)", s.Pos())
		}
	}
	// storeAuthError
	st := a.store
	sname := fnName(st)
	_, set := fieldCondEdges(st, a.fAuthErr)
	var rets []Target
	for _, r := range c.returnsOf(st) {
		rets = append(rets, r.Target())
	}
	var sErr, sStatus []ssa.Instruction
	for _, s := range c11FieldStores(st, a.fAuthErr) {
		if len(st.Params) == 3 && s.Val == ssa.Value(st.Params[2]) {
			sErr = append(sErr, s)
		}
	}
	for _, s := range c11FieldStores(st, a.fStatus) {
		if v, isC := constInt(s.Val); isC && v == a.errVal && v != a.okVal {
			sStatus = append(sStatus, s)
		}
	}
	c.c11MustPass(rule, sname+"#sets-AuthError", st, nil, rets, newCuts().AddEdges(set...).AddInstrs(sErr...), len(sErr), "a store of the error argument to AuthError (or an AuthError != nil edge)", st.Pos())
	c.c11MustPass(rule, sname+"#sets-ErrorStatus", st, nil, rets, newCuts().AddEdges(set...).AddInstrs(sStatus...), len(sStatus), "a store of AUTH_PW_ERROR to ErrorStatus (or an AuthError != nil edge)", st.Pos())
	// writers
	poss := map[*ssa.Function]token.Pos{}
	var wr []*ssa.Function
	for f, p := range c.c11Writers(a.fAuthErr, nil) {
		wr = append(wr, f)
		poss[f] = p
	}
	sort.Slice(wr, func(i, j int) bool { return fnName(wr[i]) < fnName(wr[j]) })
	c.whoMay(rule, "write TokenAuthData.AuthError", wr, poss, fnSet(st))
	wr = nil
	for f, p := range c.c11Writers(a.fStatus, nil) {
		wr = append(wr, f)
		poss[f] = p
	}
	sort.Slice(wr, func(i, j int) bool { return fnName(wr[i]) < fnName(wr[j]) })
	c.whoMay(rule, "write TokenAuthData.ErrorStatus", wr, poss, fnSet(st, a.client, a.server))
	// the initial status written by the two entry functions is OK and nothing else
	for _, fn := range []*ssa.Function{a.client, a.server} {
		okInit := true
		for _, s := range c11FieldStores(fn, a.fStatus) {
			if v, isC := constInt(s.Val); !isC || v != a.okVal {
				okInit = false
			}
		}
		c.Check(okInit, rule, fnName(fn)+"#initial-status", "ErrorStatus starts as AUTH_PW_A_OK", "ErrorStatus is assigned something other than the initial AUTH_PW_A_OK outside storeAuthError", fn.Pos())
	}
	// every stored error is definitely non-nil
	sites, ord := 0, map[string]int{}
	for _, cs := range c.callSites(st.Object()) {
		sites++
		args := cs.Call.Common().Args
		key := fnName(cs.Fn) + "#storeAuthError-arg"
		ord[key]++
		key += fmt.Sprintf("%d", ord[key])
		cls := c.classifyErr(cs.Fn, args[len(args)-1], cs.Call.Block(), 0)
		c.Check(cls == "error", rule, key, "the stored error is non-nil", "storeAuthError may be called with a nil error: the failure would not be recorded", cs.Call.Pos())
	}
	c.MinCount(rule, "storeAuthError call sites", sites, 10)
	// ErrNetwork is only ever wrapped or compared, never returned bare (so errors.Unwrap of a
	// step error that Is(ErrNetwork) is non-nil)
	if g, ok := c.SSAPkg("security").Members["ErrNetwork"].(*ssa.Global); ok && g.Referrers() == nil {
		bare, uses := false, 0
		for _, fn := range c.ModFns {
			allInstrs(fn, func(_ *ssa.BasicBlock, _ int, in ssa.Instruction) {
				ld, isLd := in.(*ssa.UnOp)
				if !isLd || ld.Op != token.MUL || ld.X != ssa.Value(g) {
					return
				}
				for _, r := range *ld.Referrers() {
					uses++
					call, isCall := r.(*ssa.Call)
					if !isCall {
						bare = true
						continue
					}
					co := calleeObj(call)
					if co == nil || (co.Name() != "Wrap" && co.Name() != "Is" && co.Name() != "Wrapf") {
						bare = true
					}
				}
			})
		}
		c.Check(!bare && uses > 0, rule, "ErrNetwork#only-wrapped", "ErrNetwork is only wrapped or compared, never returned bare", "ErrNetwork is used other than as the cause of errors.Wrap / the target of errors.Is: errors.Unwrap of it would be nil (a nil return of the handshake)", g.Pos())
	} else {
		c.Undecided(rule, "ErrNetwork#only-wrapped", "package variable ErrNetwork not found or its address escapes", token.NoPos)
	}
}

// c11Element is one comparison of a must-verify set: the edges on which it holds.
type c11Element struct {
	label, what string
	edges       []Edge
}

// c11VerifySet checks that every success return of fn is behind a passing edge of every element,
// unless a deferred failure was recorded on the way (storeAuthError; the final gate is C11-R1).
func (c *Ctx) c11VerifySet(rule string, a *c11Anchors, fn *ssa.Function, els []c11Element) {
	succ := c11Targets(c.successTargets(fn))
	for _, el := range els {
		cuts := newCuts().AddEdges(el.edges...).AddInstrs(a.storeCalls(fn)...)
		c.c11MustPass(rule, fnName(fn)+"#"+el.label, fn, nil, succ, cuts, len(el.edges), el.what+" (or a recorded failure)", fn.Pos())
	}
	c.MinCount(rule, "success returns of "+fnName(fn), len(succ), 1)
}

// statusOK: edges on which the peer's status integer equals AUTH_PW_A_OK.
func (a *c11Anchors) statusOK(fn *ssa.Function) []Edge {
	eq, _ := c11CmpEdges(fn, func(x, y ssa.Value) bool {
		v, isC := constInt(y)
		return isC && v == a.okVal && c11From(fn, x, a.getInt.Object(), 0)
	})
	return eq
}

// idEcho: edges on which a received id string equals authData.ClientID.
func (a *c11Anchors) idEcho(fn *ssa.Function) []Edge {
	eq, _ := c11CmpEdges(fn, func(x, y ssa.Value) bool {
		return c11From(fn, x, a.getID.Object(), 0) && c11IsField(y, a.fClientID)
	})
	return eq
}

// equalCalls: true edges of bytesEqual / hmac.Equal / bytes.Equal calls whose operands satisfy p, q (either order).
func (c *Ctx) c11EqualCalls(a *c11Anchors, fn *ssa.Function, p, q func(ssa.Value) bool) []Edge {
	var out []Edge
	allInstrs(fn, func(_ *ssa.BasicBlock, _ int, in ssa.Instruction) {
		call, ok := in.(*ssa.Call)
		if !ok || len(call.Call.Args) != 2 {
			return
		}
		co := calleeObj(call)
		if co == nil || co.Pkg() == nil {
			return
		}
		full := co.Pkg().Path() + "." + co.Name()
		if types.Object(co) != a.bytesEq.Object() && full != "crypto/hmac.Equal" && full != "bytes.Equal" && full != "crypto/subtle.ConstantTimeCompare" {
			return
		}
		if full == "crypto/subtle.ConstantTimeCompare" {
			return // returns int; not used today, would need its own edge logic
		}
		x, y := call.Call.Args[0], call.Call.Args[1]
		if (p(x) && q(y)) || (p(y) && q(x)) {
			t, _ := boolEdges(fn, call)
			out = append(out, t...)
		}
	})
	return out
}

// macOf: v is computeTokenMAC(SharedKeyK, …) whose parts depend on every field in deps.
func (a *c11Anchors) macOf(fn *ssa.Function, v ssa.Value, key func(ssa.Value) bool, deps ...func(ssa.Value) bool) bool {
	for _, o := range c11Origins(v) {
		call := c11CallOf(o, a.computeMAC.Object(), 0)
		if call == nil {
			return false
		}
		args := call.Common().Args // recv, key, parts
		if len(args) != 3 || !key(args[1]) {
			return false
		}
		for _, d := range deps {
			if !mustDepend(fn, args[2], d) {
				return false
			}
		}
	}
	return true
}

func (a *c11Anchors) eomEdges(fn *ssa.Function) []Edge {
	eq, _ := c11CmpEdges(fn, func(x, y ssa.Value) bool {
		ld, ok := y.(*ssa.UnOp)
		if !ok || ld.Op != token.MUL {
			return false
		}
		g, ok := ld.X.(*ssa.Global)
		if !ok || g.Pkg == nil || g.Pkg.Pkg.Path() != "io" || g.Name() != "EOF" {
			return false
		}
		call, idx := originCall(x)
		if call == nil || idx != 1 {
			return false
		}
		co := calleeObj(call)
		return co != nil && co.Name() == "GetChar"
	})
	return eq
}

// nonceGenerated: in the sender fn, every success return passes a nil-error crypto/rand.Read into the
// nonce field f (freshly made, AUTH_PW_KEY_LEN long) or an edge on which ErrorStatus != AUTH_PW_A_OK.
func (c *Ctx) c11Nonce(rule string, a *c11Anchors, fn *ssa.Function, f *types.Var, within map[*ssa.Function]bool, side string) {
	name := fnName(fn)
	var okE []Edge
	n := 0
	for _, fnc := range c11CallsInPkg(fn, "crypto/rand", "Read") {
		if !c11IsField(fnc.Common().Args[0], f) {
			continue
		}
		s, _, checked := callErrEdges(fn, fnc.Value())
		if checked {
			okE = append(okE, s...)
			n++
		}
	}
	_, notOK := c11CmpEdges(fn, func(x, y ssa.Value) bool {
		v, isC := constInt(y)
		return isC && v == a.okVal && c11IsField(x, a.fStatus)
	})
	cuts := newCuts().AddEdges(okE...).AddEdges(notOK...)
	c.c11MustPass(rule, name+"#nonce-"+f.Name(), fn, nil, c11Targets(c.successTargets(fn)), cuts, n, "a nil-error crypto/rand.Read into "+f.Name()+" (or ErrorStatus != OK)", fn.Pos())
	// the buffer is a fresh allocation of the protocol length
	keyLen, _ := c.c11ConstInt(rule, "AUTH_PW_KEY_LEN")
	okBuf := false
	for _, st := range c11FieldStores(fn, f) {
		okBuf = true
		switch x := st.Val.(type) {
		case *ssa.Slice:
			al, isAl := x.X.(*ssa.Alloc)
			if !isAl {
				okBuf = false
				break
			}
			arr, isArr := al.Type().Underlying().(*types.Pointer).Elem().Underlying().(*types.Array)
			if !isArr || arr.Len() != keyLen || keyLen <= 0 {
				okBuf = false
			}
		case *ssa.MakeSlice:
			if v, isC := constInt(x.Len); !isC || v != keyLen || keyLen <= 0 {
				okBuf = false
			}
		default:
			okBuf = false
		}
		if !okBuf {
			break
		}
	}
	c.Check(okBuf, rule, name+"#nonce-"+f.Name()+"-buffer", f.Name()+" is a fresh AUTH_PW_KEY_LEN-byte buffer", f.Name()+" is not assigned a fresh buffer of AUTH_PW_KEY_LEN bytes before being filled", fn.Pos())
	// on this side of the exchange nobody else assigns it
	var wr []*ssa.Function
	poss := map[*ssa.Function]token.Pos{}
	for g, p := range c.c11Writers(f, within) {
		wr = append(wr, g)
		poss[g] = p
	}
	sort.Slice(wr, func(i, j int) bool { return fnName(wr[i]) < fnName(wr[j]) })
	c.whoMay(rule, "write TokenAuthData."+f.Name()+" on the "+side, wr, poss, fnSet(fn))
}

// c11CallsInPkg lists calls in fn to pkg.name.
func c11CallsInPkg(fn *ssa.Function, pkg, name string) []ssa.CallInstruction {
	var out []ssa.CallInstruction
	allInstrs(fn, func(_ *ssa.BasicBlock, _ int, in ssa.Instruction) {
		if call, ok := in.(ssa.CallInstruction); ok {
			if co := calleeObj(call); co != nil && co.Pkg() != nil && co.Pkg().Path() == pkg && co.Name() == name {
				out = append(out, call)
			}
		}
	})
	return out
}

// c11Reach: functions statically reachable from fn (with closures), as a set over all their closures too.
func (c *Ctx) c11Reach(fn *ssa.Function) map[*ssa.Function]bool {
	return c.reachableFns([]*ssa.Function{fn}, false)
}

// C11-R2: the server's must-verify set.
func c11r2(c *Ctx) {
	const rule = "C11-R2"
	c.Doc(rule, "receiveServerTokenStep3: every success return that has not recorded a failure is behind status==AUTH_PW_A_OK, received client id == authData.ClientID, bytesEqual(received RB, authData.RB), bytesEqual(received MAC, computeTokenMAC(SharedKeyK, …ClientID…RB)) and the end-of-message test; RB is generated by crypto/rand in sendServerTokenStep2 and assigned nowhere else on the server side; bytesEqual compares length and every element")
	a := c.c11Need(rule)
	if a == nil {
		return
	}
	fn := a.step3s
	fromWire := func(v ssa.Value) bool { return c11From(fn, v, a.getRaw.Object(), 0) }
	isRB := func(v ssa.Value) bool { return c11IsField(v, a.fRB) }
	isK := func(v ssa.Value) bool { return c11IsField(v, a.fK) }
	isMAC := func(v ssa.Value) bool {
		return a.macOf(fn, v, isK, isFieldAccess(a.fClientID), isFieldAccess(a.fRB))
	}
	c.c11VerifySet(rule, a, fn, []c11Element{
		{"status-ok", "the status == AUTH_PW_A_OK edge", a.statusOK(fn)},
		{"client-id", "the received client id == authData.ClientID edge", a.idEcho(fn)},
		{"rb-echo", "the true edge of bytesEqual(received RB, authData.RB)", c.c11EqualCalls(a, fn, fromWire, isRB)},
		{"mac", "the true edge of bytesEqual(received MAC, computeTokenMAC(SharedKeyK, ClientID, RB))", c.c11EqualCalls(a, fn, fromWire, isMAC)},
		{"end-of-message", "the GetChar error == io.EOF edge", a.eomEdges(fn)},
	})
	c.c11Nonce(rule, a, a.step2s, a.fRB, c.c11Reach(a.server), "server side")
	c.c11BytesEqual(rule, a)
}

// c11BytesEqual: bytesEqual returns true only for equal length and after comparing the elements.
func (c *Ctx) c11BytesEqual(rule string, a *c11Anchors) {
	fn := a.bytesEq
	if len(fn.Params) != 2 {
		c.Undecided(rule, fnName(fn)+"#shape", "unexpected signature", fn.Pos())
		return
	}
	p0, p1 := ssa.Value(fn.Params[0]), ssa.Value(fn.Params[1])
	var trueRets []Target
	for _, b := range fn.Blocks {
		if len(b.Instrs) == 0 {
			continue
		}
		if r, ok := b.Instrs[len(b.Instrs)-1].(*ssa.Return); ok {
			if v, isC := constBool(r.Results[0]); isC && !v {
				continue
			}
			trueRets = append(trueRets, Target{Instr: r})
		}
	}
	lenOf := func(v ssa.Value, p ssa.Value) bool {
		call, ok := v.(*ssa.Call)
		if !ok {
			return false
		}
		b, isB := call.Call.Value.(*ssa.Builtin)
		return isB && b.Name() == "len" && call.Call.Args[0] == p
	}
	eq, _ := c11CmpEdges(fn, func(x, y ssa.Value) bool { return lenOf(x, p0) && lenOf(y, p1) })
	c.c11MustPass(rule, fnName(fn)+"#length", fn, nil, trueRets, newCuts().AddEdges(eq...), len(eq), "the len(a) == len(b) edge", fn.Pos())
	elem := func(v ssa.Value, p ssa.Value) (ssa.Value, bool) {
		ld, ok := v.(*ssa.UnOp)
		if !ok || ld.Op != token.MUL {
			return nil, false
		}
		ia, ok := ld.X.(*ssa.IndexAddr)
		if !ok || ia.X != p {
			return nil, false
		}
		return ia.Index, true
	}
	var idx ssa.Value
	_, ne := c11CmpEdges(fn, func(x, y ssa.Value) bool {
		i, ok1 := elem(x, p0)
		j, ok2 := elem(y, p1)
		if ok1 && ok2 && i == j {
			idx = i
			return true
		}
		return false
	})
	okElem := len(ne) > 0
	for _, e := range ne {
		for _, t := range trueRets {
			if len(e.To().Instrs) > 0 && findPath(Point{e.To(), 0}, t, nil) != nil {
				okElem = false
			}
		}
	}
	// the index runs over the whole length: it is compared (<) with len(a) or len(b) and starts at 0 / -1+1
	okRange := false
	if idx != nil {
		for _, r := range c11Rels(fn, func(v ssa.Value) bool { return v == idx }, func(v ssa.Value) bool { return lenOf(v, p0) || lenOf(v, p1) }) {
			if r.Op == token.LSS {
				okRange = true
			}
		}
		if bo, ok := idx.(*ssa.BinOp); ok && okRange { // rangeindex: phi(-1, next)+1
			phi, isPhi := bo.X.(*ssa.Phi)
			one, isOne := constInt(bo.Y)
			okRange = isPhi && isOne && one == 1 && bo.Op == token.ADD
			if okRange {
				start := false
				for _, e := range phi.Edges {
					if v, isC := constInt(e); isC && v == -1 {
						start = true
					} else if e != ssa.Value(bo) {
						okRange = false
					}
				}
				okRange = okRange && start
			}
		} else if phi, ok := idx.(*ssa.Phi); ok && okRange { // for i := 0; i < len; i++
			start := false
			for _, e := range phi.Edges {
				if v, isC := constInt(e); isC && v == 0 {
					start = true
				} else if bo, isBo := e.(*ssa.BinOp); !isBo || bo.Op != token.ADD || bo.X != ssa.Value(phi) {
					okRange = false
				}
			}
			okRange = okRange && start
		}
	}
	c.Check(okElem && okRange, rule, fnName(fn)+"#elements", "a differing element at any index 0..len-1 returns false", "bytesEqual can return true although an element differs (comparison missing, or the index does not run over the whole length)", fn.Pos())
	c.MinCount(rule, "true returns of bytesEqual", len(trueRets), 1)
}

// C11-R3: the client's must-verify set.
func c11r3(c *Ctx) {
	const rule = "C11-R3"
	c.Doc(rule, "receiveTokenStep2: every success return that has not recorded a failure is behind status==AUTH_PW_A_OK, echoed client id == authData.ClientID, bytesEqual(echoed RA, authData.RA) and a nil-error verifyTokenMAC(SharedKeyK, ClientID, ServerID, RA, RB, received MAC); verifyTokenMAC succeeds only through bytesEqual(computeTokenMAC(key, all its parameters), expectedMAC); RA is generated by crypto/rand in sendClientTokenStep1 and assigned nowhere else on the client side")
	a := c.c11Need(rule)
	if a == nil {
		return
	}
	fn := a.step2c
	fromWire := func(v ssa.Value) bool { return c11From(fn, v, a.getRaw.Object(), 0) }
	isRA := func(v ssa.Value) bool { return c11IsField(v, a.fRA) }
	var macOK []Edge
	for _, cs := range callsIn(fn, a.verifyMAC.Object()) {
		args := cs.Common().Args // recv, key, clientID, serverID, ra, rb, expectedMAC
		good := len(args) == 7 && c11IsField(args[1], a.fK) && c11IsField(args[2], a.fClientID) && c11IsField(args[3], a.fServerID) &&
			c11IsField(args[4], a.fRA) && c11IsField(args[5], a.fRB) && fromWire(args[6])
		c.Check(good, rule, fnName(fn)+"#mac-args", "verifyTokenMAC receives SharedKeyK, ClientID, ServerID, RA, RB of the exchange and the MAC read from the wire", "verifyTokenMAC is not applied to (SharedKeyK, ClientID, ServerID, RA, RB, received MAC)", cs.Pos())
		if s, _, checked := callErrEdges(fn, cs.Value()); checked && good {
			macOK = append(macOK, s...)
		}
	}
	c.c11VerifySet(rule, a, fn, []c11Element{
		{"status-ok", "the status == AUTH_PW_A_OK edge", a.statusOK(fn)},
		{"client-id", "the echoed client id == authData.ClientID edge", a.idEcho(fn)},
		{"ra-echo", "the true edge of bytesEqual(echoed RA, authData.RA)", c.c11EqualCalls(a, fn, fromWire, isRA)},
		{"mac", "a nil-error verifyTokenMAC", macOK},
	})
	// the values the MAC is checked over are the ones just received
	okSrv := false
	for _, st := range c11FieldStores(fn, a.fServerID) {
		okSrv = c11From(fn, st.Val, a.getID.Object(), 0)
	}
	okRB := false
	for _, st := range c11FieldStores(fn, a.fRB) {
		okRB = c11From(fn, st.Val, a.getRaw.Object(), 0)
	}
	c.Check(okSrv && okRB, rule, fnName(fn)+"#mac-inputs", "ServerID and RB are the values received in this message", "ServerID / RB used for the MAC are not the values received in this message", fn.Pos())
	// verifyTokenMAC
	vm := a.verifyMAC
	if len(vm.Params) == 7 {
		par := func(i int) func(ssa.Value) bool {
			return func(v ssa.Value) bool { return v == ssa.Value(vm.Params[i]) }
		}
		isMAC := func(v ssa.Value) bool { return a.macOf(vm, v, par(1), par(2), par(3), par(4), par(5)) }
		edges := c.c11EqualCalls(a, vm, isMAC, par(6))
		c.c11MustPass(rule, fnName(vm)+"#compare", vm, nil, c11Targets(c.successTargets(vm)), newCuts().AddEdges(edges...), len(edges), "the true edge of bytesEqual(computeTokenMAC(key, clientID, serverID, ra, rb), expectedMAC)", vm.Pos())
	} else {
		c.Undecided(rule, fnName(vm)+"#compare", "unexpected verifyTokenMAC signature", vm.Pos())
	}
	c.c11Nonce(rule, a, a.step1c, a.fRA, c.c11Reach(a.client), "client side")
}

// C11-R4: provenance of the MAC keys.
func c11r4(c *Ctx) {
	const rule = "C11-R4"
	c.Doc(rule, "on the server side TokenAuthData.Signature is assigned only in validateTokenAndDeriveKeys, from computeTokenSignature(loadSigningKey(…) on its nil-error edge, authData.Token); SharedKeyK/SharedKeyKP are written only by deriveTokenKeys, by reading an HKDF whose secret is authData.Signature; computeTokenSignature keys its HKDF with the signing key and MACs the token text")
	a := c.c11Need(rule)
	if a == nil {
		return
	}
	reach := c.c11Reach(a.server)
	var wr []*ssa.Function
	poss := map[*ssa.Function]token.Pos{}
	for f, p := range c.c11Writers(a.fSig, reach) {
		wr = append(wr, f)
		poss[f] = p
	}
	c.whoMay(rule, "write TokenAuthData.Signature on the server side", wr, poss, fnSet(a.validate))
	v := a.validate
	n := 0
	for _, st := range c11FieldStores(v, a.fSig) {
		n++
		good := false
		for _, o := range c11Origins(st.Val) {
			call := c11CallOf(o, a.computeSig.Object(), 0)
			if call == nil {
				good = false
				break
			}
			args := call.Common().Args // recv, key, token
			kc := c11CallOf(args[1], a.loadKey.Object(), 0)
			good = kc != nil && c11IsField(args[2], a.fToken)
			if good {
				s, _, checked := callErrEdges(v, kc.Value())
				good = checked && findPath(entryPoint(v), Target{Instr: st}, newCuts().AddEdges(s...)) == nil
			}
			if !good {
				break
			}
		}
		c.Check(good, rule, fmt.Sprintf("%s#Signature-store%d", fnName(v), n), "Signature = computeTokenSignature(successfully loaded signing key, authData.Token)", "Signature is not computed from the server's own signing key and the received token text", st.Pos())
	}
	c.MinCount(rule, "stores to Signature in validateTokenAndDeriveKeys", n, 1)
	// the success return passes such a store
	var sts []ssa.Instruction
	for _, st := range c11FieldStores(v, a.fSig) {
		sts = append(sts, st)
	}
	derive := callsIn(v, a.deriveKeys.Object())
	var dt []Target
	for _, d := range derive {
		dt = append(dt, Target{Instr: d})
	}
	c.c11MustPass(rule, fnName(v)+"#Signature-before-derive", v, nil, dt, newCuts().AddInstrs(sts...), len(sts), "the assignment of Signature (before deriveTokenKeys)", v.Pos())
	c.MinCount(rule, "deriveTokenKeys calls in validateTokenAndDeriveKeys", len(derive), 1)
	// K, K'
	d := a.deriveKeys
	for _, f := range []*types.Var{a.fK, a.fKP} {
		wr, poss = nil, map[*ssa.Function]token.Pos{}
		for g, p := range c.c11Writers(f, nil) {
			wr = append(wr, g)
			poss[g] = p
		}
		c.whoMay(rule, "write TokenAuthData."+f.Name(), wr, poss, fnSet(d))
	}
	hk := c11CallsInPkg(d, "golang.org/x/crypto/hkdf", "New")
	okSecret := len(hk) > 0
	readers := map[ssa.Value]bool{}
	for _, cs := range hk {
		if !c11IsField(cs.Common().Args[1], a.fSig) {
			okSecret = false
		}
		readers[cs.Value()] = true
	}
	c.Check(okSecret, rule, fnName(d)+"#hkdf-secret", "every HKDF in deriveTokenKeys is keyed with authData.Signature", "an HKDF in deriveTokenKeys is keyed with something other than authData.Signature", d.Pos())
	for _, f := range []*types.Var{a.fK, a.fKP} {
		filled := false
		for _, cs := range c11CallsInPkg(d, "io", "ReadFull") {
			args := cs.Common().Args
			if readers[args[0]] && c11IsField(args[1], f) {
				if s, _, checked := callErrEdges(d, cs.Value()); checked {
					filled = c.c11MustPassQuiet(d, c11Targets(c.successTargets(d)), newCuts().AddEdges(s...))
				}
			}
		}
		c.Check(filled, rule, fnName(d)+"#fills-"+f.Name(), f.Name()+" is read from the HKDF (nil error) on every success path", f.Name()+" is not filled from the Signature-keyed HKDF on every success path", d.Pos())
	}
	c.MinCount(rule, "HKDF instances in deriveTokenKeys", len(hk), 2)
	// computeTokenSignature
	cs := a.computeSig
	if len(cs.Params) == 3 {
		hk := c11CallsInPkg(cs, "golang.org/x/crypto/hkdf", "New")
		okKey := len(hk) > 0
		for _, h := range hk {
			if h.Common().Args[1] != ssa.Value(cs.Params[1]) {
				okKey = false
			}
		}
		c.Check(okKey, rule, fnName(cs)+"#hkdf-secret", "the JWT key is derived from the signing key", "computeTokenSignature does not key its HKDF with the signing key parameter", cs.Pos())
		okTok := false
		allInstrs(cs, func(_ *ssa.BasicBlock, _ int, in ssa.Instruction) {
			call, ok := in.(*ssa.Call)
			if ok && call.Call.IsInvoke() && call.Call.Method.Name() == "Write" && len(call.Call.Args) == 1 {
				if mustDepend(cs, call.Call.Args[0], func(v ssa.Value) bool { return v == ssa.Value(cs.Params[2]) }) {
					okTok = true
				}
			}
		})
		c.Check(okTok, rule, fnName(cs)+"#mac-input", "the token text is written into the MAC", "computeTokenSignature does not MAC the token text parameter", cs.Pos())
	} else {
		c.Undecided(rule, fnName(cs)+"#shape", "unexpected computeTokenSignature signature", cs.Pos())
	}
}

// c11MustPassQuiet: no target reachable from entry without a cut.
func (c *Ctx) c11MustPassQuiet(fn *ssa.Function, targets []Target, cuts *Cuts) bool {
	for _, t := range targets {
		if findPath(entryPoint(fn), t, cuts) != nil {
			return false
		}
	}
	return len(targets) > 0
}

// C11-R5: time validation.
func c11r5(c *Ctx) {
	const rule = "C11-R5"
	c.Doc(rule, "validateTokenAndDeriveKeys succeeds only after a nil-error validateTokenTiming on the claims decoded from part 1 (the payload) of authData.Token; in validateTokenTiming a present exp is compared with time.Now().Unix() so that now >= exp cannot reach the success return, and a present iat so that now-iat > maxAge cannot (unless the bound is disabled, <= 0); every type-switch arm of a present claim leads to the comparison or to an error")
	a := c.c11Need(rule)
	if a == nil {
		return
	}
	v := a.validate
	isTok := func(x ssa.Value) bool { return c11IsField(x, a.fToken) }
	var okE []Edge
	n := 0
	for _, cs := range callsIn(v, a.timing.Object()) {
		args := cs.Common().Args // recv, claims, config
		k, ok := c.c11TokenPart(v, args[1], isTok)
		good := ok && k == 1
		c.Check(good, rule, fnName(v)+"#timing-arg", "validateTokenTiming receives the claims decoded from the token's payload", "validateTokenTiming is not applied to the JSON decoded from part 1 (payload) of authData.Token", cs.Pos())
		if s, _, checked := callErrEdges(v, cs.Value()); checked && good {
			okE = append(okE, s...)
			n++
		}
	}
	c.c11MustPass(rule, fnName(v)+"#timing-on-path", v, nil, c11Targets(c.successTargets(v)), newCuts().AddEdges(okE...), n, "a nil-error validateTokenTiming(payload claims)", v.Pos())
	c.c11Timing(rule, a.timing)
}

// c11Timing checks the two comparisons inside validateTokenTiming.
func (c *Ctx) c11Timing(rule string, t *ssa.Function) {
	name := fnName(t)
	if len(t.Params) != 3 {
		c.Undecided(rule, name+"#shape", "unexpected validateTokenTiming signature", t.Pos())
		return
	}
	claims := ssa.Value(t.Params[1])
	succ := c11Targets(c.successTargets(t))
	c.MinCount(rule, "success returns of validateTokenTiming", len(succ), 1)
	reaches := func(e Edge) bool {
		if len(e.To().Instrs) == 0 {
			return false
		}
		for _, s := range succ {
			if findPath(Point{e.To(), 0}, s, nil) != nil {
				return true
			}
		}
		return false
	}
	for _, claim := range []string{"exp", "iat"} {
		var lk *ssa.Lookup
		for _, l := range c11Lookups(t, claim) {
			if l.X == claims {
				lk = l
			}
		}
		construct := name + "#" + claim
		if lk == nil || !lk.CommaOk {
			c.Violate(rule, construct, "no presence-checked lookup of claim \""+claim+"\" in the claims parameter", t.Pos())
			continue
		}
		present, _ := boolEdges(t, extractN(lk, 1))
		if len(present) == 0 {
			c.Undecided(rule, construct, "the presence flag of claims[\""+claim+"\"] is not branched on directly", lk.Pos())
			continue
		}
		fromClaim := func(x ssa.Value) bool {
			return mustDepend(t, x, func(y ssa.Value) bool { return y == ssa.Value(lk) })
		}
		var rels []c11Rel
		var accept, reject []Edge
		problem := ""
		if claim == "exp" {
			// oriented as  now OP exp
			rels = c11Rels(t, c11IsNow, func(x ssa.Value) bool { return !c11IsNow(x) && fromClaim(x) })
			for _, r := range rels {
				switch r.Op {
				case token.GEQ: // now >= exp: true edge rejects
					reject, accept = append(reject, Edge{r.Block, 0}), append(accept, Edge{r.Block, 1})
				case token.LSS: // now < exp: false edge rejects
					reject, accept = append(reject, Edge{r.Block, 1}), append(accept, Edge{r.Block, 0})
				default:
					problem = "the expiry comparison is 'now " + r.Op.String() + " exp': a token is still accepted at now == exp"
				}
			}
		} else {
			// oriented as  (now - iat) OP bound
			isAge := func(x ssa.Value) bool {
				bo, ok := x.(*ssa.BinOp)
				return ok && bo.Op == token.SUB && c11IsNow(bo.X) && fromClaim(bo.Y)
			}
			rels = c11Rels(t, isAge, func(x ssa.Value) bool { return !fromClaim(x) && !c11IsNow(x) })
			var bounds []ssa.Value
			for _, r := range rels {
				bounds = append(bounds, r.R)
				switch r.Op {
				case token.GTR, token.GEQ:
					reject, accept = append(reject, Edge{r.Block, 0}), append(accept, Edge{r.Block, 1})
				case token.LEQ, token.LSS:
					reject, accept = append(reject, Edge{r.Block, 1}), append(accept, Edge{r.Block, 0})
				default:
					problem = "the age comparison is 'age " + r.Op.String() + " maxAge'"
				}
			}
			// the bound may be switched off: edges on which it is <= 0
			for _, bnd := range bounds {
				for _, r := range c11Rels(t, func(x ssa.Value) bool { return x == bnd }, func(x ssa.Value) bool { z, isC := constInt(x); return isC && z == 0 }) {
					switch r.Op {
					case token.GTR:
						accept = append(accept, Edge{r.Block, 1})
					case token.LEQ:
						accept = append(accept, Edge{r.Block, 0})
					}
				}
			}
		}
		if len(rels) == 0 {
			what := "time.Now().Unix() with the exp claim"
			if claim == "iat" {
				what = "time.Now().Unix() - iat with the maximum age"
			}
			c.Violate(rule, construct, "no comparison of "+what, lk.Pos())
			continue
		}
		if problem != "" {
			c.Violate(rule, construct, problem, rels[0].Block.Instrs[len(rels[0].Block.Instrs)-1].Pos())
			continue
		}
		bad := false
		for _, e := range reject {
			if reaches(e) {
				bad = true
				c.Violate(rule, construct, "the rejecting edge of the "+claim+" comparison can reach the success return", e.From.Instrs[len(e.From.Instrs)-1].Pos())
			}
		}
		if bad {
			continue
		}
		// from "claim present" every path to success passes an accepting edge of the comparison
		okAll := true
		for _, pe := range present {
			if len(pe.To().Instrs) == 0 {
				continue
			}
			for _, s := range succ {
				if p := findPath(Point{pe.To(), 0}, s, newCuts().AddEdges(accept...)); p != nil {
					okAll = false
					c.Violate(rule, construct, "a token carrying "+claim+" can be accepted without the "+claim+" comparison", lk.Pos(), c.describePath(p)...)
					break
				}
			}
			if !okAll {
				break
			}
		}
		if okAll {
			c.Ok(rule, construct, "a present "+claim+" claim is always compared with the clock, with the rejecting edge leading to an error", lk.Pos())
		}
	}
}

// C11-R6: the recorded identity is the signed subject.
func c11r6(c *Ctx) {
	const rule = "C11-R6"
	c.Doc(rule, "validateTokenAndDeriveKeys: every assignment of authData.ClientID stores the string value of claim \"sub\" of the payload claims (or the empty string), every success return passes such an assignment and a non-empty test of it; on the server side ClientID is otherwise written only by receiveServerTokenStep1, which cannot run after the validation; the store to negotiation.User derives from authData.ClientID and is reachable only through a successful validateTokenAndDeriveKeys (paths with a recorded failure excluded)")
	a := c.c11Need(rule)
	if a == nil {
		return
	}
	v := a.validate
	name := fnName(v)
	isTok := func(x ssa.Value) bool { return c11IsField(x, a.fToken) }
	isSub := func(x ssa.Value) bool { // x is the "sub" string of the payload claims, or ""
		os := c11Origins(x)
		if len(os) == 0 {
			return false
		}
		for _, o := range os {
			if s, isC := constString(o); isC && s == "" {
				continue
			}
			obj, ok := c11ClaimString(o, "sub")
			if !ok {
				return false
			}
			if k, ok := c.c11TokenPart(v, obj, isTok); !ok || k != 1 {
				return false
			}
		}
		return true
	}
	var good []ssa.Instruction
	var goodVals []ssa.Value
	n := 0
	for _, st := range c11FieldStores(v, a.fClientID) {
		n++
		if c.Check(isSub(st.Val), rule, fmt.Sprintf("%s#ClientID-store%d", name, n), "ClientID is assigned the signed subject", "ClientID is assigned a value that is not the \"sub\" claim of the token payload", st.Pos()) {
			good = append(good, st)
			goodVals = append(goodVals, st.Val)
		}
	}
	succ := c11Targets(c.successTargets(v))
	c.c11MustPass(rule, name+"#subject-assigned", v, nil, succ, newCuts().AddInstrs(good...), len(good),
		"an assignment of the signed subject to ClientID (without it the id the client claimed in step 1 stays the recorded identity)", v.Pos())
	// non-empty subject
	_, ne := c11CmpEdges(v, func(x, y ssa.Value) bool {
		s, isC := constString(y)
		if !isC || s != "" {
			return false
		}
		if c11IsField(x, a.fClientID) {
			return true
		}
		for _, g := range goodVals {
			if x == g {
				return true
			}
		}
		return false
	})
	c.c11MustPass(rule, name+"#subject-non-empty", v, nil, succ, newCuts().AddEdges(ne...), len(ne), "the subject != \"\" edge", v.Pos())
	c.MinCount(rule, "assignments of ClientID in validateTokenAndDeriveKeys", n, 1)
	// writers on the server side
	reach := c.c11Reach(a.server)
	var wr []*ssa.Function
	poss := map[*ssa.Function]token.Pos{}
	for f, p := range c.c11Writers(a.fClientID, reach) {
		wr = append(wr, f)
		poss[f] = p
	}
	sort.Slice(wr, func(i, j int) bool { return fnName(wr[i]) < fnName(wr[j]) })
	c.whoMay(rule, "write TokenAuthData.ClientID on the server side", wr, poss, fnSet(a.step1s, a.validate))
	// in the server exchange
	s := a.server
	vcalls := callsIn(s, a.validate.Object())
	c.MinCount(rule, "validateTokenAndDeriveKeys calls in the server exchange", len(vcalls), 1)
	okOrder := true
	for _, vc := range vcalls {
		for _, s1 := range callsIn(s, a.step1s.Object()) {
			if findPath(after(vc), Target{Instr: s1}, nil) != nil {
				okOrder = false
			}
		}
	}
	c.Check(okOrder, rule, fnName(s)+"#claimed-id-before-validation", "the claimed id is received before the validation only", "receiveServerTokenStep1 can run after validateTokenAndDeriveKeys and overwrite the signed subject with the claimed id", s.Pos())
	// live paths: a recorded failure or a seen AuthError != nil cannot pass the final gate (C11-R1)
	_, set := fieldCondEdges(s, a.fAuthErr)
	live := newCuts().AddEdges(set...).AddInstrs(a.storeCalls(s)...)
	nv := 0
	for _, vc := range vcalls {
		if ok, _, checked := callErrEdges(s, vc.Value()); checked {
			live.AddEdges(ok...)
			nv++
		}
	}
	us := c11FieldStores(s, a.fUser)
	for i, st := range us {
		construct := fmt.Sprintf("%s#User-store%d", fnName(s), i+1)
		c.Check(mustDepend(s, st.Val, isFieldAccess(a.fClientID)), rule, construct+":value", "negotiation.User derives from authData.ClientID", "negotiation.User does not derive from authData.ClientID", st.Pos())
		c.c11MustPass(rule, construct+":validated", s, nil, []Target{{Instr: st}}, live, nv, "a successful validateTokenAndDeriveKeys", st.Pos())
	}
	c.MinCount(rule, "stores to negotiation.User in the server exchange", len(us), 1)
}

// C11-R7: the standalone verifier.
func c11r7(c *Ctx) {
	const rule = "C11-R7"
	c.Doc(rule, "VerifyIDToken: every success return is behind len(parts)==3, a nil-error loadSigningKey, the true edge of hmac.Equal(computeTokenSignature(that key, parts[0]+\".\"+parts[1]), base64-decoded parts[2]), a nil-error validateTokenTiming on the claims decoded from parts[1], and a non-empty Subject that is the \"sub\" claim of those claims")
	a := c.c11Need(rule)
	fn := c.needFn(rule, "security", "VerifyIDToken")
	subj := c.needField(rule, "security", "IDTokenClaims", "Subject")
	if a == nil || fn == nil || subj == nil {
		return
	}
	name := fnName(fn)
	succ := c11Targets(c.successTargets(fn))
	c.MinCount(rule, "success returns of VerifyIDToken", len(succ), 1)
	isSrc := func(x ssa.Value) bool {
		if x == ssa.Value(fn.Params[0]) {
			return true
		}
		call, ok := x.(*ssa.Call)
		if !ok {
			return false
		}
		co := calleeObj(call)
		return co != nil && co.Pkg() != nil && co.Pkg().Path() == "strings" && co.Name() == "TrimSpace" && call.Call.Args[0] == ssa.Value(fn.Params[0])
	}
	isSplit := func(x ssa.Value) bool {
		call, _ := originCall(x)
		if call == nil {
			return false
		}
		co := calleeObj(call)
		if co == nil || co.Pkg() == nil || co.Pkg().Path() != "strings" || co.Name() != "Split" {
			return false
		}
		sep, isS := constString(call.Common().Args[1])
		return isS && sep == "." && isSrc(call.Common().Args[0])
	}
	part := func(x ssa.Value, k int64) bool {
		ld, ok := x.(*ssa.UnOp)
		if !ok || ld.Op != token.MUL {
			return false
		}
		ia, ok := ld.X.(*ssa.IndexAddr)
		if !ok {
			return false
		}
		i, isC := constInt(ia.Index)
		return isC && i == k && isSplit(ia.X)
	}
	// three parts
	eq, _ := c11CmpEdges(fn, func(x, y ssa.Value) bool {
		n, isC := constInt(y)
		call, ok := x.(*ssa.Call)
		if !ok || !isC || n != 3 {
			return false
		}
		b, isB := call.Call.Value.(*ssa.Builtin)
		return isB && b.Name() == "len" && isSplit(call.Call.Args[0])
	})
	c.c11MustPass(rule, name+"#three-parts", fn, nil, succ, newCuts().AddEdges(eq...), len(eq), "the len(parts) == 3 edge", fn.Pos())
	// signature
	isExpected := func(x ssa.Value) bool {
		call := c11CallOf(x, a.computeSig.Object(), 0)
		if call == nil {
			return false
		}
		args := call.Common().Args
		kc := c11CallOf(args[1], a.loadKey.Object(), 0)
		if kc == nil {
			return false
		}
		s, _, checked := callErrEdges(fn, kc.Value())
		if !checked || findPath(entryPoint(fn), Target{Instr: call}, newCuts().AddEdges(s...)) != nil {
			return false
		}
		// signing input = parts[0] + "." + parts[1]
		outer, ok := args[2].(*ssa.BinOp)
		if !ok || outer.Op != token.ADD || !part(outer.Y, 1) {
			return false
		}
		inner, ok := outer.X.(*ssa.BinOp)
		dot, isS := constString(inner.Y)
		return ok && inner.Op == token.ADD && part(inner.X, 0) && isS && dot == "."
	}
	isActual := func(x ssa.Value) bool {
		call, i := originCall(x)
		if call == nil || i != 0 {
			return false
		}
		co := calleeObj(call)
		if co == nil || co.Pkg() == nil || co.Pkg().Path() != "encoding/base64" || co.Name() != "DecodeString" {
			return false
		}
		args := call.Common().Args
		return part(args[len(args)-1], 2)
	}
	sig := c.c11EqualCalls(a, fn, isExpected, isActual)
	c.c11MustPass(rule, name+"#signature", fn, nil, succ, newCuts().AddEdges(sig...), len(sig), "the true edge of hmac.Equal(computeTokenSignature(loaded key, parts[0].parts[1]), decoded parts[2])", fn.Pos())
	// timing on the payload claims
	var okE []Edge
	n := 0
	var claimsVal ssa.Value
	for _, cs := range callsIn(fn, a.timing.Object()) {
		args := cs.Common().Args
		k, ok := c.c11TokenPart(fn, args[1], isSrc)
		if !ok || k != 1 {
			continue
		}
		claimsVal = args[1]
		if s, _, checked := callErrEdges(fn, cs.Value()); checked {
			okE = append(okE, s...)
			n++
		}
	}
	c.c11MustPass(rule, name+"#timing", fn, nil, succ, newCuts().AddEdges(okE...), n, "a nil-error validateTokenTiming(claims decoded from parts[1])", fn.Pos())
	// subject
	okSub, ns := true, 0
	for _, st := range c11FieldStores(fn, subj) {
		ns++
		obj, ok := c11ClaimString(st.Val, "sub")
		if !ok || obj != claimsVal || claimsVal == nil {
			okSub = false
		}
	}
	c.Check(okSub && ns > 0, rule, name+"#subject-value", "Subject is the \"sub\" claim of the verified payload", "Subject is not taken from the \"sub\" claim of the verified payload", fn.Pos())
	_, ne := c11CmpEdges(fn, func(x, y ssa.Value) bool {
		s, isC := constString(y)
		return isC && s == "" && c11IsField(x, subj)
	})
	c.c11MustPass(rule, name+"#subject-non-empty", fn, nil, succ, newCuts().AddEdges(ne...), len(ne), "the Subject != \"\" edge", fn.Pos())
}
