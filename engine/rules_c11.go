package main

import (
	"fmt"
	"go/token"
	"go/types"
	"time"

	"golang.org/x/tools/go/ssa"
)

func init() {
	register("C11", c11Timed("R1", c11r1), c11Timed("R2", c11r2), c11Timed("R3", c11r3), c11Timed("R4", c11r4),
		c11Timed("R5", c11r5), c11Timed("R6", c11r6), c11Timed("R7", c11r7))
}

// c11Timed notes the wall time of a rule in the evidence.
func c11Timed(name string, f ruleFn) ruleFn {
	return func(c *Ctx) {
		t0 := time.Now()
		defer func() { c.Note("C11-%s took %.2fs", name, time.Since(t0).Seconds()) }()
		f(c)
	}
}

// c11Step is a protocol step whose failure must not be lost: a call, in the exchange function or in a
// helper of it that cannot itself report failure (no error result), to a function of the security
// package that returns an error.
type c11Step struct {
	env  *c11Env
	call *ssa.Call
	site ssa.Instruction // the instruction of the exchange function through which the step runs
}

func c11Steps(root *c11Env) []c11Step {
	var out []c11Step
	var walk func(e *c11Env, site ssa.Instruction)
	walk = func(e *c11Env, site ssa.Instruction) {
		allInstrs(e.fn, func(_ *ssa.BasicBlock, _ int, in ssa.Instruction) {
			call, ok := in.(*ssa.Call)
			if !ok {
				return
			}
			g := calleeFn(call)
			if g == nil || fnPkg(g) == nil || fnPkg(g) != fnPkg(root.fn) {
				return
			}
			s := site
			if s == nil {
				s = in
			}
			if len(errResults(call)) > 0 {
				out = append(out, c11Step{e, call, s})
				return
			}
			hasErr := false
			for i := 0; i < g.Signature.Results().Len(); i++ {
				if isErrorType(g.Signature.Results().At(i).Type()) {
					hasErr = true
				}
			}
			if he := e.enter(call); he != nil && !hasErr {
				walk(he, s)
			}
		})
	}
	walk(root, nil)
	return out
}

// c11NetworkReturn: the return hands back errors.Unwrap(err) (or err itself) of a step whose failing
// edge dominates it, or errors.Unwrap(x) under the true edge of errors.Is(x, ErrNetwork) -- the
// "network class, abort immediately" idiom (ErrNetwork is only ever the cause of a wrap, see
// ErrNetwork#only-wrapped). Such a return is an error return.
func (c *Ctx) c11NetworkReturn(fn *ssa.Function, r RetPoint) bool {
	if len(r.Ret.Results) == 0 {
		return false
	}
	v := r.Ret.Results[len(r.Ret.Results)-1]
	unwrapped := false
	if call, ok := v.(*ssa.Call); ok {
		co := calleeObj(call)
		if co != nil && co.Name() == "Unwrap" && len(call.Call.Args) == 1 {
			v = call.Call.Args[0]
			unwrapped = true
		}
	}
	hit := false
	allInstrs(fn, func(_ *ssa.BasicBlock, _ int, in ssa.Instruction) {
		call, ok := in.(*ssa.Call)
		if !ok || hit {
			return
		}
		g := calleeFn(call)
		if g == nil || fnPkg(g) == nil || fnPkg(g) != fnPkg(fn) {
			return
		}
		for _, e := range errResults(call) {
			if !aliases(fn, e)[v] {
				continue
			}
			fail := newCuts()
			c11NilErrCuts(fn, call, fail, true)
			if len(fail.Edges)+len(fail.Via) > 0 && findPath(entryPoint(fn), r.Target(), fail) == nil {
				hit = true
			}
		}
	})
	if hit {
		return true
	}
	if !unwrapped {
		return false
	}
	// errors.Is(x, ErrNetwork) is true on every path to the return
	al := aliases(fn, v)
	isNet := newCuts()
	n := 0
	allInstrs(fn, func(_ *ssa.BasicBlock, _ int, in ssa.Instruction) {
		call, ok := in.(*ssa.Call)
		if !ok || len(call.Call.Args) != 2 || !al[call.Call.Args[0]] {
			return
		}
		co := calleeObj(call)
		if co == nil || co.Name() != "Is" {
			return
		}
		ld, isLd := call.Call.Args[1].(*ssa.UnOp)
		if !isLd || ld.Op != token.MUL {
			return
		}
		if g, isG := ld.X.(*ssa.Global); !isG || g.Name() != "ErrNetwork" || g.Pkg == nil || g.Pkg.Pkg != fnPkg(fn) {
			return
		}
		n += c11CondCuts(fn, call, true, isNet)
	})
	return n > 0 && findPath(entryPoint(fn), r.Target(), isNet) == nil
}

// c11R1ErrRet: returns that cannot be success returns of an exchange body although their error operand is
// not syntactically non-nil: network-class returns and the gate's own "return authData.AuthError"
// (behind an AuthError != nil edge).
func (c *Ctx) c11R1ErrRet(a *c11Anchors) func(e *c11Env, r RetPoint) bool {
	seenQ := c.c11NewQuery(c.c11AuthErrFact(a, false))
	return func(e *c11Env, r RetPoint) bool {
		if len(r.Ret.Results) == 0 {
			return false
		}
		if c.c11NetworkReturn(e.fn, r) {
			return true
		}
		if v := r.Ret.Results[len(r.Ret.Results)-1]; c.c11LVField(c11LV{v, e}, a.fAuthErr) {
			seen := seenQ.cutsOf(e)
			return seen.n > 0 && findPath(entryPoint(e.fn), r.Target(), seen.cuts) == nil
		}
		return false
	}
}

// c11Exits: the returns of body e through which a lost failure would count as success: its success
// returns (network-class returns and the gate's own "return authData.AuthError" excluded), for a
// helper without an error result every return.
func (c *Ctx) c11Exits(e *c11Env, errRet func(*c11Env, RetPoint) bool) []Target {
	var out []Target
	for _, r := range c.successTargets(e.fn) {
		if !errRet(e, r) {
			out = append(out, r.Target())
		}
	}
	return out
}

// C11-R1: deferred failures are not lost.
func c11r1(c *Ctx) {
	const rule = "C11-R1"
	c.Doc(rule, "performTokenAuthenticationClient/Server (with their helpers): the error of every step is tested and on its failing edge either returned (network class) or handed to storeAuthError before any success return; after every step each success return, the setSharedSecret call and the store to negotiation.User are behind an AuthError==nil edge; storeAuthError sets AuthError (to its non-nil argument) and ErrorStatus=AUTH_PW_ERROR together and is their only writer")
	a := c.c11Need(rule)
	if a == nil {
		return
	}
	setSecret := c.needFn(rule, "security", "(*SecurityNegotiation).setSharedSecret")
	if setSecret == nil {
		return
	}
	for _, side := range []struct {
		fn  *ssa.Function
		min int
	}{{a.client, 3}, {a.server, 3}} { // three messages per side: the smallest number of steps an exchange can have
		fn := side.fn
		name := fnName(fn)
		root := c11Root(fn)
		steps := c11Steps(root)
		// non-vacuity: the exchange still runs its steps; counted through helpers of any kind, so that
		// grouping steps in a helper (which then is the step checked here) does not lower the count
		reached := 0
		for _, b := range c11Bodies(root) {
			for _, s := range c11Steps(c11Root(b.fn)) {
				if s.env.fn == b.fn {
					reached++
				}
			}
		}
		c.MinCount(rule, "steps of "+name, reached, side.min)
		c.MinCount(rule, "steps of "+name+" checked", len(steps), 1)
		errRet := c.c11R1ErrRet(a)
		succ := c.c11Exits(root, errRet)
		c.MinCount(rule, "success returns of "+name, len(succ), 1)
		gateQ := c.c11NewQuery(c.c11AuthErrFact(a, true))
		gateQ.errRet = errRet
		gate := gateQ.cutsOf(root)
		storedQ := c.c11NewQuery(a.storedFact())
		storedQ.errRet = errRet
		// things that must stay behind the gate
		secrets := c11CallsTo(root, func(call ssa.CallInstruction) bool {
			co := calleeObj(call)
			return co != nil && types.Object(co) == setSecret.Object()
		})
		users := c11Stores(root, a.fUser)
		ord := map[string]int{}
		for _, s := range steps {
			label := calleeFn(s.call).Name()
			ord[label]++
			if ord[label] > 1 {
				label += fmt.Sprintf("#%d", ord[label])
			}
			g := s.env.fn
			fail := newCuts()
			if c11NilErrCuts(g, s.call, fail, true) == 0 {
				if okc := newCuts(); c11NilErrCuts(g, s.call, okc, false) > 0 && s.env.parent == nil {
					// "return step(...)": the step's failure is the exchange's
					c.Ok(rule, name+"#step:"+label, "the error of this step is the function's own result", s.call.Pos())
				} else {
					c.Violate(rule, name+"#step:"+label, "the error of this step is never tested", s.call.Pos())
					continue
				}
			}
			var starts []*ssa.BasicBlock
			for e := range fail.Edges {
				starts = append(starts, e.To())
			}
			for v := range fail.Via {
				starts = append(starts, v.From.Succs[v.Succ])
			}
			exits := succ
			if s.env.parent != nil {
				exits = c.c11Exits(s.env, errRet)
			}
			stored := storedQ.cutsOf(s.env).cuts
			okFail := true
			for _, b := range starts {
				if len(b.Instrs) == 0 {
					continue
				}
				for _, t := range exits {
					if p := findPath(Point{b, 0}, t, stored); p != nil {
						okFail = false
						c.Violate(rule, name+"#step:"+label, "a failure of this step can reach a success return without being returned or stored with storeAuthError", s.call.Pos(), c.describePath(p)...)
						break
					}
				}
				if !okFail {
					break
				}
			}
			if okFail {
				c.Ok(rule, name+"#step:"+label, "a failure of this step is returned or stored before any success return", s.call.Pos())
			}
			// the final gate
			start := after(s.site)
			construct := name + "#gate-after:" + label
			what := "an AuthError == nil edge (the final gate)"
			if he := s.env.enter(s.call); he != nil && s.env.parent == nil && len(fail.Edges)+len(fail.Via) == 0 && gateQ.summary(he).onNilErr {
				c.Ok(rule, construct, "the step is the function's own result and succeeds only through "+what, s.call.Pos())
				continue
			}
			if gate.n == 0 {
				c.Violate(rule, construct, name+" has no such check: "+what, s.call.Pos())
				continue
			}
			okGate := true
			bad := func(in ssa.Instruction, p []*ssa.BasicBlock) {
				okGate = false
				c.Violate(rule, construct, "a path reaches "+c.Pos(in.Pos())+" without passing "+what, in.Pos(), c.describePath(p)...)
			}
			for _, t := range succ {
				if p := findPath(start, t, gate.cuts); p != nil && okGate {
					bad(t.Instr, p)
				}
			}
			for _, cs := range secrets {
				if ok, p := gateQ.guards(&start, cs.env, cs.call); !ok && okGate {
					bad(cs.call, p)
				}
			}
			for _, st := range users {
				if ok, p := gateQ.guards(&start, st.env, st.st); !ok && okGate {
					bad(st.st, p)
				}
			}
			if okGate {
				c.Ok(rule, construct, "every path passes "+what, s.call.Pos())
			}
		}
	}
	// storeAuthError
	st := a.store
	sname := fnName(st)
	sroot := c11Root(st)
	var rets []Target
	for _, r := range c.returnsOf(st) {
		rets = append(rets, r.Target())
	}
	sErr, sStatus := map[ssa.Instruction]bool{}, map[ssa.Instruction]bool{}
	for _, s := range c11Stores(sroot, a.fAuthErr) {
		if len(st.Params) == 3 && c.c11All(s.val, func(l c11LV) bool { return l.V == ssa.Value(st.Params[2]) && l.E == sroot }) {
			sErr[s.st] = true
		}
	}
	for _, s := range c11Stores(sroot, a.fStatus) {
		if a.errVal != a.okVal && c.c11LVConstInt(s.val, a.errVal) {
			sStatus[s.st] = true
		}
	}
	already := c.c11AuthErrFact(a, false)
	c.c11Pass(rule, sname+"#sets-AuthError", sroot, nil, rets, c11Fact{instr: func(in ssa.Instruction, _ *c11Env) bool { return sErr[in] }}, &already, "a store of the error argument to AuthError (or an AuthError != nil edge)", st.Pos())
	c.c11Pass(rule, sname+"#sets-ErrorStatus", sroot, nil, rets, c11Fact{instr: func(in ssa.Instruction, _ *c11Env) bool { return sStatus[in] }}, &already, "a store of AUTH_PW_ERROR to ErrorStatus (or an AuthError != nil edge)", st.Pos())
	// writers
	c.c11WhoMay(rule, "write TokenAuthData.AuthError", c.c11Writers(a.fAuthErr, nil), fnSet(st))
	c.c11WhoMay(rule, "write TokenAuthData.ErrorStatus", c.c11Writers(a.fStatus, nil), fnSet(st, a.client, a.server))
	// the initial status written by the two entry functions is OK and nothing else
	for _, fn := range []*ssa.Function{a.client, a.server} {
		okInit := true
		for _, s := range c11Stores(c11Root(fn), a.fStatus) {
			if topFn(s.st.Parent()) == st {
				continue
			}
			if !c.c11LVConstInt(s.val, a.okVal) {
				okInit = false
			}
		}
		c.Check(okInit, rule, fnName(fn)+"#initial-status", "ErrorStatus starts as AUTH_PW_A_OK", "ErrorStatus is assigned something other than the initial AUTH_PW_A_OK outside storeAuthError", fn.Pos())
	}
	// every stored error is definitely non-nil
	sites, ord := 0, map[string]int{}
	var visit func(g *ssa.Function, obj types.Object, argIdx int, depth int)
	visit = func(g *ssa.Function, obj types.Object, argIdx int, depth int) {
		for _, cs := range c.callSites(obj) {
			args := cs.Call.Common().Args
			if argIdx >= len(args) {
				continue
			}
			arg := args[argIdx]
			// a wrapper that hands its own error parameter on: the callers of the wrapper decide
			if par, isPar := arg.(*ssa.Parameter); isPar && depth > 0 && cs.Fn.Parent() == nil && cs.Fn.Object() != nil && !cs.Fn.Object().Exported() && !c.c11UsedAsValue(cs.Fn) && len(c.callSites(cs.Fn.Object())) > 0 {
				idx := -1
				for i, q := range cs.Fn.Params {
					if q == par {
						idx = i
					}
				}
				if idx >= 0 {
					visit(cs.Fn, cs.Fn.Object(), idx, depth-1)
					continue
				}
			}
			sites++
			key := fnName(cs.Fn) + "#storeAuthError-arg"
			ord[key]++
			key += fmt.Sprintf("%d", ord[key])
			cls := c.classifyErr(cs.Fn, arg, cs.Call.Block(), 0)
			c.Check(cls == "error", rule, key, "the stored error is non-nil", "storeAuthError may be called with a nil error: the failure would not be recorded", cs.Call.Pos())
		}
	}
	visit(st, st.Object(), len(st.Params)-1, InlineDepth)
	c.MinCount(rule, "storeAuthError call sites", sites, 1)
	// ErrNetwork is only ever wrapped or compared, never returned bare (so errors.Unwrap of a
	// step error that Is(ErrNetwork) is non-nil)
	if g, ok := c.SSAPkg("security").Members["ErrNetwork"].(*ssa.Global); ok && g.Referrers() == nil {
		bare, uses := false, 0
		for _, fn := range c.ModFns {
			allInstrs(fn, func(_ *ssa.BasicBlock, _ int, in ssa.Instruction) {
				ld, isLd := in.(*ssa.UnOp)
				if !isLd || ld.Op != token.MUL || ld.X != ssa.Value(g) {
					return
				}
				for _, r := range *ld.Referrers() {
					uses++
					call, isCall := r.(*ssa.Call)
					if !isCall {
						bare = true
						continue
					}
					co := calleeObj(call)
					if co == nil || (co.Name() != "Wrap" && co.Name() != "Is" && co.Name() != "Wrapf") {
						bare = true
					}
				}
			})
		}
		c.Check(!bare && uses > 0, rule, "ErrNetwork#only-wrapped", "ErrNetwork is only wrapped or compared, never returned bare", "ErrNetwork is used other than as the cause of errors.Wrap / the target of errors.Is: errors.Unwrap of it would be nil (a nil return of the handshake)", g.Pos())
	} else {
		c.Undecided(rule, "ErrNetwork#only-wrapped", "package variable ErrNetwork not found or its address escapes", token.NoPos)
	}
}

// c11Element is one comparison of a must-verify set: the fact that has to be established.
type c11Element struct {
	label, what string
	fact        c11Fact
}

// c11VerifySet checks that every success return of fn is behind every element, unless a deferred
// failure was recorded on the way (storeAuthError; the final gate is C11-R1). Elements are found in
// fn or in the same-package helpers it calls.
func (c *Ctx) c11VerifySet(rule string, a *c11Anchors, fn *ssa.Function, els []c11Element) {
	succ := c11Targets(c.successTargets(fn))
	root := c11Root(fn)
	stored := a.storedFact()
	for _, el := range els {
		c.c11Pass(rule, fnName(fn)+"#"+el.label, root, nil, succ, el.fact, &stored, el.what+" (or a recorded failure)", fn.Pos())
	}
	c.MinCount(rule, "success returns of "+fnName(fn), len(succ), 1)
}

// storedFact: a failure is recorded with storeAuthError.
func (a *c11Anchors) storedFact() c11Fact { return c11CallFact(a.store.Object()) }

// statusOK: the peer's status integer equals AUTH_PW_A_OK.
func (c *Ctx) c11StatusOK(a *c11Anchors) c11Fact {
	return c11CmpFact(true, func(x, y c11LV) bool {
		return c.c11LVConstInt(y, a.okVal) && c.c11LVFrom(x, a.getInt.Object(), 0)
	})
}

// idEcho: a received id string equals authData.ClientID.
func (c *Ctx) c11IDEcho(a *c11Anchors) c11Fact {
	return c11CmpFact(true, func(x, y c11LV) bool {
		return c.c11LVFrom(x, a.getID.Object(), 0) && c.c11LVField(y, a.fClientID)
	})
}

// c11EqualFact: bytesEqual / hmac.Equal / bytes.Equal(x, y) is true, or
// subtle.ConstantTimeCompare(x, y) == 1, with operands satisfying p, q (either order).
func (c *Ctx) c11EqualFact(a *c11Anchors, p, q func(c11LV) bool) c11Fact {
	operands := func(lv c11LV, names ...string) bool {
		call, ok := lv.V.(*ssa.Call)
		if !ok || len(call.Call.Args) != 2 {
			return false
		}
		co := calleeObj(call)
		if co == nil || co.Pkg() == nil {
			return false
		}
		full := co.Pkg().Path() + "." + co.Name()
		hit := false
		for _, n := range names {
			if full == n || (n == "bytesEqual" && a.bytesEq != nil && types.Object(co) == a.bytesEq.Object()) {
				hit = true
			}
		}
		if !hit {
			return false
		}
		x, y := c11LV{call.Call.Args[0], lv.E}, c11LV{call.Call.Args[1], lv.E}
		return (p(x) && q(y)) || (p(y) && q(x))
	}
	return c11Fact{cond: func(lv c11LV, want bool) bool {
		if want && operands(lv, "bytesEqual", "crypto/hmac.Equal", "bytes.Equal") {
			return true
		}
		bo, ok := lv.V.(*ssa.BinOp)
		if !ok || (bo.Op != token.EQL && bo.Op != token.NEQ) || (bo.Op == token.EQL) != want {
			return false
		}
		for _, xy := range [][2]ssa.Value{{bo.X, bo.Y}, {bo.Y, bo.X}} {
			if k, isC := constInt(xy[1]); isC && k == 1 && operands(c11LV{xy[0], lv.E}, "crypto/subtle.ConstantTimeCompare") {
				return true
			}
		}
		return false
	}}
}

// c11MacOf: lv is computeTokenMAC(key, parts…) whose key satisfies key and whose parts depend on every dep.
func (c *Ctx) c11MacOf(a *c11Anchors, lv c11LV, key func(c11LV) bool, deps ...func(ssa.Value) bool) bool {
	return c.c11All(lv, func(l c11LV) bool {
		call := c11CallOf(l.V, a.computeMAC.Object(), 0)
		if call == nil {
			return false
		}
		args := call.Common().Args // recv, key, parts
		if len(args) != 3 || !key(c11LV{args[1], l.E}) {
			return false
		}
		for _, d := range deps {
			if !c.c11Dep(c11LV{args[2], l.E}, d) {
				return false
			}
		}
		return true
	})
}

// c11EOMFact: the error of a GetChar read equals io.EOF (nothing follows in the message).
func (c *Ctx) c11EOMFact() c11Fact {
	return c11CmpFact(true, func(x, y c11LV) bool {
		isEOF := c.c11All(y, func(l c11LV) bool {
			ld, ok := l.V.(*ssa.UnOp)
			if !ok || ld.Op != token.MUL {
				return false
			}
			g, ok := ld.X.(*ssa.Global)
			return ok && g.Pkg != nil && g.Pkg.Pkg.Path() == "io" && g.Name() == "EOF"
		})
		return isEOF && c.c11All(x, func(l c11LV) bool {
			call, idx := originCall(l.V)
			if call == nil || idx != 1 {
				return false
			}
			co := calleeObj(call)
			return co != nil && co.Name() == "GetChar"
		})
	})
}

// c11Nonce: in the sender fn, every success return passes a nil-error crypto/rand.Read into the
// nonce field f (freshly made, AUTH_PW_KEY_LEN long) or an edge on which ErrorStatus != AUTH_PW_A_OK.
func (c *Ctx) c11Nonce(rule string, a *c11Anchors, fn *ssa.Function, f *types.Var, within map[*ssa.Function]bool, side string) {
	name := fnName(fn)
	root := c11Root(fn)
	sites := c11Stores(root, f)
	var storedVals []c11LV
	stInstr := map[ssa.Instruction]bool{}
	for _, st := range sites {
		storedVals = append(storedVals, st.val)
		stInstr[st.st] = true
	}
	// the random bytes are read into the field, or into the buffer that is assigned to it
	filled := c11Fact{errOK: func(call ssa.CallInstruction, e *c11Env) bool {
		co := calleeObj(call)
		if co == nil || co.Pkg() == nil || co.Pkg().Path() != "crypto/rand" || co.Name() != "Read" || len(call.Common().Args) != 1 {
			return false
		}
		arg := c11LV{call.Common().Args[0], e}
		return c.c11LVField(arg, f) || c.c11SameDeepLeaves(arg, storedVals)
	}}
	notOK := c11CmpFact(false, func(x, y c11LV) bool { return c.c11LVConstInt(y, a.okVal) && c.c11LVField(x, a.fStatus) })
	succ := c11Targets(c.successTargets(fn))
	c.c11Pass(rule, name+"#nonce-"+f.Name(), root, nil, succ, filled, &notOK, "a nil-error crypto/rand.Read into "+f.Name()+" (or ErrorStatus != OK)", fn.Pos())
	assigned := c11Fact{instr: func(in ssa.Instruction, _ *c11Env) bool { return stInstr[in] }}
	c.c11Pass(rule, name+"#nonce-"+f.Name()+"-assigned", root, nil, succ, assigned, &notOK, "the assignment of the fresh buffer to "+f.Name()+" (or ErrorStatus != OK)", fn.Pos())
	// the buffer is a fresh allocation of the protocol length
	keyLen, _ := c.c11ConstInt(rule, "AUTH_PW_KEY_LEN")
	okBuf := len(sites) > 0
	for _, st := range sites {
		fresh := c.c11All(st.val, func(l c11LV) bool {
			switch x := l.V.(type) {
			case *ssa.Slice:
				al, isAl := x.X.(*ssa.Alloc)
				if !isAl {
					return false
				}
				arr, isArr := al.Type().Underlying().(*types.Pointer).Elem().Underlying().(*types.Array)
				return isArr && arr.Len() == keyLen && keyLen > 0
			case *ssa.MakeSlice:
				return keyLen > 0 && c.c11LVConstInt(c11LV{x.Len, l.E}, keyLen)
			}
			return false
		})
		if !fresh {
			okBuf = false
		}
	}
	c.Check(okBuf, rule, name+"#nonce-"+f.Name()+"-buffer", f.Name()+" is a fresh AUTH_PW_KEY_LEN-byte buffer", f.Name()+" is not assigned a fresh buffer of AUTH_PW_KEY_LEN bytes before being filled", fn.Pos())
	// on this side of the exchange nobody else assigns it
	c.c11WhoMay(rule, "write TokenAuthData."+f.Name()+" on the "+side, c.c11Writers(f, within), fnSet(fn))
}

// c11Reach: functions statically reachable from fn (with closures), as a set over all their closures too.
func (c *Ctx) c11Reach(fn *ssa.Function) map[*ssa.Function]bool {
	return c.reachableFns([]*ssa.Function{fn}, false)
}

// C11-R2: the server's must-verify set.
func c11r2(c *Ctx) {
	const rule = "C11-R2"
	c.Doc(rule, "receiveServerTokenStep3 (with the same-package helpers it calls): every success return that has not recorded a failure is behind status==AUTH_PW_A_OK, received client id == authData.ClientID, bytesEqual(received RB, authData.RB), bytesEqual(received MAC, computeTokenMAC(SharedKeyK, …ClientID…RB)) and the end-of-message test; RB is generated by crypto/rand in sendServerTokenStep2 and assigned nowhere else on the server side; bytesEqual compares length and every element")
	a := c.c11Need(rule)
	if a == nil {
		return
	}
	fn := a.step3s
	fromWire := func(v c11LV) bool { return c.c11LVFrom(v, a.getRaw.Object(), 0) }
	isRB := func(v c11LV) bool { return c.c11LVField(v, a.fRB) }
	isK := func(v c11LV) bool { return c.c11LVField(v, a.fK) }
	isMAC := func(v c11LV) bool {
		return c.c11MacOf(a, v, isK, isFieldAccess(a.fClientID), isFieldAccess(a.fRB))
	}
	c.c11VerifySet(rule, a, fn, []c11Element{
		{"status-ok", "the status == AUTH_PW_A_OK edge", c.c11StatusOK(a)},
		{"client-id", "the received client id == authData.ClientID edge", c.c11IDEcho(a)},
		{"rb-echo", "the true edge of bytesEqual(received RB, authData.RB)", c.c11EqualFact(a, fromWire, isRB)},
		{"mac", "the true edge of bytesEqual(received MAC, computeTokenMAC(SharedKeyK, ClientID, RB))", c.c11EqualFact(a, fromWire, isMAC)},
		{"end-of-message", "the GetChar error == io.EOF edge", c.c11EOMFact()},
	})
	c.c11Nonce(rule, a, a.step2s, a.fRB, c.c11Reach(a.server), "server side")
	c.c11BytesEqual(rule, a)
}

// c11BytesEqual: bytesEqual returns true only for equal length and after comparing the elements
// (or hands its two parameters to bytes.Equal / hmac.Equal).
func (c *Ctx) c11BytesEqual(rule string, a *c11Anchors) {
	fn := a.bytesEq
	if fn == nil {
		c.Note("%s: no bytesEqual helper in package security; the comparisons of the must-verify sets are calls of bytes.Equal / hmac.Equal / subtle.ConstantTimeCompare", rule)
		return
	}
	// delegation: bytesEqual may hand its two parameters to another function of the package that does
	// the comparison; that function then carries the obligation
	for d := 0; d < InlineDepth && len(fn.Params) == 2; d++ {
		var next *ssa.Function
		n := 0
		for _, r := range c.returnsOf(fn) {
			n++
			call, ok := r.Ret.Results[0].(*ssa.Call)
			if !ok || len(call.Call.Args) != 2 {
				next = nil
				break
			}
			g := calleeFn(call)
			x, y := call.Call.Args[0], call.Call.Args[1]
			p0, p1 := ssa.Value(fn.Params[0]), ssa.Value(fn.Params[1])
			if g == nil || g.Blocks == nil || fnPkg(g) != fnPkg(fn) || g == fn || !((x == p0 && y == p1) || (x == p1 && y == p0)) || (next != nil && next != g) {
				next = nil
				break
			}
			next = g
		}
		if next == nil || n == 0 {
			break
		}
		c.Note("%s: %s hands its parameters to %s, which is checked in its place", rule, fnName(fn), fnName(next))
		fn = next
	}
	if len(fn.Params) != 2 {
		c.Undecided(rule, fnName(fn)+"#shape", "unexpected signature", fn.Pos())
		return
	}
	p0, p1 := ssa.Value(fn.Params[0]), ssa.Value(fn.Params[1])
	var trueRets []Target
	delegated := true
	for _, b := range fn.Blocks {
		if len(b.Instrs) == 0 {
			continue
		}
		if r, ok := b.Instrs[len(b.Instrs)-1].(*ssa.Return); ok {
			if v, isC := constBool(r.Results[0]); isC && !v {
				continue
			}
			trueRets = append(trueRets, Target{Instr: r})
			res := r.Results[0]
			ctc := false
			if bo, isBo := res.(*ssa.BinOp); isBo && bo.Op == token.EQL { // subtle.ConstantTimeCompare(a, b) == 1
				if k, isC := constInt(bo.Y); isC && k == 1 {
					res, ctc = bo.X, true
				} else if k, isC := constInt(bo.X); isC && k == 1 {
					res, ctc = bo.Y, true
				}
			}
			call, isCall := res.(*ssa.Call)
			std := false
			if isCall && len(call.Call.Args) == 2 {
				if co := calleeObj(call); co != nil && co.Pkg() != nil {
					full := co.Pkg().Path() + "." + co.Name()
					x, y := call.Call.Args[0], call.Call.Args[1]
					known := (!ctc && (full == "bytes.Equal" || full == "crypto/hmac.Equal")) || (ctc && full == "crypto/subtle.ConstantTimeCompare")
					std = known && ((x == p0 && y == p1) || (x == p1 && y == p0))
				}
			}
			if !std {
				delegated = false
			}
		}
	}
	c.MinCount(rule, "true returns of bytesEqual", len(trueRets), 1)
	if delegated && len(trueRets) > 0 {
		c.Ok(rule, fnName(fn)+"#length", "bytesEqual returns bytes.Equal / hmac.Equal / subtle.ConstantTimeCompare(…) == 1 of its two parameters", fn.Pos())
		c.Ok(rule, fnName(fn)+"#elements", "bytesEqual returns bytes.Equal / hmac.Equal / subtle.ConstantTimeCompare(…) == 1 of its two parameters", fn.Pos())
		return
	}
	lenOf := func(v ssa.Value, p ssa.Value) bool {
		call, ok := v.(*ssa.Call)
		if !ok {
			return false
		}
		b, isB := call.Call.Value.(*ssa.Builtin)
		return isB && b.Name() == "len" && call.Call.Args[0] == p
	}
	root := c11Root(fn)
	sameLen := c11CmpFact(true, func(x, y c11LV) bool { return lenOf(x.V, p0) && lenOf(y.V, p1) })
	c.c11Pass(rule, fnName(fn)+"#length", root, nil, trueRets, sameLen, nil, "the len(a) == len(b) edge", fn.Pos())
	elem := func(v ssa.Value, p ssa.Value) (ssa.Value, bool) {
		ld, ok := v.(*ssa.UnOp)
		if !ok || ld.Op != token.MUL {
			return nil, false
		}
		ia, ok := ld.X.(*ssa.IndexAddr)
		if !ok || ia.X != p {
			return nil, false
		}
		return ia.Index, true
	}
	var idx ssa.Value
	_, ne := c11CmpEdges(fn, func(x, y ssa.Value) bool {
		i, ok1 := elem(x, p0)
		j, ok2 := elem(y, p1)
		if ok1 && ok2 && i == j {
			idx = i
			return true
		}
		return false
	})
	okElem := len(ne) > 0
	for _, e := range ne {
		for _, t := range trueRets {
			if len(e.To().Instrs) > 0 && findPath(Point{e.To(), 0}, t, nil) != nil {
				okElem = false
			}
		}
	}
	// the index runs over the whole length: it is compared (<) with len(a) or len(b) and starts at 0 / -1+1
	okRange := false
	if idx != nil {
		for _, r := range c11Rels(fn, func(v ssa.Value) bool { return v == idx }, func(v ssa.Value) bool { return lenOf(v, p0) || lenOf(v, p1) }) {
			if r.Op == token.LSS {
				okRange = true
			}
		}
		if bo, ok := idx.(*ssa.BinOp); ok && okRange { // rangeindex: phi(-1, next)+1
			phi, isPhi := bo.X.(*ssa.Phi)
			one, isOne := constInt(bo.Y)
			okRange = isPhi && isOne && one == 1 && bo.Op == token.ADD
			if okRange {
				start := false
				for _, e := range phi.Edges {
					if v, isC := constInt(e); isC && v == -1 {
						start = true
					} else if e != ssa.Value(bo) {
						okRange = false
					}
				}
				okRange = okRange && start
			}
		} else if phi, ok := idx.(*ssa.Phi); ok && okRange { // for i := 0; i < len; i++
			start := false
			for _, e := range phi.Edges {
				if v, isC := constInt(e); isC && v == 0 {
					start = true
				} else if bo, isBo := e.(*ssa.BinOp); !isBo || bo.Op != token.ADD || bo.X != ssa.Value(phi) {
					okRange = false
				}
			}
			okRange = okRange && start
		}
	}
	c.Check(okElem && okRange, rule, fnName(fn)+"#elements", "a differing element at any index 0..len-1 returns false", "bytesEqual can return true although an element differs (comparison missing, or the index does not run over the whole length)", fn.Pos())
}

// C11-R3: the client's must-verify set.
func c11r3(c *Ctx) {
	const rule = "C11-R3"
	c.Doc(rule, "receiveTokenStep2 (with the same-package helpers it calls, verifyTokenMAC among them): every success return that has not recorded a failure is behind status==AUTH_PW_A_OK, echoed client id == authData.ClientID, bytesEqual(echoed RA, authData.RA) and the true edge of bytesEqual(computeTokenMAC(SharedKeyK, ClientID, ServerID, RA, RB), MAC read from the wire); ServerID and RB are the values received in this message; RA is generated by crypto/rand in sendClientTokenStep1 and assigned nowhere else on the client side")
	a := c.c11Need(rule)
	if a == nil {
		return
	}
	fn := a.step2c
	fromWire := func(v c11LV) bool { return c.c11LVFrom(v, a.getRaw.Object(), 0) }
	isRA := func(v c11LV) bool { return c.c11LVField(v, a.fRA) }
	isK := func(v c11LV) bool { return c.c11LVField(v, a.fK) }
	isMAC := func(v c11LV) bool {
		return c.c11MacOf(a, v, isK, isFieldAccess(a.fClientID), isFieldAccess(a.fServerID), isFieldAccess(a.fRA), isFieldAccess(a.fRB))
	}
	c.c11VerifySet(rule, a, fn, []c11Element{
		{"status-ok", "the status == AUTH_PW_A_OK edge", c.c11StatusOK(a)},
		{"client-id", "the echoed client id == authData.ClientID edge", c.c11IDEcho(a)},
		{"ra-echo", "the true edge of bytesEqual(echoed RA, authData.RA)", c.c11EqualFact(a, fromWire, isRA)},
		{"mac", "the true edge of bytesEqual(computeTokenMAC(SharedKeyK, ClientID, ServerID, RA, RB), received MAC) (verifyTokenMAC)", c.c11EqualFact(a, isMAC, fromWire)},
	})
	// the values the MAC is checked over are the ones just received
	root := c11Root(fn)
	okSrv, okRB := false, false
	for _, st := range c11Stores(root, a.fServerID) {
		okSrv = c.c11LVFrom(st.val, a.getID.Object(), 0)
	}
	for _, st := range c11Stores(root, a.fRB) {
		okRB = c.c11LVFrom(st.val, a.getRaw.Object(), 0)
	}
	c.Check(okSrv && okRB, rule, fnName(fn)+"#mac-inputs", "ServerID and RB are the values received in this message", "ServerID / RB used for the MAC are not the values received in this message", fn.Pos())
	c.c11Nonce(rule, a, a.step1c, a.fRA, c.c11Reach(a.client), "client side")
}

// C11-R4: provenance of the MAC keys.
func c11r4(c *Ctx) {
	const rule = "C11-R4"
	c.Doc(rule, "on the server side TokenAuthData.Signature is assigned only in validateTokenAndDeriveKeys (or its helpers), from computeTokenSignature(loadSigningKey(…) on its nil-error edge, authData.Token); SharedKeyK/SharedKeyKP are written only by deriveTokenKeys (or its helpers), by reading an HKDF whose secret is authData.Signature; computeTokenSignature keys its HKDF with the signing key and MACs the token text")
	a := c.c11Need(rule)
	if a == nil {
		return
	}
	reach := c.c11Reach(a.server)
	c.c11WhoMay(rule, "write TokenAuthData.Signature on the server side", c.c11Writers(a.fSig, reach), fnSet(a.validate))
	v := a.validate
	root := c11Root(v)
	isLoadKey := func(call ssa.CallInstruction, _ *c11Env) bool {
		co := calleeObj(call)
		return co != nil && types.Object(co) == a.loadKey.Object()
	}
	keyLoaded := c11Fact{errOK: isLoadKey}
	sigStores := c11Stores(root, a.fSig)
	stSet := map[ssa.Instruction]bool{}
	for i, st := range sigStores {
		stSet[st.st] = true
		construct := fmt.Sprintf("%s#Signature-store%d", fnName(v), i+1)
		good := c.c11All(st.val, func(o c11LV) bool {
			call := c11CallOf(o.V, a.computeSig.Object(), 0)
			if call == nil {
				return false
			}
			args := call.Common().Args // recv, key, token
			return c.c11LVFrom(c11LV{args[1], o.E}, a.loadKey.Object(), 0) && c.c11LVField(c11LV{args[2], o.E}, a.fToken)
		})
		if good {
			q := c.c11NewQuery(keyLoaded)
			good, _ = q.guards(nil, st.env, st.st)
		}
		c.Check(good, rule, construct, "Signature = computeTokenSignature(successfully loaded signing key, authData.Token)", "Signature is not computed from the server's own signing key and the received token text", st.st.Pos())
	}
	c.MinCount(rule, "stores to Signature in validateTokenAndDeriveKeys", len(sigStores), 1)
	// the keys are derived after such a store
	assigned := c11Fact{instr: func(in ssa.Instruction, _ *c11Env) bool { return stSet[in] }}
	derive := c11CallsTo(root, func(call ssa.CallInstruction) bool {
		co := calleeObj(call)
		return co != nil && types.Object(co) == a.deriveKeys.Object()
	})
	for i, d := range derive {
		construct := fnName(v) + "#Signature-before-derive"
		if i > 0 {
			construct += fmt.Sprintf("#%d", i+1)
		}
		c.c11PassTo(rule, construct, nil, d.env, d.call, assigned, nil, "the assignment of Signature (before deriveTokenKeys)")
	}
	c.MinCount(rule, "deriveTokenKeys calls in validateTokenAndDeriveKeys", len(derive), 1)
	// K, K'
	d := a.deriveKeys
	droot := c11Root(d)
	for _, f := range []*types.Var{a.fK, a.fKP} {
		c.c11WhoMay(rule, "write TokenAuthData."+f.Name(), c.c11Writers(f, nil), fnSet(d))
	}
	isHKDF := func(call ssa.CallInstruction) bool {
		co := calleeObj(call)
		return co != nil && co.Pkg() != nil && co.Pkg().Path() == "golang.org/x/crypto/hkdf" && co.Name() == "New"
	}
	hk := c11CallsTo(droot, isHKDF)
	okSecret := len(hk) > 0
	for _, cs := range hk {
		if !c.c11LVField(c11LV{cs.call.Common().Args[1], cs.env}, a.fSig) {
			okSecret = false
		}
	}
	c.Check(okSecret, rule, fnName(d)+"#hkdf-secret", "every HKDF in deriveTokenKeys is keyed with authData.Signature", "an HKDF in deriveTokenKeys is keyed with something other than authData.Signature", d.Pos())
	for _, f := range []*types.Var{a.fK, a.fKP} {
		f := f
		read := c11Fact{errOK: func(call ssa.CallInstruction, e *c11Env) bool {
			co := calleeObj(call)
			if co == nil || co.Pkg() == nil || co.Pkg().Path() != "io" || co.Name() != "ReadFull" {
				return false
			}
			args := call.Common().Args
			fromHK := c.c11All(c11LV{args[0], e}, func(l c11LV) bool {
				hc, _ := originCall(l.V)
				return hc != nil && isHKDF(hc) && c.c11LVField(c11LV{hc.Common().Args[1], l.E}, a.fSig)
			})
			return fromHK && c.c11LVField(c11LV{args[1], e}, f)
		}}
		q := c.c11NewQuery(read)
		ci := q.cutsOf(droot)
		filled := ci.n > 0 && c.c11MustPassQuiet(d, c11Targets(c.successTargets(d)), ci.cuts)
		c.Check(filled, rule, fnName(d)+"#fills-"+f.Name(), f.Name()+" is read from the HKDF (nil error) on every success path", f.Name()+" is not filled from the Signature-keyed HKDF on every success path", d.Pos())
	}
	c.MinCount(rule, "HKDF instances in deriveTokenKeys", len(hk), 1)
	// computeTokenSignature
	cs := a.computeSig
	if len(cs.Params) == 3 {
		csroot := c11Root(cs)
		hk := c11CallsTo(csroot, isHKDF)
		okKey := len(hk) > 0
		for _, h := range hk {
			if !c.c11All(c11LV{h.call.Common().Args[1], h.env}, func(l c11LV) bool { return l.V == ssa.Value(cs.Params[1]) }) {
				okKey = false
			}
		}
		c.Check(okKey, rule, fnName(cs)+"#hkdf-secret", "the JWT key is derived from the signing key", "computeTokenSignature does not key its HKDF with the signing key parameter", cs.Pos())
		okTok := false
		for _, w := range c11CallsTo(csroot, func(call ssa.CallInstruction) bool {
			return call.Common().IsInvoke() && call.Common().Method.Name() == "Write" && len(call.Common().Args) == 1
		}) {
			if c.c11Dep(c11LV{w.call.Common().Args[0], w.env}, func(v ssa.Value) bool { return v == ssa.Value(cs.Params[2]) }) {
				okTok = true
			}
		}
		c.Check(okTok, rule, fnName(cs)+"#mac-input", "the token text is written into the MAC", "computeTokenSignature does not MAC the token text parameter", cs.Pos())
	} else {
		c.Undecided(rule, fnName(cs)+"#shape", "unexpected computeTokenSignature signature", cs.Pos())
	}
}

// c11MustPassQuiet: no target reachable from entry without a cut.
func (c *Ctx) c11MustPassQuiet(fn *ssa.Function, targets []Target, cuts *Cuts) bool {
	for _, t := range targets {
		if findPath(entryPoint(fn), t, cuts) != nil {
			return false
		}
	}
	return len(targets) > 0
}

// C11-R5: time validation.
func c11r5(c *Ctx) {
	const rule = "C11-R5"
	c.Doc(rule, "validateTokenAndDeriveKeys succeeds only after a nil-error validateTokenTiming on the claims decoded from part 1 (the payload) of authData.Token; in validateTokenTiming (with its helpers) every success path either finds the exp claim absent or passes the accepting edge of a comparison 'now < exp' of time.Now().Unix() with the claim (>= rejects), and either finds iat absent or passes 'now - iat <= maxAge' (or the bound switched off, <= 0); every type-switch arm of a present claim therefore leads to the comparison or to an error")
	a := c.c11Need(rule)
	if a == nil {
		return
	}
	v := a.validate
	isTok := func(x c11LV) bool { return c.c11LVField(x, a.fToken) }
	timed := c11Fact{errOK: func(call ssa.CallInstruction, e *c11Env) bool {
		co := calleeObj(call)
		if co == nil || types.Object(co) != a.timing.Object() || len(call.Common().Args) != 3 {
			return false
		}
		k, ok := c.c11TokenPartLV(c11LV{call.Common().Args[1], e}, isTok) // recv, claims, config
		return ok && k == 1
	}}
	c.c11Pass(rule, fnName(v)+"#timing-on-path", c11Root(v), nil, c11Targets(c.successTargets(v)), timed, nil, "a nil-error validateTokenTiming(claims decoded from the payload of authData.Token)", v.Pos())
	c.c11Timing(rule, a.timing)
}

// c11Timing checks the two comparisons inside validateTokenTiming.
func (c *Ctx) c11Timing(rule string, t *ssa.Function) {
	name := fnName(t)
	if len(t.Params) != 3 {
		c.Undecided(rule, name+"#shape", "unexpected validateTokenTiming signature", t.Pos())
		return
	}
	root := c11Root(t)
	isClaims := func(x c11LV) bool {
		return c.c11All(x, func(l c11LV) bool { return l.V == ssa.Value(t.Params[1]) && l.E == root })
	}
	succ := c11Targets(c.successTargets(t))
	c.MinCount(rule, "success returns of validateTokenTiming", len(succ), 1)
	for _, claim := range []string{"exp", "iat"} {
		claim := claim
		construct := name + "#" + claim
		isLookup := func(v ssa.Value, e *c11Env) *ssa.Lookup {
			lk, ok := v.(*ssa.Lookup)
			if !ok || !c.c11LVConstString(c11LV{lk.Index, e}, claim) || !isClaims(c11LV{lk.X, e}) {
				return nil
			}
			return lk
		}
		// the claim is absent: the presence flag of claims[claim] is false (or the looked-up value is nil)
		absent := c11AnyFact(c11Fact{cond: func(lv c11LV, want bool) bool {
			ex, ok := lv.V.(*ssa.Extract)
			return ok && ex.Index == 1 && !want && isLookup(ex.Tuple, lv.E) != nil
		}}, c11CmpFact(true, func(x, y c11LV) bool {
			v := x.V
			if ex, ok := v.(*ssa.Extract); ok && ex.Index == 0 {
				v = ex.Tuple
			}
			return isNilConst(y.V) && isLookup(v, x.E) != nil
		}))
		fromClaim := func(x c11LV) bool {
			return c.c11DepLV(x, func(y c11LV) bool { return isLookup(y.V, y.E) != nil })
		}
		isNow := func(x c11LV) bool { return c.c11IsNowLV(x) }
		var accept c11Fact
		problem := ""
		var problemPos token.Pos
		var bounds []c11LV
		if claim == "exp" {
			// oriented as  now OP exp
			accept = c11RelFact(isNow, func(x c11LV) bool { return !isNow(x) && fromClaim(x) }, func(op token.Token) bool { return op == token.LSS })
		} else {
			// oriented as  (now - iat) OP bound
			isAge := func(x c11LV) bool {
				return c.c11All(x, func(l c11LV) bool {
					bo, ok := l.V.(*ssa.BinOp)
					return ok && bo.Op == token.SUB && isNow(c11LV{bo.X, l.E}) && fromClaim(c11LV{bo.Y, l.E})
				})
			}
			isBound := func(x c11LV) bool {
				if fromClaim(x) || isNow(x) {
					return false
				}
				bounds = append(bounds, x)
				return true
			}
			accept = c11RelFact(isAge, isBound, func(op token.Token) bool { return op == token.LEQ || op == token.LSS })
		}
		// comparisons of the clock with the claim, in the body and its helpers
		nRel := 0
		for _, e := range c11Bodies(root) {
			allInstrs(e.fn, func(_ *ssa.BasicBlock, _ int, in ssa.Instruction) {
				bo, ok := in.(*ssa.BinOp)
				if !ok {
					return
				}
				lv := c11LV{bo, e}
				if accept.cond(lv, true) || accept.cond(lv, false) {
					nRel++
					return
				}
				switch bo.Op {
				case token.LSS, token.LEQ, token.GTR, token.GEQ, token.EQL, token.NEQ:
				default:
					return
				}
				x, y := c11LV{bo.X, e}, c11LV{bo.Y, e}
				if claim == "exp" && ((isNow(x) && fromClaim(y) && !isNow(y)) || (isNow(y) && fromClaim(x) && !isNow(x))) {
					problem = "the expiry comparison is 'now " + bo.Op.String() + " exp' (operands as written): a token is still accepted at now == exp"
					problemPos = bo.Pos()
				}
			})
		}
		if problem != "" {
			c.Violate(rule, construct, problem, problemPos)
			continue
		}
		if nRel == 0 {
			what := "time.Now().Unix() with the exp claim"
			if claim == "iat" {
				what = "time.Now().Unix() - iat with the maximum age"
			}
			c.Violate(rule, construct, "no comparison of "+what, t.Pos())
			continue
		}
		alt := absent
		if claim == "iat" {
			// the bound may be switched off: edges on which it is <= 0
			bs := bounds
			off := c11RelFact(func(x c11LV) bool { return c11SameLeaves(x, bs) }, func(x c11LV) bool { return c.c11LVConstInt(x, 0) }, func(op token.Token) bool { return op == token.LEQ })
			alt = c11AnyFact(absent, off)
		}
		what := "the accepting edge of the exp comparison (now < exp), or the claim being absent"
		if claim == "iat" {
			what = "the accepting edge of the age comparison (now - iat <= maxAge), the bound being switched off, or the claim being absent"
		}
		c.c11Pass(rule, construct, root, nil, succ, accept, &alt, what, t.Pos())
	}
}

// C11-R6: the recorded identity is the signed subject.
func c11r6(c *Ctx) {
	const rule = "C11-R6"
	c.Doc(rule, "validateTokenAndDeriveKeys (with its helpers): every assignment of authData.ClientID stores the string value of claim \"sub\" of the payload claims (or the empty string), every success return passes such an assignment and a non-empty test of it; on the server side ClientID is otherwise written only by receiveServerTokenStep1, which cannot run after the validation; the store to negotiation.User derives from authData.ClientID and is reachable only through a successful validateTokenAndDeriveKeys (paths with a recorded failure excluded)")
	a := c.c11Need(rule)
	if a == nil {
		return
	}
	v := a.validate
	name := fnName(v)
	root := c11Root(v)
	isTok := func(x c11LV) bool { return c.c11LVField(x, a.fToken) }
	isPayload := func(x c11LV) bool {
		k, ok := c.c11TokenPartLV(x, isTok)
		return ok && k == 1
	}
	good := map[ssa.Instruction]bool{}
	var goodVals []c11LV
	sites := c11Stores(root, a.fClientID)
	for i, st := range sites {
		if c.Check(c.c11ClaimStringLV(st.val, "sub", true, isPayload), rule, fmt.Sprintf("%s#ClientID-store%d", name, i+1), "ClientID is assigned the signed subject", "ClientID is assigned a value that is not the \"sub\" claim of the token payload", st.st.Pos()) {
			good[st.st] = true
			goodVals = append(goodVals, st.val)
		}
	}
	succ := c11Targets(c.successTargets(v))
	assigned := c11Fact{instr: func(in ssa.Instruction, _ *c11Env) bool { return good[in] }}
	c.c11Pass(rule, name+"#subject-assigned", root, nil, succ, assigned, nil,
		"an assignment of the signed subject to ClientID (without it the id the client claimed in step 1 stays the recorded identity)", v.Pos())
	// non-empty subject
	nonEmpty := c11CmpFact(false, func(x, y c11LV) bool {
		if !c.c11LVConstString(y, "") {
			return false
		}
		return c.c11LVField(x, a.fClientID) || c11SameLeaves(x, goodVals)
	})
	c.c11Pass(rule, name+"#subject-non-empty", root, nil, succ, nonEmpty, nil, "the subject != \"\" edge", v.Pos())
	c.MinCount(rule, "assignments of ClientID in validateTokenAndDeriveKeys", len(sites), 1)
	// writers on the server side
	reach := c.c11Reach(a.server)
	c.c11WhoMay(rule, "write TokenAuthData.ClientID on the server side", c.c11Writers(a.fClientID, reach), fnSet(a.step1s, a.validate))
	// in the server exchange
	s := a.server
	sroot := c11Root(s)
	isCallTo := func(f *ssa.Function) func(ssa.CallInstruction) bool {
		return func(call ssa.CallInstruction) bool {
			co := calleeObj(call)
			return co != nil && types.Object(co) == f.Object()
		}
	}
	vcalls := c11CallsTo(sroot, isCallTo(a.validate))
	c.MinCount(rule, "validateTokenAndDeriveKeys calls in the server exchange", len(vcalls), 1)
	okOrder := true
	for _, vc := range vcalls {
		for _, s1 := range c11CallsTo(sroot, isCallTo(a.step1s)) {
			if c11After(vc, s1) {
				okOrder = false
			}
		}
	}
	c.Check(okOrder, rule, fnName(s)+"#claimed-id-before-validation", "the claimed id is received before the validation only", "receiveServerTokenStep1 can run after validateTokenAndDeriveKeys and overwrite the signed subject with the claimed id", s.Pos())
	// live paths: a recorded failure or a seen AuthError != nil cannot pass the final gate (C11-R1)
	validated := c11Fact{errOK: func(call ssa.CallInstruction, _ *c11Env) bool { return isCallTo(a.validate)(call) }}
	dead := c11AnyFact(a.storedFact(), c.c11AuthErrFact(a, false))
	us := c11Stores(sroot, a.fUser)
	for i, st := range us {
		construct := fmt.Sprintf("%s#User-store%d", fnName(s), i+1)
		c.Check(c.c11Dep(st.val, isFieldAccess(a.fClientID)), rule, construct+":value", "negotiation.User derives from authData.ClientID", "negotiation.User does not derive from authData.ClientID", st.st.Pos())
		c.c11PassTo(rule, construct+":validated", nil, st.env, st.st, validated, &dead, "a successful validateTokenAndDeriveKeys")
	}
	c.MinCount(rule, "stores to negotiation.User in the server exchange", len(us), 1)
}

// c11AuthErrFact: authData.AuthError is nil (isNil) / non-nil on the edge.
func (c *Ctx) c11AuthErrFact(a *c11Anchors, isNil bool) c11Fact {
	return c11CmpFact(isNil, func(x, y c11LV) bool { return isNilConst(y.V) && c.c11LVField(x, a.fAuthErr) })
}

// c11After: call site y can execute after call site x (both found from the same root body): decided at
// the deepest body that contains both.
func c11After(x, y c11CallSite) bool {
	chain := func(s c11CallSite) ([]*c11Env, []ssa.Instruction) {
		var es []*c11Env
		var is []ssa.Instruction
		in := ssa.Instruction(s.call)
		for e := s.env; e != nil; e = e.parent {
			es = append([]*c11Env{e}, es...)
			is = append([]ssa.Instruction{in}, is...)
			in = e.call
		}
		return es, is
	}
	ex, ix := chain(x)
	ey, iy := chain(y)
	for i := 0; i < len(ex) && i < len(ey); i++ {
		if ex[i] != ey[i] {
			break
		}
		if ix[i] != iy[i] {
			return findPath(after(ix[i]), Target{Instr: iy[i]}, nil) != nil
		}
	}
	// one lies inside the other's callee, or they are the same site: only a loop brings y after x
	return findPath(after(ix[0]), Target{Instr: iy[0]}, nil) != nil
}

// C11-R7: the standalone verifier.
func c11r7(c *Ctx) {
	const rule = "C11-R7"
	c.Doc(rule, "VerifyIDToken (with its helpers): every success return is behind len(parts)==3, a nil-error loadSigningKey, the true edge of hmac.Equal(computeTokenSignature(that key, parts[0]+\".\"+parts[1]), base64-decoded parts[2]), a nil-error validateTokenTiming on the claims decoded from parts[1], and a non-empty Subject that is the \"sub\" claim of those claims")
	a := c.c11Need(rule)
	fn := c.needFn(rule, "security", "VerifyIDToken")
	subj := c.needField(rule, "security", "IDTokenClaims", "Subject")
	if a == nil || fn == nil || subj == nil {
		return
	}
	name := fnName(fn)
	root := c11Root(fn)
	succ := c11Targets(c.successTargets(fn))
	c.MinCount(rule, "success returns of VerifyIDToken", len(succ), 1)
	isSrc := func(x c11LV) bool {
		return c.c11All(x, func(l c11LV) bool {
			if l.V == ssa.Value(fn.Params[0]) && l.E == root {
				return true
			}
			call, ok := l.V.(*ssa.Call)
			if !ok {
				return false
			}
			co := calleeObj(call)
			return co != nil && co.Pkg() != nil && co.Pkg().Path() == "strings" && co.Name() == "TrimSpace" &&
				c.c11All(c11LV{call.Call.Args[0], l.E}, func(m c11LV) bool { return m.V == ssa.Value(fn.Params[0]) && m.E == root })
		})
	}
	part := func(x c11LV, k int) bool {
		i, ok := c.c11SplitPart(x, isSrc)
		return ok && i == k
	}
	// three parts
	three := c11CmpFact(true, func(x, y c11LV) bool {
		if !c.c11LVConstInt(y, 3) {
			return false
		}
		return c.c11All(x, func(l c11LV) bool {
			call, ok := l.V.(*ssa.Call)
			if !ok {
				return false
			}
			b, isB := call.Call.Value.(*ssa.Builtin)
			return isB && b.Name() == "len" && c.c11IsSplit(c11LV{call.Call.Args[0], l.E}, isSrc)
		})
	})
	c.c11Pass(rule, name+"#three-parts", root, nil, succ, three, nil, "the len(parts) == 3 edge", fn.Pos())
	// signature
	keyLoaded := c11Fact{errOK: func(call ssa.CallInstruction, _ *c11Env) bool {
		co := calleeObj(call)
		return co != nil && types.Object(co) == a.loadKey.Object()
	}}
	isExpected := func(x c11LV) bool {
		return c.c11All(x, func(l c11LV) bool {
			call := c11CallOf(l.V, a.computeSig.Object(), 0)
			if call == nil {
				return false
			}
			args := call.Common().Args
			if !c.c11LVFrom(c11LV{args[1], l.E}, a.loadKey.Object(), 0) {
				return false
			}
			if ok, _ := c.c11NewQuery(keyLoaded).guards(nil, l.E, call); !ok {
				return false
			}
			// signing input = parts[0] + "." + parts[1]
			return c.c11All(c11LV{args[2], l.E}, func(m c11LV) bool {
				outer, ok := m.V.(*ssa.BinOp)
				if !ok || outer.Op != token.ADD || !part(c11LV{outer.Y, m.E}, 1) {
					return false
				}
				return c.c11All(c11LV{outer.X, m.E}, func(n c11LV) bool {
					inner, ok := n.V.(*ssa.BinOp)
					return ok && inner.Op == token.ADD && part(c11LV{inner.X, n.E}, 0) && c.c11LVConstString(c11LV{inner.Y, n.E}, ".")
				})
			})
		})
	}
	isActual := func(x c11LV) bool {
		return c.c11Base64Of(x, func(s c11LV) bool { return part(s, 2) })
	}
	c.c11Pass(rule, name+"#signature", root, nil, succ, c.c11EqualFact(a, isExpected, isActual), nil, "the true edge of hmac.Equal(computeTokenSignature(loaded key, parts[0].parts[1]), decoded parts[2])", fn.Pos())
	// timing on the payload claims
	isPayload := func(x c11LV) bool {
		k, ok := c.c11TokenPartLV(x, isSrc)
		return ok && k == 1
	}
	timed := c11Fact{errOK: func(call ssa.CallInstruction, e *c11Env) bool {
		co := calleeObj(call)
		return co != nil && types.Object(co) == a.timing.Object() && len(call.Common().Args) == 3 && isPayload(c11LV{call.Common().Args[1], e})
	}}
	c.c11Pass(rule, name+"#timing", root, nil, succ, timed, nil, "a nil-error validateTokenTiming(claims decoded from parts[1])", fn.Pos())
	// subject
	sites := c11Stores(root, subj)
	okSub := len(sites) > 0
	for _, st := range sites {
		if !c.c11ClaimStringLV(st.val, "sub", false, isPayload) {
			okSub = false
		}
	}
	c.Check(okSub, rule, name+"#subject-value", "Subject is the \"sub\" claim of the verified payload", "Subject is not taken from the \"sub\" claim of the verified payload", fn.Pos())
	nonEmpty := c11CmpFact(false, func(x, y c11LV) bool { return c.c11LVConstString(y, "") && c.c11LVField(x, subj) })
	c.c11Pass(rule, name+"#subject-non-empty", root, nil, succ, nonEmpty, nil, "the Subject != \"\" edge", fn.Pos())
}
