// cedarcheck: repository-specific static analysis deciding structural clauses of the
// properties in /verif/properties.jsonl for bbockelm/cedar. See /verif/DESIGN.md.
package main

import (
	"flag"
	"fmt"
	"os"
	"path/filepath"
	"runtime/debug"
	"sort"
	"strconv"
	"strings"
	"time"
)

// ruleFn is one rule of one property.
type ruleFn func(c *Ctx)

// registry: property id -> rules in order.
var registry = map[string][]ruleFn{}

func register(prop string, fns ...ruleFn) { registry[prop] = append(registry[prop], fns...) }

type config struct{ goos, goarch string }

func main() {
	repo := flag.String("repo", "/repo", "repository to analyse")
	verif := flag.String("verif", "/verif", "verification directory (evidence, known findings)")
	tier := flag.String("tier", "quick", "quick | thorough")
	onlyRule := flag.String("rule", "", "run only rules whose id has this prefix (debugging / replay)")
	noEvidence := flag.Bool("no-evidence", false, "do not write evidence (witness runs)")
	listOnly := flag.Bool("list", false, "print all obligations")
	flag.Parse()
	// pin the toolchain (DESIGN.md section 2): go1.26.8 first on PATH, offline, no workspace
	if _, err := os.Stat("/opt/veriftools/go1.26.8/bin/go"); err == nil {
		os.Setenv("PATH", "/opt/veriftools/go1.26.8/bin:"+os.Getenv("PATH"))
	}
	os.Setenv("GOTOOLCHAIN", "local")
	os.Setenv("GOPROXY", "off")
	os.Setenv("GOFLAGS", "-mod=mod")
	os.Unsetenv("GOWORK")
	props := flag.Args()
	if len(props) == 0 {
		fmt.Fprintln(os.Stderr, "usage: cedarcheck [-repo dir] [-tier quick|thorough] Cxx...|all")
		os.Exit(2)
	}
	if len(props) == 1 && props[0] == "all" {
		props = nil
		for p := range registry {
			props = append(props, p)
		}
		sort.Strings(props)
	}
	seed := 0
	if s := os.Getenv("VERIF_SEED"); s != "" {
		seed, _ = strconv.Atoi(s)
	}
	abs, err := filepath.Abs(*repo)
	if err == nil {
		*repo = abs
	}
	known, err := loadKnown(filepath.Join(*verif, "known_findings.json"))
	if err != nil {
		fmt.Fprintf(os.Stderr, "known findings: %v\n", err)
		os.Exit(1)
	}
	configs := []config{{"linux", "amd64"}}
	if *tier == "thorough" {
		InlineDepth = 8
		configs = append(configs, config{"linux", "386"}, config{"darwin", "arm64"})
	}
	start := time.Now()
	reports := map[string]*Report{}
	for _, p := range props {
		if _, ok := registry[p]; !ok {
			fmt.Fprintf(os.Stderr, "unknown property %s\n", p)
			os.Exit(2)
		}
		reports[p] = &Report{Property: p, Counts: map[string]int{}, RuleDocs: map[string]string{}}
	}
	var first *Prog
	var cfgNames []string
	exit := 0
	for _, cf := range configs {
		name := cf.goos + "/" + cf.goarch
		cfgNames = append(cfgNames, name)
		prog, err := Load(*repo, cf.goos, cf.goarch)
		if err != nil {
			// load/type error: every requested property fails closed
			for _, p := range props {
				c := &Ctx{Prog: &Prog{Repo: *repo}, R: reports[p], Tier: *tier, Config: name}
				c.add("LOAD", "load:"+name, StUndecided, "LOAD-ERROR: "+err.Error(), 0, nil)
			}
			if first == nil {
				first = &Prog{Repo: *repo}
			}
			continue
		}
		if first == nil || first.SSA == nil {
			first = prog
		}
		for _, p := range props {
			c := &Ctx{Prog: prog, R: reports[p], Tier: *tier, Config: name}
			for _, fn := range registry[p] {
				runRule(c, fn, *onlyRule)
			}
		}
		if len(configs) > 1 {
			// release memory between configurations
			prog = nil
			debug.FreeOSMemory()
		}
	}
	for _, p := range props {
		r := reports[p]
		if *onlyRule != "" {
			var keep []*Obligation
			for _, o := range r.Obs {
				if strings.HasPrefix(o.Rule, *onlyRule) || o.Rule == "LOAD" {
					keep = append(keep, o)
				}
			}
			r.Obs = keep
		}
		if *listOnly {
			for _, o := range r.Obs {
				fmt.Printf("%-11s %-9s %-60s %s  %s\n", o.Status, o.Rule, o.Construct, o.Pos, o.Msg)
			}
		}
		if *noEvidence {
			bad := 0
			openKF := map[string]bool{}
			for _, k := range known.Findings {
				if k.Status == "open" {
					openKF[k.Rule+"|"+k.Construct] = true
				}
			}
			for _, o := range r.Obs {
				if o.Status == StViolated && openKF[o.Key()] {
					continue // listed open finding: not a new report (keeps witness detection non-vacuous)
				}
				if o.Status != StOK {
					bad++
					fmt.Printf("WITNESS-REPORT %s %s %s %s: %s\n", o.Status, o.Rule, o.Construct, o.Pos, o.Msg)
				}
			}
			if bad > 0 {
				exit = 1
			}
			continue
		}
		if rc := r.Finish(*verif, *tier, seed, first, cfgNames, known, start, nil); rc != 0 {
			exit = rc
		}
	}
	os.Exit(exit)
}

// runRule runs one rule, turning a panic inside the analysis into an undecided obligation (fail closed).
func runRule(c *Ctx, fn ruleFn, only string) {
	defer func() {
		if r := recover(); r != nil {
			st := string(debug.Stack())
			lines := strings.Split(st, "\n")
			if len(lines) > 14 {
				lines = lines[:14]
			}
			c.add("PANIC", fmt.Sprintf("panic:%v", r), StUndecided, "analysis panicked: "+fmt.Sprint(r)+" "+strings.Join(lines, " | "), 0, nil)
		}
	}()
	fn(c)
}
