package main

// C01-R5: the string encoders' size guard covers every byte they put into one frame.
//
// PutString / PutStringBytes decide between the "large" path (split through PutBytes) and the ordinary
// single-write path by comparing a value G with MaxFrameSize, and decide whether to flush first by comparing
// buffered+X2 with TargetFrameSize. The ordinary path then appends W bytes (length prefix when the stream
// encrypts, payload, terminator) to the frame buffer. The frame that results must fit the receiver's limit R
// with the AES-GCM overhead: +16 always, +32 when it can be the first frame of a direction (no flush has sent a
// frame before it in this call). W, G and X2 are extracted as linear forms over len(...) atoms, separately
// for "stream encrypts" true/false (the prefix write and the +8 in the guard hang on the same SSA boolean).

import (
	"fmt"
	"go/token"
	"go/types"
	"sort"

	"golang.org/x/tools/go/ssa"
)

func init() { register("C01", c01r5) }

type c01Lin struct {
	k     int64
	atoms map[ssa.Value]int64
}

func (a c01Lin) add(b c01Lin, sign int64) c01Lin {
	out := c01Lin{k: a.k + sign*b.k, atoms: map[ssa.Value]int64{}}
	for v, c := range a.atoms {
		out.atoms[v] += c
	}
	for v, c := range b.atoms {
		out.atoms[v] += sign * c
	}
	for v, c := range out.atoms {
		if c == 0 {
			delete(out.atoms, v)
		}
	}
	return out
}

func (a c01Lin) isConst() bool { return len(a.atoms) == 0 }

func (a c01Lin) String() string {
	var parts []string
	for v, c := range a.atoms {
		parts = append(parts, fmt.Sprintf("%d*len(%s)", c, v.Name()))
	}
	sort.Strings(parts)
	s := fmt.Sprint(a.k)
	for _, p := range parts {
		s += "+" + p
	}
	return s
}

// c01PhiChoice picks the incoming value of a two-way phi whose merge is controlled by an assumed boolean.
func c01PhiChoice(phi *ssa.Phi, assume map[ssa.Value]bool) (ssa.Value, bool) {
	m := phi.Block()
	if len(phi.Edges) != 2 {
		return nil, false
	}
	b := m.Idom()
	if b == nil {
		return nil, false
	}
	ifi := blockIf(b)
	if ifi == nil {
		return nil, false
	}
	at := condAtom(ifi.Cond)
	if at.Op != token.ILLEGAL {
		return nil, false
	}
	val, ok := assume[at.X]
	if !ok {
		return nil, false
	}
	if at.Neg {
		val = !val
	}
	taken := b.Succs[1]
	if val {
		taken = b.Succs[0]
	}
	for i, p := range m.Preds {
		if taken == m {
			if p == b {
				return phi.Edges[i], true
			}
			continue
		}
		if p == taken || taken.Dominates(p) {
			return phi.Edges[i], true
		}
	}
	return nil, false
}

func c01EvalLin(v ssa.Value, assume map[ssa.Value]bool, depth int) (c01Lin, bool) {
	if depth > 30 {
		return c01Lin{}, false
	}
	switch x := v.(type) {
	case *ssa.Const:
		if k, ok := constInt(x); ok {
			return c01Lin{k: k}, true
		}
	case *ssa.Convert:
		if _, isInt := constInt(x); isInt {
			k, _ := constInt(x)
			return c01Lin{k: k}, true
		}
		if isBasic(x.Type()) && isBasic(x.X.Type()) {
			return c01EvalLin(x.X, assume, depth+1)
		}
	case *ssa.ChangeType:
		return c01EvalLin(x.X, assume, depth+1)
	case *ssa.BinOp:
		if x.Op == token.ADD || x.Op == token.SUB {
			a, ok1 := c01EvalLin(x.X, assume, depth+1)
			b, ok2 := c01EvalLin(x.Y, assume, depth+1)
			if ok1 && ok2 {
				if x.Op == token.ADD {
					return a.add(b, 1), true
				}
				return a.add(b, -1), true
			}
		}
	case *ssa.Phi:
		if e, ok := c01PhiChoice(x, assume); ok {
			return c01EvalLin(e, assume, depth+1)
		}
	case *ssa.Call:
		if b, ok := x.Call.Value.(*ssa.Builtin); ok && b.Name() == "len" {
			return c01LenLin(x.Call.Args[0]), true
		}
		// a same-module helper computing the size (e.g. wireLen(length, encrypted)): evaluate its single
		// feasible return under the assumptions carried by the arguments, parameters replaced by the arguments
		if g := x.Call.StaticCallee(); isModuleFn(g) && g.Signature.Results().Len() == 1 && isBasic(g.Signature.Results().At(0).Type()) && len(g.Params) == len(x.Call.Args) {
			assume2 := map[ssa.Value]bool{}
			for i, par := range g.Params {
				if val, ok := assume[x.Call.Args[i]]; ok {
					assume2[par] = val
				}
			}
			cuts := newCuts()
			for _, b := range g.Blocks {
				ifi := blockIf(b)
				if ifi == nil {
					continue
				}
				a := condAtom(ifi.Cond)
				if val, ok := assume2[a.X]; ok && a.Op == token.ILLEGAL {
					if a.Neg {
						val = !val
					}
					if val {
						cuts.AddEdges(Edge{b, 1})
					} else {
						cuts.AddEdges(Edge{b, 0})
					}
				}
			}
			var feasible []*ssa.Return
			for _, b := range g.Blocks {
				if len(b.Instrs) == 0 {
					continue
				}
				if ret, ok := b.Instrs[len(b.Instrs)-1].(*ssa.Return); ok && findPath(entryPoint(g), Target{Instr: ret}, cuts) != nil {
					feasible = append(feasible, ret)
				}
			}
			if len(feasible) == 1 {
				inner, ok := c01EvalLin(feasible[0].Results[0], assume2, depth+1)
				if ok {
					out := c01Lin{k: inner.k, atoms: map[ssa.Value]int64{}}
					for at, cf := range inner.atoms {
						sub := c01Lin{atoms: map[ssa.Value]int64{at: 1}}
						for i, par := range g.Params {
							if at == ssa.Value(par) {
								sub, _ = c01EvalLin(x.Call.Args[i], assume, depth+1)
							}
						}
						for j := int64(0); j < cf; j++ {
							out = out.add(sub, 1)
						}
						for j := int64(0); j > cf; j-- {
							out = out.add(sub, -1)
						}
					}
					return out, true
				}
			}
		}
	}
	return c01Lin{atoms: map[ssa.Value]int64{v: 1}}, true // opaque atom
}

// c01LenLin: the length of a byte slice / string value as a linear form.
func c01LenLin(x ssa.Value) c01Lin {
	switch y := x.(type) {
	case *ssa.MakeSlice:
		if k, ok := constInt(y.Len); ok {
			return c01Lin{k: k}
		}
	case *ssa.Const:
		if s, ok := constString(y); ok {
			return c01Lin{k: int64(len(s))}
		}
	case *ssa.Convert:
		// []byte(s) / string(b): same length
		return c01LenLin(y.X)
	case *ssa.BinOp:
		if y.Op == token.ADD { // string concatenation
			a, b := c01LenLin(y.X), c01LenLin(y.Y)
			return a.add(b, 1)
		}
	case *ssa.Slice:
		lo := int64(0)
		okLo := y.Low == nil
		if y.Low != nil {
			lo, okLo = constInt(y.Low)
		}
		if y.High != nil {
			if hi, ok := constInt(y.High); ok && okLo {
				return c01Lin{k: hi - lo}
			}
		} else if okLo {
			if pt, ok := y.X.Type().Underlying().(*types.Pointer); ok {
				if arr, ok := pt.Elem().Underlying().(*types.Array); ok {
					return c01Lin{k: arr.Len() - lo}
				}
			}
			if lo == 0 {
				return c01LenLin(y.X)
			}
		}
	}
	return c01Lin{atoms: map[ssa.Value]int64{x: 1}}
}

func c01r5(c *Ctx) {
	const rule = "C01-R5"
	c.Doc(rule, "PutString and PutStringBytes: with W = the bytes the ordinary path appends to the frame buffer (prefix iff encrypting + payload + terminator, as a linear form), G = the value compared with MaxFrameSize and X2 = the addend compared with TargetFrameSize in the flush decision: W-G is a constant, and the largest resulting frame fits the receiver limit with +16 (a flush preceded it) resp. +32 bytes of AES-GCM overhead (it may be the first frame of the direction: no FlushFrame and no W<=TargetFrameSize edge precedes the writes)")
	maxFrame, ok1 := c.c01ConstOf(rule, "message", "MaxFrameSize")
	target, ok2 := c.c01ConstOf(rule, "message", "TargetFrameSize")
	limit, ok3 := c.c01ConstOf(rule, "stream", "MaxMessageSize")
	flush := c.needFn(rule, "message", "(*Message).FlushFrame")
	bufF := c.needField(rule, "message", "Message", "buffer")
	isEncObj := c.msgIfaceMethod(rule, "IsEncrypted")
	if !ok1 || !ok2 || !ok3 || flush == nil || bufF == nil || isEncObj == nil {
		return
	}
	n := 0
	for _, name := range []string{"(*Message).PutString", "(*Message).PutStringBytes"} {
		fn := c.needFn(rule, "message", name)
		if fn == nil {
			continue
		}
		// the "stream encrypts" boolean
		var enc ssa.Value
		for _, cs := range callsIn(fn, isEncObj) {
			enc = cs.Value()
		}
		if enc == nil {
			// delegation: the encoder hands the whole value to the other string encoder, which is judged itself
			delegated := false
			for _, other := range []string{"(*Message).PutString", "(*Message).PutStringBytes"} {
				if g := c.LookupFn("message", other); g != nil && g != fn && len(callsIn(fn, g.Object())) > 0 {
					delegated = true
				}
			}
			if delegated {
				n += 2
				c.Ok(rule, fnName(fn)+"#delegates", "delegates to the other string encoder", fn.Pos())
				continue
			}
			c.Undecided(rule, fnName(fn)+"#IsEncrypted", "no IsEncrypted() call: cannot tell when the length prefix is written", fn.Pos())
			continue
		}
		// guard: X > MaxFrameSize
		var guard *ssa.If
		var gX ssa.Value
		for _, b := range fn.Blocks {
			ifi := blockIf(b)
			if ifi == nil {
				continue
			}
			a := condAtom(ifi.Cond)
			if a.Op == token.GTR && !a.Neg {
				if k, ok := constInt(a.Y); ok && k == maxFrame {
					if guard != nil {
						guard = nil
						break
					}
					guard, gX = ifi, a.X
				}
			}
		}
		if guard == nil {
			c.Undecided(rule, fnName(fn)+"#guard", "no unique 'x > MaxFrameSize' test selecting the split path", fn.Pos())
			continue
		}
		start := Edge{guard.Block(), 1}
		for _, encVal := range []bool{false, true} {
			n++
			construct := fmt.Sprintf("%s#frame-fits[encrypting=%v]", fnName(fn), encVal)
			assume := map[ssa.Value]bool{enc: encVal}
			// contrary edges of branches on the assumed boolean
			cuts := newCuts()
			for _, b := range fn.Blocks {
				ifi := blockIf(b)
				if ifi == nil {
					continue
				}
				a := condAtom(ifi.Cond)
				if a.Op == token.ILLEGAL && a.X == enc {
					t := encVal
					if a.Neg {
						t = !t
					}
					if t {
						cuts.AddEdges(Edge{b, 1})
					} else {
						cuts.AddEdges(Edge{b, 0})
					}
				}
			}
			succ := c.successTargets(fn)
			onPath := func(in ssa.Instruction) bool {
				if len(start.To().Instrs) == 0 || findPath(Point{start.To(), 0}, Target{Instr: in}, cuts) == nil {
					return false
				}
				for _, t := range succ {
					if findPath(after(in), t.Target(), cuts) != nil {
						return true
					}
				}
				return false
			}
			W := c01Lin{}
			undecided := ""
			var writes, flushes []ssa.Instruction
			allInstrs(fn, func(_ *ssa.BasicBlock, _ int, in ssa.Instruction) {
				call, ok := in.(*ssa.Call)
				if !ok || !onPath(in) {
					return
				}
				if calleeFn(call) == flush {
					flushes = append(flushes, in)
					return
				}
				w, isW, okW := c.c01WriteLinA(fn, call, bufF, flush, 0, assume)
				if !isW {
					return
				}
				if !okW {
					undecided = "cannot size the buffer write at " + c.Pos(call.Pos())
					return
				}
				if findPath(after(in), Target{Instr: in}, cuts) != nil {
					undecided = "a buffer write lies in a loop"
					return
				}
				writes = append(writes, in)
				W = W.add(w, 1)
			})
			if undecided != "" || len(writes) == 0 {
				if undecided == "" {
					undecided = "no buffer write found on the ordinary path"
				}
				c.Undecided(rule, construct, undecided, fn.Pos())
				continue
			}
			// every write lies on every ordinary success path (so W is the exact total)
			for _, w := range writes {
				for _, t := range succ {
					if len(start.To().Instrs) > 0 && findPath(Point{start.To(), 0}, t.Target(), newCuts().AddInstrs(w).AddEdges(edgeList(cuts)...)) != nil {
						undecided = "a buffer write is skipped on some ordinary path"
					}
				}
			}
			if undecided != "" {
				c.Undecided(rule, construct, undecided, fn.Pos())
				continue
			}
			G, _ := c01EvalLin(gX, assume, 0)
			slack := W.add(G, -1)
			if !slack.isConst() {
				c.Violate(rule, construct, fmt.Sprintf("the size guard compares %s with MaxFrameSize but the ordinary path writes %s: the guard does not bound what goes into the frame", G, W), guard.Pos())
				continue
			}
			boundGuard := maxFrame + slack.k
			// the flush decision: edges on which buffered + X2 <= TargetFrameSize with X2 >= W
			tEdges := []Edge{}
			for _, b := range fn.Blocks {
				ifi := blockIf(b)
				if ifi == nil {
					continue
				}
				a := condAtom(ifi.Cond)
				if a.Op != token.GTR || a.Neg {
					continue
				}
				if k, ok := constInt(a.Y); !ok || k != target {
					continue
				}
				sum, _ := c01EvalLin(a.X, assume, 0)
				d := sum.add(W, -1) // buffered + X2 - W must be >= 0 with only the Len() atom left
				okD := d.k >= 0
				for v, cf := range d.atoms {
					call, isCall := v.(*ssa.Call)
					if cf < 0 || !isCall || call.Call.Method == nil && calleeObj(call) == nil {
						okD = false
					}
				}
				if okD {
					tEdges = append(tEdges, Edge{b, 1})
				}
			}
			firstW := writes[0]
			// can the first write be reached with neither a flush nor a W<=Target edge before it?
			c2 := newCuts().AddInstrs(flushes...).AddEdges(tEdges...).AddEdges(edgeList(cuts)...)
			mayBeFirst := len(start.To().Instrs) > 0 && findPath(Point{start.To(), 0}, Target{Instr: firstW}, c2) != nil
			okFit := boundGuard+16 <= limit
			msg := fmt.Sprintf("largest ordinary-path frame = MaxFrameSize%+d = %d bytes; +16 <= %d", slack.k, boundGuard, limit)
			if mayBeFirst {
				okFit = okFit && boundGuard+32 <= limit
				msg += fmt.Sprintf("; it can be the first frame of a direction (no flush, no <=TargetFrameSize edge before the writes): +32 = %d must be <= %d", boundGuard+32, limit)
			} else {
				okFit = okFit && target+32 <= limit
				msg += "; without a preceding flush the frame is bounded by TargetFrameSize"
			}
			c.Check(okFit, rule, construct, msg, "a value the typed layer accepts produces a frame the stream layer refuses: "+msg, guard.Pos())
		}
	}
	c.MinCount(rule, "string encoders x encrypting", n, 4)
}

func edgeList(c *Cuts) []Edge {
	var out []Edge
	for e := range c.Edges {
		out = append(out, e)
	}
	return out
}

// c01WriteLin: if call appends to the message's frame buffer, the number of bytes as a linear form over the
// caller's values. A same-package method on the same receiver is evaluated with the caller's assumptions mapped
// onto its parameters (only the writes on its feasible paths count) and its parameters replaced by the arguments.
func (c *Ctx) c01WriteLin(fn *ssa.Function, call *ssa.Call, bufF interface{ Name() string }, flush *ssa.Function, depth int) (lin c01Lin, isWrite, ok bool) {
	return c.c01WriteLinA(fn, call, bufF, flush, depth, nil)
}

func (c *Ctx) c01WriteLinA(fn *ssa.Function, call *ssa.Call, bufF interface{ Name() string }, flush *ssa.Function, depth int, assume map[ssa.Value]bool) (lin c01Lin, isWrite, ok bool) {
	cc := call.Common()
	// direct bytes.Buffer methods on m.buffer
	if o := calleeObj(call); o != nil && o.Pkg() != nil && o.Pkg().Path() == "bytes" && len(cc.Args) > 0 {
		if _, f, isF := fieldRead(cc.Args[0]); isF && f.Name() == bufF.Name() {
			switch o.Name() {
			case "Write", "WriteString":
				return c01LenLin(cc.Args[1]), true, true
			case "WriteByte":
				return c01Lin{k: 1}, true, true
			case "Len", "Bytes", "Reset", "Cap":
				return c01Lin{}, false, true
			}
			return c01Lin{}, true, false
		}
	}
	g := calleeFn(call)
	if g == nil || g.Blocks == nil || fnPkg(g) != fnPkg(fn) || g == flush || len(cc.Args) == 0 || len(fn.Params) == 0 || cc.Args[0] != ssa.Value(fn.Params[0]) || len(g.Params) != len(cc.Args) {
		return c01Lin{}, false, true
	}
	if depth > 3 {
		return c01Lin{}, true, false
	}
	assume2 := map[ssa.Value]bool{}
	for i, par := range g.Params {
		if val, known := assume[cc.Args[i]]; known {
			assume2[par] = val
		}
	}
	cuts := newCuts()
	for _, b := range g.Blocks {
		ifi := blockIf(b)
		if ifi == nil {
			continue
		}
		a := condAtom(ifi.Cond)
		if val, known := assume2[a.X]; known && a.Op == token.ILLEGAL {
			if a.Neg {
				val = !val
			}
			if val {
				cuts.AddEdges(Edge{b, 1})
			} else {
				cuts.AddEdges(Edge{b, 0})
			}
		}
	}
	succ := c.successTargets(g)
	total := c01Lin{}
	any, bad := false, false
	allInstrs(g, func(_ *ssa.BasicBlock, _ int, in ssa.Instruction) {
		sub, isCall := in.(*ssa.Call)
		if !isCall || bad {
			return
		}
		// only sites on a feasible path to a success return
		if findPath(entryPoint(g), Target{Instr: in}, cuts) == nil {
			return
		}
		reach := false
		for _, t := range succ {
			if findPath(after(in), t.Target(), cuts) != nil {
				reach = true
			}
		}
		if !reach {
			return
		}
		w, isW, okW := c.c01WriteLinA(g, sub, bufF, flush, depth+1, assume2)
		if !isW {
			return
		}
		any = true
		if !okW || findPath(after(in), Target{Instr: in}, cuts) != nil {
			bad = true
			return
		}
		// every counted site must lie on every feasible success path of the helper
		for _, t := range succ {
			if findPath(entryPoint(g), t.Target(), newCuts().AddInstrs(in).AddEdges(edgeList(cuts)...)) != nil {
				bad = true
			}
		}
		total = total.add(w, 1)
	})
	if !any {
		return c01Lin{}, false, true
	}
	if bad {
		return c01Lin{}, true, false
	}
	// replace the helper's parameters by the caller's arguments
	out := c01Lin{k: total.k, atoms: map[ssa.Value]int64{}}
	for at, cf := range total.atoms {
		sub := c01Lin{atoms: map[ssa.Value]int64{at: 1}}
		for i, par := range g.Params {
			if at == ssa.Value(par) {
				// an atom keyed by a []byte/string parameter stands for its length
				if isBasic(par.Type()) && par.Type().Underlying().(*types.Basic).Info()&types.IsString == 0 {
					sub, _ = c01EvalLin(cc.Args[i], assume, 0)
				} else {
					sub = c01LenLin(cc.Args[i])
				}
			}
		}
		for j := int64(0); j < cf; j++ {
			out = out.add(sub, 1)
		}
		for j := int64(0); j > cf; j-- {
			out = out.add(sub, -1)
		}
	}
	return out, true, true
}

func (c *Ctx) msgIfaceMethod(rule, name string) *ssaTypesFunc {
	if tp := c.PkgTypes("message"); tp != nil {
		if si := tp.Scope().Lookup("StreamInterface"); si != nil {
			if o, _, _ := typesLookup(si.Type(), tp, name); o != nil {
				return o
			}
		}
	}
	c.AnchorMissing(rule, "message.StreamInterface."+name)
	return nil
}
