package main

import (
	"fmt"
	"go/token"
	"go/types"
	"os"
	"sort"
	"strings"

	"golang.org/x/tools/go/callgraph"
	"golang.org/x/tools/go/callgraph/cha"
	"golang.org/x/tools/go/callgraph/vta"
	"golang.org/x/tools/go/packages"
	"golang.org/x/tools/go/ssa"
	"golang.org/x/tools/go/ssa/ssautil"
)

// ModPath is the module path of the repository under analysis.
const ModPath = "github.com/bbockelm/cedar"

// Prog is the loaded, type-checked whole program: packages, SSA form and call graph.
type Prog struct {
	Repo   string
	GOOS   string
	GOARCH string
	Pkgs   []*packages.Package
	All    map[string]*packages.Package // every package in the import closure, by path
	SSA    *ssa.Program
	Fset   *token.FileSet
	cg     *callgraph.Graph
	allFns map[*ssa.Function]bool
	// ModFns are all SSA functions (incl. anonymous) whose package is in the module.
	ModFns []*ssa.Function

	Ignored []string // files go list excluded by build constraints
}

// Load loads the whole program rooted at repo for the given GOOS/GOARCH.
func Load(repo, goos, goarch string) (*Prog, error) {
	env := append(os.Environ(), "GOFLAGS=-mod=mod", "GOPROXY=off", "GOTOOLCHAIN=local", "GOWORK=off")
	if goos != "" {
		env = append(env, "GOOS="+goos)
	}
	if goarch != "" {
		env = append(env, "GOARCH="+goarch, "CGO_ENABLED=0")
	}
	cfg := &packages.Config{
		Mode:  packages.LoadAllSyntax,
		Dir:   repo,
		Env:   env,
		Tests: false,
	}
	pkgs, err := packages.Load(cfg, "./...")
	if err != nil {
		return nil, fmt.Errorf("load: %w", err)
	}
	if len(pkgs) == 0 {
		return nil, fmt.Errorf("load: zero packages matched in %s", repo)
	}
	var errs []string
	packages.Visit(pkgs, nil, func(p *packages.Package) {
		for _, e := range p.Errors {
			errs = append(errs, e.Error())
		}
	})
	if len(errs) > 0 {
		sort.Strings(errs)
		if len(errs) > 10 {
			errs = errs[:10]
		}
		return nil, fmt.Errorf("load: type/parse errors: %s", strings.Join(errs, "; "))
	}
	p := &Prog{Repo: repo, GOOS: goos, GOARCH: goarch, Pkgs: pkgs, All: map[string]*packages.Package{}}
	packages.Visit(pkgs, nil, func(pk *packages.Package) {
		p.All[pk.PkgPath] = pk
		for _, f := range pk.IgnoredFiles {
			if strings.HasPrefix(pk.PkgPath, ModPath) {
				p.Ignored = append(p.Ignored, f)
			}
		}
	})
	sort.Strings(p.Ignored)
	prog, _ := ssautil.AllPackages(pkgs, ssa.InstantiateGenerics)
	prog.Build()
	p.SSA = prog
	p.Fset = prog.Fset
	p.allFns = ssautil.AllFunctions(prog)
	for fn := range p.allFns {
		if fn.Pkg != nil && inModule(fn.Pkg.Pkg.Path()) && fn.Blocks != nil {
			p.ModFns = append(p.ModFns, fn)
		} else if fn.Pkg == nil && fn.Parent() == nil && fn.Origin() != nil && fn.Origin().Pkg != nil && inModule(fn.Origin().Pkg.Pkg.Path()) && fn.Blocks != nil {
			p.ModFns = append(p.ModFns, fn)
		}
	}
	for _, fn := range p.ModFns {
		despillReturns(fn)
	}
	sort.Slice(p.ModFns, func(i, j int) bool {
		a, b := p.ModFns[i], p.ModFns[j]
		if a.String() != b.String() {
			return a.String() < b.String()
		}
		return a.Pos() < b.Pos()
	})
	return p, nil
}

func inModule(path string) bool {
	return path == ModPath || strings.HasPrefix(path, ModPath+"/")
}

// libPkg reports whether the module package is library code (not examples, cmd, test scaffolding).
func libPkg(path string) bool {
	if !inModule(path) {
		return false
	}
	rel := strings.TrimPrefix(strings.TrimPrefix(path, ModPath), "/")
	for _, ex := range []string{"examples", "cmd/", "internal/condortest", "integration"} {
		if rel == strings.TrimSuffix(ex, "/") || strings.HasPrefix(rel, ex) {
			return false
		}
	}
	return true
}

// CG returns the VTA-over-CHA call graph, built on first use.
func (p *Prog) CG() *callgraph.Graph {
	if p.cg == nil {
		p.cg = vta.CallGraph(p.allFns, cha.CallGraph(p.SSA))
	}
	return p.cg
}

// Pos renders a position relative to the repository root.
func (p *Prog) Pos(pos token.Pos) string {
	if !pos.IsValid() {
		return "-"
	}
	ps := p.Fset.Position(pos)
	f := ps.Filename
	if strings.HasPrefix(f, p.Repo+"/") {
		f = f[len(p.Repo)+1:]
	}
	return fmt.Sprintf("%s:%d", f, ps.Line)
}

// PkgTypes returns the types.Package for a module-relative path ("stream") or a full import path.
func (p *Prog) PkgTypes(rel string) *types.Package {
	full := rel
	if _, ok := p.All[full]; !ok {
		full = ModPath + "/" + rel
	}
	if pk, ok := p.All[full]; ok {
		return pk.Types
	}
	return nil
}

// SSAPkg returns the SSA package for a module-relative or full import path.
func (p *Prog) SSAPkg(rel string) *ssa.Package {
	tp := p.PkgTypes(rel)
	if tp == nil {
		return nil
	}
	return p.SSA.Package(tp)
}

// LookupFn resolves "Name", "(*T).M" or "T.M" in the given package to an SSA function.
func (p *Prog) LookupFn(rel, name string) *ssa.Function {
	tp := p.PkgTypes(rel)
	if tp == nil {
		return nil
	}
	obj := p.LookupObj(rel, name)
	if f, ok := obj.(*types.Func); ok {
		return p.SSA.FuncValue(f)
	}
	return nil
}

// LookupObj resolves a package-level object, a method "(*T).M"/"T.M" or a field "T.f".
func (p *Prog) LookupObj(rel, name string) types.Object {
	tp := p.PkgTypes(rel)
	if tp == nil {
		return nil
	}
	name = strings.TrimPrefix(name, "(")
	name = strings.Replace(name, ")", "", 1)
	name = strings.TrimPrefix(name, "*")
	if i := strings.Index(name, "."); i >= 0 {
		tn, mn := name[:i], name[i+1:]
		tobj := tp.Scope().Lookup(tn)
		if tobj == nil {
			return nil
		}
		obj, _, _ := types.LookupFieldOrMethod(tobj.Type(), true, tp, mn)
		return obj
	}
	return tp.Scope().Lookup(name)
}

// Field resolves struct field T.f.
func (p *Prog) Field(rel, typ, field string) *types.Var {
	v, _ := p.LookupObj(rel, typ+"."+field).(*types.Var)
	return v
}

// FnsNamed returns module functions (incl. closures) whose String() has the given suffix match.
func (p *Prog) FnsOfPkg(rel string) []*ssa.Function {
	tp := p.PkgTypes(rel)
	var out []*ssa.Function
	for _, f := range p.ModFns {
		if fnPkg(f) == tp {
			out = append(out, f)
		}
	}
	return out
}

func fnPkg(f *ssa.Function) *types.Package {
	for f.Parent() != nil {
		f = f.Parent()
	}
	if f.Pkg != nil {
		return f.Pkg.Pkg
	}
	if f.Origin() != nil && f.Origin().Pkg != nil {
		return f.Origin().Pkg.Pkg
	}
	return nil
}

// fnName is a stable, line-free name of a function: pkgrel.(*T).M or pkgrel.F$1.
func fnName(f *ssa.Function) string {
	if f == nil {
		return "<nil>"
	}
	s := f.String()
	s = strings.ReplaceAll(s, ModPath+"/", "")
	s = strings.ReplaceAll(s, ModPath+".", "cedar.")
	return s
}

// despillReturns undoes go/ssa's result spilling in functions that contain a defer: there every
// "return v" is built as "*r = v; rundefers; t = *r; return t" with r a cell per result. When the cell is only
// stored to and loaded from in the function itself (captured at most by closures that only read it: no
// deferred closure can change it) and the store precedes the load in the
// same block with no other store to the cell in between, the return operand is replaced by the stored value,
// so the rules see the same shape whether or not the function has a defer. The recover block's return (no
// predecessor) is left alone.
func despillReturns(fn *ssa.Function) {
	if fn.Recover == nil {
		return
	}
	for _, b := range fn.Blocks {
		if len(b.Instrs) == 0 || b == fn.Recover {
			continue
		}
		ret, ok := b.Instrs[len(b.Instrs)-1].(*ssa.Return)
		if !ok {
			continue
		}
		for i, rv := range ret.Results {
			ld, ok := rv.(*ssa.UnOp)
			if !ok || ld.Op != token.MUL || ld.Block() != b {
				continue
			}
			al, ok := ld.X.(*ssa.Alloc)
			if !ok || al.Referrers() == nil {
				continue
			}
			plain := true
			for _, r := range *al.Referrers() {
				switch x := r.(type) {
				case *ssa.Store:
					if x.Addr != ssa.Value(al) {
						plain = false
					}
				case *ssa.UnOp, *ssa.DebugRef:
				case *ssa.MakeClosure:
					// a closure (typically the deferred one) that only reads the cell cannot change the result
					if !closureOnlyReads(x, al, 0) {
						plain = false
					}
				default:
					plain = false
				}
			}
			if !plain {
				continue
			}
			var val ssa.Value
			var spill *ssa.Store
			for _, in := range b.Instrs {
				if in == ssa.Instruction(ld) {
					break
				}
				if st, ok := in.(*ssa.Store); ok && st.Addr == ssa.Value(al) {
					val, spill = st.Val, st
				}
			}
			if val == nil {
				continue
			}
			ret.Results[i] = val
			if refs := val.Referrers(); refs != nil {
				// the return takes the spill store's place among the value's uses ("the error is only returned"
				// must read the same with and without a defer in the function)
				kept := (*refs)[:0]
				for _, r := range *refs {
					if r != ssa.Instruction(spill) {
						kept = append(kept, r)
					}
				}
				*refs = append(kept, ret)
			}
			if refs := ld.Referrers(); refs != nil {
				kept := (*refs)[:0]
				for _, r := range *refs {
					if r != ssa.Instruction(ret) {
						kept = append(kept, r)
					}
				}
				*refs = kept
			}
		}
	}
}

// closureOnlyReads: the closure made by mc uses the captured cell only by loading from it (also in closures
// it makes in turn, to depth 2).
func closureOnlyReads(mc *ssa.MakeClosure, cell ssa.Value, depth int) bool {
	g, ok := mc.Fn.(*ssa.Function)
	if !ok || depth > 2 {
		return false
	}
	for i, b := range mc.Bindings {
		if b != cell || i >= len(g.FreeVars) {
			continue
		}
		fv := g.FreeVars[i]
		if fv.Referrers() == nil {
			return false
		}
		for _, r := range *fv.Referrers() {
			switch x := r.(type) {
			case *ssa.UnOp, *ssa.DebugRef:
			case *ssa.MakeClosure:
				if !closureOnlyReads(x, fv, depth+1) {
					return false
				}
			default:
				return false
			}
		}
	}
	return true
}
