package main

// C10 — honest peers negotiate by the policy table and agree on the result.
// Needs help_c03.go (handshake anchors) and help_c10.go (T-TAB evaluator).

import (
	"fmt"
	"go/token"
	"go/types"
	"sort"
	"strings"

	"golang.org/x/tools/go/ssa"
)

func init() { register("C10", c10r1, c10r2, c10r3, c10r4, c10r5, c10r6) }

// abstract objects of the table rows
const (
	c10ObjNeg    = 1 // the *SecurityNegotiation
	c10ObjAuth   = 2 // the *Authenticator
	c10ObjServer = 3 // negotiation.ServerConfig
	c10ObjClient = 4 // negotiation.ClientConfig
)

// c10Shape is one shape of the two method lists of a row.
type c10Shape struct {
	name           string
	server, client []string
}

// c10Common is the ORACLE for "a mutually supported method exists", written from the property
// statement and the anchor "method and cipher intersection in server preference order": the first
// entry of the server's list, other than the no-method marker, that the client lists too.
func c10Common(server, client []string, none string) (string, bool) {
	for _, s := range server {
		if s == none || s == "" {
			continue
		}
		for _, cl := range client {
			if cl == s {
				return s, true
			}
		}
	}
	return "", false
}

// c10Want is the ORACLE decision for one feature (authentication or encryption), written from
// properties.jsonl C10: "the handshake fails exactly when one side requires what the other forbids
// or a required feature has no mutually supported method ... authentication runs whenever either
// side requires it, or either prefers it while neither forbids it and a mutually usable method
// exists; encryption is on whenever either side requires it". on=nil means the statement leaves the
// cell free (checked for agreement only).
func (A *c03Anchors) c10Want(server, client string, common, isAuth bool) (fail bool, on *bool) {
	t, f := true, false
	req := server == A.required || client == A.required
	nev := server == A.never || client == A.never
	pref := server == A.preferred || client == A.preferred
	if req && nev {
		return true, nil
	}
	if req {
		if !common {
			return true, nil
		}
		return false, &t
	}
	if !isAuth {
		return false, nil // PREFERRED/OPTIONAL/NEVER encryption: free
	}
	if pref && !nev && common {
		return false, &t
	}
	return false, &f
}

type c10Tab struct {
	c       *Ctx
	A       *c03Anchors
	rule    string
	cache   map[string]*c10Res
	retMemo map[*ssa.Function][]RetPoint
	openSum map[*ssa.BasicBlock]*c10Open
}

// c10Shared keeps the evaluated rows of one run (one Ctx) so that R1, R2 and R3 do not re-evaluate the
// same rows; c10r6, the property's last rule, drops it again.
var c10Shared = map[*Ctx]*c10Tab{}

func newC10Tab(c *Ctx, A *c03Anchors, rule string) *c10Tab {
	if t, ok := c10Shared[c]; ok {
		return &c10Tab{c: c, A: A, rule: rule, cache: t.cache, retMemo: t.retMemo, openSum: t.openSum}
	}
	t := &c10Tab{c: c, A: A, rule: rule, cache: map[string]*c10Res{}, retMemo: map[*ssa.Function][]RetPoint{}, openSum: map[*ssa.BasicBlock]*c10Open{}}
	c10Shared[c] = t
	return t
}

// c10Open summarises structurally what follows a branch the policy inputs do not decide.
type c10Open struct {
	bad     string // non-empty: why the remainder cannot be summarised
	badPos  token.Pos
	hasFlag bool // the remainder assigns Authentication a constant on every success path
	flag    bool
}

// c10Res is the outcome of evaluating negotiateSecurity for one row.
type c10Res struct {
	out                c10tOutcome
	auth, enc, enact   c10tVal
	negAuth, negCrypto c10tVal
}

func (t *c10Tab) levels() []string {
	return []string{t.A.required, t.A.preferred, t.A.optional, t.A.never}
}

func (t *c10Tab) authShapes() []c10Shape {
	n := t.A.authNone
	return []c10Shape{
		{"same single method", []string{"M1"}, []string{"M1"}},
		{"disjoint", []string{"M1"}, []string{"M2"}},
		{"server list empty", nil, []string{"M1"}},
		{"client list empty", []string{"M1"}, nil},
		{"overlap, different order, with " + n, []string{n, "M1", "M2"}, []string{"M2", n, "M1"}},
		{"only " + n + " in common", []string{n, "M1"}, []string{n, "M2"}},
		// disjoint lists drawn from one "family" of real method names: a match-by-family shortcut in one of
		// the two intersections (but not the other) would make the ends disagree
		{"disjoint, token family", []string{"TOKEN"}, []string{"SCITOKENS"}},
		{"disjoint, token family (2)", []string{"IDTOKENS"}, []string{"TOKEN"}},
	}
}

func (t *c10Tab) cryptoShapes() []c10Shape {
	return []c10Shape{
		{"same cipher", []string{"AES"}, []string{"AES"}},
		{"no common cipher", []string{"X1"}, []string{"X2"}},
		{"overlap, different order", []string{"X1", "AES"}, []string{"AES", "X1"}},
	}
}

// bind maps the parameters of a handshake function to the abstract objects by type.
func (t *c10Tab) bind(fn *ssa.Function, st *c10tState) {
	for _, p := range fn.Params {
		pt, ok := p.Type().(*types.Pointer)
		if !ok {
			continue
		}
		if nt, ok := pt.Elem().(*types.Named); ok {
			switch nt.Obj().Name() {
			case "SecurityNegotiation":
				st.env[p] = c10tPtr(c10ObjNeg)
			case "Authenticator":
				st.env[p] = c10tPtr(c10ObjAuth)
			}
		}
	}
}

// initFn builds the initial content of the abstract objects for one row. localIsClient selects what
// a.config points at. The negotiation starts as the zero value (both callers pass a fresh literal;
// checked by freshNegotiation).
func (t *c10Tab) initFn(localIsClient bool, sAuth, cAuth, sEnc, cEnc string, am, cm c10Shape) func(c10tLoc) (c10tVal, bool) {
	A := t.A
	f := func(v *types.Var) string { return "." + v.Name() }
	local := c10ObjServer
	if localIsClient {
		local = c10ObjClient
	}
	m := map[c10tLoc]c10tVal{
		{c10ObjNeg, f(A.negServerConfig)}:      c10tPtr(c10ObjServer),
		{c10ObjNeg, f(A.negClientConfig)}:      c10tPtr(c10ObjClient),
		{c10ObjAuth, f(A.aConfig)}:             c10tPtr(local),
		{c10ObjNeg, f(A.negAuthentication)}:    c10tBool(false),
		{c10ObjNeg, f(A.negEncryption)}:        c10tBool(false),
		{c10ObjNeg, f(A.negEnact)}:             c10tBool(false),
		{c10ObjNeg, f(A.negNegotiatedAuth)}:    c10tStr(""),
		{c10ObjNeg, f(A.negNegotiatedCrypto)}:  c10tStr(""),
		{c10ObjServer, f(A.cfgAuthentication)}: c10tStr(sAuth),
		{c10ObjClient, f(A.cfgAuthentication)}: c10tStr(cAuth),
		{c10ObjServer, f(A.cfgEncryption)}:     c10tStr(sEnc),
		{c10ObjClient, f(A.cfgEncryption)}:     c10tStr(cEnc),
		{c10ObjServer, f(A.cfgAuthMethods)}:    c10tStrList(am.server...),
		{c10ObjClient, f(A.cfgAuthMethods)}:    c10tStrList(am.client...),
		{c10ObjServer, f(A.cfgCryptoMethods)}:  c10tStrList(cm.server...),
		{c10ObjClient, f(A.cfgCryptoMethods)}:  c10tStrList(cm.client...),
	}
	return func(l c10tLoc) (c10tVal, bool) { v, ok := m[l]; return v, ok }
}

func (t *c10Tab) tracked() map[int]bool {
	return map[int]bool{c10ObjNeg: true, c10ObjAuth: true, c10ObjServer: true, c10ObjClient: true}
}

func (t *c10Tab) field(st *c10tState, e *c10tEval, v *types.Var) c10tVal {
	return e.load(st, c10tLoc{c10ObjNeg, "." + v.Name()})
}

// negotiate evaluates negotiateSecurity for one row (memoised). The returned state is shared: clone before reuse.
func (t *c10Tab) negotiate(localIsClient bool, sAuth, cAuth, sEnc, cEnc string, am, cm c10Shape) (*c10Res, *c10tEval) {
	e := &c10tEval{p: t.c.Prog, tracked: t.tracked(), retMemo: t.retMemo, init: t.initFn(localIsClient, sAuth, cAuth, sEnc, cEnc, am, cm)}
	key := fmt.Sprint(localIsClient, sAuth, cAuth, sEnc, cEnc, am.name, cm.name)
	if r, ok := t.cache[key]; ok {
		return r, e
	}
	st := newC10tState()
	t.bind(t.A.negotiate, st)
	outs := e.run(t.A.negotiate, t.A.negotiate.Blocks[0], nil, st)
	r := &c10Res{}
	if len(outs) != 1 {
		r.out = c10tOutcome{kind: "undecided", why: "more than one path"}
	} else {
		r.out = outs[0]
		r.auth = t.field(r.out.st, e, t.A.negAuthentication)
		r.enc = t.field(r.out.st, e, t.A.negEncryption)
		r.enact = t.field(r.out.st, e, t.A.negEnact)
		r.negAuth = t.field(r.out.st, e, t.A.negNegotiatedAuth)
		r.negCrypto = t.field(r.out.st, e, t.A.negNegotiatedCrypto)
	}
	t.cache[key] = r
	return r, e
}

// freshNegotiation: at every call of negotiateSecurity the negotiation is a fresh composite literal
// of the calling function whose outcome fields have not been assigned (so the zero values assumed by
// the rows are the real initial state). When the caller is itself a helper that receives the
// negotiation as a parameter, the same is required of each of its callers (and nothing on the way
// from the helper's entry to the call may assign the fields).
func (t *c10Tab) freshNegotiation() int {
	A := t.A
	outcome := func(f *types.Var) bool {
		switch f {
		case A.negAuthentication, A.negEncryption, A.negEnact, A.negNegotiatedAuth, A.negNegotiatedCrypto:
			return true
		}
		return false
	}
	// assignedBefore: an outcome field of the negotiation held in v (an Alloc or a Parameter of fn) is stored on a way to call
	assignedBefore := func(fn *ssa.Function, v ssa.Value, call ssa.Instruction) string {
		bad := ""
		if v.Referrers() == nil {
			return bad
		}
		for _, r := range *v.Referrers() {
			fa, ok := r.(*ssa.FieldAddr)
			if !ok || !outcome(fieldOfAddr(fa)) {
				continue
			}
			for _, u := range *fa.Referrers() {
				if st, ok := u.(*ssa.Store); ok && st.Addr == fa && findPath(after(st), Target{Instr: call}, nil) != nil {
					bad = fieldOfAddr(fa).Name()
				}
			}
		}
		return bad
	}
	var check func(fn *ssa.Function, call ssa.CallInstruction, arg ssa.Value, depth int) string
	check = func(fn *ssa.Function, call ssa.CallInstruction, arg ssa.Value, depth int) string {
		switch x := arg.(type) {
		case *ssa.Alloc:
			if f := assignedBefore(fn, x, call); f != "" {
				return "field " + f + " of the negotiation is assigned before negotiateSecurity runs: the table's initial state is not the zero value"
			}
			return ""
		case *ssa.Parameter:
			if f := assignedBefore(fn, x, call); f != "" {
				return "field " + f + " of the negotiation is assigned before negotiateSecurity runs: the table's initial state is not the zero value"
			}
			idx := c03ParamIndex(fn, x)
			sites := t.c.callSites(fn.Object())
			if depth >= InlineDepth || idx < 0 || fn.Object() == nil || len(sites) == 0 {
				break
			}
			for _, up := range sites {
				if up.Call.Common().IsInvoke() || idx >= len(up.Call.Common().Args) {
					return "the negotiation passed to negotiateSecurity is not a fresh literal of the caller: the table's initial state (zero outcome fields) is not established"
				}
				if why := check(up.Fn, up.Call, up.Call.Common().Args[idx], depth+1); why != "" {
					return why
				}
			}
			return ""
		}
		// built by a constructor helper: every value it returns is a fresh literal whose outcome fields
		// the helper leaves alone, and the caller does not assign them before the call either
		if _, isCall := arg.(*ssa.Call); isCall {
			if f := assignedBefore(fn, arg, call); f != "" {
				return "field " + f + " of the negotiation is assigned before negotiateSecurity runs: the table's initial state is not the zero value"
			}
			leaves := c03OriginsF(c03Root(fn), arg, nil)
			for _, lf := range leaves {
				al, isAlloc := lf.v.(*ssa.Alloc)
				if !isAlloc || lf.fr.up == nil {
					leaves = nil
					break
				}
				for _, r := range *al.Referrers() {
					if fa, ok := r.(*ssa.FieldAddr); ok && outcome(fieldOfAddr(fa)) {
						for _, u := range *fa.Referrers() {
							if st, ok := u.(*ssa.Store); ok && st.Addr == fa {
								return "field " + fieldOfAddr(fa).Name() + " of the negotiation is assigned by the helper that builds it: the table's initial state is not the zero value"
							}
						}
					}
				}
			}
			if len(leaves) > 0 {
				return ""
			}
		}
		return "the negotiation passed to negotiateSecurity is not a fresh literal of the caller: the table's initial state (zero outcome fields) is not established"
	}
	n := 0
	for _, cs := range t.c.callSites(A.negotiate.Object()) {
		n++
		args := callArgs(cs.Call)
		construct := fnName(cs.Fn) + "#negotiateSecurity(arg)"
		if why := check(cs.Fn, cs.Call, args[len(args)-1], 0); why != "" {
			t.c.Undecided(t.rule, construct, why, cs.Call.Pos())
		} else {
			t.c.Ok(t.rule, construct, "negotiation is a fresh literal with zero outcome fields", cs.Call.Pos())
		}
	}
	return n
}

func c10Bool(v c10tVal) string {
	if b, ok := v.isBool(); ok {
		return fmt.Sprint(b)
	}
	return "?"
}

// ---------------------------------------------------------------------------
// C10-R1: the server's decision table

func c10r1(c *Ctx) {
	const rule = "C10-R1"
	defer c03Timed(c, rule)()
	c.Doc(rule, "T-TAB: negotiateSecurity is evaluated by constant folding over its SSA for every (server level x client level) of authentication and of encryption x method-list shapes x cipher-list shapes; each row's (error?, Authentication, Encryption, NegotiatedAuth, NegotiatedCrypto) is compared with the decision written from the property statement (fail iff REQUIRED meets NEVER or a required feature has no common method; authenticate iff a side requires it, or a side prefers it, neither forbids it and a common method exists; encrypt whenever a side requires it; methods chosen in server preference order) Where a check, store or call is looked for, same-module helpers are followed to depth 4 (boolean predicates and value helpers with parameters mapped to arguments, same-package error-returning and effect helpers), and conditions materialised in local booleans are resolved per incoming value.")
	A := c.handshakeAnchors(rule)
	if !A.ok {
		return
	}
	t := newC10Tab(c, A, rule)
	// (structural minimum: somebody calls negotiateSecurity; both handshakes may share one call site)
	c.MinCount(rule, "negotiateSecurity call sites with a fresh negotiation", t.freshNegotiation(), 1)
	type cell struct{ kind, s, cl string }
	bad := map[cell]string{}
	badPos := map[cell]token.Pos{}
	rows := 0
	und := 0
	for _, sa := range t.levels() {
		for _, ca := range t.levels() {
			for _, se := range t.levels() {
				for _, ce := range t.levels() {
					for _, am := range t.authShapes() {
						for _, cm := range t.cryptoShapes() {
							rows++
							r, _ := t.negotiate(false, sa, ca, se, ce, am, cm)
							desc := fmt.Sprintf("auth server=%s client=%s, enc server=%s client=%s, methods %q, ciphers %q", sa, ca, se, ce, am.name, cm.name)
							if r.out.kind != "success" && r.out.kind != "error" {
								und++
								if und <= 3 {
									c.Undecided(rule, "negotiateSecurity#row-not-evaluable", "row ("+desc+") leaves the evaluable subset: "+r.out.why, r.out.pos)
								}
								continue
							}
							wantM, commonA := c10Common(am.server, am.client, A.authNone)
							wantC, commonC := c10Common(cm.server, cm.client, "")
							failA, onA := A.c10Want(sa, ca, commonA, true)
							failE, onE := A.c10Want(se, ce, commonC, false)
							ac, ec := cell{"auth", sa, ca}, cell{"enc", se, ce}
							note := func(k cell, msg string) {
								if _, dup := bad[k]; !dup {
									bad[k] = msg + " [row: " + desc + "]"
									badPos[k] = r.out.pos
								}
							}
							gotFail := r.out.kind == "error"
							if gotFail != (failA || failE) {
								// attribute to the half whose marginal row (other feature neutral) also disagrees
								ra, _ := t.negotiate(false, sa, ca, A.never, A.never, am, t.cryptoShapes()[0])
								re, _ := t.negotiate(false, A.never, A.never, se, ce, t.authShapes()[0], cm)
								ma := (ra.out.kind == "error") != failA
								me := (re.out.kind == "error") != failE
								msg := fmt.Sprintf("handshake %s but the stated policy says it must %s", map[bool]string{true: "fails", false: "succeeds"}[gotFail], map[bool]string{true: "fail", false: "succeed"}[failA || failE])
								if ma || !me {
									note(ac, msg)
								}
								if me || !ma {
									note(ec, msg)
								}
								continue
							}
							if gotFail {
								continue
							}
							if b, ok := r.auth.isBool(); !ok {
								note(ac, "Authentication is not determined by the inputs")
							} else if onA != nil && b != *onA {
								note(ac, fmt.Sprintf("Authentication=%v but the stated policy says %v", b, *onA))
							} else if b {
								if m, _ := r.negAuth.isStr(); m != wantM {
									note(ac, fmt.Sprintf("authentication is on but NegotiatedAuth=%q, expected the first mutually supported method in server order %q", m, wantM))
								}
							}
							if b, ok := r.enc.isBool(); !ok {
								note(ec, "Encryption is not determined by the inputs")
							} else if onE != nil && b != *onE {
								note(ec, fmt.Sprintf("Encryption=%v but a side requires encryption", b))
							} else if b {
								if m, _ := r.negCrypto.isStr(); m != wantC {
									note(ec, fmt.Sprintf("encryption is on but NegotiatedCrypto=%q, expected the first mutually supported cipher in server order %q", m, wantC))
								}
							}
						}
					}
				}
			}
		}
	}
	for _, kind := range []string{"auth", "enc"} {
		for _, s := range t.levels() {
			for _, cl := range t.levels() {
				k := cell{kind, s, cl}
				construct := fmt.Sprintf("negotiateSecurity#%s[server=%s,client=%s]", kind, s, cl)
				if msg, isBad := bad[k]; isBad {
					c.Violate(rule, construct, msg, badPos[k])
				} else {
					c.Ok(rule, construct, "all rows of this cell match the stated policy", A.negotiate.Pos())
				}
			}
		}
	}
	c.MinCount(rule, "table rows evaluated", rows-und, 16*16*6*3)
}

// ---------------------------------------------------------------------------
// publication of the server's decision and the client's view

// c10ReaderAttrs: the attribute names whose value parseServerSecurityAd stores into SecurityConfig.field.
// The store may sit in a helper of the parser, the value may come through value helpers (the attribute
// name then being an argument), and a same-package function of one argument is taken as a parser of
// that argument (parseMethodsList(x)).
func (t *c10Tab) readerAttrs(field *types.Var) []string {
	var names []string
	isParser := func(g *ssa.Function) bool { return c03SamePkg(g, t.A.parseAd) && len(g.Params) == 1 }
	var follow func(fr *c03Frame, v ssa.Value, d int)
	follow = func(fr *c03Frame, v ssa.Value, d int) {
		if d > 4 {
			return
		}
		for _, lf := range c03OriginsF(fr, v, isParser) {
			call, idx := originCall(lf.v)
			if call == nil || idx != 0 {
				continue
			}
			if g := calleeFn(call); g != nil && isParser(g) && len(call.Common().Args) == 1 {
				follow(lf.fr, call.Common().Args[0], d+1)
				continue
			}
			if o := calleeObj(call); o == nil || o.Pkg() == nil || o.Pkg().Name() != "classad" || !c03IsEvaluate(o.Name()) {
				continue
			}
			if n, ok := c03ConstStringF(lf.fr, callArgs(call)[1]); ok {
				names = append(names, n)
			}
		}
	}
	for _, st := range c03ReachStores(c03Root(t.A.parseAd), field, nil) {
		follow(st.fr, st.st.Val, 0)
	}
	sort.Strings(names)
	return uniq(names)
}

// publish evaluates createServerSecurityAd with the decision flags fixed and returns the constant it
// writes under attribute attr on every path (ok=false with a reason otherwise).
func (t *c10Tab) publish(auth, enc bool, attr string) (string, token.Pos, string) {
	A := t.A
	f := func(v *types.Var) string { return "." + v.Name() }
	init := func(l c10tLoc) (c10tVal, bool) {
		switch l {
		case c10tLoc{c10ObjNeg, f(A.negAuthentication)}:
			return c10tBool(auth), true
		case c10tLoc{c10ObjNeg, f(A.negEncryption)}:
			return c10tBool(enc), true
		case c10tLoc{c10ObjAuth, f(A.aConfig)}:
			return c10tPtr(c10ObjServer), true
		case c10tLoc{c10ObjServer, f(A.cfgAuthMethods)}:
			return c10tStrList("M1", "M2"), true
		case c10tLoc{c10ObjServer, f(A.cfgCryptoMethods)}:
			return c10tStrList("AES"), true
		}
		return c10tVal{}, false
	}
	e := &c10tEval{p: t.c.Prog, tracked: t.tracked(), retMemo: t.retMemo, init: init, fork: true, maxPaths: 4096}
	st := newC10tState()
	t.bind(A.mkServerAd, st)
	outs := e.run(A.mkServerAd, A.mkServerAd.Blocks[0], nil, st)
	val := ""
	have := false
	for _, o := range outs {
		if o.kind != "success" {
			return "", o.pos, "createServerSecurityAd cannot be evaluated: " + o.why
		}
		n := 0
		for _, args := range o.st.emitted("classad", "Set") {
			if len(args) < 3 {
				continue
			}
			if name, ok := args[1].isStr(); !ok {
				return "", A.mkServerAd.Pos(), "createServerSecurityAd sets an attribute whose name is not constant"
			} else if name == attr {
				n++
				s, ok := args[2].isStr()
				if !ok {
					return "", A.mkServerAd.Pos(), "the value published under " + attr + " is not a constant"
				}
				if have && s != val {
					return "", A.mkServerAd.Pos(), "the value published under " + attr + " differs between paths with the same decision"
				}
				val, have = s, true
			}
		}
		if n != 1 {
			return "", A.mkServerAd.Pos(), fmt.Sprintf("attribute %s is set %d time(s) on a path of createServerSecurityAd", attr, n)
		}
	}
	return val, token.NoPos, ""
}

// c10After describes what a handle*Authentication function does from an evaluated state.
type c10After struct {
	kind string  // "returns" (no exchange) | "exchange" | "error" | "undecided"
	flag c10tVal // negotiation.Authentication reported on success
	pos  token.Pos
	why  string
}

// after evaluates fn (handleClientAuthentication / handleServerAuthentication) from the state left by
// negotiateSecurity. A decided path to a return gives "returns"/"error". When the path reaches a
// branch the inputs do not decide (I/O with the peer), the remainder is summarised structurally:
// every success return reachable from there must pass a nil-error performAuthentication ("exchange"),
// and the Authentication flag on those returns is the constant stored after it, if any.
func (t *c10Tab) after(fn *ssa.Function, e *c10tEval, st0 *c10tState) c10After {
	A := t.A
	st := newC10tState()
	for k, v := range st0.heap {
		st.heap[k] = v
	}
	for k, v := range st0.clobbered {
		st.clobbered[k] = v
	}
	t.bind(fn, st)
	e2 := &c10tEval{p: e.p, tracked: e.tracked, init: e.init, retMemo: t.retMemo}
	outs := e2.run(fn, fn.Blocks[0], nil, st)
	if len(outs) != 1 {
		return c10After{kind: "undecided", why: "more than one path", pos: fn.Pos()}
	}
	o := outs[0]
	flag := t.field(o.st, e2, A.negAuthentication)
	switch o.kind {
	case "success":
		return c10After{kind: "returns", flag: flag, pos: o.pos}
	case "error":
		return c10After{kind: "error", pos: o.pos}
	case "open":
		sum := t.openSummary(fn, o.at, o.pos)
		if sum.bad != "" {
			return c10After{kind: "undecided", why: sum.bad, pos: sum.badPos}
		}
		if sum.hasFlag {
			flag = c10tBool(sum.flag)
		}
		return c10After{kind: "exchange", flag: flag, pos: o.pos}
	}
	return c10After{kind: "undecided", why: o.why, pos: o.pos}
}

// openSummary (memoised per block): from the undecided branch at block `at`, every success return must
// pass a nil-error performAuthentication; the Authentication flag on those returns is the constant
// stored on every such path, if the function stores it at all. The call and the stores may sit in
// same-package helpers of fn (c03MustPass / c03ReachStores follow them).
func (t *c10Tab) openSummary(fn *ssa.Function, at *ssa.BasicBlock, pos token.Pos) *c10Open {
	if s, ok := t.openSum[at]; ok {
		return s
	}
	A := t.A
	s := &c10Open{}
	t.openSum[at] = s
	root := c03Root(fn)
	isPerf := func(fr *c03Frame, call ssa.CallInstruction) bool { return calleeFn(call) == A.perfAuth }
	if len(c03ReachCalls(root, A.perfAuth, nil)) == 0 {
		s.bad, s.badPos = "no performAuthentication call after the undecided branch", pos
		return s
	}
	cuts := (&c03MustPass{c: t.c, pkgOf: fn, calls: isPerf}).cutsF(root)
	succT := t.c.successTargets(fn)
	for _, tg := range succT {
		if p := findPath(Point{at, 0}, tg.Target(), cuts); p != nil {
			s.bad = "after the branch at " + t.c.Pos(pos) + " (not decided by the policy inputs) a success return is reachable without a successful performAuthentication"
			s.badPos = pos
			return s
		}
	}
	nw := 0
	for _, st := range c03ReachStores(root, A.negAuthentication, func(g *ssa.Function) bool { return g == A.perfAuth }) {
		// where the store happens as seen from fn: the store itself, or the call in fn that leads to it
		var in ssa.Instruction = st.st
		for fr := st.fr; fr != root; fr = fr.up {
			in = fr.call
		}
		if findPath(Point{at, 0}, Target{Instr: in}, nil) == nil {
			continue
		}
		b, ok := constBool(st.st.Val)
		if !ok || (nw > 0 && b != s.flag) {
			s.bad, s.badPos = "Authentication is assigned a non-constant or conflicting value after the exchange", st.st.Pos()
			return s
		}
		s.flag = b
		nw++
	}
	if nw > 0 {
		flag := s.flag
		wc := (&c03MustPass{c: t.c, pkgOf: fn, instrs: func(fr *c03Frame) []ssa.Instruction {
			var out []ssa.Instruction
			for _, st := range c03StoresTo(fr.fn, A.negAuthentication) {
				if b, ok := constBool(st.Val); ok && b == flag {
					out = append(out, st)
				}
			}
			return out
		}}).cutsF(root)
		for _, tg := range succT {
			if findPath(Point{at, 0}, tg.Target(), wc) != nil {
				s.bad, s.badPos = "Authentication is assigned on some but not all success paths after the exchange", tg.Ret.Pos()
				return s
			}
		}
		s.hasFlag = true
	}
	return s
}

// clientView evaluates what a cedar client does and reports for its own levels and the server's
// published answers.
func (t *c10Tab) clientView(ansAuth, cAuth, ansEnc, cEnc string, am, cm c10Shape) (neg *c10Res, aft c10After) {
	r, e := t.negotiate(true, ansAuth, cAuth, ansEnc, cEnc, am, cm)
	if r.out.kind != "success" {
		return r, c10After{}
	}
	return r, t.after(t.A.hClient, e, r.out.st)
}

// answers resolves the constants the server publishes for a true / false decision, through the
// attribute that the client's parser loads into SecurityConfig.Authentication / .Encryption.
func (t *c10Tab) answers(field *types.Var, isAuth bool) (yes, no string, ok bool) {
	names := t.readerAttrs(field)
	if len(names) != 1 {
		t.c.Undecided(t.rule, "parseServerSecurityAd#"+field.Name(), fmt.Sprintf("expected exactly one attribute to feed SecurityConfig.%s, found %v", field.Name(), names), t.A.parseAd.Pos())
		return "", "", false
	}
	get := func(b bool) (string, bool) {
		v, pos, why := t.publish(isAuth && b, !isAuth && b, names[0])
		if why != "" {
			t.c.Undecided(t.rule, "createServerSecurityAd#"+names[0], why, pos)
			return "", false
		}
		return v, true
	}
	y, ok1 := get(true)
	n, ok2 := get(false)
	if !ok1 || !ok2 {
		return "", "", false
	}
	if y == n {
		t.c.Violate(t.rule, "createServerSecurityAd#"+names[0], "the server publishes the same value "+fmt.Sprintf("%q", y)+" for both decisions: the client cannot learn the outcome", t.A.mkServerAd.Pos())
		return "", "", false
	}
	t.c.Ok(t.rule, "createServerSecurityAd#"+names[0], fmt.Sprintf("decision true/false is published as %q/%q under the attribute the client parses into SecurityConfig.%s", y, n, field.Name()), t.A.mkServerAd.Pos())
	return y, n, true
}

// clientCfgIsLocal: in performFullAuthentication the negotiation's ClientConfig is a.config (the
// rows model both as one object).
func (t *c10Tab) clientCfgIsLocal() {
	A := t.A
	ok := false
	var pos token.Pos
	// (the literal may be built by a constructor helper of the handshake)
	phases := func(g *ssa.Function) bool {
		return g == A.negotiate || g == A.hClient || g == A.setup || g == A.parseAd
	}
	for _, s := range c03ReachStores(c03Root(A.fullClient), A.negClientConfig, phases) {
		pos = s.st.Pos()
		isCfg := true
		os := c03OriginsF(s.fr, s.st.Val, nil)
		for _, o := range os {
			if _, is := c03LoadOf(o.v, A.aConfig); !is {
				isCfg = false
			}
		}
		if isCfg && len(os) > 0 {
			ok = true
		} else {
			ok = false
			break
		}
	}
	if ok {
		t.c.Ok(t.rule, fnName(A.fullClient)+"#ClientConfig=a.config", "the client negotiates with its own configuration object", pos)
	} else {
		t.c.Undecided(t.rule, fnName(A.fullClient)+"#ClientConfig=a.config", "cannot establish that negotiation.ClientConfig is a.config in the client's full handshake (the rows assume it)", pos)
	}
}

// ---------------------------------------------------------------------------
// C10-R2: the client's re-derivation from the published answer

func c10r2(c *Ctx) {
	const rule = "C10-R2"
	defer c03Timed(c, rule)()
	c.Doc(rule, "T-TAB on the client's view: negotiateSecurity + handleClientAuthentication evaluated for own level x the server's published answer (the constants createServerSecurityAd writes, read back through parseServerSecurityAd's attribute) x method-list shapes: a declining answer under own REQUIRED fails; otherwise the exchange runs iff the answer is positive and the reported Authentication equals whether it ran Where a check, store or call is looked for, same-module helpers are followed to depth 4 (boolean predicates and value helpers with parameters mapped to arguments, same-package error-returning and effect helpers), and conditions materialised in local booleans are resolved per incoming value.")
	A := c.handshakeAnchors(rule)
	if !A.ok {
		return
	}
	t := newC10Tab(c, A, rule)
	t.clientCfgIsLocal()
	yesA, noA, ok := t.answers(A.cfgAuthentication, true)
	if !ok {
		return
	}
	_, noE, ok := t.answers(A.cfgEncryption, false)
	if !ok {
		return
	}
	rows := 0
	for _, cl := range t.levels() {
		for _, ans := range []bool{true, false} {
			construct := fmt.Sprintf("client[level=%s,server-answer=%v]", cl, ans)
			a := noA
			if ans {
				a = yesA
			}
			msg, status := "", StOK
			var pos token.Pos
			for _, am := range t.authShapes() {
				rows++
				_, common := c10Common(am.server, am.client, A.authNone)
				neg, aft := t.clientView(a, cl, noE, A.optional, am, t.cryptoShapes()[0])
				fail := func(s string, p token.Pos, und bool) {
					if msg == "" {
						msg, pos = s+fmt.Sprintf(" [methods %q]", am.name), p
						status = StViolated
						if und {
							status = StUndecided
						}
					}
				}
				if neg.out.kind != "success" && neg.out.kind != "error" {
					fail("client-side negotiateSecurity leaves the evaluable subset: "+neg.out.why, neg.out.pos, true)
					continue
				}
				failed := neg.out.kind == "error" || aft.kind == "error"
				if !failed && aft.kind == "undecided" {
					fail(aft.why, aft.pos, true)
					continue
				}
				p := neg.out.pos
				if neg.out.kind == "success" {
					p = aft.pos
				}
				switch {
				case !ans && cl == A.required:
					// C03/C10 statement: own REQUIRED + peer declines => no success without authentication
					if !failed {
						fail("the server declines authentication, the client's own level is "+A.required+", yet the client's handshake step returns success without authenticating", p, false)
					}
				case failed:
					// a failure is acceptable only where the statement allows one
					if !(ans && (!common || cl == A.never)) {
						fail("the client fails although the answer is compatible with its policy", p, false)
					}
				default:
					ran := aft.kind == "exchange"
					if ran != ans {
						fail(fmt.Sprintf("authentication exchange runs=%v but the server's answer was %v", ran, ans), p, false)
					} else if b, ok := aft.flag.isBool(); !ok || b != ran {
						fail(fmt.Sprintf("client reports Authentication=%s although the exchange ran=%v", c10Bool(aft.flag), ran), p, false)
					}
				}
			}
			switch status {
			case StOK:
				c.Ok(rule, construct, "client outcome matches the stated policy for every method-list shape", A.hClient.Pos())
			case StViolated:
				c.Violate(rule, construct, msg, pos)
			default:
				c.Undecided(rule, construct, msg, pos)
			}
		}
	}
	c.MinCount(rule, "client rows evaluated", rows, 4*2*6)
}

// ---------------------------------------------------------------------------
// C10-R3: both ends agree

func c10r3(c *Ctx) {
	const rule = "C10-R3"
	defer c03Timed(c, rule)()
	c.Doc(rule, "agreement: for every row of the server table that succeeds, the client evaluated on the published answers also succeeds, both ends run the authentication exchange iff the server's Authentication flag is set (handleServerAuthentication gate / client's authRequired), and both report that flag; setupStreamEncryption decides from inputs that are equal on both ends (the two public keys, NegotiatedCrypto, the resumed key) and NegotiatedCrypto agrees Where a check, store or call is looked for, same-module helpers are followed to depth 4 (boolean predicates and value helpers with parameters mapped to arguments, same-package error-returning and effect helpers), and conditions materialised in local booleans are resolved per incoming value.")
	A := c.handshakeAnchors(rule)
	if !A.ok {
		return
	}
	t := newC10Tab(c, A, rule)
	yesA, noA, ok := t.answers(A.cfgAuthentication, true)
	if !ok {
		return
	}
	yesE, noE, ok := t.answers(A.cfgEncryption, false)
	if !ok {
		return
	}
	type cell struct{ s, cl string }
	bad := map[cell]string{}
	badPos := map[cell]token.Pos{}
	und := map[cell]bool{}
	rows := 0
	// the number of rows the stated policy lets succeed (the minimum to compare; from the oracle, not from the code)
	want := 0
	for _, sa := range t.levels() {
		for _, ca := range t.levels() {
			for _, se := range t.levels() {
				for _, ce := range t.levels() {
					for _, am := range t.authShapes() {
						for _, cm := range t.cryptoShapes() {
							_, commonA := c10Common(am.server, am.client, A.authNone)
							_, commonC := c10Common(cm.server, cm.client, "")
							failA, _ := A.c10Want(sa, ca, commonA, true)
							failE, _ := A.c10Want(se, ce, commonC, false)
							if !failA && !failE {
								want++
							}
						}
					}
				}
			}
		}
	}
	for _, sa := range t.levels() {
		for _, ca := range t.levels() {
			k := cell{sa, ca}
			note := func(msg string, pos token.Pos, u bool) {
				if _, dup := bad[k]; !dup {
					bad[k], badPos[k], und[k] = msg, pos, u
				}
			}
			for _, se := range t.levels() {
				for _, ce := range t.levels() {
					for _, am := range t.authShapes() {
						for _, cm := range t.cryptoShapes() {
							srv, es := t.negotiate(false, sa, ca, se, ce, am, cm)
							if srv.out.kind != "success" {
								continue // failing rows and non-evaluable rows are R1's / R4's business
							}
							rows++
							desc := fmt.Sprintf(" [row: enc server=%s client=%s, methods %q, ciphers %q]", se, ce, am.name, cm.name)
							as, ok1 := srv.auth.isBool()
							esb, ok2 := srv.enc.isBool()
							if !ok1 || !ok2 {
								note("server flags not determined"+desc, srv.out.pos, true)
								continue
							}
							sAft := t.after(A.hServer, es, srv.out.st)
							if sAft.kind == "undecided" {
								note("server: "+sAft.why+desc, sAft.pos, true)
								continue
							}
							if (sAft.kind == "exchange") != as {
								note(fmt.Sprintf("server reports Authentication=%v but its exchange runs=%v", as, sAft.kind == "exchange")+desc, sAft.pos, false)
								continue
							}
							if b, ok := sAft.flag.isBool(); !ok || b != as {
								note(fmt.Sprintf("server's flag changes to %s in handleServerAuthentication", c10Bool(sAft.flag))+desc, sAft.pos, false)
								continue
							}
							a, e := noA, noE
							if as {
								a = yesA
							}
							if esb {
								e = yesE
							}
							cli, cAft := t.clientView(a, ca, e, ce, am, cm)
							switch {
							case cli.out.kind == "error" || cAft.kind == "error":
								p := cli.out.pos
								if cli.out.kind != "error" {
									p = cAft.pos
								}
								note(fmt.Sprintf("the server succeeds (Authentication=%v Encryption=%v) but the client fails on the published answer", as, esb)+desc, p, false)
							case cli.out.kind != "success":
								note("client negotiateSecurity not evaluable: "+cli.out.why+desc, cli.out.pos, true)
							case cAft.kind == "undecided":
								note("client: "+cAft.why+desc, cAft.pos, true)
							case (cAft.kind == "exchange") != as:
								note(fmt.Sprintf("server runs the authentication exchange=%v but the client runs it=%v", as, cAft.kind == "exchange")+desc, cAft.pos, false)
							default:
								if b, ok := cAft.flag.isBool(); !ok || b != as {
									note(fmt.Sprintf("server reports Authentication=%v, client reports Authentication=%s (exchange ran=%v)", as, c10Bool(cAft.flag), as)+desc, cAft.pos, false)
								} else if cs, ss := cli.negCrypto.String(), srv.negCrypto.String(); cs != ss {
									note("NegotiatedCrypto differs: server "+ss+", client "+cs+desc, cli.out.pos, false)
								} else if as {
									if cm, sm := cli.negAuth.String(), srv.negAuth.String(); cm != sm {
										note("NegotiatedAuth differs before the exchange: server "+sm+", client "+cm+desc, cli.out.pos, false)
									}
								}
							}
						}
					}
				}
			}
			construct := fmt.Sprintf("agree#auth[server=%s,client=%s]", sa, ca)
			if msg, isBad := bad[k]; !isBad {
				c.Ok(rule, construct, "client and server agree on every succeeding row of this cell", A.hClient.Pos())
			} else if und[k] {
				c.Undecided(rule, construct, msg, badPos[k])
			} else {
				c.Violate(rule, construct, msg, badPos[k])
			}
		}
	}
	c.MinCount(rule, "succeeding server rows compared with the client", rows, want)
	c10SetupSymmetric(c, rule, A)
}

// c10SetupSymmetric: the branch conditions of setupStreamEncryption that decide between its success
// returns read only values that two honest cedar ends share: the negotiation's NegotiatedCrypto,
// SessionResumed, the shared secret, the two configs' ECDH public keys (nil tests of the configs
// themselves), and errors of calls. In particular no such condition reads IsClient or a level of the
// local policy unless one of its edges can only fail.
func c10SetupSymmetric(c *Ctx, rule string, A *c03Anchors) {
	fn := A.setup
	succ := c.successTargets(fn)
	reachSucc := func(b *ssa.BasicBlock) bool {
		if len(b.Instrs) == 0 {
			return false
		}
		for _, t := range succ {
			if findPath(Point{b, 0}, t.Target(), nil) != nil {
				return true
			}
		}
		return false
	}
	isClient := c.needField(rule, "security", "SecurityNegotiation", "IsClient")
	n := 0
	for _, b := range fn.Blocks {
		ifi := blockIf(b)
		if ifi == nil || !reachSucc(b.Succs[0]) || !reachSucc(b.Succs[1]) {
			continue // one edge only fails: not a choice between two successful outcomes
		}
		n++
		asym := ""
		// operand tree of the condition, not descending into calls (a call's error is "shared" when
		// both ends are honest: each runs the same computation on mirrored inputs)
		var walk func(v ssa.Value, d int)
		walk = func(v ssa.Value, d int) {
			if v == nil || d > 20 || asym != "" {
				return
			}
			if _, f, ok := fieldRead(v); ok {
				switch f {
				case isClient, A.cfgAuthentication, A.cfgEncryption, A.cfgIntegrity, A.aConfig:
					asym = f.Name()
				}
			}
			switch x := v.(type) {
			case *ssa.Call, *ssa.Extract:
				return
			case ssa.Instruction:
				for _, op := range x.Operands(nil) {
					if *op != nil {
						walk(*op, d+1)
					}
				}
			}
		}
		walk(ifi.Cond, 0)
		if asym != "" {
			c.Violate(rule, fnName(fn)+"#branch-on:"+asym, "setupStreamEncryption chooses between two successful outcomes on "+asym+", which differs between the two ends: they can disagree on whether the stream is encrypted", c10CondPos(ifi))
		}
	}
	c.Ok(rule, fnName(fn)+"#symmetric-branches", fmt.Sprintf("%d outcome-deciding branches read only values shared by both ends", n), fn.Pos())
	// (structural minimum: the function chooses between an encrypted and a cleartext outcome somewhere)
	c.MinCount(rule, "outcome-deciding branches of setupStreamEncryption", n, 1)
}

// ---------------------------------------------------------------------------
// C10-R4: explicit denial

func c10r4(c *Ctx) {
	const rule = "C10-R4"
	defer c03Timed(c, rule)()
	c.Doc(rule, "T-MPT + constant agreement: in ServerHandshakeWithMessage every return reachable from the error edge of negotiateSecurity passes a call of sendNegotiationFailureResponse, which sets ReturnCode to a constant and sends the ad; the client's performFullAuthentication, evaluated with that constant as the received ReturnCode, returns an error before it negotiates Where a check, store or call is looked for, same-module helpers are followed to depth 4 (boolean predicates and value helpers with parameters mapped to arguments, same-package error-returning and effect helpers), and conditions materialised in local booleans are resolved per incoming value.")
	A := c.handshakeAnchors(rule)
	if !A.ok {
		return
	}
	fn := A.fullServer
	n := 0
	// the denial may be sent by a helper of the handshake (on every return of that helper)
	denial := &c03MustPass{c: c, pkgOf: fn, all: true, calls: func(fr *c03Frame, call ssa.CallInstruction) bool { return calleeFn(call) == A.sendFail }}
	for _, cs := range callsIn(fn, A.negotiate.Object()) {
		_, fail, checked := callErrEdges(fn, cs.Value())
		if !checked {
			c.Violate(rule, fnName(fn)+"#negotiateSecurity-error", "the error of negotiateSecurity is not tested", cs.Pos())
			continue
		}
		cuts := denial.cutsF(c03Root(fn))
		for _, e := range fail {
			n++
			var wit []*ssa.BasicBlock
			for _, rp := range c.returnsOf(fn) {
				if len(e.To().Instrs) == 0 {
					continue
				}
				if p := findPath(Point{e.To(), 0}, rp.Target(), cuts); p != nil {
					wit = p
					break
				}
			}
			if wit == nil {
				c.Ok(rule, fnName(fn)+"#negotiateSecurity-error=>denial", "every return after a failed negotiation is preceded by sendNegotiationFailureResponse", cs.Pos())
			} else {
				c.Violate(rule, fnName(fn)+"#negotiateSecurity-error=>denial", "after negotiateSecurity fails the server can return (and close) without sending a denial: the client sees a bare close", cs.Pos(), c.describePath(wit)...)
			}
		}
	}
	c.MinCount(rule, "negotiateSecurity error edges in the server handshake", n, 1)

	// the denial carries a constant return code (under the attribute the client inspects) and is sent
	attr := c10ReturnCodeAttr(A)
	if attr == "" {
		c.Undecided(rule, fnName(A.fullClient)+"#rejection-test", "cannot find an attribute that sendNegotiationFailureResponse sets to a constant (and the regular server ad does not carry) and the client reads before negotiating", A.fullClient.Pos())
		return
	}
	code, okCode := "", false
	for _, cs := range c03AttrCalls(A.sendFail, c03IsSet, nil)[attr] {
		if args := callArgs(cs.call); len(args) >= 3 {
			if v, ok := c03ConstStringF(cs.fr, args[2]); ok {
				code, okCode = v, true
			}
		}
	}
	if !okCode {
		c.Violate(rule, fnName(A.sendFail)+"#"+attr, "sendNegotiationFailureResponse does not set "+attr+" (the attribute the client tests) to a constant", A.sendFail.Pos())
		return
	}
	sent := 0
	for _, name := range []string{"PutClassAd", "FinishMessage"} {
		name := name
		found := c03ReachCallsWhere(c03Root(A.sendFail), func(call ssa.CallInstruction) bool {
			o := calleeObj(call)
			return o != nil && o.Name() == name && o.Pkg() != nil && o.Pkg().Name() == "message"
		}, nil)
		if len(found) > 0 {
			sent++
		}
	}
	c.Check(sent == 2, rule, fnName(A.sendFail)+"#sent", "the denial ad is written and the message finished", "sendNegotiationFailureResponse does not send the ad (PutClassAd + FinishMessage)", A.sendFail.Pos())

	// client: with ReturnCode = code, does performFullAuthentication stop before negotiating?
	cf := A.fullClient
	// the first read of the attribute - in the handshake or in a helper it calls - that can reach the
	// negotiateSecurity call; top is the instruction of the handshake at which that read happens
	var rc *c03CallAt
	var top ssa.CallInstruction
	for _, cs := range c03AttrCalls(cf, c03IsEvaluate, nil)[attr] {
		cs := cs
		t := cs.call
		for fr := cs.fr; fr.up != nil; fr = fr.up {
			t = fr.call
		}
		for _, ncs := range callsIn(cf, A.negotiate.Object()) {
			if findPath(after(t), Target{Instr: ncs}, nil) != nil && rc == nil {
				rc, top = &cs, t
			}
		}
	}
	if rc == nil {
		c.Violate(rule, fnName(cf)+"#rejection-test", "the client does not inspect "+attr+" of the server's response before negotiating", cf.Pos())
		return
	}
	rcCall := rc.call
	for _, val := range []string{code} {
		// evaluate the handshake from that instruction on, the read answering (val, true); the helpers on
		// the way to the read are followed
		chain := map[*ssa.Function]bool{}
		for fr := rc.fr; fr.up != nil; fr = fr.up {
			chain[fr.fn] = true
		}
		e := &c10tEval{p: c.Prog, followOnly: chain, onCall: func(_ *c10tState, call ssa.CallInstruction, _ []c10tVal) (c10tVal, bool) {
			if call == rcCall {
				return c10tVal{kind: c10tvList, list: []c10tVal{c10tStr(val), c10tBool(true)}}, true
			}
			return c10tVal{}, false
		}}
		outs := e.runAt(cf, top.Block(), pointOf(top).Idx, nil, newC10tState())
		verdict, pos := "", rcCall.Pos()
		for _, o := range outs {
			switch o.kind {
			case "error":
			case "open":
				// an undecided branch: harmless when, from there, neither the negotiation nor a
				// success return can be reached any more (we are inside the rejection branch)
				reach := false
				for _, ncs := range callsIn(cf, A.negotiate.Object()) {
					if findPath(Point{o.at, 0}, Target{Instr: ncs}, nil) != nil {
						reach = true
						if o.at == ncs.Block() {
							verdict, pos = "with "+attr+"="+fmt.Sprintf("%q", val)+" the client goes on to negotiate instead of reporting the denial", o.pos
						}
					}
				}
				for _, tg := range c.successTargets(cf) {
					if findPath(Point{o.at, 0}, tg.Target(), nil) != nil {
						reach = true
					}
				}
				if reach && verdict == "" {
					verdict, pos = "undecided: a branch before the negotiation is not decided by the received "+attr+": "+o.why, o.pos
				}
			default:
				verdict, pos = "with "+attr+"="+fmt.Sprintf("%q", val)+" the client's handshake does not end in an error ("+o.kind+")", o.pos
			}
		}
		construct := fnName(cf) + "#denial:" + attr + "=" + val
		switch {
		case verdict == "":
			c.Ok(rule, construct, "the client turns the server's denial constant into an error before negotiating", rcCall.Pos())
		case strings.HasPrefix(verdict, "undecided"):
			c.Undecided(rule, construct, verdict, pos)
		default:
			c.Violate(rule, construct, verdict, pos)
		}
	}
}

// c10ReturnCodeAttr: the attribute sendNegotiationFailureResponse sets and performFullAuthentication
// reads from the first server response (intersection of the two tables, minus what the regular server
// ad also carries).
func c10ReturnCodeAttr(A *c03Anchors) string {
	sets := c03AttrCalls(A.sendFail, c03IsSet, nil)
	regular := c03BuiltAdCalls(A.mkServerAd, c03IsSet)
	reads := c03AttrCalls(A.fullClient, c03IsEvaluate, nil)
	var cands []string
	for name, calls := range sets {
		if _, isRegular := regular[name]; isRegular || name == c03UnresolvedAttr {
			continue
		}
		if _, isRead := reads[name]; !isRead {
			continue
		}
		for _, cs := range calls {
			if len(callArgs(cs.call)) >= 3 {
				if _, ok := c03ConstStringF(cs.fr, callArgs(cs.call)[2]); ok {
					cands = append(cands, name)
				}
			}
		}
	}
	sort.Strings(cands)
	cands = uniq(cands)
	if len(cands) == 1 {
		return cands[0]
	}
	return ""
}

// ---------------------------------------------------------------------------
// C10-R5: attribute tables of the three handshake ads

func c10r5(c *Ctx) {
	const rule = "C10-R5"
	defer c03Timed(c, rule)()
	c.Doc(rule, "T-SIB writer/reader agreement of attribute-name constants: what parseServerSecurityAd reads is written by createClientSecurityAd or createServerSecurityAd and the decision-carrying attributes by both; what the client reads from the post-auth ad is written by createPostAuthAd; both ends file the session under the published Sid with negotiation.GetSharedSecret() as key Where a check, store or call is looked for, same-module helpers are followed to depth 4 (boolean predicates and value helpers with parameters mapped to arguments, same-package error-returning and effect helpers), and conditions materialised in local booleans are resolved per incoming value.")
	A := c.handshakeAnchors(rule)
	if !A.ok {
		return
	}
	keys := func(m map[string][]c03CallAt) map[string]bool {
		o := map[string]bool{}
		for k := range m {
			o[k] = true
		}
		return o
	}
	wClient := keys(c03BuiltAdCalls(A.mkClientAd, c03IsSet))
	wServer := keys(c03BuiltAdCalls(A.mkServerAd, c03IsSet))
	rParse := c03AttrCalls(A.parseAd, c03IsEvaluate, nil)
	// exceptions: attributes the shared parser reads that only a non-cedar (HTCondor C++) peer publishes
	except := map[string]string{
		"IssuerKeys": "published by HTCondor C++ servers only; cedar's server ad does not carry it",
	}
	n := 0
	var names []string
	for name := range rParse {
		names = append(names, name)
	}
	sort.Strings(names)
	for fnm, tab := range map[string]map[string][]c03CallAt{"createClientSecurityAd": c03BuiltAdCalls(A.mkClientAd, c03IsSet), "createServerSecurityAd": c03BuiltAdCalls(A.mkServerAd, c03IsSet), "createPostAuthAd": c03BuiltAdCalls(A.mkPostAuth, c03IsSet), "parseServerSecurityAd": rParse} {
		for _, cs := range tab[c03UnresolvedAttr] {
			c.Undecided(rule, fnm+"#attribute-name", "an attribute is read / written under a name that is not a constant (nor a constant argument of the helper doing it): the attribute tables are incomplete", cs.call.Pos())
		}
	}
	for _, name := range names {
		if name == c03UnresolvedAttr {
			continue
		}
		n++
		construct := "parseServerSecurityAd#reads:" + name
		pos := rParse[name][0].call.Pos()
		if wClient[name] || wServer[name] {
			c.Ok(rule, construct, "attribute is written by a cedar handshake ad", pos)
		} else if why, ok := except[name]; ok {
			c.Ok(rule, construct, "exception: "+why, pos)
		} else {
			c.Violate(rule, construct, "the parser reads attribute "+name+" that neither createClientSecurityAd nor createServerSecurityAd writes (renamed on one side?)", pos)
		}
	}
	// (structural minimum: one attribute per decision-carrying field below; not today's number of attributes)
	c.MinCount(rule, "attributes read by parseServerSecurityAd", n, 5)
	// decision-carrying fields: the attribute feeding each must be written by both ads
	t := newC10Tab(c, A, rule)
	for _, f := range []*types.Var{A.cfgAuthentication, A.cfgEncryption, A.cfgAuthMethods, A.cfgCryptoMethods, A.cfgECDH} {
		attrs := t.readerAttrs(f)
		construct := "SecurityConfig." + f.Name() + "#carried-both-ways"
		inC, inS := false, false
		for _, a := range attrs {
			inC = inC || wClient[a]
			inS = inS || wServer[a]
		}
		c.Check(len(attrs) > 0 && inC && inS, rule, construct,
			fmt.Sprintf("parsed from %v, written by both the client ad and the server ad", attrs),
			fmt.Sprintf("SecurityConfig.%s is parsed from %v, which is not written by both createClientSecurityAd (%v) and createServerSecurityAd (%v)", f.Name(), attrs, inC, inS), A.parseAd.Pos())
	}
	// post-auth ad: the reads on the ad received after setupStreamEncryption (the receive, the reads and
	// setupStreamEncryption's call may sit in helpers of the handshake)
	wPost := keys(c03BuiltAdCalls(A.mkPostAuth, c03IsSet))
	croot := c03Root(A.fullClient)
	topOf := func(cs c03CallAt) ssa.Instruction {
		var in ssa.Instruction = cs.call
		for fr := cs.fr; fr.up != nil; fr = fr.up {
			in = fr.call
		}
		return in
	}
	var lastRecv *c03Leaf
	setups := c03ReachCalls(croot, A.setup, nil)
	for _, rcv := range c03ReachCallsWhere(croot, func(call ssa.CallInstruction) bool {
		_, isCall := call.(*ssa.Call)
		o := calleeObj(call)
		return isCall && o != nil && strings.HasPrefix(o.Name(), "GetClassAd")
	}, func(g *ssa.Function) bool { return g == A.hClient || g == A.setup || g == A.negotiate }) {
		for _, sc := range setups {
			if topOf(sc) != topOf(rcv) && findPath(after(topOf(sc)), Target{Instr: topOf(rcv)}, nil) != nil {
				if ex := extractN(rcv.call.Value(), 0); ex != nil {
					lastRecv = &c03Leaf{rcv.fr, ex}
				}
			}
		}
	}
	if lastRecv == nil {
		c.Undecided(rule, fnName(A.fullClient)+"#post-auth-ad", "cannot find the ClassAd the client receives after setupStreamEncryption", A.fullClient.Pos())
		return
	}
	isLastRecv := func(fr *c03Frame, v ssa.Value) bool {
		rf, rv := c03Resolve(fr, v, nil)
		return rf == lastRecv.fr && rv == lastRecv.v
	}
	rPost := c03AttrCallsF(croot, c03IsEvaluate, isLastRecv)
	names = names[:0]
	for name := range rPost {
		names = append(names, name)
	}
	sort.Strings(names)
	for _, name := range names {
		if name == c03UnresolvedAttr {
			c.Undecided(rule, "post-auth#attribute-name", "the client reads the post-auth ad under a name that is not a constant", rPost[name][0].call.Pos())
			continue
		}
		c.Check(wPost[name], rule, "post-auth#reads:"+name, "written by createPostAuthAd", "the client reads post-auth attribute "+name+" that createPostAuthAd does not write", rPost[name][0].call.Pos())
	}
	// (structural minimum: the session id is read from it; not today's number of attributes)
	c.MinCount(rule, "post-auth attributes read by the client", len(names), 1)
	// the session id: the value published is the value filed on the server; the value read is the value filed on the client
	sidOK := false
	var sidAttr string
	notPhase := func(g *ssa.Function) bool { return g == A.hClient || g == A.setup || g == A.negotiate }
	for _, s := range c03ReachStores(croot, A.negSessionId, notPhase) {
		for _, o := range c03OriginsF(s.fr, s.st.Val, nil) {
			if call, idx := originCall(o.v); call != nil && idx == 0 {
				if a := callArgs(call); len(a) >= 2 && isLastRecv(o.fr, a[0]) {
					sidAttr, _ = c03ConstStringF(o.fr, a[1])
				}
			}
		}
	}
	for _, set := range c03BuiltAdCalls(A.mkPostAuth, c03IsSet)[sidAttr] {
		v := callArgs(set.call)[2]
		for _, sc := range c03ReachCalls(c03Root(A.mkPostAuth), A.storeS, nil) {
			for _, a := range sc.call.Common().Args {
				if c10SameRootedValue(sc.fr, a, set.fr, v) {
					sidOK = true
				}
			}
		}
	}
	c.Check(sidAttr != "" && sidOK, rule, "post-auth#session-id", "the id published as "+sidAttr+" is the id the server files the session under, and the client files under what it read", "the session id the server publishes is not the value it passes to storeSession (or the client does not take SessionId from the post-auth ad)", A.mkPostAuth.Pos())
	// both ends key the entry with GetSharedSecret()
	gss := c.needFn(rule, "security", "(*SecurityNegotiation).GetSharedSecret")
	keyData := c.needField(rule, "security", "KeyInfo", "Data")
	if gss == nil || keyData == nil {
		return
	}
	// (the KeyInfo may be built in the function or by a helper it calls: stores are collected over the
	// same-package helpers reached, the stored value is followed through value helpers)
	stop := func(g *ssa.Function) bool { return g == gss }
	for _, fn := range []*ssa.Function{A.storeS, A.storeC} {
		ok, n := true, 0
		for _, s := range c03ReachStores(c03Root(fn), keyData, nil) {
			n++
			os := c03OriginsF(s.fr, s.st.Val, stop)
			for _, lf := range os {
				if call, idx := originCall(lf.v); call == nil || idx != 0 || calleeFn(call) != gss {
					ok = false
				}
			}
			if len(os) == 0 {
				ok = false
			}
		}
		c.Check(ok && n > 0, rule, fnName(fn)+"#key=GetSharedSecret", "the cached key is the negotiated shared secret", "the key filed with the session is not negotiation.GetSharedSecret()", fn.Pos())
	}
}

// c10SameRootedValue: value a of frame fa and value b of frame fb are the same SSA value once both are
// resolved through helper parameters (frames of two different walks over the same function are
// different objects: the functions are compared).
func c10SameRootedValue(fa *c03Frame, a ssa.Value, fb *c03Frame, b ssa.Value) bool {
	ra, va := c03Resolve(fa, a, nil)
	rb, vb := c03Resolve(fb, b, nil)
	return ra.fn == rb.fn && va == vb
}

// ---------------------------------------------------------------------------
// C10-R6: the retry loop shrinks

func c10r6(c *Ctx) {
	const rule = "C10-R6"
	defer c03Timed(c, rule)()
	defer delete(c10Shared, c)
	c.Doc(rule, "termination of the method retry loop: in handleClientAuthentication every way back to the loop head from a received server selection clears bits of the offered mask (mask &^ x feeding the loop variable) where x is the selection or its round trip through bitmaskToAuthMethod/authMethodToBitmask; the two maps are mutually inverse on every method bit (evaluated by constant folding); the server loop leaves on a zero mask Where a check, store or call is looked for, same-module helpers are followed to depth 4 (boolean predicates and value helpers with parameters mapped to arguments, same-package error-returning and effect helpers), and conditions materialised in local booleans are resolved per incoming value.")
	A := c.handshakeAnchors(rule)
	if !A.ok {
		return
	}
	fn := A.hClient
	root := c03Root(fn)
	getIntObj := c03MsgMethod(c, rule, "GetInt")
	keep := func(g *ssa.Function) bool {
		return g == A.bitToMethod || g == A.methodToBit || (g.Object() != nil && g.Object() == getIntObj)
	}
	notPerf := func(g *ssa.Function) bool { return g == A.perfAuth }
	// the loop variable: a phi of the phase that is sent with PutInt (by the phase or a helper it hands the mask to)
	var mask *ssa.Phi
	for _, cs := range c03ReachCallsObj(root, c03MsgMethod(c, rule, "PutInt"), notPerf) {
		if rf, rv := c03Resolve(cs.fr, callArgs(cs.call)[2], keep); rf == root {
			if phi, ok := rv.(*ssa.Phi); ok {
				mask = phi
			}
		}
	}
	if mask == nil {
		c.Undecided(rule, fnName(fn)+"#mask", "cannot identify the offered-mask loop variable (a phi passed to PutInt)", fn.Pos())
		return
	}
	// the server's selection as the phase sees it: result #0 of the GetInt inside the loop, or of the
	// helper of the phase that reads it and hands it back
	var resp ssa.Value
	for _, cs := range c03ReachCallsObj(root, getIntObj, notPerf) {
		var top ssa.CallInstruction = cs.call
		for fr := cs.fr; fr.up != nil; fr = fr.up {
			top = fr.call
		}
		if findPath(Point{mask.Block(), 0}, Target{Instr: top}, nil) == nil || top.Value() == nil {
			continue
		}
		cand := extractN(top.Value(), 0)
		if cand == nil {
			continue
		}
		if cs.fr != root {
			// the helper must return exactly what it read
			same := true
			os := c03OriginsF(root, cand, keep)
			for _, lf := range os {
				if lf.fr != cs.fr || lf.v != extractN(cs.call.Value(), 0) {
					same = false
				}
			}
			if !same || len(os) == 0 {
				continue
			}
		}
		resp = cand
	}
	n := 0
	// isSelection: v (in frame fr) is the selection, or authMethodToBitmask(bitmaskToAuthMethod(selection))
	var isSelection func(fr *c03Frame, v ssa.Value) bool
	isSelection = func(fr *c03Frame, v ssa.Value) bool {
		fr, v = c03Resolve(fr, v, keep)
		if resp != nil && fr == root && v == resp {
			return true
		}
		if call, ok := v.(*ssa.Call); ok && calleeFn(call) == A.methodToBit {
			ifr, iv := c03Resolve(fr, call.Call.Args[0], keep)
			if inner, ok := iv.(*ssa.Call); ok && calleeFn(inner) == A.bitToMethod {
				rfr, rv := c03Resolve(ifr, inner.Call.Args[0], keep)
				return resp != nil && rfr == root && rv == resp
			}
		}
		return false
	}
	isMask := func(fr *c03Frame, v ssa.Value) bool {
		fr, v = c03Resolve(fr, v, keep)
		return fr == root && v == ssa.Value(mask)
	}
	// clears: value v is `mask &^ selection` / `mask & ^selection`, written inline or returned by a value helper
	clears := func(v ssa.Value) bool {
		fr, w := c03Resolve(root, v, keep)
		b, isB := w.(*ssa.BinOp)
		if !isB {
			return false
		}
		switch {
		case b.Op == token.AND_NOT && isMask(fr, b.X):
			return isSelection(fr, b.Y)
		case b.Op == token.AND:
			for _, pair := range [][2]ssa.Value{{b.X, b.Y}, {b.Y, b.X}} {
				if u, ok := stripConv(pair[1]).(*ssa.UnOp); ok && u.Op == token.XOR && isMask(fr, pair[0]) {
					return isSelection(fr, u.X)
				}
			}
		}
		return false
	}
	for i, pred := range mask.Block().Preds {
		in := mask.Edges[i]
		if len(pred.Instrs) == 0 || findPath(Point{mask.Block(), 0}, Target{Instr: pred.Instrs[len(pred.Instrs)-1]}, nil) == nil {
			continue // loop entry edge
		}
		n++
		construct := fmt.Sprintf("%s#back-edge%d", fnName(fn), n)
		ok := mustDepend(fn, in, clears) && in != ssa.Value(mask)
		last := pred.Instrs[len(pred.Instrs)-1]
		lastPos := mask.Pos()
		for _, pin := range pred.Instrs {
			if pin.Pos().IsValid() {
				lastPos = pin.Pos()
			}
		}
		c.Check(ok, rule, construct, "the mask carried round the loop has the server's selection cleared", "a way back to the loop head keeps the offered mask unchanged (or does not clear the selection): the retry loop need not terminate", lastPos)
		// ... and clearing it removes at least one bit: the selection is non-zero and inside the mask
		if ok && resp != nil {
			isResp := func(fr *c03Frame, v ssa.Value) bool {
				fr, v = c03Resolve(fr, v, keep)
				return fr == root && v == resp
			}
			inside := (&c03MustPass{c: c, pkgOf: fn, atom: func(fr *c03Frame, a Atom) (bool, bool) {
				return c03SubsetAtom(fr, a, isResp, isMask)
			}}).dominates(root, last)
			nonzero := (&c03MustPass{c: c, pkgOf: fn, atom: func(fr *c03Frame, a Atom) (bool, bool) {
				if (a.Op != token.EQL && a.Op != token.NEQ) || !isResp(fr, a.X) {
					return false, false
				}
				if k, isK := constInt(a.Y); !isK || k != 0 {
					return false, false
				}
				return a.Op == token.NEQ, a.Op == token.EQL
			}}).dominates(root, last)
			c.Check(inside && nonzero, rule, construct+"#strict", "the cleared selection is non-zero and lies inside the mask: every retry removes a bit", "the selection cleared on this way back is not known to be a non-zero subset of the offered mask: a retry may leave the mask unchanged", lastPos)
		}
	}
	// (structural minimum: a retry loop has a way back to its head)
	c.MinCount(rule, "back edges of the client retry loop", n, 1)
	// the two maps are inverse on every method bit: fold both over the case constants
	bits := map[int64]bool{}
	allInstrs(A.bitToMethod, func(_ *ssa.BasicBlock, _ int, in ssa.Instruction) {
		if b, ok := in.(*ssa.BinOp); ok && b.Op == token.EQL {
			if k, ok := constInt(b.Y); ok {
				bits[k] = true
			}
		}
	})
	e := &c10tEval{p: c.Prog, inline: map[*ssa.Function]bool{A.bitToMethod: true, A.methodToBit: true}}
	evalFn := func(g *ssa.Function, arg c10tVal) c10tVal {
		st := newC10tState()
		st.env[g.Params[0]] = arg
		outs := e.run(g, g.Blocks[0], nil, st)
		if len(outs) == 1 && len(outs[0].results) == 1 {
			return outs[0].results[0]
		}
		return c10tVal{}
	}
	var ks []int64
	for k := range bits {
		ks = append(ks, k)
	}
	sort.Slice(ks, func(i, j int) bool { return ks[i] < ks[j] })
	m := 0
	for _, k := range ks {
		if k == 0 {
			continue
		}
		m++
		meth := evalFn(A.bitToMethod, c10tInt(k))
		back := evalFn(A.methodToBit, meth)
		s, _ := meth.isStr()
		c.Check(back.same(c10tInt(k)), rule, fmt.Sprintf("bit-roundtrip#0x%x", k), "bit -> "+s+" -> same bit", fmt.Sprintf("authMethodToBitmask(bitmaskToAuthMethod(0x%x)) = %s: a failed method's bit is not the bit cleared from the mask", k, back.String()), A.bitToMethod.Pos())
	}
	// (structural minimum: there is a method bit; not today's number of methods)
	c.MinCount(rule, "method bits round-tripped", m, 1)
	// server: the loop returns when the client sends a zero mask (the read and the test may sit in a
	// helper that handles one round: then the helper must not read again, and what it returns on
	// that way must make its caller leave the loop too)
	sf := A.hServer
	okZero := false
	var leaves func(fr *c03Frame, starts []Point, again ssa.Instruction) bool
	leaves = func(fr *c03Frame, starts []Point, again ssa.Instruction) bool {
		errRet, okRet := false, false
		for _, st := range starts {
			if findPath(st, Target{Instr: again}, nil) != nil {
				return false // back into the loop
			}
			for _, rp := range c.returnsOf(fr.fn) {
				if findPath(st, rp.Target(), nil) != nil {
					if rp.Class == "error" {
						errRet = true
					} else {
						okRet = true
					}
				}
			}
		}
		if fr.up == nil {
			return true
		}
		var up []Point
		if okRet {
			up = append(up, c03AfterSuccess(fr.up.fn, fr.call)...)
		}
		if errRet {
			if v := fr.call.Value(); v != nil {
				if _, fail, checked := callErrEdges(fr.up.fn, v); checked {
					for _, e := range fail {
						if len(e.To().Instrs) > 0 {
							up = append(up, Point{e.To(), 0})
						}
					}
				} else {
					up = append(up, after(fr.call))
				}
			}
		}
		return leaves(fr.up, up, fr.call)
	}
	sroot := c03Root(sf)
	perfCalls := c03ReachCalls(sroot, A.perfAuth, nil)
	// posIn: the instruction of frame f's function through which call site x (of f or of a helper below f) is reached
	posIn := func(x c03CallAt, f *c03Frame) ssa.Instruction {
		var in ssa.Instruction = x.call
		for fr := x.fr; fr != nil; fr = fr.up {
			if fr == f {
				return in
			}
			in = fr.call
		}
		return nil
	}
	for _, cs := range c03ReachCallsObj(sroot, getIntObj, func(g *ssa.Function) bool { return g == A.perfAuth }) {
		v := extractN(cs.call.Value(), 0)
		if v == nil {
			continue
		}
		// the read of the client's mask: a method is run after it (other reads, e.g. of the key exchange, are not it)
		isMaskRead := false
		for f := cs.fr; f != nil; f = f.up {
			for _, pc := range perfCalls {
				if p, q := posIn(cs, f), posIn(pc, f); p != nil && q != nil && p != q && findPath(after(p), Target{Instr: q}, nil) != nil {
					isMaskRead = true
				}
			}
		}
		if !isMaskRead {
			continue
		}
		for f := cs.fr; f != nil; f = f.up {
			for _, b := range f.fn.Blocks {
				ifi := blockIf(b)
				if ifi == nil {
					continue
				}
				a := condAtom(ifi.Cond)
				if a.Op != token.EQL && a.Op != token.NEQ {
					continue
				}
				if k, isK := constInt(a.Y); !isK || k != 0 {
					continue
				}
				if rf, rv := c03Resolve(f, a.X, keep); rf != cs.fr || rv != v {
					continue
				}
				zero := Edge{b, 0}
				if (a.Op == token.NEQ) != a.Neg {
					zero = Edge{b, 1}
				}
				// from the zero edge no way back into the loop: only returns
				if len(zero.To().Instrs) > 0 && leaves(f, []Point{{zero.To(), 0}}, posIn(cs, f)) {
					okZero = true
				}
			}
		}
	}
	c.Check(okZero, rule, fnName(sf)+"#zero-mask-leaves", "a zero mask from the client ends the server loop", "the server loop does not leave when the client sends a zero mask", sf.Pos())
}
