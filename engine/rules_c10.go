package main

// C10 — honest peers negotiate by the policy table and agree on the result.
// Needs help_c03.go (handshake anchors) and help_c10.go (T-TAB evaluator).

import (
	"fmt"
	"go/token"
	"go/types"
	"sort"
	"strings"

	"golang.org/x/tools/go/ssa"
)

func init() { register("C10", c10r1, c10r2, c10r3, c10r4, c10r5, c10r6) }

// abstract objects of the table rows
const (
	c10ObjNeg    = 1 // the *SecurityNegotiation
	c10ObjAuth   = 2 // the *Authenticator
	c10ObjServer = 3 // negotiation.ServerConfig
	c10ObjClient = 4 // negotiation.ClientConfig
)

// c10Shape is one shape of the two method lists of a row.
type c10Shape struct {
	name           string
	server, client []string
}

// c10Common is the ORACLE for "a mutually supported method exists", written from the property
// statement and the anchor "method and cipher intersection in server preference order": the first
// entry of the server's list, other than the no-method marker, that the client lists too.
func c10Common(server, client []string, none string) (string, bool) {
	for _, s := range server {
		if s == none || s == "" {
			continue
		}
		for _, cl := range client {
			if cl == s {
				return s, true
			}
		}
	}
	return "", false
}

// c10Want is the ORACLE decision for one feature (authentication or encryption), written from
// properties.jsonl C10: "the handshake fails exactly when one side requires what the other forbids
// or a required feature has no mutually supported method ... authentication runs whenever either
// side requires it, or either prefers it while neither forbids it and a mutually usable method
// exists; encryption is on whenever either side requires it". on=nil means the statement leaves the
// cell free (checked for agreement only).
func (A *c03Anchors) c10Want(server, client string, common, isAuth bool) (fail bool, on *bool) {
	t, f := true, false
	req := server == A.required || client == A.required
	nev := server == A.never || client == A.never
	pref := server == A.preferred || client == A.preferred
	if req && nev {
		return true, nil
	}
	if req {
		if !common {
			return true, nil
		}
		return false, &t
	}
	if !isAuth {
		return false, nil // PREFERRED/OPTIONAL/NEVER encryption: free
	}
	if pref && !nev && common {
		return false, &t
	}
	return false, &f
}

type c10Tab struct {
	c       *Ctx
	A       *c03Anchors
	rule    string
	cache   map[string]*c10Res
	retMemo map[*ssa.Function][]RetPoint
	openSum map[*ssa.BasicBlock]*c10Open
}

// c10Shared keeps the evaluated rows of one run (one Ctx) so that R1, R2 and R3 do not re-evaluate the
// same rows; c10r6, the property's last rule, drops it again.
var c10Shared = map[*Ctx]*c10Tab{}

func newC10Tab(c *Ctx, A *c03Anchors, rule string) *c10Tab {
	if t, ok := c10Shared[c]; ok {
		return &c10Tab{c: c, A: A, rule: rule, cache: t.cache, retMemo: t.retMemo, openSum: t.openSum}
	}
	t := &c10Tab{c: c, A: A, rule: rule, cache: map[string]*c10Res{}, retMemo: map[*ssa.Function][]RetPoint{}, openSum: map[*ssa.BasicBlock]*c10Open{}}
	c10Shared[c] = t
	return t
}

// c10Open summarises structurally what follows a branch the policy inputs do not decide.
type c10Open struct {
	bad     string // non-empty: why the remainder cannot be summarised
	badPos  token.Pos
	hasFlag bool // the remainder assigns Authentication a constant on every success path
	flag    bool
}

// c10Res is the outcome of evaluating negotiateSecurity for one row.
type c10Res struct {
	out                c10tOutcome
	auth, enc, enact   c10tVal
	negAuth, negCrypto c10tVal
}

func (t *c10Tab) levels() []string {
	return []string{t.A.required, t.A.preferred, t.A.optional, t.A.never}
}

func (t *c10Tab) authShapes() []c10Shape {
	n := t.A.authNone
	return []c10Shape{
		{"same single method", []string{"M1"}, []string{"M1"}},
		{"disjoint", []string{"M1"}, []string{"M2"}},
		{"server list empty", nil, []string{"M1"}},
		{"client list empty", []string{"M1"}, nil},
		{"overlap, different order, with " + n, []string{n, "M1", "M2"}, []string{"M2", n, "M1"}},
		{"only " + n + " in common", []string{n, "M1"}, []string{n, "M2"}},
	}
}

func (t *c10Tab) cryptoShapes() []c10Shape {
	return []c10Shape{
		{"same cipher", []string{"AES"}, []string{"AES"}},
		{"no common cipher", []string{"X1"}, []string{"X2"}},
		{"overlap, different order", []string{"X1", "AES"}, []string{"AES", "X1"}},
	}
}

// bind maps the parameters of a handshake function to the abstract objects by type.
func (t *c10Tab) bind(fn *ssa.Function, st *c10tState) {
	for _, p := range fn.Params {
		pt, ok := p.Type().(*types.Pointer)
		if !ok {
			continue
		}
		if nt, ok := pt.Elem().(*types.Named); ok {
			switch nt.Obj().Name() {
			case "SecurityNegotiation":
				st.env[p] = c10tPtr(c10ObjNeg)
			case "Authenticator":
				st.env[p] = c10tPtr(c10ObjAuth)
			}
		}
	}
}

// initFn builds the initial content of the abstract objects for one row. localIsClient selects what
// a.config points at. The negotiation starts as the zero value (both callers pass a fresh literal;
// checked by freshNegotiation).
func (t *c10Tab) initFn(localIsClient bool, sAuth, cAuth, sEnc, cEnc string, am, cm c10Shape) func(c10tLoc) (c10tVal, bool) {
	A := t.A
	f := func(v *types.Var) string { return "." + v.Name() }
	local := c10ObjServer
	if localIsClient {
		local = c10ObjClient
	}
	m := map[c10tLoc]c10tVal{
		{c10ObjNeg, f(A.negServerConfig)}:      c10tPtr(c10ObjServer),
		{c10ObjNeg, f(A.negClientConfig)}:      c10tPtr(c10ObjClient),
		{c10ObjAuth, f(A.aConfig)}:             c10tPtr(local),
		{c10ObjNeg, f(A.negAuthentication)}:    c10tBool(false),
		{c10ObjNeg, f(A.negEncryption)}:        c10tBool(false),
		{c10ObjNeg, f(A.negEnact)}:             c10tBool(false),
		{c10ObjNeg, f(A.negNegotiatedAuth)}:    c10tStr(""),
		{c10ObjNeg, f(A.negNegotiatedCrypto)}:  c10tStr(""),
		{c10ObjServer, f(A.cfgAuthentication)}: c10tStr(sAuth),
		{c10ObjClient, f(A.cfgAuthentication)}: c10tStr(cAuth),
		{c10ObjServer, f(A.cfgEncryption)}:     c10tStr(sEnc),
		{c10ObjClient, f(A.cfgEncryption)}:     c10tStr(cEnc),
		{c10ObjServer, f(A.cfgAuthMethods)}:    c10tStrList(am.server...),
		{c10ObjClient, f(A.cfgAuthMethods)}:    c10tStrList(am.client...),
		{c10ObjServer, f(A.cfgCryptoMethods)}:  c10tStrList(cm.server...),
		{c10ObjClient, f(A.cfgCryptoMethods)}:  c10tStrList(cm.client...),
	}
	return func(l c10tLoc) (c10tVal, bool) { v, ok := m[l]; return v, ok }
}

func (t *c10Tab) tracked() map[int]bool {
	return map[int]bool{c10ObjNeg: true, c10ObjAuth: true, c10ObjServer: true, c10ObjClient: true}
}

func (t *c10Tab) field(st *c10tState, e *c10tEval, v *types.Var) c10tVal {
	return e.load(st, c10tLoc{c10ObjNeg, "." + v.Name()})
}

// negotiate evaluates negotiateSecurity for one row (memoised). The returned state is shared: clone before reuse.
func (t *c10Tab) negotiate(localIsClient bool, sAuth, cAuth, sEnc, cEnc string, am, cm c10Shape) (*c10Res, *c10tEval) {
	e := &c10tEval{p: t.c.Prog, tracked: t.tracked(), retMemo: t.retMemo, init: t.initFn(localIsClient, sAuth, cAuth, sEnc, cEnc, am, cm)}
	key := fmt.Sprint(localIsClient, sAuth, cAuth, sEnc, cEnc, am.name, cm.name)
	if r, ok := t.cache[key]; ok {
		return r, e
	}
	st := newC10tState()
	t.bind(t.A.negotiate, st)
	outs := e.run(t.A.negotiate, t.A.negotiate.Blocks[0], nil, st)
	r := &c10Res{}
	if len(outs) != 1 {
		r.out = c10tOutcome{kind: "undecided", why: "more than one path"}
	} else {
		r.out = outs[0]
		r.auth = t.field(r.out.st, e, t.A.negAuthentication)
		r.enc = t.field(r.out.st, e, t.A.negEncryption)
		r.enact = t.field(r.out.st, e, t.A.negEnact)
		r.negAuth = t.field(r.out.st, e, t.A.negNegotiatedAuth)
		r.negCrypto = t.field(r.out.st, e, t.A.negNegotiatedCrypto)
	}
	t.cache[key] = r
	return r, e
}

// freshNegotiation: at every call of negotiateSecurity the negotiation is a fresh composite literal
// of the calling function whose outcome fields have not been assigned (so the zero values assumed by
// the rows are the real initial state).
func (t *c10Tab) freshNegotiation() int {
	A := t.A
	n := 0
	for _, cs := range t.c.callSites(A.negotiate.Object()) {
		n++
		args := callArgs(cs.Call)
		construct := fnName(cs.Fn) + "#negotiateSecurity(arg)"
		al, ok := args[len(args)-1].(*ssa.Alloc)
		if !ok {
			t.c.Undecided(t.rule, construct, "the negotiation passed to negotiateSecurity is not a fresh literal of the caller: the table's initial state (zero outcome fields) is not established", cs.Call.Pos())
			continue
		}
		bad := ""
		for _, r := range *al.Referrers() {
			fa, ok := r.(*ssa.FieldAddr)
			if !ok {
				continue
			}
			switch fieldOfAddr(fa) {
			case A.negAuthentication, A.negEncryption, A.negEnact, A.negNegotiatedAuth, A.negNegotiatedCrypto:
				for _, u := range *fa.Referrers() {
					if st, ok := u.(*ssa.Store); ok && st.Addr == fa && findPath(after(st), Target{Instr: cs.Call}, nil) != nil {
						bad = fieldOfAddr(fa).Name()
					}
				}
			}
		}
		if bad != "" {
			t.c.Undecided(t.rule, construct, "field "+bad+" of the negotiation is assigned before negotiateSecurity runs: the table's initial state is not the zero value", cs.Call.Pos())
		} else {
			t.c.Ok(t.rule, construct, "negotiation is a fresh literal with zero outcome fields", cs.Call.Pos())
		}
	}
	return n
}

func c10Bool(v c10tVal) string {
	if b, ok := v.isBool(); ok {
		return fmt.Sprint(b)
	}
	return "?"
}

// ---------------------------------------------------------------------------
// C10-R1: the server's decision table

func c10r1(c *Ctx) {
	const rule = "C10-R1"
	defer c03Timed(c, rule)()
	c.Doc(rule, "T-TAB: negotiateSecurity is evaluated by constant folding over its SSA for every (server level x client level) of authentication and of encryption x method-list shapes x cipher-list shapes; each row's (error?, Authentication, Encryption, NegotiatedAuth, NegotiatedCrypto) is compared with the decision written from the property statement (fail iff REQUIRED meets NEVER or a required feature has no common method; authenticate iff a side requires it, or a side prefers it, neither forbids it and a common method exists; encrypt whenever a side requires it; methods chosen in server preference order)")
	A := c.handshakeAnchors(rule)
	if !A.ok {
		return
	}
	t := newC10Tab(c, A, rule)
	c.MinCount(rule, "negotiateSecurity call sites with a fresh negotiation", t.freshNegotiation(), 2)
	type cell struct{ kind, s, cl string }
	bad := map[cell]string{}
	badPos := map[cell]token.Pos{}
	rows := 0
	und := 0
	for _, sa := range t.levels() {
		for _, ca := range t.levels() {
			for _, se := range t.levels() {
				for _, ce := range t.levels() {
					for _, am := range t.authShapes() {
						for _, cm := range t.cryptoShapes() {
							rows++
							r, _ := t.negotiate(false, sa, ca, se, ce, am, cm)
							desc := fmt.Sprintf("auth server=%s client=%s, enc server=%s client=%s, methods %q, ciphers %q", sa, ca, se, ce, am.name, cm.name)
							if r.out.kind != "success" && r.out.kind != "error" {
								und++
								if und <= 3 {
									c.Undecided(rule, "negotiateSecurity#row-not-evaluable", "row ("+desc+") leaves the evaluable subset: "+r.out.why, r.out.pos)
								}
								continue
							}
							wantM, commonA := c10Common(am.server, am.client, A.authNone)
							wantC, commonC := c10Common(cm.server, cm.client, "")
							failA, onA := A.c10Want(sa, ca, commonA, true)
							failE, onE := A.c10Want(se, ce, commonC, false)
							ac, ec := cell{"auth", sa, ca}, cell{"enc", se, ce}
							note := func(k cell, msg string) {
								if _, dup := bad[k]; !dup {
									bad[k] = msg + " [row: " + desc + "]"
									badPos[k] = r.out.pos
								}
							}
							gotFail := r.out.kind == "error"
							if gotFail != (failA || failE) {
								// attribute to the half whose marginal row (other feature neutral) also disagrees
								ra, _ := t.negotiate(false, sa, ca, A.never, A.never, am, t.cryptoShapes()[0])
								re, _ := t.negotiate(false, A.never, A.never, se, ce, t.authShapes()[0], cm)
								ma := (ra.out.kind == "error") != failA
								me := (re.out.kind == "error") != failE
								msg := fmt.Sprintf("handshake %s but the stated policy says it must %s", map[bool]string{true: "fails", false: "succeeds"}[gotFail], map[bool]string{true: "fail", false: "succeed"}[failA || failE])
								if ma || !me {
									note(ac, msg)
								}
								if me || !ma {
									note(ec, msg)
								}
								continue
							}
							if gotFail {
								continue
							}
							if b, ok := r.auth.isBool(); !ok {
								note(ac, "Authentication is not determined by the inputs")
							} else if onA != nil && b != *onA {
								note(ac, fmt.Sprintf("Authentication=%v but the stated policy says %v", b, *onA))
							} else if b {
								if m, _ := r.negAuth.isStr(); m != wantM {
									note(ac, fmt.Sprintf("authentication is on but NegotiatedAuth=%q, expected the first mutually supported method in server order %q", m, wantM))
								}
							}
							if b, ok := r.enc.isBool(); !ok {
								note(ec, "Encryption is not determined by the inputs")
							} else if onE != nil && b != *onE {
								note(ec, fmt.Sprintf("Encryption=%v but a side requires encryption", b))
							} else if b {
								if m, _ := r.negCrypto.isStr(); m != wantC {
									note(ec, fmt.Sprintf("encryption is on but NegotiatedCrypto=%q, expected the first mutually supported cipher in server order %q", m, wantC))
								}
							}
						}
					}
				}
			}
		}
	}
	for _, kind := range []string{"auth", "enc"} {
		for _, s := range t.levels() {
			for _, cl := range t.levels() {
				k := cell{kind, s, cl}
				construct := fmt.Sprintf("negotiateSecurity#%s[server=%s,client=%s]", kind, s, cl)
				if msg, isBad := bad[k]; isBad {
					c.Violate(rule, construct, msg, badPos[k])
				} else {
					c.Ok(rule, construct, "all rows of this cell match the stated policy", A.negotiate.Pos())
				}
			}
		}
	}
	c.MinCount(rule, "table rows evaluated", rows-und, 16*16*6*3)
}

// ---------------------------------------------------------------------------
// publication of the server's decision and the client's view

// c10ReaderAttrs: the attribute names whose value parseServerSecurityAd stores into SecurityConfig.field.
func (t *c10Tab) readerAttrs(field *types.Var) []string {
	var names []string
	for _, st := range c03StoresTo(t.A.parseAd, field) {
		for _, o := range origins(t.A.parseAd, st.Val) {
			v := o
			// look through a list-parsing helper: parseMethodsList(x)
			if call, idx := originCall(v); call != nil && idx == 0 && c03SamePkg(calleeFn(call), t.A.parseAd) && len(call.Common().Args) == 1 {
				os := origins(t.A.parseAd, call.Common().Args[0])
				if len(os) == 1 {
					v = os[0]
				}
			}
			call, idx := originCall(v)
			if call == nil || idx != 0 {
				continue
			}
			if o := calleeObj(call); o == nil || o.Pkg() == nil || o.Pkg().Name() != "classad" || !c03IsEvaluate(o.Name()) {
				continue
			}
			if n, ok := constString(callArgs(call)[1]); ok {
				names = append(names, n)
			}
		}
	}
	sort.Strings(names)
	return uniq(names)
}

// publish evaluates createServerSecurityAd with the decision flags fixed and returns the constant it
// writes under attribute attr on every path (ok=false with a reason otherwise).
func (t *c10Tab) publish(auth, enc bool, attr string) (string, token.Pos, string) {
	A := t.A
	f := func(v *types.Var) string { return "." + v.Name() }
	init := func(l c10tLoc) (c10tVal, bool) {
		switch l {
		case c10tLoc{c10ObjNeg, f(A.negAuthentication)}:
			return c10tBool(auth), true
		case c10tLoc{c10ObjNeg, f(A.negEncryption)}:
			return c10tBool(enc), true
		case c10tLoc{c10ObjAuth, f(A.aConfig)}:
			return c10tPtr(c10ObjServer), true
		case c10tLoc{c10ObjServer, f(A.cfgAuthMethods)}:
			return c10tStrList("M1", "M2"), true
		case c10tLoc{c10ObjServer, f(A.cfgCryptoMethods)}:
			return c10tStrList("AES"), true
		}
		return c10tVal{}, false
	}
	e := &c10tEval{p: t.c.Prog, tracked: t.tracked(), retMemo: t.retMemo, init: init, fork: true, maxPaths: 4096}
	st := newC10tState()
	t.bind(A.mkServerAd, st)
	outs := e.run(A.mkServerAd, A.mkServerAd.Blocks[0], nil, st)
	val := ""
	have := false
	for _, o := range outs {
		if o.kind != "success" {
			return "", o.pos, "createServerSecurityAd cannot be evaluated: " + o.why
		}
		n := 0
		for _, args := range o.st.emitted("classad", "Set") {
			if len(args) < 3 {
				continue
			}
			if name, ok := args[1].isStr(); !ok {
				return "", A.mkServerAd.Pos(), "createServerSecurityAd sets an attribute whose name is not constant"
			} else if name == attr {
				n++
				s, ok := args[2].isStr()
				if !ok {
					return "", A.mkServerAd.Pos(), "the value published under " + attr + " is not a constant"
				}
				if have && s != val {
					return "", A.mkServerAd.Pos(), "the value published under " + attr + " differs between paths with the same decision"
				}
				val, have = s, true
			}
		}
		if n != 1 {
			return "", A.mkServerAd.Pos(), fmt.Sprintf("attribute %s is set %d time(s) on a path of createServerSecurityAd", attr, n)
		}
	}
	return val, token.NoPos, ""
}

// c10After describes what a handle*Authentication function does from an evaluated state.
type c10After struct {
	kind string  // "returns" (no exchange) | "exchange" | "error" | "undecided"
	flag c10tVal // negotiation.Authentication reported on success
	pos  token.Pos
	why  string
}

// after evaluates fn (handleClientAuthentication / handleServerAuthentication) from the state left by
// negotiateSecurity. A decided path to a return gives "returns"/"error". When the path reaches a
// branch the inputs do not decide (I/O with the peer), the remainder is summarised structurally:
// every success return reachable from there must pass a nil-error performAuthentication ("exchange"),
// and the Authentication flag on those returns is the constant stored after it, if any.
func (t *c10Tab) after(fn *ssa.Function, e *c10tEval, st0 *c10tState) c10After {
	A := t.A
	st := newC10tState()
	for k, v := range st0.heap {
		st.heap[k] = v
	}
	for k, v := range st0.clobbered {
		st.clobbered[k] = v
	}
	t.bind(fn, st)
	e2 := &c10tEval{p: e.p, tracked: e.tracked, init: e.init, retMemo: t.retMemo}
	outs := e2.run(fn, fn.Blocks[0], nil, st)
	if len(outs) != 1 {
		return c10After{kind: "undecided", why: "more than one path", pos: fn.Pos()}
	}
	o := outs[0]
	flag := t.field(o.st, e2, A.negAuthentication)
	switch o.kind {
	case "success":
		return c10After{kind: "returns", flag: flag, pos: o.pos}
	case "error":
		return c10After{kind: "error", pos: o.pos}
	case "open":
		sum := t.openSummary(fn, o.at, o.pos)
		if sum.bad != "" {
			return c10After{kind: "undecided", why: sum.bad, pos: sum.badPos}
		}
		if sum.hasFlag {
			flag = c10tBool(sum.flag)
		}
		return c10After{kind: "exchange", flag: flag, pos: o.pos}
	}
	return c10After{kind: "undecided", why: o.why, pos: o.pos}
}

// openSummary (memoised per block): from the undecided branch at block `at`, every success return must
// pass a nil-error performAuthentication; the Authentication flag on those returns is the constant
// stored on every such path, if the function stores it at all.
func (t *c10Tab) openSummary(fn *ssa.Function, at *ssa.BasicBlock, pos token.Pos) *c10Open {
	if s, ok := t.openSum[at]; ok {
		return s
	}
	A := t.A
	s := &c10Open{}
	t.openSum[at] = s
	cuts := newCuts()
	calls := callsIn(fn, A.perfAuth.Object())
	for _, cs := range calls {
		succ, _, _ := callErrEdges(fn, cs.Value())
		cuts.AddEdges(succ...)
	}
	if len(calls) == 0 {
		s.bad, s.badPos = "no performAuthentication call after the undecided branch", pos
		return s
	}
	succT := t.c.successTargets(fn)
	for _, tg := range succT {
		if p := findPath(Point{at, 0}, tg.Target(), cuts); p != nil {
			s.bad = "after the branch at " + t.c.Pos(pos) + " (not decided by the policy inputs) a success return is reachable without a successful performAuthentication"
			s.badPos = pos
			return s
		}
	}
	var w []ssa.Instruction
	for _, st := range c03StoresTo(fn, A.negAuthentication) {
		if findPath(Point{at, 0}, Target{Instr: st}, nil) == nil {
			continue
		}
		b, ok := constBool(st.Val)
		if !ok || (len(w) > 0 && b != s.flag) {
			s.bad, s.badPos = "Authentication is assigned a non-constant or conflicting value after the exchange", st.Pos()
			return s
		}
		s.flag = b
		w = append(w, st)
	}
	if len(w) > 0 {
		wc := newCuts().AddInstrs(w...)
		for _, tg := range succT {
			if findPath(Point{at, 0}, tg.Target(), wc) != nil {
				s.bad, s.badPos = "Authentication is assigned on some but not all success paths after the exchange", tg.Ret.Pos()
				return s
			}
		}
		s.hasFlag = true
	}
	return s
}

// clientView evaluates what a cedar client does and reports for its own levels and the server's
// published answers.
func (t *c10Tab) clientView(ansAuth, cAuth, ansEnc, cEnc string, am, cm c10Shape) (neg *c10Res, aft c10After) {
	r, e := t.negotiate(true, ansAuth, cAuth, ansEnc, cEnc, am, cm)
	if r.out.kind != "success" {
		return r, c10After{}
	}
	return r, t.after(t.A.hClient, e, r.out.st)
}

// answers resolves the constants the server publishes for a true / false decision, through the
// attribute that the client's parser loads into SecurityConfig.Authentication / .Encryption.
func (t *c10Tab) answers(field *types.Var, isAuth bool) (yes, no string, ok bool) {
	names := t.readerAttrs(field)
	if len(names) != 1 {
		t.c.Undecided(t.rule, "parseServerSecurityAd#"+field.Name(), fmt.Sprintf("expected exactly one attribute to feed SecurityConfig.%s, found %v", field.Name(), names), t.A.parseAd.Pos())
		return "", "", false
	}
	get := func(b bool) (string, bool) {
		v, pos, why := t.publish(isAuth && b, !isAuth && b, names[0])
		if why != "" {
			t.c.Undecided(t.rule, "createServerSecurityAd#"+names[0], why, pos)
			return "", false
		}
		return v, true
	}
	y, ok1 := get(true)
	n, ok2 := get(false)
	if !ok1 || !ok2 {
		return "", "", false
	}
	if y == n {
		t.c.Violate(t.rule, "createServerSecurityAd#"+names[0], "the server publishes the same value "+fmt.Sprintf("%q", y)+" for both decisions: the client cannot learn the outcome", t.A.mkServerAd.Pos())
		return "", "", false
	}
	t.c.Ok(t.rule, "createServerSecurityAd#"+names[0], fmt.Sprintf("decision true/false is published as %q/%q under the attribute the client parses into SecurityConfig.%s", y, n, field.Name()), t.A.mkServerAd.Pos())
	return y, n, true
}

// clientCfgIsLocal: in performFullAuthentication the negotiation's ClientConfig is a.config (the
// rows model both as one object).
func (t *c10Tab) clientCfgIsLocal() {
	A := t.A
	ok := false
	var pos token.Pos
	for _, s := range c03StoresTo(A.fullClient, A.negClientConfig) {
		pos = s.Pos()
		if _, isCfg := c03LoadOf(s.Val, A.aConfig); isCfg {
			ok = true
		} else {
			ok = false
			break
		}
	}
	if ok {
		t.c.Ok(t.rule, fnName(A.fullClient)+"#ClientConfig=a.config", "the client negotiates with its own configuration object", pos)
	} else {
		t.c.Undecided(t.rule, fnName(A.fullClient)+"#ClientConfig=a.config", "cannot establish that negotiation.ClientConfig is a.config in the client's full handshake (the rows assume it)", pos)
	}
}

// ---------------------------------------------------------------------------
// C10-R2: the client's re-derivation from the published answer

func c10r2(c *Ctx) {
	const rule = "C10-R2"
	defer c03Timed(c, rule)()
	c.Doc(rule, "T-TAB on the client's view: negotiateSecurity + handleClientAuthentication evaluated for own level x the server's published answer (the constants createServerSecurityAd writes, read back through parseServerSecurityAd's attribute) x method-list shapes: a declining answer under own REQUIRED fails; otherwise the exchange runs iff the answer is positive and the reported Authentication equals whether it ran")
	A := c.handshakeAnchors(rule)
	if !A.ok {
		return
	}
	t := newC10Tab(c, A, rule)
	t.clientCfgIsLocal()
	yesA, noA, ok := t.answers(A.cfgAuthentication, true)
	if !ok {
		return
	}
	_, noE, ok := t.answers(A.cfgEncryption, false)
	if !ok {
		return
	}
	rows := 0
	for _, cl := range t.levels() {
		for _, ans := range []bool{true, false} {
			construct := fmt.Sprintf("client[level=%s,server-answer=%v]", cl, ans)
			a := noA
			if ans {
				a = yesA
			}
			msg, status := "", StOK
			var pos token.Pos
			for _, am := range t.authShapes() {
				rows++
				_, common := c10Common(am.server, am.client, A.authNone)
				neg, aft := t.clientView(a, cl, noE, A.optional, am, t.cryptoShapes()[0])
				fail := func(s string, p token.Pos, und bool) {
					if msg == "" {
						msg, pos = s+fmt.Sprintf(" [methods %q]", am.name), p
						status = StViolated
						if und {
							status = StUndecided
						}
					}
				}
				if neg.out.kind != "success" && neg.out.kind != "error" {
					fail("client-side negotiateSecurity leaves the evaluable subset: "+neg.out.why, neg.out.pos, true)
					continue
				}
				failed := neg.out.kind == "error" || aft.kind == "error"
				if !failed && aft.kind == "undecided" {
					fail(aft.why, aft.pos, true)
					continue
				}
				p := neg.out.pos
				if neg.out.kind == "success" {
					p = aft.pos
				}
				switch {
				case !ans && cl == A.required:
					// C03/C10 statement: own REQUIRED + peer declines => no success without authentication
					if !failed {
						fail("the server declines authentication, the client's own level is "+A.required+", yet the client's handshake step returns success without authenticating", p, false)
					}
				case failed:
					// a failure is acceptable only where the statement allows one
					if !(ans && (!common || cl == A.never)) {
						fail("the client fails although the answer is compatible with its policy", p, false)
					}
				default:
					ran := aft.kind == "exchange"
					if ran != ans {
						fail(fmt.Sprintf("authentication exchange runs=%v but the server's answer was %v", ran, ans), p, false)
					} else if b, ok := aft.flag.isBool(); !ok || b != ran {
						fail(fmt.Sprintf("client reports Authentication=%s although the exchange ran=%v", c10Bool(aft.flag), ran), p, false)
					}
				}
			}
			switch status {
			case StOK:
				c.Ok(rule, construct, "client outcome matches the stated policy for every method-list shape", A.hClient.Pos())
			case StViolated:
				c.Violate(rule, construct, msg, pos)
			default:
				c.Undecided(rule, construct, msg, pos)
			}
		}
	}
	c.MinCount(rule, "client rows evaluated", rows, 4*2*6)
}

// ---------------------------------------------------------------------------
// C10-R3: both ends agree

func c10r3(c *Ctx) {
	const rule = "C10-R3"
	defer c03Timed(c, rule)()
	c.Doc(rule, "agreement: for every row of the server table that succeeds, the client evaluated on the published answers also succeeds, both ends run the authentication exchange iff the server's Authentication flag is set (handleServerAuthentication gate / client's authRequired), and both report that flag; setupStreamEncryption decides from inputs that are equal on both ends (the two public keys, NegotiatedCrypto, the resumed key) and NegotiatedCrypto agrees")
	A := c.handshakeAnchors(rule)
	if !A.ok {
		return
	}
	t := newC10Tab(c, A, rule)
	yesA, noA, ok := t.answers(A.cfgAuthentication, true)
	if !ok {
		return
	}
	yesE, noE, ok := t.answers(A.cfgEncryption, false)
	if !ok {
		return
	}
	type cell struct{ s, cl string }
	bad := map[cell]string{}
	badPos := map[cell]token.Pos{}
	und := map[cell]bool{}
	rows := 0
	for _, sa := range t.levels() {
		for _, ca := range t.levels() {
			k := cell{sa, ca}
			note := func(msg string, pos token.Pos, u bool) {
				if _, dup := bad[k]; !dup {
					bad[k], badPos[k], und[k] = msg, pos, u
				}
			}
			for _, se := range t.levels() {
				for _, ce := range t.levels() {
					for _, am := range t.authShapes() {
						for _, cm := range t.cryptoShapes() {
							srv, es := t.negotiate(false, sa, ca, se, ce, am, cm)
							if srv.out.kind != "success" {
								continue // failing rows and non-evaluable rows are R1's / R4's business
							}
							rows++
							desc := fmt.Sprintf(" [row: enc server=%s client=%s, methods %q, ciphers %q]", se, ce, am.name, cm.name)
							as, ok1 := srv.auth.isBool()
							esb, ok2 := srv.enc.isBool()
							if !ok1 || !ok2 {
								note("server flags not determined"+desc, srv.out.pos, true)
								continue
							}
							sAft := t.after(A.hServer, es, srv.out.st)
							if sAft.kind == "undecided" {
								note("server: "+sAft.why+desc, sAft.pos, true)
								continue
							}
							if (sAft.kind == "exchange") != as {
								note(fmt.Sprintf("server reports Authentication=%v but its exchange runs=%v", as, sAft.kind == "exchange")+desc, sAft.pos, false)
								continue
							}
							if b, ok := sAft.flag.isBool(); !ok || b != as {
								note(fmt.Sprintf("server's flag changes to %s in handleServerAuthentication", c10Bool(sAft.flag))+desc, sAft.pos, false)
								continue
							}
							a, e := noA, noE
							if as {
								a = yesA
							}
							if esb {
								e = yesE
							}
							cli, cAft := t.clientView(a, ca, e, ce, am, cm)
							switch {
							case cli.out.kind == "error" || cAft.kind == "error":
								p := cli.out.pos
								if cli.out.kind != "error" {
									p = cAft.pos
								}
								note(fmt.Sprintf("the server succeeds (Authentication=%v Encryption=%v) but the client fails on the published answer", as, esb)+desc, p, false)
							case cli.out.kind != "success":
								note("client negotiateSecurity not evaluable: "+cli.out.why+desc, cli.out.pos, true)
							case cAft.kind == "undecided":
								note("client: "+cAft.why+desc, cAft.pos, true)
							case (cAft.kind == "exchange") != as:
								note(fmt.Sprintf("server runs the authentication exchange=%v but the client runs it=%v", as, cAft.kind == "exchange")+desc, cAft.pos, false)
							default:
								if b, ok := cAft.flag.isBool(); !ok || b != as {
									note(fmt.Sprintf("server reports Authentication=%v, client reports Authentication=%s (exchange ran=%v)", as, c10Bool(cAft.flag), as)+desc, cAft.pos, false)
								} else if cs, ss := cli.negCrypto.String(), srv.negCrypto.String(); cs != ss {
									note("NegotiatedCrypto differs: server "+ss+", client "+cs+desc, cli.out.pos, false)
								} else if as {
									if cm, sm := cli.negAuth.String(), srv.negAuth.String(); cm != sm {
										note("NegotiatedAuth differs before the exchange: server "+sm+", client "+cm+desc, cli.out.pos, false)
									}
								}
							}
						}
					}
				}
			}
			construct := fmt.Sprintf("agree#auth[server=%s,client=%s]", sa, ca)
			if msg, isBad := bad[k]; !isBad {
				c.Ok(rule, construct, "client and server agree on every succeeding row of this cell", A.hClient.Pos())
			} else if und[k] {
				c.Undecided(rule, construct, msg, badPos[k])
			} else {
				c.Violate(rule, construct, msg, badPos[k])
			}
		}
	}
	c.MinCount(rule, "succeeding server rows compared with the client", rows, 1000)
	c10SetupSymmetric(c, rule, A)
}

// c10SetupSymmetric: the branch conditions of setupStreamEncryption that decide between its success
// returns read only values that two honest cedar ends share: the negotiation's NegotiatedCrypto,
// SessionResumed, the shared secret, the two configs' ECDH public keys (nil tests of the configs
// themselves), and errors of calls. In particular no such condition reads IsClient or a level of the
// local policy unless one of its edges can only fail.
func c10SetupSymmetric(c *Ctx, rule string, A *c03Anchors) {
	fn := A.setup
	succ := c.successTargets(fn)
	reachSucc := func(b *ssa.BasicBlock) bool {
		if len(b.Instrs) == 0 {
			return false
		}
		for _, t := range succ {
			if findPath(Point{b, 0}, t.Target(), nil) != nil {
				return true
			}
		}
		return false
	}
	isClient := c.needField(rule, "security", "SecurityNegotiation", "IsClient")
	n := 0
	for _, b := range fn.Blocks {
		ifi := blockIf(b)
		if ifi == nil || !reachSucc(b.Succs[0]) || !reachSucc(b.Succs[1]) {
			continue // one edge only fails: not a choice between two successful outcomes
		}
		n++
		asym := ""
		// operand tree of the condition, not descending into calls (a call's error is "shared" when
		// both ends are honest: each runs the same computation on mirrored inputs)
		var walk func(v ssa.Value, d int)
		walk = func(v ssa.Value, d int) {
			if v == nil || d > 20 || asym != "" {
				return
			}
			if _, f, ok := fieldRead(v); ok {
				switch f {
				case isClient, A.cfgAuthentication, A.cfgEncryption, A.cfgIntegrity, A.aConfig:
					asym = f.Name()
				}
			}
			switch x := v.(type) {
			case *ssa.Call, *ssa.Extract:
				return
			case ssa.Instruction:
				for _, op := range x.Operands(nil) {
					if *op != nil {
						walk(*op, d+1)
					}
				}
			}
		}
		walk(ifi.Cond, 0)
		if asym != "" {
			c.Violate(rule, fnName(fn)+"#branch-on:"+asym, "setupStreamEncryption chooses between two successful outcomes on "+asym+", which differs between the two ends: they can disagree on whether the stream is encrypted", c10CondPos(ifi))
		}
	}
	c.Ok(rule, fnName(fn)+"#symmetric-branches", fmt.Sprintf("%d outcome-deciding branches read only values shared by both ends", n), fn.Pos())
	c.MinCount(rule, "outcome-deciding branches of setupStreamEncryption", n, 4)
}

// ---------------------------------------------------------------------------
// C10-R4: explicit denial

func c10r4(c *Ctx) {
	const rule = "C10-R4"
	defer c03Timed(c, rule)()
	c.Doc(rule, "T-MPT + constant agreement: in ServerHandshakeWithMessage every return reachable from the error edge of negotiateSecurity passes a call of sendNegotiationFailureResponse, which sets ReturnCode to a constant and sends the ad; the client's performFullAuthentication, evaluated with that constant as the received ReturnCode, returns an error before it negotiates")
	A := c.handshakeAnchors(rule)
	if !A.ok {
		return
	}
	fn := A.fullServer
	n := 0
	for _, cs := range callsIn(fn, A.negotiate.Object()) {
		_, fail, checked := callErrEdges(fn, cs.Value())
		if !checked {
			c.Violate(rule, fnName(fn)+"#negotiateSecurity-error", "the error of negotiateSecurity is not tested", cs.Pos())
			continue
		}
		cuts := newCuts()
		for _, d := range callsIn(fn, A.sendFail.Object()) {
			cuts.AddInstrs(d)
		}
		for _, e := range fail {
			n++
			var wit []*ssa.BasicBlock
			for _, rp := range c.returnsOf(fn) {
				if len(e.To().Instrs) == 0 {
					continue
				}
				if p := findPath(Point{e.To(), 0}, rp.Target(), cuts); p != nil {
					wit = p
					break
				}
			}
			if wit == nil {
				c.Ok(rule, fnName(fn)+"#negotiateSecurity-error=>denial", "every return after a failed negotiation is preceded by sendNegotiationFailureResponse", cs.Pos())
			} else {
				c.Violate(rule, fnName(fn)+"#negotiateSecurity-error=>denial", "after negotiateSecurity fails the server can return (and close) without sending a denial: the client sees a bare close", cs.Pos(), c.describePath(wit)...)
			}
		}
	}
	c.MinCount(rule, "negotiateSecurity error edges in the server handshake", n, 1)

	// the denial carries a constant return code (under the attribute the client inspects) and is sent
	attr := c10ReturnCodeAttr(A)
	if attr == "" {
		c.Undecided(rule, fnName(A.fullClient)+"#rejection-test", "cannot find an attribute that sendNegotiationFailureResponse sets to a constant (and the regular server ad does not carry) and the client reads before negotiating", A.fullClient.Pos())
		return
	}
	code, okCode := "", false
	for _, call := range c03AttrCalls(A.sendFail, c03IsSet, nil)[attr] {
		if args := callArgs(call); len(args) >= 3 {
			if v, ok := constString(args[2]); ok {
				code, okCode = v, true
			}
		}
	}
	if !okCode {
		c.Violate(rule, fnName(A.sendFail)+"#"+attr, "sendNegotiationFailureResponse does not set "+attr+" (the attribute the client tests) to a constant", A.sendFail.Pos())
		return
	}
	sent := 0
	for _, name := range []string{"PutClassAd", "FinishMessage"} {
		found := false
		allInstrs(A.sendFail, func(_ *ssa.BasicBlock, _ int, in ssa.Instruction) {
			if call, ok := in.(ssa.CallInstruction); ok {
				if o := calleeObj(call); o != nil && o.Name() == name && o.Pkg() != nil && o.Pkg().Name() == "message" {
					found = true
				}
			}
		})
		if found {
			sent++
		}
	}
	c.Check(sent == 2, rule, fnName(A.sendFail)+"#sent", "the denial ad is written and the message finished", "sendNegotiationFailureResponse does not send the ad (PutClassAd + FinishMessage)", A.sendFail.Pos())

	// client: with ReturnCode = code, does performFullAuthentication stop before negotiating?
	cf := A.fullClient
	var rcCall ssa.CallInstruction
	for _, call := range c03AttrCalls(cf, c03IsEvaluate, nil)[attr] {
		// the first read of the attribute that can reach the negotiateSecurity call
		for _, ncs := range callsIn(cf, A.negotiate.Object()) {
			if findPath(after(call), Target{Instr: ncs}, nil) != nil && rcCall == nil {
				rcCall = call
			}
		}
	}
	if rcCall == nil {
		c.Violate(rule, fnName(cf)+"#rejection-test", "the client does not inspect "+attr+" of the server's response before negotiating", cf.Pos())
		return
	}
	for _, val := range []string{code} {
		e := &c10tEval{p: c.Prog}
		st := newC10tState()
		st.env[rcCall.Value()] = c10tVal{kind: c10tvList, list: []c10tVal{c10tStr(val), c10tBool(true)}}
		// continue right after the call: evaluate the rest of its block, then follow
		outs := c10RunAfter(e, cf, rcCall, st)
		verdict, pos := "", rcCall.Pos()
		for _, o := range outs {
			switch o.kind {
			case "error":
			case "open":
				// an undecided branch: harmless when, from there, neither the negotiation nor a
				// success return can be reached any more (we are inside the rejection branch)
				reach := false
				for _, ncs := range callsIn(cf, A.negotiate.Object()) {
					if findPath(Point{o.at, 0}, Target{Instr: ncs}, nil) != nil {
						reach = true
						if o.at == ncs.Block() {
							verdict, pos = "with "+attr+"="+fmt.Sprintf("%q", val)+" the client goes on to negotiate instead of reporting the denial", o.pos
						}
					}
				}
				for _, tg := range c.successTargets(cf) {
					if findPath(Point{o.at, 0}, tg.Target(), nil) != nil {
						reach = true
					}
				}
				if reach && verdict == "" {
					verdict, pos = "undecided: a branch before the negotiation is not decided by the received "+attr+": "+o.why, o.pos
				}
			default:
				verdict, pos = "with "+attr+"="+fmt.Sprintf("%q", val)+" the client's handshake does not end in an error ("+o.kind+")", o.pos
			}
		}
		construct := fnName(cf) + "#denial:" + attr + "=" + val
		switch {
		case verdict == "":
			c.Ok(rule, construct, "the client turns the server's denial constant into an error before negotiating", rcCall.Pos())
		case strings.HasPrefix(verdict, "undecided"):
			c.Undecided(rule, construct, verdict, pos)
		default:
			c.Violate(rule, construct, verdict, pos)
		}
	}
}

// c10ReturnCodeAttr: the attribute sendNegotiationFailureResponse sets and performFullAuthentication
// reads from the first server response (intersection of the two tables, minus what the regular server
// ad also carries).
func c10ReturnCodeAttr(A *c03Anchors) string {
	sets := c03AttrCalls(A.sendFail, c03IsSet, nil)
	regular := c03AttrCalls(A.mkServerAd, c03IsSet, nil)
	reads := c03AttrCalls(A.fullClient, c03IsEvaluate, nil)
	var cands []string
	for name, calls := range sets {
		if _, isRegular := regular[name]; isRegular {
			continue
		}
		if _, isRead := reads[name]; !isRead {
			continue
		}
		for _, call := range calls {
			if len(callArgs(call)) >= 3 {
				if _, ok := constString(callArgs(call)[2]); ok {
					cands = append(cands, name)
				}
			}
		}
	}
	sort.Strings(cands)
	cands = uniq(cands)
	if len(cands) == 1 {
		return cands[0]
	}
	return ""
}

// c10RunAfter evaluates fn from the instruction after call (same block), with st pre-bound.
func c10RunAfter(e *c10tEval, fn *ssa.Function, call ssa.CallInstruction, st *c10tState) []c10tOutcome {
	// execute the rest of the block by hand, then let run() take over at the successor
	b := call.Block()
	idx := pointOf(call).Idx
	for _, in := range b.Instrs[idx+1:] {
		switch x := in.(type) {
		case *ssa.If:
			if bv, ok := e.val(st, x.Cond).isBool(); ok {
				s := b.Succs[1]
				if bv {
					s = b.Succs[0]
				}
				return e.run(fn, s, b, st)
			}
			return []c10tOutcome{{kind: "open", st: st, at: b, pos: c10CondPos(x), why: "branch condition not determined"}}
		case *ssa.Jump:
			return e.run(fn, b.Succs[0], b, st)
		case *ssa.Return:
			return []c10tOutcome{{kind: "success", st: st, ret: x, pos: x.Pos()}}
		default:
			e.step(st, in)
		}
	}
	return nil
}

// ---------------------------------------------------------------------------
// C10-R5: attribute tables of the three handshake ads

func c10r5(c *Ctx) {
	const rule = "C10-R5"
	defer c03Timed(c, rule)()
	c.Doc(rule, "T-SIB writer/reader agreement of attribute-name constants: what parseServerSecurityAd reads is written by createClientSecurityAd or createServerSecurityAd and the decision-carrying attributes by both; what the client reads from the post-auth ad is written by createPostAuthAd; both ends file the session under the published Sid with negotiation.GetSharedSecret() as key")
	A := c.handshakeAnchors(rule)
	if !A.ok {
		return
	}
	keys := func(m map[string][]ssa.CallInstruction) map[string]bool {
		o := map[string]bool{}
		for k := range m {
			o[k] = true
		}
		return o
	}
	wClient := keys(c03AttrCalls(A.mkClientAd, c03IsSet, nil))
	wServer := keys(c03AttrCalls(A.mkServerAd, c03IsSet, nil))
	rParse := c03AttrCalls(A.parseAd, c03IsEvaluate, nil)
	// exceptions: attributes the shared parser reads that only a non-cedar (HTCondor C++) peer publishes
	except := map[string]string{
		"IssuerKeys": "published by HTCondor C++ servers only; cedar's server ad does not carry it",
	}
	n := 0
	var names []string
	for name := range rParse {
		names = append(names, name)
	}
	sort.Strings(names)
	for _, name := range names {
		n++
		construct := "parseServerSecurityAd#reads:" + name
		pos := rParse[name][0].Pos()
		if wClient[name] || wServer[name] {
			c.Ok(rule, construct, "attribute is written by a cedar handshake ad", pos)
		} else if why, ok := except[name]; ok {
			c.Ok(rule, construct, "exception: "+why, pos)
		} else {
			c.Violate(rule, construct, "the parser reads attribute "+name+" that neither createClientSecurityAd nor createServerSecurityAd writes (renamed on one side?)", pos)
		}
	}
	c.MinCount(rule, "attributes read by parseServerSecurityAd", n, 14)
	// decision-carrying fields: the attribute feeding each must be written by both ads
	t := newC10Tab(c, A, rule)
	for _, f := range []*types.Var{A.cfgAuthentication, A.cfgEncryption, A.cfgAuthMethods, A.cfgCryptoMethods, A.cfgECDH} {
		attrs := t.readerAttrs(f)
		construct := "SecurityConfig." + f.Name() + "#carried-both-ways"
		inC, inS := false, false
		for _, a := range attrs {
			inC = inC || wClient[a]
			inS = inS || wServer[a]
		}
		c.Check(len(attrs) > 0 && inC && inS, rule, construct,
			fmt.Sprintf("parsed from %v, written by both the client ad and the server ad", attrs),
			fmt.Sprintf("SecurityConfig.%s is parsed from %v, which is not written by both createClientSecurityAd (%v) and createServerSecurityAd (%v)", f.Name(), attrs, inC, inS), A.parseAd.Pos())
	}
	// post-auth ad: the reads on the ad received after setupStreamEncryption
	wPost := keys(c03AttrCalls(A.mkPostAuth, c03IsSet, nil))
	var lastRecv ssa.Value
	for _, b := range A.fullClient.Blocks {
		for _, in := range b.Instrs {
			if call, ok := in.(*ssa.Call); ok {
				if o := calleeObj(call); o != nil && strings.HasPrefix(o.Name(), "GetClassAd") {
					for _, sc := range callsIn(A.fullClient, A.setup.Object()) {
						if findPath(after(sc), Target{Instr: call}, nil) != nil {
							lastRecv = extractN(call, 0)
						}
					}
				}
			}
		}
	}
	if lastRecv == nil {
		c.Undecided(rule, fnName(A.fullClient)+"#post-auth-ad", "cannot find the ClassAd the client receives after setupStreamEncryption", A.fullClient.Pos())
		return
	}
	rPost := c03AttrCalls(A.fullClient, c03IsEvaluate, func(v ssa.Value) bool { return v == lastRecv })
	names = names[:0]
	for name := range rPost {
		names = append(names, name)
	}
	sort.Strings(names)
	for _, name := range names {
		c.Check(wPost[name], rule, "post-auth#reads:"+name, "written by createPostAuthAd", "the client reads post-auth attribute "+name+" that createPostAuthAd does not write", rPost[name][0].Pos())
	}
	c.MinCount(rule, "post-auth attributes read by the client", len(names), 6)
	// the session id: the value published is the value filed on the server; the value read is the value filed on the client
	sidOK := false
	var sidAttr string
	for _, s := range c03StoresTo(A.fullClient, A.negSessionId) {
		for _, o := range origins(A.fullClient, s.Val) {
			if call, idx := originCall(o); call != nil && idx == 0 {
				if a := callArgs(call); len(a) >= 2 && a[0] == lastRecv {
					sidAttr, _ = constString(a[1])
				}
			}
		}
	}
	for _, call := range c03AttrCalls(A.mkPostAuth, c03IsSet, nil)[sidAttr] {
		v := stripConv(callArgs(call)[2])
		for _, sc := range callsIn(A.mkPostAuth, A.storeS.Object()) {
			for _, a := range sc.Common().Args {
				if stripConv(a) == v {
					sidOK = true
				}
			}
		}
	}
	c.Check(sidAttr != "" && sidOK, rule, "post-auth#session-id", "the id published as "+sidAttr+" is the id the server files the session under, and the client files under what it read", "the session id the server publishes is not the value it passes to storeSession (or the client does not take SessionId from the post-auth ad)", A.mkPostAuth.Pos())
	// both ends key the entry with GetSharedSecret()
	gss := c.needFn(rule, "security", "(*SecurityNegotiation).GetSharedSecret")
	keyData := c.needField(rule, "security", "KeyInfo", "Data")
	if gss == nil || keyData == nil {
		return
	}
	for _, fn := range []*ssa.Function{A.storeS, A.storeC} {
		ok, n := true, 0
		for _, s := range c03StoresTo(fn, keyData) {
			n++
			if !c03AllOriginsCallTo(fn, s.Val, gss) {
				ok = false
			}
		}
		c.Check(ok && n > 0, rule, fnName(fn)+"#key=GetSharedSecret", "the cached key is the negotiated shared secret", "the key filed with the session is not negotiation.GetSharedSecret()", fn.Pos())
	}
}

// ---------------------------------------------------------------------------
// C10-R6: the retry loop shrinks

func c10r6(c *Ctx) {
	const rule = "C10-R6"
	defer c03Timed(c, rule)()
	defer delete(c10Shared, c)
	c.Doc(rule, "termination of the method retry loop: in handleClientAuthentication every way back to the loop head from a received server selection clears bits of the offered mask (mask &^ x feeding the loop variable) where x is the selection or its round trip through bitmaskToAuthMethod/authMethodToBitmask; the two maps are mutually inverse on every method bit (evaluated by constant folding); the server loop leaves on a zero mask")
	A := c.handshakeAnchors(rule)
	if !A.ok {
		return
	}
	fn := A.hClient
	// the loop variable: a phi that is sent with PutInt and tested against zero
	var mask *ssa.Phi
	for _, cs := range callsIn(fn, c03MsgMethod(c, rule, "PutInt")) {
		if phi, ok := stripConv(callArgs(cs)[2]).(*ssa.Phi); ok {
			mask = phi
		}
	}
	if mask == nil {
		c.Undecided(rule, fnName(fn)+"#mask", "cannot identify the offered-mask loop variable (a phi passed to PutInt)", fn.Pos())
		return
	}
	var resp ssa.Value
	for _, cs := range callsIn(fn, c03MsgMethod(c, rule, "GetInt")) {
		if findPath(Point{mask.Block(), 0}, Target{Instr: cs}, nil) != nil {
			resp = extractN(cs.Value(), 0)
		}
	}
	n := 0
	for i, pred := range mask.Block().Preds {
		in := mask.Edges[i]
		if len(pred.Instrs) == 0 || findPath(Point{mask.Block(), 0}, Target{Instr: pred.Instrs[len(pred.Instrs)-1]}, nil) == nil {
			continue // loop entry edge
		}
		n++
		construct := fmt.Sprintf("%s#back-edge%d", fnName(fn), n)
		ok := mustDepend(fn, in, func(v ssa.Value) bool {
			b, isB := v.(*ssa.BinOp)
			if !isB {
				return false
			}
			var cleared ssa.Value
			switch {
			case b.Op == token.AND_NOT && stripConv(b.X) == ssa.Value(mask):
				cleared = b.Y
			case b.Op == token.AND:
				for _, pair := range [][2]ssa.Value{{b.X, b.Y}, {b.Y, b.X}} {
					if u, ok := pair[1].(*ssa.UnOp); ok && u.Op == token.XOR && stripConv(pair[0]) == ssa.Value(mask) {
						cleared = u.X
					}
				}
			}
			if cleared == nil {
				return false
			}
			// cleared is the selection, or authMethodToBitmask(bitmaskToAuthMethod(selection))
			cl := stripConv(cleared)
			if resp != nil && cl == resp {
				return true
			}
			if call, ok := cl.(*ssa.Call); ok && calleeFn(call) == A.methodToBit {
				if inner, ok := stripConv(call.Call.Args[0]).(*ssa.Call); ok && calleeFn(inner) == A.bitToMethod && resp != nil && stripConv(inner.Call.Args[0]) == resp {
					return true
				}
			}
			return false
		}) && in != ssa.Value(mask)
		last := pred.Instrs[len(pred.Instrs)-1]
		lastPos := mask.Pos()
		for _, pin := range pred.Instrs {
			if pin.Pos().IsValid() {
				lastPos = pin.Pos()
			}
		}
		c.Check(ok, rule, construct, "the mask carried round the loop has the server's selection cleared", "a way back to the loop head keeps the offered mask unchanged (or does not clear the selection): the retry loop need not terminate", lastPos)
		// ... and clearing it removes at least one bit: the selection is non-zero and inside the mask
		if ok && resp != nil {
			inside, nonzero := false, false
			for _, e := range c03SubsetEdges(fn, resp, map[ssa.Value]bool{mask: true}) {
				if instrDominatedByEdge(fn, e, last) {
					inside = true
				}
			}
			for _, b := range fn.Blocks {
				ifi := blockIf(b)
				if ifi == nil {
					continue
				}
				a := condAtom(ifi.Cond)
				if (a.Op != token.EQL && a.Op != token.NEQ) || stripConv(a.X) != resp {
					continue
				}
				if k, isK := constInt(a.Y); !isK || k != 0 {
					continue
				}
				nz := Edge{b, 1}
				if (a.Op == token.NEQ) != a.Neg {
					nz = Edge{b, 0}
				}
				if instrDominatedByEdge(fn, nz, last) {
					nonzero = true
				}
			}
			c.Check(inside && nonzero, rule, construct+"#strict", "the cleared selection is non-zero and lies inside the mask: every retry removes a bit", "the selection cleared on this way back is not known to be a non-zero subset of the offered mask: a retry may leave the mask unchanged", lastPos)
		}
	}
	c.MinCount(rule, "back edges of the client retry loop", n, 2)
	// the two maps are inverse on every method bit: fold both over the case constants
	bits := map[int64]bool{}
	allInstrs(A.bitToMethod, func(_ *ssa.BasicBlock, _ int, in ssa.Instruction) {
		if b, ok := in.(*ssa.BinOp); ok && b.Op == token.EQL {
			if k, ok := constInt(b.Y); ok {
				bits[k] = true
			}
		}
	})
	e := &c10tEval{p: c.Prog, inline: map[*ssa.Function]bool{A.bitToMethod: true, A.methodToBit: true}}
	evalFn := func(g *ssa.Function, arg c10tVal) c10tVal {
		st := newC10tState()
		st.env[g.Params[0]] = arg
		outs := e.run(g, g.Blocks[0], nil, st)
		if len(outs) == 1 && len(outs[0].results) == 1 {
			return outs[0].results[0]
		}
		return c10tVal{}
	}
	var ks []int64
	for k := range bits {
		ks = append(ks, k)
	}
	sort.Slice(ks, func(i, j int) bool { return ks[i] < ks[j] })
	m := 0
	for _, k := range ks {
		if k == 0 {
			continue
		}
		m++
		meth := evalFn(A.bitToMethod, c10tInt(k))
		back := evalFn(A.methodToBit, meth)
		s, _ := meth.isStr()
		c.Check(back.same(c10tInt(k)), rule, fmt.Sprintf("bit-roundtrip#0x%x", k), "bit -> "+s+" -> same bit", fmt.Sprintf("authMethodToBitmask(bitmaskToAuthMethod(0x%x)) = %s: a failed method's bit is not the bit cleared from the mask", k, back.String()), A.bitToMethod.Pos())
	}
	c.MinCount(rule, "method bits round-tripped", m, 7)
	// server: the loop returns when the client sends a zero mask
	sf := A.hServer
	okZero := false
	for _, cs := range callsIn(sf, c03MsgMethod(c, rule, "GetInt")) {
		v := extractN(cs.Value(), 0)
		for _, b := range sf.Blocks {
			ifi := blockIf(b)
			if ifi == nil {
				continue
			}
			a := condAtom(ifi.Cond)
			if a.Op != token.EQL && a.Op != token.NEQ {
				continue
			}
			if k, isK := constInt(a.Y); !isK || k != 0 || stripConv(a.X) != v {
				continue
			}
			zero := Edge{b, 0}
			if (a.Op == token.NEQ) != a.Neg {
				zero = Edge{b, 1}
			}
			// from the zero edge no way back into the loop: only returns
			back := false
			if len(zero.To().Instrs) > 0 && findPath(Point{zero.To(), 0}, Target{Instr: cs}, nil) != nil {
				back = true
			}
			if !back {
				okZero = true
			}
		}
	}
	c.Check(okZero, rule, fnName(sf)+"#zero-mask-leaves", "a zero mask from the client ends the server loop", "the server loop does not leave when the client sends a zero mask", sf.Pos())
}
