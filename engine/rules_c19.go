package main

import (
	"go/token"
	"go/types"
	"sort"
	"strings"

	"golang.org/x/tools/go/ssa"
)

// C19 — cancellation and deadlines always unblock stream operations.
// Decided: the mechanism is in place at both blocking points (R1, R2), the caller's context reaches
// them from everywhere in the library (R3), and the handshakes contain no other blocking wait (R4).
// Helpers are in help_c19.go.

func init() { register("C19", c19r1, c19r2, c19r3, c19r4) }

// Frozen exception table of C19-R3: library functions that may hand a non-cancellable context to a
// blocking stream operation. One symbol per line with the reason.
var c19backgroundAllowed = map[string]string{
	"(*security.Authenticator).PerformTokenAuthenticationDemo": "exported demonstration wrapper without a context parameter; not used by the handshake entry points",
}

type c19env struct {
	ok                   bool
	rwc, wwc             *ssa.Function
	conn, reader, writer *types.Var
}

func (c *Ctx) c19load(rule string) *c19env {
	e := &c19env{}
	e.rwc = c.needFn(rule, "stream", "(*Stream).readWithContext")
	e.wwc = c.needFn(rule, "stream", "(*Stream).writeWithContext")
	e.conn = c.needField(rule, "stream", "Stream", "conn")
	e.reader = c.needField(rule, "stream", "Stream", "reader")
	e.writer = c.needField(rule, "stream", "Stream", "writer")
	e.ok = e.rwc != nil && e.wwc != nil && e.conn != nil && e.reader != nil && e.writer != nil
	return e
}

// c19ioMethods are the net.Conn / io methods that move bytes (and may block).
var c19ioMethods = map[string]bool{"Read": true, "Write": true, "ReadFrom": true, "WriteTo": true}

// ---------------------------------------------------------------------------
// C19-R1: the connection is read and written only inside the two wrappers.
func c19r1(c *Ctx) {
	const rule = "C19-R1"
	c.Doc(rule, "Stream.reader is read only in readWithContext and Stream.writer only in writeWithContext, or in unexported helpers only they call (both written only by NewStream/SetConnection and their helpers); no Read/Write is invoked on, and no io/bufio/tls function is handed, a value loaded from Stream.conn or returned by Stream.GetConnection anywhere in the library packages")
	e := c.c19load(rule)
	ns := c.needFn(rule, "stream", "NewStream")
	sc := c.needFn(rule, "stream", "(*Stream).SetConnection")
	gc := c.needFn(rule, "stream", "(*Stream).GetConnection")
	if !e.ok || ns == nil || sc == nil || gc == nil {
		return
	}
	poss := map[*ssa.Function]token.Pos{}
	split := func(f *types.Var) (rd, wr []*ssa.Function) {
		for _, a := range c.fieldAccesses(f) {
			poss[a.Fn] = a.Instr.Pos()
			if a.Read {
				rd = append(rd, a.Fn)
			}
			if a.Write {
				wr = append(wr, a.Fn)
			}
		}
		return
	}
	rd, wr := split(e.reader)
	c.whoMayDeep(rule, "read Stream.reader", rd, poss, fnSet(e.rwc))
	c.whoMayDeep(rule, "write Stream.reader", wr, poss, fnSet(ns, sc))
	c.MinCount(rule, "accesses of Stream.reader", len(rd)+len(wr), 2)
	rd, wr = split(e.writer)
	c.whoMayDeep(rule, "read Stream.writer", rd, poss, fnSet(e.wwc))
	c.whoMayDeep(rule, "write Stream.writer", wr, poss, fnSet(ns, sc))
	c.MinCount(rule, "accesses of Stream.writer", len(rd)+len(wr), 2)

	// values that denote the raw connection: loads of Stream.conn, results of GetConnection()
	nvals, nbad := 0, 0
	var inspect func(fn *ssa.Function, v ssa.Value, what string, depth int)
	inspect = func(fn *ssa.Function, v ssa.Value, what string, depth int) {
		if depth > 6 {
			return
		}
		for _, r := range *v.Referrers() {
			switch u := r.(type) {
			case *ssa.Phi:
				inspect(fn, u, what, depth+1)
			case *ssa.ChangeInterface:
				inspect(fn, u, what, depth+1)
			case *ssa.MakeInterface:
				inspect(fn, u, what, depth+1)
			case *ssa.TypeAssert:
				inspect(fn, u, what, depth+1)
			case *ssa.Extract:
				inspect(fn, u, what, depth+1)
			case *ssa.Store:
				// stored into a local cell: follow its loads
				if al, ok := u.Addr.(*ssa.Alloc); ok && u.Val == v {
					for _, lr := range *al.Referrers() {
						if ld, ok := lr.(*ssa.UnOp); ok && ld.Op == token.MUL {
							inspect(fn, ld, what, depth+1)
						}
					}
				}
			case ssa.CallInstruction:
				cc := u.Common()
				if cc.IsInvoke() && cc.Value == v {
					if c19ioMethods[cc.Method.Name()] {
						nbad++
						c.Violate(rule, "raw-io:"+cc.Method.Name()+"@"+fnName(topFn(fn)), "direct "+cc.Method.Name()+" on "+what+" bypasses readWithContext/writeWithContext: a stalled peer blocks it regardless of the context", u.Pos())
					}
					continue
				}
				if o := calleeObj(u); o != nil && o.Pkg() != nil {
					switch o.Pkg().Path() {
					case "io", "bufio", "crypto/tls", "io/ioutil", "net/textproto", "encoding/gob", "encoding/json":
						nbad++
						c.Violate(rule, "raw-io:"+o.Pkg().Name()+"."+o.Name()+"@"+fnName(topFn(fn)), what+" is handed to "+o.FullName()+", which reads or writes the connection outside readWithContext/writeWithContext", u.Pos())
					}
				}
			}
		}
	}
	for _, fn := range c.ModFns {
		if fnPkg(fn) == nil || !libPkg(fnPkg(fn).Path()) {
			continue
		}
		allInstrs(fn, func(_ *ssa.BasicBlock, _ int, in ssa.Instruction) {
			switch x := in.(type) {
			case *ssa.UnOp:
				if x.Op == token.MUL {
					if fa, ok := x.X.(*ssa.FieldAddr); ok && fieldOfAddr(fa) == e.conn {
						nvals++
						inspect(fn, x, "Stream.conn", 0)
					}
				}
			case *ssa.Call:
				if calleeFn(x) == gc {
					nvals++
					inspect(fn, x, "the connection returned by GetConnection()", 0)
				}
			}
		})
	}
	if nbad == 0 {
		c.Ok(rule, "raw-io", "no byte-moving operation on the raw connection outside the two wrappers", token.NoPos)
	}
	c.MinCount(rule, "raw-connection values inspected", nvals, 1)
}

// ---------------------------------------------------------------------------
// C19-R2: the watcher brackets the blocking call.

// c19blocking lists the blocking I/O calls of a wrapper: invokes of Read/Write on, or io.ReadFull & co. of,
// a value loaded from field f - and calls of same-package helpers (static callees, bounded depth) that
// contain such a call ("func (s *Stream) writeFull(data []byte) error"): the helper call then is the blocking step.
func c19blocking(fn *ssa.Function, f *types.Var) []ssa.CallInstruction {
	return c19blockingD(fn, f, 0)
}

func c19blockingD(fn *ssa.Function, f *types.Var, depth int) []ssa.CallInstruction {
	var out []ssa.CallInstruction
	allInstrs(fn, func(_ *ssa.BasicBlock, _ int, in ssa.Instruction) {
		call, ok := in.(ssa.CallInstruction)
		if !ok {
			return
		}
		cc := call.Common()
		if cc.IsInvoke() {
			if readsField(cc.Value, f) {
				out = append(out, call)
			}
			return
		}
		for _, a := range cc.Args {
			if readsField(a, f) {
				out = append(out, call)
				return
			}
		}
		if g := calleeFn(call); g != nil && g != fn && g.Blocks != nil && fnPkg(g) == fnPkg(fn) && depth < 2 {
			if len(c19blockingD(g, f, depth+1)) > 0 {
				out = append(out, call)
			}
		}
	})
	return out
}

// c19helperExitsOK: when blocking step b is a call of a helper, every return of that helper (and of the
// helpers it delegates to) yields nil, the error of its own blocking call, or a freshly built
// short-transfer error, and the helper sees no context.
func (c *Ctx) c19helperExitsOK(b ssa.CallInstruction, f *types.Var, depth int) bool {
	return c.c19exitsOK(calleeFn(b), f, depth)
}

func (c *Ctx) c19exitsOK(g *ssa.Function, f *types.Var, depth int) bool {
	if g == nil || g.Blocks == nil {
		return true // the call is itself the I/O call
	}
	inner := c19blockingD(g, f, depth+1)
	if len(inner) == 0 {
		return true
	}
	if depth > 2 {
		return false
	}
	for _, p := range g.Params {
		if c19isCtx(p.Type()) {
			return false
		}
	}
	for _, ib := range inner {
		if !c.c19helperExitsOK(ib, f, depth+1) {
			return false
		}
	}
	for _, r := range c19retsOf(g) {
		if len(r.Results) == 0 {
			continue
		}
		v := r.Results[len(r.Results)-1]
		if !isErrorType(v.Type()) {
			continue
		}
		ok := isNilConst(v)
		for _, ib := range inner {
			if ib.Value() != nil && mentionsValue(v, ib.Value()) {
				ok = true
			}
		}
		if !ok && c.classifyErr(g, v, r.Block(), 0) == "error" && c19isErrorf(v) {
			ok = true
		}
		if !ok {
			return false
		}
	}
	return true
}

// c19watcher: call (in fn) registers a watcher that closes Stream.conn when ctx is cancelled and yields
// its stop function: context.AfterFunc(ctx, closer) itself, or a same-package helper that is handed ctx
// and returns the result of such a registration on that parameter.
func (c *Ctx) c19watcher(fn *ssa.Function, call *ssa.Call, ctx ssa.Value, afObj types.Object, conn *types.Var, depth int) bool {
	if o := calleeObj(call); o != nil && types.Object(o) == afObj {
		return len(call.Call.Args) == 2 && call.Call.Args[0] == ctx && c.c19closesConn(call.Call.Args[1], conn)
	}
	g := calleeFn(call)
	if g == nil || g.Blocks == nil || depth > 1 || fnPkg(g) != fnPkg(fn) {
		return false
	}
	pi := -1
	for i, a := range call.Call.Args {
		if a == ctx && i < len(g.Params) {
			pi = i
		}
	}
	if pi < 0 {
		return false
	}
	rets := c19retsOf(g)
	if len(rets) == 0 {
		return false
	}
	for _, r := range rets {
		if len(r.Results) != 1 {
			return false
		}
		for _, o := range origins(g, r.Results[0]) {
			w, ok := o.(*ssa.Call)
			if !ok || !c.c19watcher(g, w, g.Params[pi], afObj, conn, depth+1) {
				return false
			}
		}
	}
	return true
}

// c19ctxCall: v is (an alias of) the result of invoking method name on the context parameter ctx.
func c19ctxCalls(fn *ssa.Function, ctx ssa.Value, name string) []*ssa.Call {
	var out []*ssa.Call
	allInstrs(fn, func(_ *ssa.BasicBlock, _ int, in ssa.Instruction) {
		if call, ok := in.(*ssa.Call); ok && call.Call.IsInvoke() && call.Call.Method.Name() == name && call.Call.Value == ctx {
			if p := call.Call.Method.Pkg(); p != nil && p.Path() == "context" {
				out = append(out, call)
			}
		}
	})
	return out
}

func c19r2(c *Ctx) {
	const rule = "C19-R2"
	c.Doc(rule, "in readWithContext and writeWithContext: no I/O before the ctx.Err()==nil edge, and the Err()!=nil edge returns ctx.Err(); (the wrapper may hand its context and an I/O closure to a same-package function that runs it: that function is then analysed, its blocking step being the call of the closure); every blocking call is reached either through the ctx.Done()==nil edge (then its exits are the I/O error, the short-write error or nil only) or after context.AfterFunc(ctx, f) with f closing s.conn (registered directly or by a helper that returns its stop function), and is then followed on every path by a call of the returned stop function whose false result leads only to returns of ctx.Err()")
	e := c.c19load(rule)
	if !e.ok {
		return
	}
	afterFunc := c.PkgTypes("context")
	if afterFunc == nil || afterFunc.Scope().Lookup("AfterFunc") == nil {
		c.AnchorMissing(rule, "context.AfterFunc")
		return
	}
	afObj := afterFunc.Scope().Lookup("AfterFunc")
	nBlocking := 0
	for _, w := range []struct {
		fn *ssa.Function
		f  *types.Var
	}{{e.rwc, e.reader}, {e.wwc, e.writer}} {
		fn := w.fn
		name := fnName(fn)
		var ctx ssa.Value
		for _, p := range fn.Params {
			if c19isCtx(p.Type()) {
				ctx = p
			}
		}
		if ctx == nil {
			c.Violate(rule, name+"#ctx-param", "the wrapper has no context parameter", fn.Pos())
			continue
		}
		isCtxErr := func(v ssa.Value) bool {
			for _, call := range c19ctxCalls(fn, ctx, "Err") {
				if v == ssa.Value(call) {
					return true
				}
			}
			return false
		}
		blocking := c19blocking(fn, w.f)
		// delegation: the wrapper hands its context and a closure that performs the I/O on the field to a
		// same-package function that runs it in the two regimes ("interruptible(ctx, func() error {...})"): the
		// regimes are then decided in that function, whose blocking step is the call of its func parameter
		var opFns []*ssa.Function
		var core *ssa.Function
		var coreCtx, coreOp ssa.Value
		var deleg []ssa.CallInstruction
		if len(blocking) < 2 {
			allInstrs(fn, func(_ *ssa.BasicBlock, _ int, in ssa.Instruction) {
				call, ok := in.(*ssa.Call)
				if !ok {
					return
				}
				h := calleeFn(call)
				if h == nil || h.Blocks == nil || fnPkg(h) != fnPkg(fn) || h == fn || h.Parent() != nil {
					return
				}
				pc, po := -1, -1
				var cl *ssa.Function
				for i, a := range call.Call.Args {
					if i >= len(h.Params) {
						break
					}
					if a == ctx {
						pc = i
					}
					if mc, ok := a.(*ssa.MakeClosure); ok {
						if g, ok := mc.Fn.(*ssa.Function); ok && len(c19blockingD(g, w.f, 1)) > 0 {
							po, cl = i, g
						}
					}
				}
				if pc < 0 || po < 0 || (core != nil && core != h) {
					return
				}
				core, coreCtx, coreOp = h, h.Params[pc], h.Params[po]
				opFns = append(opFns, cl)
				deleg = append(deleg, call)
			})
		}
		if core != nil {
			blocking = deleg
		}
		nBlocking += len(blocking)
		if core == nil && !c.Check(len(blocking) >= 2, rule, name+"#blocking-calls", "blocking calls found on both the direct and the watched path", "expected a direct and a watched blocking call on Stream."+w.f.Name(), fn.Pos()) {
			continue
		}
		// (1) pre-cancelled fast path (in the wrapper, or in the function it delegates to)
		pre := func(fn *ssa.Function, ctx ssa.Value, blocking []ssa.CallInstruction, isCtxErr func(ssa.Value) bool) bool {
			var errNil, errSet []Edge
			for _, call := range c19ctxCalls(fn, ctx, "Err") {
				n, nn := nilEdges(fn, call)
				errNil = append(errNil, n...)
				errSet = append(errSet, nn...)
			}
			if len(errNil) == 0 && core != nil && fn != core {
				return false // not tested here: look in the delegate
			}
			okPre := len(errNil) > 0
			for _, b := range blocking {
				if okPre && findPath(entryPoint(fn), Target{Instr: b}, newCuts().AddEdges(errNil...)) != nil {
					okPre = false
				}
			}
			c.Check(okPre, rule, name+"#precancelled-no-io", "no I/O is attempted unless ctx.Err() was nil on entry", "a blocking call is reachable without first testing ctx.Err() == nil", fn.Pos())
			okPreRet := len(errSet) > 0
			for _, ed := range errSet {
				for _, r := range c19returnsFrom(fn, ed) {
					if !isCtxErr(r.Results[len(r.Results)-1]) {
						okPreRet = false
					}
				}
			}
			c.Check(okPreRet, rule, name+"#precancelled-returns-ctx.Err", "an already-cancelled context returns ctx.Err()", "on the ctx.Err() != nil edge the wrapper does not return ctx.Err()", fn.Pos())
			return true
		}
		preDone := pre(fn, ctx, blocking, isCtxErr)
		if core != nil {
			// from here on the delegate is the function under analysis
			wrapper := fn
			fn, ctx = core, coreCtx
			isCtxErr = func(v ssa.Value) bool {
				for _, call := range c19ctxCalls(fn, ctx, "Err") {
					if v == ssa.Value(call) {
						return true
					}
				}
				return false
			}
			blocking = nil
			allInstrs(fn, func(_ *ssa.BasicBlock, _ int, in ssa.Instruction) {
				if call, ok := in.(*ssa.Call); ok && call.Call.Value == coreOp {
					blocking = append(blocking, call)
				}
			})
			nBlocking += len(blocking)
			if !c.Check(len(blocking) >= 2, rule, name+"#blocking-calls", "the delegate "+fnName(fn)+" runs the I/O closure on both the direct and the watched path", "expected a direct and a watched call of the I/O closure in "+fnName(fn)+" (to which "+fnName(wrapper)+" delegates)", fn.Pos()) {
				continue
			}
			if !preDone {
				pre(fn, ctx, blocking, isCtxErr)
			}
		}
		// (2) the two regimes
		var doneNil []Edge
		for _, call := range c19ctxCalls(fn, ctx, "Done") {
			n, _ := nilEdges(fn, call)
			doneNil = append(doneNil, n...)
		}
		var watchers []*ssa.Call
		allInstrs(fn, func(_ *ssa.BasicBlock, _ int, in ssa.Instruction) {
			if cl, ok := in.(*ssa.Call); ok && c.c19watcher(fn, cl, ctx, afObj, e.conn, 0) {
				watchers = append(watchers, cl)
			}
		})
		nDirect, nWatched := 0, 0
		for i, b := range blocking {
			key := name + "#blocking" + string(rune('1'+i))
			direct := len(doneNil) > 0 && findPath(entryPoint(fn), Target{Instr: b}, newCuts().AddEdges(doneNil...)) == nil
			if direct {
				nDirect++
				// a never-cancellable context adds no failure mode
				okExits := true
				for _, r := range c19returnsAfter(b) {
					v := r.Results[len(r.Results)-1]
					switch {
					case isNilConst(v):
					case mentionsValue(v, b.Value()) && !isCtxErr(v):
					case c.classifyErr(fn, v, r.Block(), 0) == "error" && !isCtxErr(v) && c19isErrorf(v):
					default:
						okExits = false
					}
				}
				if !c.c19helperExitsOK(b, w.f, 0) {
					okExits = false
				}
				for _, g := range opFns {
					if !c.c19exitsOK(g, w.f, 0) {
						okExits = false // the I/O closure the wrapper hands to its delegate
					}
				}
				c.Check(okExits, rule, key+"-direct", "direct call (ctx.Done()==nil): exits are the I/O error, the short-transfer error or nil", "on the ctx.Done()==nil path the wrapper has an exit other than the I/O error, the short-transfer error or nil: a context that can never be cancelled adds a failure mode", b.Pos())
				continue
			}
			// watched: every path to b passes an AfterFunc(ctx, closer)
			var good []ssa.Instruction
			for _, wcall := range watchers {
				good = append(good, wcall)
			}
			cuts := newCuts().AddEdges(doneNil...).AddInstrs(good...)
			if p := findPath(entryPoint(fn), Target{Instr: b}, cuts); p != nil || len(good) == 0 {
				c.Violate(rule, key+"-watched", "the blocking call is reachable with a cancellable context without context.AfterFunc(ctx, func(){ s.conn.Close() }) registered before it: cancellation cannot interrupt it", b.Pos(), c.describePath(p)...)
				continue
			}
			nWatched++
			// stop() is called on every path from b to a return
			var stops []ssa.Instruction
			var stopVals []ssa.Value
			for _, wcall := range watchers {
				for _, r := range *wcall.Referrers() {
					if sc, ok := r.(*ssa.Call); ok && sc.Call.Value == ssa.Value(wcall) {
						stops = append(stops, sc)
						stopVals = append(stopVals, sc)
					}
				}
			}
			okStop := len(stops) > 0
			for _, r := range c19retsOf(fn) {
				if okStop && findPath(after(b), Target{Instr: r}, newCuts().AddInstrs(stops...)) != nil {
					okStop = false
				}
			}
			c.Check(okStop, rule, key+"-stop-called", "stop() is called on every path after the blocking call", "a return is reachable after the blocking call without calling the stop function returned by context.AfterFunc", b.Pos())
			okFalse := len(stopVals) > 0
			for _, sv := range stopVals {
				_, falseE := boolEdges(fn, sv)
				if len(falseE) == 0 {
					okFalse = false
				}
				for _, ed := range falseE {
					rets := c19returnsFrom(fn, ed)
					if len(rets) == 0 {
						okFalse = false
					}
					for _, r := range rets {
						if !isCtxErr(r.Results[len(r.Results)-1]) {
							okFalse = false
						}
					}
				}
			}
			c.Check(okFalse, rule, key+"-stop-false-returns-ctx.Err", "when stop() reports that cancellation won, the wrapper returns ctx.Err()", "the result of stop() is ignored, or its false edge does not lead to returning ctx.Err() (a cancelled operation would report the I/O error of the closed connection, or success)", b.Pos())
		}
		c.Check(nDirect >= 1 && nWatched >= 1, rule, name+"#both-regimes", "one direct and one watched blocking call", "the wrapper does not have both a direct (Done()==nil) and a watched blocking call", fn.Pos())
	}
	c.MinCount(rule, "blocking calls in the wrappers", nBlocking, 2)
}

func c19retsOf(fn *ssa.Function) []*ssa.Return { // local copy: C19 must not depend on the C14 helper file
	var out []*ssa.Return
	for _, b := range fn.Blocks {
		if len(b.Instrs) > 0 {
			if r, ok := b.Instrs[len(b.Instrs)-1].(*ssa.Return); ok {
				out = append(out, r)
			}
		}
	}
	return out
}

// c19returnsFrom: the Return instructions reachable from the target of edge e.
func c19returnsFrom(fn *ssa.Function, e Edge) []*ssa.Return {
	var out []*ssa.Return
	if len(e.To().Instrs) == 0 {
		return nil
	}
	for _, r := range c19retsOf(fn) {
		if findPath(Point{e.To(), 0}, Target{Instr: r}, nil) != nil {
			out = append(out, r)
		}
	}
	return out
}

// c19returnsAfter: the Return instructions reachable after instruction in.
func c19returnsAfter(in ssa.Instruction) []*ssa.Return {
	var out []*ssa.Return
	for _, r := range c19retsOf(in.Parent()) {
		if findPath(after(in), Target{Instr: r}, nil) != nil {
			out = append(out, r)
		}
	}
	return out
}

func c19isErrorf(v ssa.Value) bool {
	call, ok := v.(*ssa.Call)
	if !ok {
		return false
	}
	o := calleeObj(call)
	return o != nil && o.Pkg() != nil && (o.Pkg().Path() == "fmt" && o.Name() == "Errorf" || o.Pkg().Path() == "errors" && o.Name() == "New")
}

// c19closesConn: fv is a closure whose body invokes Close on a value loaded from field conn.
func (c *Ctx) c19closesConn(fv ssa.Value, conn *types.Var) bool {
	mc, ok := fv.(*ssa.MakeClosure)
	if !ok {
		return false
	}
	g, ok := mc.Fn.(*ssa.Function)
	if !ok {
		return false
	}
	found := false
	allInstrs(g, func(_ *ssa.BasicBlock, _ int, in ssa.Instruction) {
		if call, ok := in.(ssa.CallInstruction); ok && call.Common().IsInvoke() && call.Common().Method.Name() == "Close" && readsField(call.Common().Value, conn) {
			// unconditional: the close must be reachable from the closure's entry on every path to its return
			found = true
			for _, r := range c19retsOf(g) {
				if findPath(entryPoint(g), Target{Instr: r}, newCuts().AddInstrs(in)) != nil {
					found = false
				}
			}
		}
	})
	return found
}

// ---------------------------------------------------------------------------
// C19-R3: context threading through the whole library.
func c19r3(c *Ctx) {
	const rule = "C19-R3"
	c.Doc(rule, "for every call in a library package that passes a context to a function from which readWithContext/writeWithContext is reachable (VTA call graph plus closure creation), every source of that context argument is a context parameter of the calling function (or of the function enclosing the closure), a context.With* derivation of one, or a struct field every store to which is such a value; never context.Background()/TODO()/WithoutCancel/nil; library functions without a context parameter that reach the blocking primitives are listed")
	e := c.c19load(rule)
	if !e.ok {
		return
	}
	g := c.c19build()
	blk := g.reaching(e.rwc, e.wwc)
	memo := map[*types.Var]string{}
	type agg struct {
		pos   token.Pos
		bad   []string
		und   []string
		kinds map[string]bool
		n     int
	}
	per := map[string]*agg{}
	fieldsUsed := map[*types.Var]bool{}
	var keys []string
	nSites := 0
	for _, fn := range c19sortFns(blk) {
		if fnPkg(fn) == nil || !libPkg(fnPkg(fn).Path()) {
			continue
		}
		allInstrs(fn, func(_ *ssa.BasicBlock, _ int, in ssa.Instruction) {
			call, ok := in.(ssa.CallInstruction)
			if !ok {
				return
			}
			relevant := false
			tname := ""
			for _, t := range g.targets(call) {
				if blk[t] {
					relevant = true
					if tname == "" {
						tname = t.Name()
					}
				}
			}
			if !relevant {
				return
			}
			if call.Common().IsInvoke() {
				tname = call.Common().Method.Name()
			}
			for _, a := range callArgs(call) {
				if !c19isCtx(a.Type()) {
					continue
				}
				nSites++
				key := fnName(fn) + "->" + tname
				ag := per[key]
				if ag == nil {
					ag = &agg{pos: call.Pos(), kinds: map[string]bool{}}
					per[key] = ag
					keys = append(keys, key)
				}
				ag.n++
				for _, s := range c19sources(fn, a, 0) {
					ag.kinds[s.Kind] = true
					switch s.Kind {
					case "param":
					case "field":
						if why := c.c19fieldOK(s.Fld, memo, map[*types.Var]bool{}); why != "" {
							ag.bad = append(ag.bad, "the context comes from struct field "+s.What+", but "+why)
						} else if !fieldsUsed[s.Fld] {
							fieldsUsed[s.Fld] = true
							c.Note("%s: context-typed struct field %s (%s) carries a context to blocking operations; every store to it assigns a context parameter or a derivation of one", rule, s.What, c.Pos(s.Fld.Pos()))
						}
					case "background", "nil", "without-cancel":
						if why, ok := c19backgroundAllowed[fnName(topFn(fn))]; ok {
							c.Note("%s: %s passes %s to %s (frozen exception: %s)", rule, fnName(fn), s.What, tname, why)
							ag.kinds["exception"] = true
						} else {
							ag.bad = append(ag.bad, "passes "+s.What+" ("+c.Pos(s.Pos)+"): the caller's cancellation or deadline cannot interrupt this operation")
						}
					default:
						ag.und = append(ag.und, "cannot follow the context argument to a parameter: "+s.What+" ("+c.Pos(s.Pos)+")")
					}
				}
			}
		})
	}
	sort.Strings(keys)
	for _, k := range keys {
		ag := per[k]
		switch {
		case len(ag.bad) > 0:
			c.Violate(rule, k, ag.bad[0], ag.pos)
		case len(ag.und) > 0:
			c.Undecided(rule, k, ag.und[0], ag.pos)
		default:
			var ks []string
			for kd := range ag.kinds {
				ks = append(ks, kd)
			}
			sort.Strings(ks)
			c.Ok(rule, k, "context argument derives from: "+strings.Join(ks, ","), ag.pos)
		}
	}
	c.MinCount(rule, "context-passing call sites that reach a blocking primitive", nSites, 20)
	// library functions without a context parameter from which a blocking primitive is reachable
	var noctx []string
	for _, fn := range c19sortFns(blk) {
		if fnPkg(fn) == nil || !libPkg(fnPkg(fn).Path()) || c19hasCtxParam(fn) || fn == e.rwc || fn == e.wwc {
			continue
		}
		noctx = append(noctx, fnName(fn))
	}
	c.Note("%s: library functions without a context parameter that reach the blocking primitives (their context arguments are checked above): %s", rule, strings.Join(noctx, ", "))
	// the frozen exceptions must still exist (an exception for a vanished symbol is dropped, not kept)
	for name := range c19backgroundAllowed {
		found := false
		for _, n := range noctx {
			if n == name {
				found = true
			}
		}
		c.Check(found, rule, "exception:"+name, "the excepted function exists, has no context parameter and reaches a blocking primitive", "frozen exception "+name+" no longer matches a context-less library function that reaches a blocking primitive: remove it from the table", token.NoPos)
	}
}

// ---------------------------------------------------------------------------
// C19-R4: no other blocking waits in the handshakes.
func c19r4(c *Ctx) {
	const rule = "C19-R4"
	c.Doc(rule, "in the module functions reachable from ClientHandshake, ServerHandshake and ServerHandshakeWithMessage there is no channel receive or send, no select without a ctx.Done() case, no time.Sleep, no sync.WaitGroup/Cond wait and no net dial without a context")
	var roots []*ssa.Function
	for _, n := range []string{"(*Authenticator).ClientHandshake", "(*Authenticator).ServerHandshake", "(*Authenticator).ServerHandshakeWithMessage"} {
		if f := c.needFn(rule, "security", n); f != nil {
			roots = append(roots, f)
		}
	}
	if len(roots) != 3 {
		return
	}
	g := c.c19build()
	reach := g.reachableFrom(roots...)
	n, bad := 0, 0
	for _, fn := range c19sortFns(reach) {
		if fnPkg(fn) == nil || !libPkg(fnPkg(fn).Path()) {
			continue
		}
		n++
		allInstrs(fn, func(_ *ssa.BasicBlock, _ int, in ssa.Instruction) {
			what := ""
			switch x := in.(type) {
			case *ssa.UnOp:
				if x.Op == token.ARROW {
					what = "a bare channel receive"
				}
			case *ssa.Send:
				what = "a channel send"
			case *ssa.Select:
				if x.Blocking {
					hasDone := false
					for _, st := range x.States {
						if call, ok := st.Chan.(*ssa.Call); ok && call.Call.IsInvoke() && call.Call.Method.Name() == "Done" && c19isCtx(call.Call.Value.Type()) {
							hasDone = true
						}
					}
					if !hasDone {
						what = "a select without a ctx.Done() case"
					}
				}
			case ssa.CallInstruction:
				if o := calleeObj(x); o != nil && o.Pkg() != nil {
					full := o.FullName()
					switch full {
					case "time.Sleep", "(*sync.WaitGroup).Wait", "(*sync.Cond).Wait", "net.Dial", "net.DialTimeout", "(*net.Dialer).Dial", "net.DialTCP", "net.DialUnix":
						what = "a call of " + full
					}
				}
			}
			if what != "" {
				bad++
				c.Violate(rule, "wait:"+fnName(fn)+":"+what, fnName(fn)+" (reachable from a handshake entry point) contains "+what+", which the handshake's context cannot interrupt", in.Pos())
			}
		})
	}
	if bad == 0 {
		c.Ok(rule, "no-uninterruptible-wait", "no channel operation, sleep, sync wait or context-less dial in the functions reachable from the handshake entry points", token.NoPos)
	}
	c.MinCount(rule, "functions reachable from the handshake entry points", n, 10)
}
