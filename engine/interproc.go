package main

import (
	"go/token"

	"golang.org/x/tools/go/ssa"
)

// ---------------------------------------------------------------------------
// inter-procedural must-pass summaries (helper inlining to a stated depth)

// InlineDepth is the helper-inlining bound (DESIGN.md: 4 quick, 8 thorough).
var InlineDepth = 4

// mustPassOnSuccess reports whether every path from f's entry to a (possibly) success return passes
// an instruction satisfying hit, where a call to a same-module function that itself must-pass counts
// (through the call's nil-error edge when the callee returns an error, unconditionally otherwise).
// extra contributes additional cut edges per function (e.g. "feature off" edges).
func (p *Prog) mustPassOnSuccess(f *ssa.Function, hit func(ssa.Instruction) bool, extra func(*ssa.Function) []Edge, depth int) bool {
	return p.mustPassOnSuccessMemo(f, hit, extra, depth, map[*ssa.Function]bool{})
}

func (p *Prog) mustPassOnSuccessMemo(f *ssa.Function, hit func(ssa.Instruction) bool, extra func(*ssa.Function) []Edge, depth int, active map[*ssa.Function]bool) bool {
	if f == nil || f.Blocks == nil || depth < 0 || active[f] {
		return false
	}
	active[f] = true
	defer delete(active, f)
	cuts := p.satisfyingCuts(f, hit, extra, depth, active)
	for _, t := range p.successTargets(f) {
		if findPath(entryPoint(f), t.Target(), cuts) != nil {
			return false
		}
	}
	return true
}

// satisfyingCuts builds the cut set of f for predicate hit: direct hits are cut instructions (or, when
// the hit is a call whose error result is tested, its nil-error edges), calls to module helpers that
// must-pass on success contribute their nil-error edges (or the call itself if they return no error).
func (p *Prog) satisfyingCuts(f *ssa.Function, hit func(ssa.Instruction) bool, extra func(*ssa.Function) []Edge, depth int, active map[*ssa.Function]bool) *Cuts {
	cuts := newCuts()
	if extra != nil {
		cuts.AddEdges(extra(f)...)
	}
	if active == nil {
		active = map[*ssa.Function]bool{f: true}
	}
	allInstrs(f, func(_ *ssa.BasicBlock, _ int, in ssa.Instruction) {
		if hit(in) {
			if v, ok := in.(ssa.Value); ok {
				if succ, _, checked := callErrEdges(f, v); checked {
					cuts.AddEdges(succ...)
					return
				} else if len(errResults(v)) > 0 {
					return // error result never tested: the call does not count as "succeeded"
				}
			}
			cuts.AddInstrs(in)
			return
		}
		call, ok := in.(ssa.CallInstruction)
		if !ok {
			return
		}
		g := calleeFn(call)
		if g == nil || g.Blocks == nil || fnPkg(g) == nil || !inModule(fnPkg(g).Path()) {
			return
		}
		if _, isDefer := in.(*ssa.Defer); isDefer {
			// a deferred helper that unconditionally passes counts at registration time
			if p.mustPassOnSuccessMemo(g, hit, extra, depth-1, active) {
				cuts.AddInstrs(in)
			}
			return
		}
		if _, isGo := in.(*ssa.Go); isGo {
			return
		}
		if !p.mustPassOnSuccessMemo(g, hit, extra, depth-1, active) {
			return
		}
		v := call.Value()
		if v != nil && len(errResults(v)) > 0 {
			succ, _, checked := callErrEdges(f, v)
			if checked {
				cuts.AddEdges(succ...)
			} else {
				// "return g(...)": the callee's error is the caller's; success of the caller implies success of g
				cuts.AddInstrs(in)
			}
			return
		}
		cuts.AddInstrs(in)
	})
	return cuts
}

// ---------------------------------------------------------------------------
// provenance: leaf origins of a value inside one function

// origins returns the leaf values v may carry: it looks through phis, conversions, Extract,
// loads of local cells (all stores to the cell), and slices of values. Leaves are calls,
// parameters, constants, field loads, allocations, free variables, globals.
func origins(fn *ssa.Function, v ssa.Value) []ssa.Value {
	seen := map[ssa.Value]bool{}
	var out []ssa.Value
	var walk func(v ssa.Value, d int)
	walk = func(v ssa.Value, d int) {
		if v == nil || seen[v] {
			return
		}
		seen[v] = true
		if d > 50 {
			out = append(out, v)
			return
		}
		switch x := v.(type) {
		case *ssa.Phi:
			for _, e := range x.Edges {
				walk(e, d+1)
			}
		case *ssa.ChangeType:
			walk(x.X, d+1)
		case *ssa.ChangeInterface:
			walk(x.X, d+1)
		case *ssa.MakeInterface:
			walk(x.X, d+1)
		case *ssa.Convert:
			walk(x.X, d+1)
		case *ssa.Extract:
			out = append(out, v) // keep the extract: callers look at x.Tuple / x.Index
		case *ssa.Slice:
			walk(x.X, d+1)
		case *ssa.UnOp:
			if x.Op == token.MUL {
				if al, ok := x.X.(*ssa.Alloc); ok {
					n := 0
					for _, r := range *al.Referrers() {
						if st, ok := r.(*ssa.Store); ok && st.Addr == al {
							n++
							walk(st.Val, d+1)
						}
					}
					if n == 0 {
						out = append(out, v)
					}
					return
				}
			}
			out = append(out, v)
		default:
			out = append(out, v)
		}
	}
	walk(v, 0)
	return out
}

// originCall: if v is (an Extract of) a call, returns the call instruction and result index.
func originCall(v ssa.Value) (ssa.CallInstruction, int) {
	switch x := v.(type) {
	case *ssa.Call:
		return x, 0
	case *ssa.Extract:
		if c, ok := x.Tuple.(*ssa.Call); ok {
			return c, x.Index
		}
	}
	return nil, -1
}

// deferredClosures lists the functions registered with defer in fn (static callees only).
func deferredCallees(fn *ssa.Function) []*ssa.Defer {
	var out []*ssa.Defer
	allInstrs(fn, func(_ *ssa.BasicBlock, _ int, in ssa.Instruction) {
		if d, ok := in.(*ssa.Defer); ok {
			out = append(out, d)
		}
	})
	return out
}

// reachableFns returns the set of module functions reachable from roots over static calls,
// closures created (MakeClosure) and, when useCG is set, the VTA call graph's dynamic edges.
func (p *Prog) reachableFns(roots []*ssa.Function, useCG bool) map[*ssa.Function]bool {
	seen := map[*ssa.Function]bool{}
	var work []*ssa.Function
	push := func(f *ssa.Function) {
		if f == nil || seen[f] || f.Blocks == nil {
			return
		}
		if pk := fnPkg(f); pk == nil || !inModule(pk.Path()) {
			return
		}
		seen[f] = true
		work = append(work, f)
	}
	for _, r := range roots {
		push(r)
	}
	for len(work) > 0 {
		f := work[len(work)-1]
		work = work[:len(work)-1]
		allInstrs(f, func(_ *ssa.BasicBlock, _ int, in ssa.Instruction) {
			if mc, ok := in.(*ssa.MakeClosure); ok {
				if g, ok := mc.Fn.(*ssa.Function); ok {
					push(g)
				}
			}
			if call, ok := in.(ssa.CallInstruction); ok {
				push(calleeFn(call))
			}
		})
		if useCG {
			if n := p.CG().Nodes[f]; n != nil {
				for _, e := range n.Out {
					push(e.Callee.Func)
				}
			}
		}
	}
	return seen
}
