package main

import (
	"fmt"
	"go/constant"
	"go/token"
	"go/types"
	"regexp/syntax"
	"sort"
	"strings"

	"golang.org/x/tools/go/ssa"
)

// ---------------------------------------------------------------------------
// helpers of the C18 rules (filesystem authentication)

// c18ExtFn resolves a function or method of a package outside the module: "Name" or "Type.Method".
func (c *Ctx) c18ExtFn(rule, pkg, name string) *types.Func {
	tp := c.PkgTypes(pkg)
	if tp == nil {
		c.AnchorMissing(rule, pkg)
		return nil
	}
	var obj types.Object
	if i := strings.Index(name, "."); i >= 0 {
		if t := tp.Scope().Lookup(name[:i]); t != nil {
			obj, _, _ = types.LookupFieldOrMethod(t.Type(), true, tp, name[i+1:])
		}
	} else {
		obj = tp.Scope().Lookup(name)
	}
	f, _ := obj.(*types.Func)
	if f == nil {
		c.AnchorMissing(rule, pkg+"."+name)
	}
	return f
}

// c18CalleePkg returns the package path and name of the called function/method ("" when dynamic).
func c18CalleePkg(call ssa.CallInstruction) (pkg, name string) {
	o := calleeObj(call)
	if o == nil || o.Pkg() == nil {
		return "", ""
	}
	return o.Pkg().Path(), o.Name()
}

// c18IsFSCall: the call enters package os, syscall or io/ioutil (anything that can touch the
// filesystem). Pure helpers of those packages that cannot have an effect are listed explicitly.
func c18IsFSCall(call ssa.CallInstruction) bool {
	pkg, name := c18CalleePkg(call)
	switch pkg {
	case "os", "syscall", "io/ioutil", "golang.org/x/sys/unix":
	default:
		return false
	}
	switch name {
	case "Getenv", "LookupEnv", "Getpid", "Getppid", "Getuid", "Geteuid", "Getgid", "Getegid",
		"Hostname", "IsNotExist", "IsExist", "IsPermission", "IsTimeout", "Environ", "Args":
		return false
	}
	return true
}

// c18CreatorNames: os / (*os.Root) entry points that create a filesystem object.
var c18CreatorNames = map[string]bool{
	"Mkdir": true, "MkdirAll": true, "MkdirTemp": true, "Create": true, "CreateTemp": true,
	"OpenFile": true, "WriteFile": true, "Symlink": true, "Link": true, "Rename": true,
	"Mknod": true, "Mkfifo": true, "CopyFS": true, "TempDir": false,
}

// c18Cell resolves an address to the local variable cell it denotes: an Alloc of the enclosing
// top-level function, possibly seen from a closure through a chain of free variables.
func c18Cell(addr ssa.Value) *ssa.Alloc {
	for i := 0; i < 8; i++ {
		switch x := addr.(type) {
		case *ssa.Alloc:
			return x
		case *ssa.FreeVar:
			cl := x.Parent()
			par := cl.Parent()
			if par == nil {
				return nil
			}
			idx := -1
			for j, fv := range cl.FreeVars {
				if fv == x {
					idx = j
				}
			}
			var bind ssa.Value
			allInstrs(par, func(_ *ssa.BasicBlock, _ int, in ssa.Instruction) {
				if mc, ok := in.(*ssa.MakeClosure); ok && mc.Fn == ssa.Value(cl) && idx >= 0 && idx < len(mc.Bindings) {
					bind = mc.Bindings[idx]
				}
			})
			if bind == nil {
				return nil
			}
			addr = bind
		default:
			return nil
		}
	}
	return nil
}

// c18CellStores lists every Store to the cell: in its own function and, through the free variables
// bound to it, in every (nested) closure of that function.
func c18CellStores(cell *ssa.Alloc) []*ssa.Store {
	var out []*ssa.Store
	for _, fn := range withClosures(cell.Parent()) {
		allInstrs(fn, func(_ *ssa.BasicBlock, _ int, in ssa.Instruction) {
			if st, ok := in.(*ssa.Store); ok && c18Cell(st.Addr) == cell {
				out = append(out, st)
			}
		})
	}
	return out
}

// c18Origins: the leaf values v may carry, looking through phis, conversions and loads of variable
// cells (every store to the cell, also from closures; flow-insensitive). Zero initialisation of a
// cell contributes nothing.
func c18Origins(v ssa.Value) []ssa.Value {
	seen := map[ssa.Value]bool{}
	var out []ssa.Value
	var walk func(v ssa.Value, d int)
	walk = func(v ssa.Value, d int) {
		if v == nil || seen[v] {
			return
		}
		seen[v] = true
		if d > 40 {
			out = append(out, v)
			return
		}
		switch x := v.(type) {
		case *ssa.Phi:
			for _, e := range x.Edges {
				walk(e, d+1)
			}
		case *ssa.ChangeType:
			walk(x.X, d+1)
		case *ssa.ChangeInterface:
			walk(x.X, d+1)
		case *ssa.MakeInterface:
			walk(x.X, d+1)
		case *ssa.UnOp:
			if x.Op == token.MUL {
				if cell := c18Cell(x.X); cell != nil {
					for _, st := range c18CellStores(cell) {
						walk(st.Val, d+1)
					}
					return
				}
			}
			out = append(out, v)
		default:
			out = append(out, v)
		}
	}
	walk(v, 0)
	return out
}

// c18AllIn: v has at least one origin and all of them are in set.
func c18AllIn(v ssa.Value, set map[ssa.Value]bool) bool {
	os := c18Origins(v)
	if len(os) == 0 {
		return false
	}
	for _, o := range os {
		if !set[o] {
			return false
		}
	}
	return true
}

func c18Set(vs ...ssa.Value) map[ssa.Value]bool {
	m := map[ssa.Value]bool{}
	for _, v := range vs {
		if v != nil {
			m[v] = true
		}
	}
	return m
}

// c18CallOf: v is (result #idx of) a call to obj; returns the call.
func c18CallOf(v ssa.Value, obj types.Object, idx int) ssa.CallInstruction {
	call, i := originCall(v)
	if call == nil || obj == nil {
		return nil
	}
	if _, isTuple := call.Value().Type().(*types.Tuple); !isTuple {
		i = 0
	}
	if i != idx {
		return nil
	}
	if o := calleeObj(call); o == nil || types.Object(o) != obj {
		return nil
	}
	return call
}

func c18RetTargets(rs []RetPoint) []Target {
	var out []Target
	for _, r := range rs {
		out = append(out, r.Target())
	}
	return out
}

// c18AllReturns lists every Return of fn as a target.
func c18AllReturns(fn *ssa.Function) []*ssa.Return {
	var out []*ssa.Return
	for _, b := range fn.Blocks {
		if len(b.Instrs) > 0 {
			if r, ok := b.Instrs[len(b.Instrs)-1].(*ssa.Return); ok {
				out = append(out, r)
			}
		}
	}
	return out
}

// c18ConstStringOf returns the value of a package-level string constant.
func (c *Ctx) c18ConstString(rule, rel, name string) (string, bool) {
	o := c.needObj(rule, rel, name)
	k, ok := o.(*types.Const)
	if !ok || k.Val().Kind() != constant.String {
		if o != nil {
			c.AnchorMissing(rule, rel+"."+name+" (string constant)")
		}
		return "", false
	}
	return constant.StringVal(k.Val()), true
}

// c18GlobalRegexp finds the pattern a package-level *regexp.Regexp variable is initialised with:
// the single store "g = regexp.MustCompile(<const>)" (or Compile) in the package; "" if not of that shape.
func (c *Ctx) c18GlobalRegexp(g *ssa.Global) (pattern string, ok bool, writers int) {
	for _, fn := range c.ModFns {
		allInstrs(fn, func(_ *ssa.BasicBlock, _ int, in ssa.Instruction) {
			st, isSt := in.(*ssa.Store)
			if !isSt || st.Addr != ssa.Value(g) {
				return
			}
			writers++
			call, _ := originCall(st.Val)
			if call == nil {
				return
			}
			pkg, name := c18CalleePkg(call)
			if pkg != "regexp" || (name != "MustCompile" && name != "Compile") || len(call.Common().Args) != 1 {
				return
			}
			if s, isC := constString(call.Common().Args[0]); isC {
				pattern, ok = s, true
			}
		})
	}
	// the address of the global must not escape (no other way to assign it)
	if g.Referrers() != nil {
		for _, r := range *g.Referrers() {
			switch u := r.(type) {
			case *ssa.Store:
				if u.Addr != ssa.Value(g) {
					writers += 100
				}
			case *ssa.UnOp, *ssa.DebugRef:
			default:
				writers += 100
			}
		}
	}
	return
}

// c18LeafPatternProblems checks a leaf-name pattern: anchored at both ends as a whole (not per
// alternative), admits neither '/' nor NUL anywhere, and has no unbounded "any character".
func c18LeafPatternProblems(pattern string) []string {
	re, err := syntax.Parse(pattern, syntax.Perl)
	if err != nil {
		return []string{"pattern does not parse: " + err.Error()}
	}
	var probs []string
	if re.Op != syntax.OpConcat || len(re.Sub) < 2 || re.Sub[0].Op != syntax.OpBeginText || re.Sub[len(re.Sub)-1].Op != syntax.OpEndText {
		probs = append(probs, "pattern is not of the form ^…$ (both anchors must bind the whole pattern)")
	}
	if re.Flags&syntax.OneLine == 0 && strings.Contains(pattern, "(?m") {
		probs = append(probs, "multi-line mode makes ^/$ match at line breaks")
	}
	var walk func(r *syntax.Regexp)
	walk = func(r *syntax.Regexp) {
		switch r.Op {
		case syntax.OpAnyChar, syntax.OpAnyCharNotNL:
			probs = append(probs, "'.' admits '/'")
		case syntax.OpLiteral:
			for _, ru := range r.Rune {
				if ru == '/' || ru == 0 {
					probs = append(probs, fmt.Sprintf("literal %q in the pattern", ru))
				}
			}
		case syntax.OpCharClass:
			for i := 0; i+1 < len(r.Rune); i += 2 {
				if r.Rune[i] <= '/' && '/' <= r.Rune[i+1] {
					probs = append(probs, "a character class admits '/'")
				}
				if r.Rune[i] <= 0 && 0 <= r.Rune[i+1] {
					probs = append(probs, "a character class admits NUL")
				}
			}
		case syntax.OpBeginLine, syntax.OpEndLine:
			probs = append(probs, "line anchor instead of text anchor")
		}
		for _, s := range r.Sub {
			walk(s)
		}
	}
	walk(re)
	sort.Strings(probs)
	return uniq(probs)
}

// ---------------------------------------------------------------------------
// defer-aware pairing: created => removed (C18-R4)
//
// The walk enumerates the paths of the function from its entry to every Return (paths count from the
// success edge of the creating call on), tracking (a) the current value of local variable cells (Alloc; closures see them through
// free variables), (b) the deferred calls registered so far, (c) whether the created name has been
// removed through the same root and whether that root has been closed. At RunDefers the registered
// closures are executed in LIFO order by the same walk, with their own nested defers. Branches that
// test a tracked cell are decided when the cell's value is known: a root on which Mkdir has just
// succeeded is not nil, a name Mkdir accepted is not "" (os.Root rejects the empty path), integer
// constants compare as constants. Everything else is explored both ways.

type c18State struct {
	cells   map[*ssa.Alloc]ssa.Value
	binds   map[ssa.Value]ssa.Value // parameters and results of helper calls executed on the path
	stack   []*ssa.Function         // helper bodies being executed (innermost last)
	defers  []*ssa.Defer
	armed   bool               // the success edge of the creating call has been passed
	root    map[ssa.Value]bool // origins of the receiver of the successful create call
	name    map[ssa.Value]bool // origins of the name it created
	removed bool
	closed  bool
	guessed bool // a branch on a tracked cell could not be decided (after arming)
}

func (s c18State) clone() c18State {
	n := s
	n.cells = make(map[*ssa.Alloc]ssa.Value, len(s.cells))
	for k, v := range s.cells {
		n.cells[k] = v
	}
	n.binds = make(map[ssa.Value]ssa.Value, len(s.binds))
	for k, v := range s.binds {
		n.binds[k] = v
	}
	n.stack = append([]*ssa.Function(nil), s.stack...)
	n.defers = append([]*ssa.Defer(nil), s.defers...)
	return n
}

func (s c18State) key() string {
	var parts []string
	for k, v := range s.cells {
		parts = append(parts, fmt.Sprintf("%p=%p", k, v))
	}
	for k, v := range s.binds {
		parts = append(parts, fmt.Sprintf("b%p=%p", k, v))
	}
	for k := range s.root {
		parts = append(parts, fmt.Sprintf("r%p", k))
	}
	for k := range s.name {
		parts = append(parts, fmt.Sprintf("n%p", k))
	}
	sort.Strings(parts)
	d := ""
	for _, x := range s.defers {
		d += fmt.Sprintf("%p,", x)
	}
	return fmt.Sprintf("%v|%v|%v|%v|%d|%s|%s", s.armed, s.removed, s.closed, s.guessed, len(s.stack), d, strings.Join(parts, ";"))
}

type c18Sim struct {
	remove, close types.Object
	create        ssa.CallInstruction // the creating call (Mkdir): receiver and name are taken when its success edge is passed
	arm           map[Edge]bool       // success edges of the create call
	pkg           *types.Package      // helpers of this package are executed inline when they matter
	matters       map[*ssa.Function]bool
	steps         int
	overflow      bool
}

// val resolves a value under the current cell contents and helper bindings.
func (s *c18Sim) val(st *c18State, v ssa.Value) ssa.Value {
	for i := 0; i < 16; i++ {
		if b, ok := st.binds[v]; ok && b != v {
			v = b
			continue
		}
		switch x := v.(type) {
		case *ssa.ChangeType:
			v = x.X
			continue
		case *ssa.UnOp:
			if x.Op == token.MUL {
				if cell := c18Cell(x.X); cell != nil {
					if cur, ok := st.cells[cell]; ok {
						v = cur
						continue
					}
				}
			}
		}
		break
	}
	return v
}

// inline: the same-package helper called by in, when executing it can matter for the pairing (it
// reaches the create / remove / close calls) and it is not already being executed.
func (s *c18Sim) inline(st *c18State, in *ssa.Call) *ssa.Function {
	g := calleeFn(in)
	if g == nil || g.Blocks == nil || fnPkg(g) != s.pkg || len(g.Params) != len(in.Call.Args) || len(st.stack) >= InlineDepth {
		return nil
	}
	for _, a := range st.stack {
		if a == g {
			return nil
		}
	}
	if s.matters == nil {
		s.matters = map[*ssa.Function]bool{}
	}
	var reach func(f *ssa.Function, d int) bool
	reach = func(f *ssa.Function, d int) bool {
		if m, ok := s.matters[f]; ok {
			return m
		}
		s.matters[f] = false
		res := false
		for _, h := range withClosures(f) {
			allInstrs(h, func(_ *ssa.BasicBlock, _ int, x ssa.Instruction) {
				call, ok := x.(ssa.CallInstruction)
				if !ok || res {
					return
				}
				if o := calleeObj(call); o != nil && (types.Object(o) == s.remove || types.Object(o) == s.close || (s.create != nil && types.Object(o) == types.Object(calleeObj(s.create)))) {
					res = true
					return
				}
				if k := calleeFn(call); k != nil && k.Blocks != nil && fnPkg(k) == s.pkg && d < InlineDepth && reach(k, d+1) {
					res = true
				}
			})
		}
		s.matters[f] = res
		return res
	}
	if !reach(g, 0) {
		return nil
	}
	return g
}

func (s *c18Sim) isCellLoad(v ssa.Value) bool {
	if u, ok := v.(*ssa.UnOp); ok && u.Op == token.MUL {
		return c18Cell(u.X) != nil
	}
	return false
}

func (s *c18Sim) is(st *c18State, v ssa.Value, set map[ssa.Value]bool) bool {
	return len(set) > 0 && c18AllIn(s.val(st, v), set)
}

// evalCond decides a branch condition: (value, known). guess is set when the condition reads a
// tracked cell whose content is not known.
func (s *c18Sim) evalCond(st *c18State, cond ssa.Value) (val, known, guess bool) {
	return s.evalCondD(st, cond, 0)
}

func (s *c18Sim) evalCondD(st *c18State, cond ssa.Value, depth int) (val, known, guess bool) {
	a := condAtom(cond)
	if a.Op == token.ILLEGAL {
		r := s.val(st, a.X)
		if b, ok := constBool(r); ok {
			return b != a.Neg, true, false
		}
		if r != a.X && depth < 8 {
			// a boolean handed to a helper (or kept in a variable): evaluate the expression it stands for
			v, k, g := s.evalCondD(st, r, depth+1)
			if k {
				return v != a.Neg, true, false
			}
			return false, false, g || s.isCellLoad(a.X)
		}
		return false, false, s.isCellLoad(a.X)
	}
	x, y := s.val(st, a.X), s.val(st, a.Y)
	var res, ok bool
	switch a.Op {
	case token.EQL, token.NEQ:
		eq, k := s.equal(st, x, y)
		res, ok = eq, k
		if a.Op == token.NEQ {
			res = !res
		}
	default:
		xi, xok := constInt(x)
		yi, yok := constInt(y)
		if xok && yok {
			ok = true
			switch a.Op {
			case token.LSS:
				res = xi < yi
			case token.LEQ:
				res = xi <= yi
			case token.GTR:
				res = xi > yi
			case token.GEQ:
				res = xi >= yi
			}
		}
	}
	if !ok {
		return false, false, s.isCellLoad(x) || s.isCellLoad(y)
	}
	return res != a.Neg, true, false
}

func (s *c18Sim) equal(st *c18State, x, y ssa.Value) (eq, known bool) {
	if isNilConst(y) {
		x, y = y, x
	}
	if isNilConst(x) {
		if isNilConst(y) {
			return true, true
		}
		if st.armed && len(st.root) > 0 && c18AllIn(y, st.root) {
			return false, true // the root Mkdir succeeded on
		}
		return false, false
	}
	if xs, ok := constString(x); ok {
		if ys, ok := constString(y); ok {
			return xs == ys, true
		}
		if xs == "" && st.armed && len(st.name) > 0 && c18AllIn(y, st.name) {
			return false, true // the name Mkdir accepted
		}
		return false, false
	}
	if ys, ok := constString(y); ok {
		if ys == "" && st.armed && len(st.name) > 0 && c18AllIn(x, st.name) {
			return false, true
		}
		return false, false
	}
	xi, xok := constInt(x)
	yi, yok := constInt(y)
	if xok && yok {
		return xi == yi, true
	}
	return false, false
}

// c18Exit is one way of reaching a Return.
type c18Exit struct {
	Ret   *ssa.Return
	State c18State
	Path  []*ssa.BasicBlock
}

// run walks fn from (b, idx) and reports the state at every Return reached.
func (s *c18Sim) run(fn *ssa.Function, b *ssa.BasicBlock, idx int, st c18State, seen map[string]bool, path []*ssa.BasicBlock, out func(c18Exit)) {
	s.steps++
	if s.steps > 200000 {
		s.overflow = true
		return
	}
	if idx == 0 {
		k := fmt.Sprintf("%p|%s", b, st.key())
		if seen[k] {
			return
		}
		seen[k] = true
	}
	path = append(path[:len(path):len(path)], b)
	for i := idx; i < len(b.Instrs); i++ {
		switch in := b.Instrs[i].(type) {
		case *ssa.Store:
			if cell := c18Cell(in.Addr); cell != nil {
				st = st.clone()
				st.cells[cell] = s.val(&st, in.Val)
			}
		case *ssa.Defer:
			st = st.clone()
			st.defers = append(st.defers, in)
		case *ssa.Go:
		case *ssa.Call:
			if g := s.inline(&st, in); g != nil {
				// execute the helper's body; continue here after each of its returns
				inner := st.clone()
				for j, p := range g.Params {
					inner.binds[p] = s.val(&st, in.Call.Args[j])
				}
				inner.stack = append(inner.stack, g)
				inner.defers = nil
				outer := st
				rest := i + 1
				s.run(g, g.Blocks[0], 0, inner, map[string]bool{}, path, func(e c18Exit) {
					o := e.State.clone()
					o.stack = o.stack[:len(outer.stack)]
					o.defers = append([]*ssa.Defer(nil), outer.defers...)
					if len(e.Ret.Results) == 1 {
						o.binds[in] = s.val(&e.State, e.Ret.Results[0])
					} else if refs := in.Referrers(); refs != nil {
						for _, r := range *refs {
							if ex, ok := r.(*ssa.Extract); ok && ex.Index < len(e.Ret.Results) {
								o.binds[ex] = s.val(&e.State, e.Ret.Results[ex.Index])
							}
						}
					}
					s.run(fn, b, rest, o, seen, e.Path, out)
				})
				return
			}
			st = s.call(st, in)
		case *ssa.RunDefers:
			outs := []c18State{st}
			ds := st.defers
			for j := len(ds) - 1; j >= 0; j-- {
				var next []c18State
				for _, o := range outs {
					next = append(next, s.runDeferred(ds[j], o)...)
				}
				outs = c18Dedupe(next)
			}
			for _, o := range outs {
				o = o.clone()
				o.defers = nil
				s.run(fn, b, i+1, o, seen, path[:len(path)-1], out)
			}
			return
		case *ssa.Return:
			out(c18Exit{in, st, path})
			return
		case *ssa.Panic:
			return
		case *ssa.If:
			v, known, guess := s.evalCond(&st, in.Cond)
			for k, succ := range b.Succs {
				if known && ((k == 0) != v) {
					continue
				}
				n := st
				if guess && st.armed && !st.guessed {
					n = st.clone()
					n.guessed = true
				}
				if s.arm[Edge{b, k}] && fn.Parent() == nil {
					// a (new) successful create: everything before is forgotten
					n = n.clone()
					n.armed, n.removed, n.closed, n.guessed = true, false, false, false
					a := s.create.Common().Args
					n.root = c18Set(c18Origins(s.val(&n, a[0]))...)
					n.name = c18Set(c18Origins(s.val(&n, a[1]))...)
					s.run(fn, succ, 0, n, seen, []*ssa.BasicBlock{b}, out)
					continue
				}
				s.run(fn, succ, 0, n, seen, path, out)
			}
			return
		case *ssa.Jump:
			s.run(fn, b.Succs[0], 0, st, seen, path, out)
			return
		}
	}
}

func c18Dedupe(in []c18State) []c18State {
	seen := map[string]bool{}
	var out []c18State
	for _, s := range in {
		k := s.key()
		if !seen[k] {
			seen[k] = true
			out = append(out, s)
		}
	}
	return out
}

// call applies the effect of a (direct or deferred-then-run) call on the state.
func (s *c18Sim) call(st c18State, in ssa.CallInstruction) c18State {
	cc := in.Common()
	o := calleeObj(in)
	if o != nil && types.Object(o) == s.remove && len(cc.Args) >= 2 {
		if st.armed && s.is(&st, cc.Args[0], st.root) && s.is(&st, cc.Args[1], st.name) && !st.closed {
			st = st.clone()
			st.removed = true
		}
		return st
	}
	if o != nil && types.Object(o) == s.close && len(cc.Args) >= 1 {
		if st.armed && s.is(&st, cc.Args[0], st.root) {
			st = st.clone()
			st.closed = true
		}
		return st
	}
	// a call that receives the address of a cell, or a closure that captured one, may assign it
	var lost []*ssa.Alloc
	for _, a := range cc.Args {
		if cell := c18Cell(a); cell != nil {
			lost = append(lost, cell)
		}
	}
	if mc, ok := cc.Value.(*ssa.MakeClosure); ok {
		for _, bnd := range mc.Bindings {
			if cell := c18Cell(bnd); cell != nil {
				lost = append(lost, cell)
			}
		}
	}
	if len(lost) > 0 {
		st = st.clone()
		for _, cell := range lost {
			delete(st.cells, cell)
		}
	}
	return st
}

// runDeferred executes one deferred call on the state and returns the possible resulting states.
func (s *c18Sim) runDeferred(d *ssa.Defer, st c18State) []c18State {
	mc, ok := d.Call.Value.(*ssa.MakeClosure)
	if !ok {
		return []c18State{s.call(st, d)}
	}
	cl, ok := mc.Fn.(*ssa.Function)
	if !ok || cl.Blocks == nil {
		return []c18State{st}
	}
	inner := st.clone()
	inner.defers = nil
	var outs []c18State
	s.run(cl, cl.Blocks[0], 0, inner, map[string]bool{}, nil, func(e c18Exit) {
		o := e.State.clone()
		o.defers = st.defers
		outs = append(outs, o)
	})
	if len(outs) == 0 {
		return []c18State{st}
	}
	return c18Dedupe(outs)
}

// c18ValueSite: one way a value gets its content: the leaf value and the instruction at which it is
// bound (the store into the variable, the first instruction of the predecessor a phi takes it from,
// the return of a value helper).
type c18ValueSite struct {
	val c11LV
	env *c11Env
	at  ssa.Instruction // nil when the binding point is not known
}

// c18ValueSites flattens lv into its leaves together with the place each leaf is bound, through
// phis, variable cells, parameters of followed helpers and results of followed helpers.
func (c *Ctx) c18ValueSites(lv c11LV) []c18ValueSite {
	var out []c18ValueSite
	seen := map[c11LV]bool{}
	first := func(b *ssa.BasicBlock) ssa.Instruction {
		if b == nil || len(b.Instrs) == 0 {
			return nil
		}
		return b.Instrs[len(b.Instrs)-1] // the jump out of the block: the whole block has executed
	}
	var walk func(lv c11LV, env *c11Env, at ssa.Instruction, d int)
	walk = func(lv c11LV, env *c11Env, at ssa.Instruction, d int) {
		if lv.V == nil || d > 40 {
			return
		}
		switch x := lv.V.(type) {
		case *ssa.Phi:
			if seen[lv] {
				return
			}
			seen[lv] = true
			for i, e := range x.Edges {
				walk(c11LV{e, lv.E}, lv.E, first(x.Block().Preds[i]), d+1)
			}
			return
		case *ssa.ChangeType:
			walk(c11LV{x.X, lv.E}, env, at, d+1)
			return
		case *ssa.Parameter:
			if a := lv.E.arg(x); a != nil {
				walk(c11LV{a, lv.E.parent}, lv.E.parent, lv.E.call, d+1)
				return
			}
		case *ssa.UnOp:
			if x.Op == token.MUL {
				if cell := c18Cell(x.X); cell != nil {
					if seen[lv] {
						return
					}
					seen[lv] = true
					ce := lv.E.envOf(cell.Parent())
					n := 0
					for _, st := range c18CellStores(cell) {
						n++
						if st.Parent() != ce.fn {
							out = append(out, c18ValueSite{c11LV{st.Val, &c11Env{fn: st.Parent(), parent: ce}}, nil, nil})
							continue
						}
						walk(c11LV{st.Val, ce}, ce, st, d+1)
					}
					if n > 0 {
						return
					}
				}
			}
		case *ssa.Call, *ssa.Extract:
			if call, idx := originCall(lv.V); call != nil {
				if he := lv.E.enter(call); he != nil {
					n := 0
					for _, r := range c.successTargets(he.fn) {
						if idx >= len(r.Ret.Results) {
							continue
						}
						n++
						v := r.Ret.Results[idx]
						at := ssa.Instruction(r.Ret)
						if phi, ok := v.(*ssa.Phi); ok && phi.Block() == r.Ret.Block() && r.Pred != nil {
							for i, p := range phi.Block().Preds {
								if p == r.Pred {
									v, at = phi.Edges[i], first(p)
								}
							}
						}
						walk(c11LV{v, he}, he, at, d+1)
					}
					if n > 0 {
						return
					}
				}
			}
		}
		out = append(out, c18ValueSite{lv, env, at})
	}
	walk(lv, lv.E, nil, 0)
	return out
}
