package main

// Helpers shared by rules_c05.go, rules_c17.go and rules_c20.go (one author, three properties):
//   - cell provenance through captured variables (Alloc cells written in closures, FreeVars),
//   - joint edge dominance ("every path passes one of these edges"),
//   - frames: an anchored function seen together with the same-package helpers it calls (values
//     resolved through parameters and results, paths in the inlined control flow graph) — what makes
//     the rules indifferent to extract-helper / inline / local-boolean refactorings,
//   - a tiny conditional-constant-propagation interpreter over SSA used for finite table
//     extraction (C05-R3). It interprets the analysed function's SSA inside the checker; no
//     repository code is compiled or run.

import (
	"fmt"
	"go/constant"
	"go/token"
	"go/types"
	"os"
	"time"

	"golang.org/x/tools/go/ssa"
)

// c05timer prints the wall time of a rule to stderr when CEDAR_TIMING is set (development aid).
func c05timer(name string) func() {
	if os.Getenv("CEDAR_TIMING") == "" {
		return func() {}
	}
	t := time.Now()
	return func() { fmt.Fprintf(os.Stderr, "timing %s %.2fs\n", name, time.Since(t).Seconds()) }
}

// ---------------------------------------------------------------------------
// cells and closures

// c05closureSites lists the MakeClosure instructions creating fn (in fn.Parent()).
func c05closureSites(fn *ssa.Function) []*ssa.MakeClosure {
	var out []*ssa.MakeClosure
	par := fn.Parent()
	if par == nil {
		return nil
	}
	allInstrs(par, func(_ *ssa.BasicBlock, _ int, in ssa.Instruction) {
		if mc, ok := in.(*ssa.MakeClosure); ok && mc.Fn == fn {
			out = append(out, mc)
		}
	})
	return out
}

// c05cellOf maps an address value (Alloc, or FreeVar of a closure) to the Alloc cell it denotes in
// the outermost function that declared it. ok=false when the binding cannot be followed uniquely.
func c05cellOf(addr ssa.Value) (*ssa.Alloc, bool) {
	for i := 0; i < 8; i++ {
		switch x := addr.(type) {
		case *ssa.Alloc:
			return x, true
		case *ssa.FreeVar:
			fn := x.Parent()
			idx := -1
			for j, fv := range fn.FreeVars {
				if fv == x {
					idx = j
				}
			}
			sites := c05closureSites(fn)
			if idx < 0 || len(sites) != 1 || idx >= len(sites[0].Bindings) {
				return nil, false
			}
			addr = sites[0].Bindings[idx]
		default:
			return nil, false
		}
	}
	return nil, false
}

// c05cellRefs calls f for every instruction that refers to the cell, in the declaring function and
// in every closure that captures it (transitively). addr is the value denoting the cell there.
func c05cellRefs(cell ssa.Value, f func(addr ssa.Value, in ssa.Instruction)) {
	refs := cell.Referrers()
	if refs == nil {
		return
	}
	for _, r := range *refs {
		f(cell, r)
		if mc, ok := r.(*ssa.MakeClosure); ok {
			g, _ := mc.Fn.(*ssa.Function)
			if g == nil {
				continue
			}
			for j, b := range mc.Bindings {
				if b == cell && j < len(g.FreeVars) {
					c05cellRefs(g.FreeVars[j], f)
				}
			}
		}
	}
}

// c05cellStores returns every Store into the cell (declaring function and capturing closures).
func c05cellStores(cell *ssa.Alloc) []*ssa.Store {
	var out []*ssa.Store
	c05cellRefs(cell, func(addr ssa.Value, in ssa.Instruction) {
		if st, ok := in.(*ssa.Store); ok && st.Addr == addr {
			out = append(out, st)
		}
	})
	return out
}

// c05cellEscapes: the cell's address is used for anything but loads, stores and closure capture
// (then its content cannot be tracked).
func c05cellEscapes(cell *ssa.Alloc) bool {
	esc := false
	c05cellRefs(cell, func(addr ssa.Value, in ssa.Instruction) {
		switch x := in.(type) {
		case *ssa.Store:
			if x.Addr != addr {
				esc = true
			}
		case *ssa.UnOp, *ssa.MakeClosure, *ssa.DebugRef, *ssa.FieldAddr, *ssa.IndexAddr:
		default:
			esc = true
		}
	})
	return esc
}

// c05resolve follows value-preserving steps: conversions, and loads of single-assignment cells
// (also through closure captures). The result may live in an enclosing function.
func c05resolve(v ssa.Value) ssa.Value {
	for i := 0; i < 16; i++ {
		switch x := v.(type) {
		case *ssa.ChangeType:
			v = x.X
			continue
		case *ssa.ChangeInterface:
			v = x.X
			continue
		case *ssa.MakeInterface:
			v = x.X
			continue
		case *ssa.UnOp:
			if x.Op == token.MUL {
				if cell, ok := c05cellOf(x.X); ok {
					if _, isStruct := cell.Type().Underlying().(*types.Pointer).Elem().Underlying().(*types.Struct); isStruct {
						return v // struct cells are field-addressed; keep the load
					}
					st := c05cellStores(cell)
					if len(st) == 1 && !c05cellEscapes(cell) {
						v = st[0].Val
						continue
					}
				}
			}
		}
		return v
	}
	return v
}

// c05cellRoot: the variable a struct value/field address belongs to: &cell.f -> cell, *cell -> cell.
func c05cellRoot(v ssa.Value) ssa.Value {
	for i := 0; i < 8; i++ {
		switch x := v.(type) {
		case *ssa.FieldAddr:
			v = x.X
		case *ssa.Field:
			v = x.X
		case *ssa.UnOp:
			if x.Op != token.MUL {
				return v
			}
			if fa, ok := x.X.(*ssa.FieldAddr); ok {
				v = fa // load of a field: continue with the struct the field belongs to
				continue
			}
			if c, ok := c05cellOf(x.X); ok {
				return c
			}
			return v
		case *ssa.FreeVar:
			if c, ok := c05cellOf(x); ok {
				return c
			}
			return v
		default:
			return v
		}
	}
	return v
}

// c05fieldStore finds the value stored into field f of the struct cell (single store expected).
func c05fieldStores(cell ssa.Value, f *types.Var) []ssa.Value {
	var out []ssa.Value
	refs := cell.Referrers()
	if refs == nil {
		return nil
	}
	for _, r := range *refs {
		fa, ok := r.(*ssa.FieldAddr)
		if !ok || fieldOfAddr(fa) != f {
			continue
		}
		for _, u := range *fa.Referrers() {
			if st, ok := u.(*ssa.Store); ok && st.Addr == fa {
				out = append(out, st.Val)
			}
		}
	}
	return out
}

// ---------------------------------------------------------------------------
// dominance by a set of edges

// c05passesOneOf: every path from fn's entry to instruction in passes one of the edges (and there is one).
func c05passesOneOf(fn *ssa.Function, edges []Edge, in ssa.Instruction) (bool, []*ssa.BasicBlock) {
	if len(edges) == 0 {
		return false, nil
	}
	for _, e := range edges {
		if len(e.From.Succs) == 2 && e.From.Succs[0] == e.From.Succs[1] {
			return false, nil
		}
	}
	p := findPath(entryPoint(fn), Target{Instr: in}, newCuts().AddEdges(edges...))
	return p == nil, p
}

// c05returns lists fn's Return instructions.
func c05returns(fn *ssa.Function) []*ssa.Return {
	var out []*ssa.Return
	for _, b := range fn.Blocks {
		if len(b.Instrs) > 0 {
			if r, ok := b.Instrs[len(b.Instrs)-1].(*ssa.Return); ok {
				out = append(out, r)
			}
		}
	}
	return out
}

// c05funcValueUses reports the module instructions that use function f as a value (not as the
// static callee of a call): method values, closures over it, assignments to function variables.
func (p *Prog) c05funcValueUses(f *ssa.Function) []ssa.Instruction {
	var out []ssa.Instruction
	for _, fn := range p.ModFns {
		allInstrs(fn, func(_ *ssa.BasicBlock, _ int, in ssa.Instruction) {
			var ops [12]*ssa.Value
			for _, op := range in.Operands(ops[:0]) {
				if *op != f {
					continue
				}
				if call, ok := in.(ssa.CallInstruction); ok && call.Common().Value == f {
					continue
				}
				out = append(out, in)
			}
			// bound method wrappers / thunks
			if mc, ok := in.(*ssa.MakeClosure); ok {
				if g, ok := mc.Fn.(*ssa.Function); ok && g.Synthetic != "" && g.Object() != nil && g.Object() == f.Object() {
					out = append(out, in)
				}
			}
		})
	}
	return out
}

// ---------------------------------------------------------------------------
// conditional constant propagation over SSA (finite table extraction)

const (
	c05kUnknown = iota
	c05kBool
	c05kString
	c05kNil
	c05kObj  // pointer to abstract object
	c05kAddr // address of a field of an abstract object
	c05kFunc // function value returning ret
)

type c05Obj struct {
	name   string
	fields map[*types.Var]c05Val
}

type c05Val struct {
	kind  int
	b     bool
	s     string
	obj   *c05Obj
	field *types.Var
	ret   *c05Val
}

func c05bool(b bool) c05Val      { return c05Val{kind: c05kBool, b: b} }
func c05str(s string) c05Val     { return c05Val{kind: c05kString, s: s} }
func c05ptr(o *c05Obj) c05Val    { return c05Val{kind: c05kObj, obj: o} }
func c05fnRet(r c05Val) c05Val   { return c05Val{kind: c05kFunc, ret: &r} }
func c05newObj(n string) *c05Obj { return &c05Obj{name: n, fields: map[*types.Var]c05Val{}} }

var c05nil = c05Val{kind: c05kNil}

type c05interp struct {
	steps int
}

// c05cmp decides x == y; ok=false when the abstract values do not decide it.
func c05cmp(x, y c05Val) (eq, ok bool) {
	switch {
	case x.kind == c05kBool && y.kind == c05kBool:
		return x.b == y.b, true
	case x.kind == c05kString && y.kind == c05kString:
		return x.s == y.s, true
	case x.kind == c05kNil && y.kind == c05kNil:
		return true, true
	case x.kind == c05kNil && (y.kind == c05kObj || y.kind == c05kFunc || y.kind == c05kAddr):
		return false, true
	case y.kind == c05kNil && (x.kind == c05kObj || x.kind == c05kFunc || x.kind == c05kAddr):
		return false, true
	case x.kind == c05kObj && y.kind == c05kObj:
		return x.obj == y.obj, true
	}
	return false, false
}

// eval interprets fn on abstract arguments and returns its (single) result. err != "" means the
// evaluation met a construct the interpreter does not model on the executed path.
func (ip *c05interp) eval(fn *ssa.Function, args []c05Val, depth int) (c05Val, string) {
	if fn == nil || fn.Blocks == nil {
		return c05Val{}, "no body"
	}
	if len(args) != len(fn.Params) {
		return c05Val{}, "arity mismatch calling " + fnName(fn)
	}
	env := map[ssa.Value]c05Val{}
	for i, p := range fn.Params {
		env[p] = args[i]
	}
	val := func(v ssa.Value) c05Val {
		if c, ok := v.(*ssa.Const); ok {
			if c.Value == nil {
				if isBasic(c.Type()) {
					return c05Val{}
				}
				return c05nil
			}
			switch c.Value.Kind() {
			case constant.Bool:
				return c05bool(constant.BoolVal(c.Value))
			case constant.String:
				return c05str(constant.StringVal(c.Value))
			}
			return c05Val{}
		}
		return env[v]
	}
	b := fn.Blocks[0]
	var prev *ssa.BasicBlock
	for {
		var next *ssa.BasicBlock
		for _, in := range b.Instrs {
			ip.steps++
			if ip.steps > 20000 {
				return c05Val{}, "step limit exceeded (loop?)"
			}
			switch x := in.(type) {
			case *ssa.DebugRef:
			case *ssa.Phi:
				idx := -1
				for i, p := range b.Preds {
					if p == prev {
						idx = i
					}
				}
				if idx < 0 {
					return c05Val{}, "phi without predecessor"
				}
				env[x] = val(x.Edges[idx])
			case *ssa.FieldAddr:
				base := val(x.X)
				if base.kind == c05kObj {
					env[x] = c05Val{kind: c05kAddr, obj: base.obj, field: fieldOfAddr(x)}
				} else if base.kind == c05kNil {
					return c05Val{}, "nil dereference at " + fnName(fn)
				}
			case *ssa.UnOp:
				a := val(x.X)
				switch x.Op {
				case token.MUL:
					if a.kind == c05kAddr {
						env[x] = a.obj.fields[a.field]
					}
				case token.NOT:
					if a.kind == c05kBool {
						env[x] = c05bool(!a.b)
					}
				}
			case *ssa.BinOp:
				if x.Op == token.EQL || x.Op == token.NEQ {
					if eq, ok := c05cmp(val(x.X), val(x.Y)); ok {
						env[x] = c05bool(eq == (x.Op == token.EQL))
					}
				}
			case *ssa.ChangeType:
				env[x] = val(x.X)
			case *ssa.Convert:
				env[x] = val(x.X)
			case *ssa.Store:
				a := val(x.Addr)
				if a.kind == c05kAddr {
					a.obj.fields[a.field] = val(x.Val)
				}
			case *ssa.Call:
				cc := x.Common()
				if cc.IsInvoke() {
					break // unknown result
				}
				if _, isB := cc.Value.(*ssa.Builtin); isB {
					break
				}
				if g := cc.StaticCallee(); g != nil {
					if g.Blocks != nil && fnPkg(g) != nil && inModule(fnPkg(g).Path()) && depth < 3 && g.Signature.Results().Len() == 1 {
						var as []c05Val
						for _, a := range cc.Args {
							as = append(as, val(a))
						}
						r, e := ip.eval(g, as, depth+1)
						if e != "" {
							return c05Val{}, e
						}
						env[x] = r
					}
					break
				}
				if f := val(cc.Value); f.kind == c05kFunc {
					env[x] = *f.ret
				} else if f.kind == c05kNil {
					return c05Val{}, "call of nil function at " + fnName(fn)
				}
			case *ssa.If:
				cnd := val(x.Cond)
				if cnd.kind != c05kBool {
					return c05Val{}, fmt.Sprintf("branch condition not decided by the inputs in %s (block %d)", fnName(fn), b.Index)
				}
				if cnd.b {
					next = b.Succs[0]
				} else {
					next = b.Succs[1]
				}
			case *ssa.Jump:
				next = b.Succs[0]
			case *ssa.Return:
				if len(x.Results) != 1 {
					return c05Val{}, "multi-value return"
				}
				return val(x.Results[0]), ""
			case *ssa.Go, *ssa.Defer, *ssa.Send, *ssa.Select, *ssa.Panic, *ssa.MapUpdate, *ssa.RunDefers, *ssa.Next, *ssa.Range:
				return c05Val{}, fmt.Sprintf("unsupported instruction %T in %s", in, fnName(fn))
			default:
				// other value-producing instructions: result unknown
			}
		}
		if next == nil {
			return c05Val{}, "fell off block"
		}
		prev, b = b, next
	}
}

// ---------------------------------------------------------------------------
// Frames: an anchored function seen together with the same-package helpers it calls.
//
// A rule that looks for a check / store / call "in function f" must keep finding it when a
// contributor extracts it into an unexported helper, inlines a helper, or materialises a condition in
// a local boolean. The rules of C05/C17/C20 therefore do not search one SSA function but the tree of
// frames below the anchored function: a frame is a function together with the chain of call sites that
// leads to it from the root (full call-site context, depth <= c05MaxDepth, no recursion, static callees
// of the root's package only; functions in the stop set are anchors judged by their own rule and stay
// atomic calls). Values are resolved through frames (a helper's parameter denotes the caller's
// argument, a helper's result denotes what it returns) and paths are searched in the inlined control
// flow graph (c05path), which keeps call and return matched and decides a branch on a helper's result
// by the return statement the path came through.

const c05MaxDepth = 4

type c05Frame struct {
	p      *Prog
	fn     *ssa.Function
	call   ssa.CallInstruction // the call in parent.fn this frame expands (nil for the root); paths enter plain calls only
	parent *c05Frame
	depth  int
	stop   map[*ssa.Function]bool
	kids   map[ssa.CallInstruction]*c05Frame // memo; a nil entry means "not followed"
}

// c05rootFrame makes the root frame of fn; stop lists callees that are never expanded.
func (p *Prog) c05rootFrame(fn *ssa.Function, stop ...*ssa.Function) *c05Frame {
	return &c05Frame{p: p, fn: fn, stop: fnSet(stop...), kids: map[ssa.CallInstruction]*c05Frame{}}
}

func (fr *c05Frame) root() *c05Frame {
	for fr.parent != nil {
		fr = fr.parent
	}
	return fr
}

// c05pkgOf: the package a function belongs to (bound-method wrappers and thunks: that of the method).
func c05pkgOf(f *ssa.Function) *types.Package {
	if pk := fnPkg(f); pk != nil {
		return pk
	}
	if o := f.Object(); o != nil {
		return o.Pkg()
	}
	return nil
}

// kid returns the frame of call's callee when it is a helper the rules follow, else nil.
func (fr *c05Frame) kid(call *ssa.Call) *c05Frame {
	if call == nil {
		return nil
	}
	return fr.kidAny(call)
}

// kidAny is kid for any call instruction (also defer and go: used to resolve values, never entered by paths).
func (fr *c05Frame) kidAny(call ssa.CallInstruction) *c05Frame {
	if call == nil || call.Parent() != fr.fn {
		return nil
	}
	if k, ok := fr.kids[call]; ok {
		return k
	}
	var k *c05Frame
	g := call.Common().StaticCallee()
	if g != nil && g.Blocks != nil && fr.depth < c05MaxDepth && !fr.stop[g] && c05pkgOf(g) != nil && c05pkgOf(g) == c05pkgOf(fr.root().fn) {
		rec := false
		for f := fr; f != nil; f = f.parent {
			if f.fn == g {
				rec = true
			}
		}
		if !rec {
			k = &c05Frame{p: fr.p, fn: g, call: call, parent: fr, depth: fr.depth + 1, stop: fr.stop, kids: map[ssa.CallInstruction]*c05Frame{}}
		}
	}
	fr.kids[call] = k
	return k
}

// all lists fr and every frame below it (preorder, in instruction order).
func (fr *c05Frame) all() []*c05Frame {
	out := []*c05Frame{fr}
	allInstrs(fr.fn, func(_ *ssa.BasicBlock, _ int, in ssa.Instruction) {
		if call, ok := in.(*ssa.Call); ok {
			if k := fr.kid(call); k != nil {
				out = append(out, k.all()...)
			}
		}
	})
	return out
}

// allAny is all, but also follows deferred and go'ed static callees (for value resolution only).
func (fr *c05Frame) allAny() []*c05Frame {
	out := []*c05Frame{fr}
	allInstrs(fr.fn, func(_ *ssa.BasicBlock, _ int, in ssa.Instruction) {
		if call, ok := in.(ssa.CallInstruction); ok {
			if k := fr.kidAny(call); k != nil {
				out = append(out, k.allAny()...)
			}
		}
	})
	return out
}

// c05V is an SSA value together with the frame it lives in (nil for constants, globals, functions).
type c05V struct {
	v  ssa.Value
	fr *c05Frame
}

// home finds the frame (fr or an ancestor) whose function defines v.
func (fr *c05Frame) home(v ssa.Value) *c05Frame {
	var pf *ssa.Function
	switch x := v.(type) {
	case *ssa.Parameter:
		pf = x.Parent()
	case *ssa.FreeVar:
		pf = x.Parent()
	case ssa.Instruction:
		pf = x.Parent()
	default:
		return nil
	}
	for f := fr; f != nil; f = f.parent {
		if f.fn == pf {
			return f
		}
	}
	return fr
}

func c05paramIndex(fn *ssa.Function, p *ssa.Parameter) int {
	for i, q := range fn.Params {
		if q == p {
			return i
		}
	}
	return -1
}

// c05resultOf: v is result #idx of call (the call itself when it has one result, or an Extract).
func c05resultOf(v ssa.Value) (*ssa.Call, int) {
	switch x := v.(type) {
	case *ssa.Call:
		if _, isTuple := x.Type().(*types.Tuple); !isTuple {
			return x, 0
		}
	case *ssa.Extract:
		if c, ok := x.Tuple.(*ssa.Call); ok {
			return c, x.Index
		}
	}
	return nil, -1
}

// res resolves v as seen from frame fr: conversions and single-assignment cells (c05resolve), a
// helper's parameter to the caller's argument, a bound receiver to the value it was bound to, and the
// result of a followed helper to the value it returns when all its returns agree.
func (fr *c05Frame) res(v ssa.Value) c05V {
	cur := fr
	for i := 0; i < 48 && v != nil; i++ {
		v = c05resolve(v)
		if h := cur.home(v); h != nil {
			cur = h
		}
		switch x := v.(type) {
		case *ssa.Parameter:
			if cur.fn == x.Parent() && cur.parent != nil {
				if idx := c05paramIndex(cur.fn, x); idx >= 0 && idx < len(cur.call.Common().Args) {
					v, cur = cur.call.Common().Args[idx], cur.parent
					continue
				}
			}
		case *ssa.FreeVar:
			if cur.fn == x.Parent() && cur.parent != nil {
				if mc, ok := c05resolve(cur.call.Common().Value).(*ssa.MakeClosure); ok {
					done := false
					for j, fv := range cur.fn.FreeVars {
						if fv == x && j < len(mc.Bindings) {
							v, cur = mc.Bindings[j], cur.parent
							done = true
						}
					}
					if done {
						continue
					}
				}
			}
		default:
			if call, idx := c05resultOf(v); call != nil {
				if k := cur.kid(call); k != nil {
					if r, ok := k.soleResult(idx); ok {
						v, cur = r.v, r.fr
						if cur == nil {
							cur = k
						}
						continue
					}
				}
			}
		}
		break
	}
	return c05V{v, cur.home(v)}
}

// retVals lists, per return statement of the frame's function, result #idx (phi operands of the
// return block split per incoming edge).
type c05Ret struct {
	ret  *ssa.Return
	pred *ssa.BasicBlock
	val  ssa.Value
}

func (fr *c05Frame) retVals(idx int) []c05Ret {
	var out []c05Ret
	for _, r := range c05returns(fr.fn) {
		if idx >= len(r.Results) {
			continue
		}
		v := r.Results[idx]
		if phi, ok := v.(*ssa.Phi); ok && phi.Block() == r.Block() {
			for i, e := range phi.Edges {
				out = append(out, c05Ret{r, r.Block().Preds[i], e})
			}
			continue
		}
		out = append(out, c05Ret{r, nil, v})
	}
	return out
}

func (fr *c05Frame) soleResult(idx int) (c05V, bool) {
	var got c05V
	n := 0
	for _, r := range fr.retVals(idx) {
		x := fr.res(r.val)
		if n > 0 && x != got {
			return c05V{}, false
		}
		got = x
		n++
	}
	return got, n > 0
}

// origins lists the leaf values v may carry as seen from fr: like res, but phis, multiply assigned
// local cells and helpers with several returns contribute all their alternatives.
func (fr *c05Frame) origins(v ssa.Value) []c05V {
	var out []c05V
	seen := map[c05V]bool{}
	var walk func(f *c05Frame, v ssa.Value, d int)
	walk = func(f *c05Frame, v ssa.Value, d int) {
		x := f.res(v)
		if seen[x] {
			return
		}
		seen[x] = true
		xf := x.fr
		if xf == nil {
			xf = f
		}
		if d < 24 {
			switch y := x.v.(type) {
			case *ssa.Phi:
				for _, e := range y.Edges {
					walk(xf, e, d+1)
				}
				return
			case *ssa.UnOp:
				if y.Op == token.MUL {
					if cell, ok := c05cellOf(y.X); ok {
						if _, isStruct := cell.Type().Underlying().(*types.Pointer).Elem().Underlying().(*types.Struct); !isStruct && !c05cellEscapes(cell) {
							if st := c05cellStores(cell); len(st) > 0 {
								for _, s := range st {
									walk(xf, s.Val, d+1)
								}
								return
							}
						}
					}
				}
			default:
				if call, idx := c05resultOf(x.v); call != nil {
					if k := xf.kid(call); k != nil {
						rs := k.retVals(idx)
						for _, r := range rs {
							walk(k, r.val, d+1)
						}
						if len(rs) > 0 {
							return
						}
					}
				}
			}
		}
		out = append(out, x)
	}
	walk(fr, v, 0)
	return out
}

// c05nonNilOrigins: the values other than nil that v may carry, seen from fr.
func c05nonNilOrigins(fr *c05Frame, v ssa.Value) []c05V {
	var out []c05V
	for _, o := range fr.origins(v) {
		if !isNilConst(o.v) {
			out = append(out, o)
		}
	}
	return out
}

// calls lists the static calls of any of objs in the frames below (and including) fr.
type c05Call struct {
	fr   *c05Frame
	call *ssa.Call
}

func (fr *c05Frame) calls(objs ...types.Object) []c05Call {
	var out []c05Call
	for _, f := range fr.all() {
		for _, cs := range callsIn(f.fn, objs...) {
			if cl, ok := cs.(*ssa.Call); ok {
				out = append(out, c05Call{f, cl})
			}
		}
	}
	return out
}

// allAnyCalls is calls over allAny: also calls made with go / defer and inside followed go'ed closures.
type c05AnyCall struct {
	fr   *c05Frame
	call ssa.CallInstruction
}

func (fr *c05Frame) allAnyCalls(objs ...types.Object) []c05AnyCall {
	var out []c05AnyCall
	for _, f := range fr.allAny() {
		for _, cs := range callsIn(f.fn, objs...) {
			out = append(out, c05AnyCall{f, cs})
		}
	}
	return out
}

// ---------------------------------------------------------------------------
// tests: what a branch decides

// c05Test describes one outcome of a branch: boolean value v has the given truth. When v is a
// comparison with nil, x is the compared value and isNil tells whether it is nil on this outcome.
type c05Test struct {
	v      c05V
	truth  bool
	hasNil bool
	x      c05V
	xs     []c05V // x resolved path-sensitively (through the return a followed helper took), plus x itself
	isNil  bool
}

// c05Fact says whether an outcome of a branch establishes the fact a rule is looking for.
type c05Fact func(t c05Test) bool

func c05anyFact(fs ...c05Fact) c05Fact {
	return func(t c05Test) bool {
		for _, f := range fs {
			if f != nil && f(t) {
				return true
			}
		}
		return false
	}
}

// c05eqTest: v is "X == Y" or "X != Y"; eqWhenTrue tells which.
func c05eqTest(v ssa.Value) (x, y ssa.Value, eqWhenTrue, ok bool) {
	b, isB := v.(*ssa.BinOp)
	if !isB || (b.Op != token.EQL && b.Op != token.NEQ) {
		return nil, nil, false, false
	}
	return b.X, b.Y, b.Op == token.EQL, true
}

func c05mkTest(v c05V, truth bool) c05Test {
	t := c05Test{v: v, truth: truth}
	if x, y, eq, ok := c05eqTest(v.v); ok {
		if isNilConst(x) {
			x, y = y, x
		}
		if isNilConst(y) {
			t.hasNil, t.isNil = true, eq == truth
			t.x = c05V{x, v.fr}
			t.xs = []c05V{t.x}
		}
	}
	return t
}

// errCalls: the calls whose (error) result the value x may carry: x itself, the stores into a local
// cell x is loaded from (may-alias, as nilEdges/aliases do), seen through frames.
func c05carriedCalls(x c05V) []c05Call {
	var out []c05Call
	if x.fr == nil {
		return nil
	}
	add := func(v ssa.Value, f *c05Frame) {
		r := f.res(v)
		if call, _ := c05resultOf(r.v); call != nil && r.fr != nil {
			out = append(out, c05Call{r.fr, call})
		}
	}
	add(x.v, x.fr)
	if ld, ok := x.v.(*ssa.UnOp); ok && ld.Op == token.MUL {
		if cell, ok := c05cellOf(ld.X); ok {
			for _, st := range c05cellStores(cell) {
				add(st.Val, x.fr)
			}
		}
	}
	for a := range aliasesRev(x.v) {
		add(a, x.fr)
	}
	return out
}

// aliasesRev: the values x is a plain conversion of.
func aliasesRev(x ssa.Value) map[ssa.Value]bool {
	out := map[ssa.Value]bool{}
	for i := 0; i < 8; i++ {
		switch y := x.(type) {
		case *ssa.ChangeType:
			x = y.X
		case *ssa.ChangeInterface:
			x = y.X
		default:
			return out
		}
		out[x] = true
	}
	return out
}

// c05factErrNil: the nil-error outcome of a call accepted by match.
func c05factErrNil(match func(c c05Call) bool) c05Fact {
	return c05factNilOfCall(true, match)
}

func c05factNilOfCall(wantNil bool, match func(c c05Call) bool) c05Fact {
	return func(t c05Test) bool {
		if !t.hasNil || t.isNil != wantNil {
			return false
		}
		for _, x := range t.xs {
			for _, c := range c05carriedCalls(x) {
				if match(c) {
					return true
				}
			}
		}
		return false
	}
}

// c05factBool: boolean value accepted by match has truth want.
func c05factBool(want bool, match func(v c05V) bool) c05Fact {
	return func(t c05Test) bool {
		if t.truth != want || t.v.fr == nil {
			return false
		}
		return match(t.v.fr.res(t.v.v))
	}
}

// ---------------------------------------------------------------------------
// paths in the inlined control flow graph

type c05FE struct {
	fr *c05Frame
	e  Edge
}
type c05FI struct {
	fr *c05Frame
	in ssa.Instruction
}

// c05Cuts: what a path may not pass: explicit edges / instructions of a frame, and every branch
// outcome that establishes one of the facts.
type c05Cuts struct {
	edges  map[c05FE]bool
	instrs map[c05FI]bool
	facts  []c05Fact
	used   int // how often a cut stopped the search (0 after a search = the cuts played no role)
}

func c05newCuts(facts ...c05Fact) *c05Cuts {
	return &c05Cuts{edges: map[c05FE]bool{}, instrs: map[c05FI]bool{}, facts: facts}
}

func (c *c05Cuts) addInstr(fr *c05Frame, in ssa.Instruction) *c05Cuts {
	c.instrs[c05FI{fr, in}] = true
	return c
}

// c05Pt is a position: before instruction idx of block b in frame fr, the block having been entered
// from via (nil = unknown).
type c05Pt struct {
	fr  *c05Frame
	b   *ssa.BasicBlock
	idx int
	via *ssa.BasicBlock
}

func c05entryPt(fr *c05Frame) c05Pt { return c05Pt{fr: fr, b: fr.fn.Blocks[0]} }

func c05afterPt(fr *c05Frame, in ssa.Instruction) c05Pt {
	p := after(in)
	return c05Pt{fr: fr, b: p.Block, idx: p.Idx}
}

// c05edgePt: just after taking successor succ of block b.
func c05edgePt(fr *c05Frame, b *ssa.BasicBlock, succ int) c05Pt {
	return c05Pt{fr: fr, b: b.Succs[succ], via: b}
}

// c05Tg is the target of a search: an instruction of a frame (pred: the block its block is entered from).
type c05Tg struct {
	fr   *c05Frame
	in   ssa.Instruction
	pred *ssa.BasicBlock
	// optional: the target counts only when this boolean value (an operand of in, e.g. a returned
	// condition) may be true / this value may be nil on the path, and being so does not itself
	// establish one of the cut facts
	ifTrue   ssa.Value
	ifNil    ssa.Value
	ifNonNil ssa.Value
}

type c05St struct {
	fr   *c05Frame
	b    *ssa.BasicBlock
	idx  int
	vias [c05MaxDepth + 2]*ssa.BasicBlock // per frame depth: the block the current block was entered from
	rn   *c05RetNode                      // the followed call of this frame the path returned from last
}

// c05RetNode: the path returned from the followed call `call` through return `ret`, whose block was
// entered from pred; inner is the same information for the callee at the moment it returned (so a
// result handed up through several helpers is still resolved). Nodes are interned per search.
type c05RetNode struct {
	call  *ssa.Call
	ret   *ssa.Return
	pred  *ssa.BasicBlock
	inner *c05RetNode
}

// c05nilness: +1 v is nil, -1 v is not nil, 0 unknown (v at the end of block at of fr.fn).
func c05nilness(fr *c05Frame, v ssa.Value, at *ssa.BasicBlock) int {
	if isNilConst(v) {
		return 1
	}
	switch v.(type) {
	case *ssa.Alloc, *ssa.MakeInterface, *ssa.MakeClosure, *ssa.MakeMap, *ssa.MakeChan, *ssa.MakeSlice, *ssa.FieldAddr, *ssa.IndexAddr, *ssa.Function:
		return -1
	}
	if isErrorType(v.Type()) && fr.p.classifyErr(fr.fn, v, at, 0) == "error" {
		return -1
	}
	return 0
}

// operand: result #idx of the return the path came through (phi split by pred).
func (n *c05RetNode) operand(idx int) (ssa.Value, bool) {
	if n == nil || idx < 0 || idx >= len(n.ret.Results) {
		return nil, false
	}
	v := n.ret.Results[idx]
	if phi, ok := v.(*ssa.Phi); ok && phi.Block() == n.ret.Block() {
		if n.pred == nil {
			return nil, false
		}
		for i, p := range phi.Block().Preds {
			if p == n.pred {
				return phi.Edges[i], true
			}
		}
		return nil, false
	}
	return v, true
}

// c05follow: when v (of frame cf) is a result of the followed call the path last returned from, steps
// into that callee: the operand of the return taken, the callee's frame and its own return node.
func c05follow(v ssa.Value, cf *c05Frame, rn *c05RetNode) (ssa.Value, *c05Frame, *c05RetNode, bool) {
	if rn == nil || cf == nil {
		return v, cf, rn, false
	}
	call, idx := c05resultOf(c05resolve(v))
	if call == nil || call != rn.call {
		return v, cf, rn, false
	}
	rv, ok := rn.operand(idx)
	k := cf.kid(call)
	if !ok || k == nil {
		return v, cf, rn, false
	}
	return rv, k, rn.inner, true
}

// c05branch resolves the condition of the If ending s.b on this path: strips negations, replaces a
// boolean phi of this block by the operand of the edge the path came in through and the result of the
// helper the path just returned from by the operand of the return it took. It returns the forms the
// condition takes (each with its negation), and the successor forced when the outcome is known.
type c05Form struct {
	v   c05V
	neg bool
}

func (s *c05St) branch(cond ssa.Value) (forms []c05Form, xs []c05V, forced int) {
	forced = -1
	cf, rn, neg := s.fr, s.rn, false
	for step := 0; step < 12; step++ {
		for {
			u, ok := cond.(*ssa.UnOp)
			if !ok || u.Op != token.NOT {
				break
			}
			neg, cond = !neg, u.X
		}
		forms = append(forms, c05Form{c05V{cond, cf}, neg})
		if phi, ok := cond.(*ssa.Phi); ok && cf == s.fr && phi.Block() == s.b {
			via := s.vias[s.fr.depth]
			found := false
			for i, p := range s.b.Preds {
				if p == via && via != nil {
					cond, found = phi.Edges[i], true
				}
			}
			if found {
				continue
			}
			break
		}
		if v, f, n, moved := c05follow(cond, cf, rn); moved {
			cond, cf, rn = v, f, n
			continue
		}
		break
	}
	last := forms[len(forms)-1]
	if bv, isC := constBool(last.v.v); isC {
		if bv != last.neg {
			forced = 0
		} else {
			forced = 1
		}
		return
	}
	// comparison with nil of a result of the helper the path just returned from
	if x, y, eq, ok := c05eqTest(last.v.v); ok {
		if isNilConst(x) {
			x, y = y, x
		}
		if isNilConst(y) {
			xf := last.v.fr
			var at *ssa.BasicBlock
			for {
				v, f, n, moved := c05follow(x, xf, rn)
				if !moved {
					break
				}
				at = rn.ret.Block()
				x, xf, rn = v, f, n
				xs = append(xs, xf.res(x))
			}
			if at != nil {
				if n := c05nilness(xf, x, at); n != 0 {
					truth := (n > 0) == eq
					if truth != last.neg {
						forced = 0
					} else {
						forced = 1
					}
				}
			}
		}
	}
	return
}

// valNilness: nil-ness of value v of the state's frame on this path (through the returns taken).
func (s *c05St) valNilness(v ssa.Value) int {
	if phi, ok := v.(*ssa.Phi); ok && phi.Block() == s.b {
		for i, p := range s.b.Preds {
			if p == s.vias[s.fr.depth] && p != nil {
				v = phi.Edges[i]
			}
		}
	}
	xf, rn := s.fr, s.rn
	at := s.b
	for {
		x, f, n, moved := c05follow(v, xf, rn)
		if !moved {
			break
		}
		at = rn.ret.Block()
		v, xf, rn = x, f, n
	}
	return c05nilness(xf, v, at)
}

// counts: the optional value condition of the target holds on the path that reached it.
func (s *c05St) counts(tg c05Tg, cuts *c05Cuts) bool {
	if tg.ifTrue != nil {
		forms, _, forced := s.branch(tg.ifTrue)
		if forced == 1 {
			return false
		}
		for _, f := range forms {
			t := c05mkTest(f.v, !f.neg)
			for _, fact := range cuts.facts {
				if fact != nil && fact(t) {
					cuts.used++
					return false
				}
			}
		}
	}
	if tg.ifNonNil != nil && s.valNilness(tg.ifNonNil) > 0 {
		return false
	}
	if tg.ifNil != nil && s.valNilness(tg.ifNil) < 0 {
		return false
	}
	return true
}

// c05path searches a path from start to the target in the inlined graph that passes no cut. It
// returns the blocks of a shortest such path, or nil.
func c05path(start c05Pt, tg c05Tg, cuts *c05Cuts) []*ssa.BasicBlock {
	if cuts == nil {
		cuts = c05newCuts()
	}
	parent := map[c05St]c05St{}
	seen := map[c05St]bool{}
	nodes := map[c05RetNode]*c05RetNode{}
	intern := func(n c05RetNode) *c05RetNode {
		if p, ok := nodes[n]; ok {
			return p
		}
		p := &n
		nodes[n] = p
		return p
	}
	var queue []c05St
	push := func(from, to c05St, isRoot bool) {
		if seen[to] {
			return
		}
		seen[to] = true
		if !isRoot {
			parent[to] = from
		}
		queue = append(queue, to)
	}
	s0 := c05St{fr: start.fr, b: start.b, idx: start.idx}
	s0.vias[start.fr.depth] = start.via
	push(c05St{}, s0, true)
	build := func(s c05St) []*ssa.BasicBlock {
		var path []*ssa.BasicBlock
		for {
			if len(path) == 0 || path[len(path)-1] != s.b {
				path = append(path, s.b)
			}
			nx, ok := parent[s]
			if !ok {
				break
			}
			s = nx
		}
		for i, j := 0, len(path)-1; i < j; i, j = i+1, j-1 {
			path[i], path[j] = path[j], path[i]
		}
		return path
	}
	for len(queue) > 0 {
		s := queue[0]
		queue = queue[1:]
		via := s.vias[s.fr.depth]
		blocked, entered := false, false
		for i := s.idx; i < len(s.b.Instrs) && !blocked && !entered; i++ {
			in := s.b.Instrs[i]
			if s.fr == tg.fr && in == tg.in && (tg.pred == nil || tg.pred == via) && s.counts(tg, cuts) {
				return build(s)
			}
			if cuts.instrs[c05FI{s.fr, in}] {
				cuts.used++
				blocked = true
				break
			}
			if call, ok := in.(*ssa.Call); ok {
				if k := s.fr.kid(call); k != nil {
					n := c05St{fr: k, b: k.fn.Blocks[0], vias: s.vias}
					n.vias[k.depth] = nil
					push(s, n, false)
					entered = true
				}
			}
		}
		if blocked || entered || len(s.b.Instrs) == 0 {
			continue
		}
		switch x := s.b.Instrs[len(s.b.Instrs)-1].(type) {
		case *ssa.If:
			forms, xs, forced := s.branch(x.Cond)
			for i, succ := range s.b.Succs {
				if forced >= 0 && i != forced {
					continue
				}
				if cuts.edges[c05FE{s.fr, Edge{s.b, i}}] {
					cuts.used++
					continue
				}
				cut := false
				for _, f := range forms {
					t := c05mkTest(f.v, (i == 0) != f.neg)
					if t.hasNil {
						t.xs = append(t.xs, xs...)
					}
					for _, fact := range cuts.facts {
						if fact != nil && fact(t) {
							cut = true
						}
					}
				}
				if cut {
					cuts.used++
					continue
				}
				n := c05St{fr: s.fr, b: succ, vias: s.vias, rn: s.rn}
				n.vias[s.fr.depth] = s.b
				push(s, n, false)
			}
		case *ssa.Jump:
			if cuts.edges[c05FE{s.fr, Edge{s.b, 0}}] {
				cuts.used++
				continue
			}
			n := c05St{fr: s.fr, b: s.b.Succs[0], vias: s.vias, rn: s.rn}
			n.vias[s.fr.depth] = s.b
			push(s, n, false)
		case *ssa.Return:
			if s.fr.parent == nil {
				continue
			}
			pt := after(s.fr.call)
			pcall, _ := s.fr.call.(*ssa.Call)
			n := c05St{fr: s.fr.parent, b: pt.Block, idx: pt.Idx, vias: s.vias, rn: intern(c05RetNode{pcall, x, via, s.rn})}
			n.vias[s.fr.depth] = nil
			push(s, n, false)
		}
	}
	return nil
}

// c05dominated: every path from the root's entry to the target passes a cut — and the cuts mattered
// (the target is reachable at all).
func c05dominated(tg c05Tg, cuts *c05Cuts) (bool, []*ssa.BasicBlock) {
	p := c05path(c05entryPt(tg.fr.root()), tg, cuts)
	if p != nil {
		return false, p
	}
	return cuts.used > 0, nil
}

// c05staticTests lists the outcomes decided by the If ending block b of frame fr, without a path:
// the condition itself and, when it is a boolean phi of that block, each incoming operand.
type c05Outcome struct {
	t    c05Test
	succ int
}

func c05staticTests(fr *c05Frame, b *ssa.BasicBlock) []c05Outcome {
	ifi := blockIf(b)
	if ifi == nil {
		return nil
	}
	var out []c05Outcome
	seen := map[c05V]bool{}
	var add func(f *c05Frame, v ssa.Value, neg bool, d int)
	add = func(f *c05Frame, v ssa.Value, neg bool, d int) {
		for {
			u, ok := v.(*ssa.UnOp)
			if !ok || u.Op != token.NOT {
				break
			}
			neg, v = !neg, u.X
		}
		if _, isC := constBool(v); isC || seen[c05V{v, f}] || d > 6 {
			return
		}
		seen[c05V{v, f}] = true
		for succ := 0; succ < 2; succ++ {
			t := c05mkTest(c05V{v, f}, (succ == 0) != neg)
			if t.hasNil {
				t.xs = append(t.xs, f.origins(t.x.v)...)
			}
			out = append(out, c05Outcome{t, succ})
		}
		// a boolean phi decides per incoming operand; the result of a followed helper per return
		if phi, ok := v.(*ssa.Phi); ok && (phi.Block() == b || f != fr) {
			for _, e := range phi.Edges {
				add(f, e, neg, d+1)
			}
		}
		if call, idx := c05resultOf(c05resolve(v)); call != nil {
			if k := f.kid(call); k != nil {
				for _, r := range k.retVals(idx) {
					add(k, r.val, neg, d+1)
				}
			}
		}
	}
	add(fr, ifi.Cond, false, 0)
	return out
}
