package main

// Helpers shared by rules_c05.go, rules_c17.go and rules_c20.go (one author, three properties):
//   - cell provenance through captured variables (Alloc cells written in closures, FreeVars),
//   - joint edge dominance ("every path passes one of these edges"),
//   - a tiny conditional-constant-propagation interpreter over SSA used for finite table
//     extraction (C05-R3). It interprets the analysed function's SSA inside the checker; no
//     repository code is compiled or run.

import (
	"fmt"
	"go/constant"
	"go/token"
	"go/types"
	"os"
	"time"

	"golang.org/x/tools/go/ssa"
)

// c05timer prints the wall time of a rule to stderr when CEDAR_TIMING is set (development aid).
func c05timer(name string) func() {
	if os.Getenv("CEDAR_TIMING") == "" {
		return func() {}
	}
	t := time.Now()
	return func() { fmt.Fprintf(os.Stderr, "timing %s %.2fs\n", name, time.Since(t).Seconds()) }
}

// ---------------------------------------------------------------------------
// cells and closures

// c05closureSites lists the MakeClosure instructions creating fn (in fn.Parent()).
func c05closureSites(fn *ssa.Function) []*ssa.MakeClosure {
	var out []*ssa.MakeClosure
	par := fn.Parent()
	if par == nil {
		return nil
	}
	allInstrs(par, func(_ *ssa.BasicBlock, _ int, in ssa.Instruction) {
		if mc, ok := in.(*ssa.MakeClosure); ok && mc.Fn == fn {
			out = append(out, mc)
		}
	})
	return out
}

// c05cellOf maps an address value (Alloc, or FreeVar of a closure) to the Alloc cell it denotes in
// the outermost function that declared it. ok=false when the binding cannot be followed uniquely.
func c05cellOf(addr ssa.Value) (*ssa.Alloc, bool) {
	for i := 0; i < 8; i++ {
		switch x := addr.(type) {
		case *ssa.Alloc:
			return x, true
		case *ssa.FreeVar:
			fn := x.Parent()
			idx := -1
			for j, fv := range fn.FreeVars {
				if fv == x {
					idx = j
				}
			}
			sites := c05closureSites(fn)
			if idx < 0 || len(sites) != 1 || idx >= len(sites[0].Bindings) {
				return nil, false
			}
			addr = sites[0].Bindings[idx]
		default:
			return nil, false
		}
	}
	return nil, false
}

// c05cellRefs calls f for every instruction that refers to the cell, in the declaring function and
// in every closure that captures it (transitively). addr is the value denoting the cell there.
func c05cellRefs(cell ssa.Value, f func(addr ssa.Value, in ssa.Instruction)) {
	refs := cell.Referrers()
	if refs == nil {
		return
	}
	for _, r := range *refs {
		f(cell, r)
		if mc, ok := r.(*ssa.MakeClosure); ok {
			g, _ := mc.Fn.(*ssa.Function)
			if g == nil {
				continue
			}
			for j, b := range mc.Bindings {
				if b == cell && j < len(g.FreeVars) {
					c05cellRefs(g.FreeVars[j], f)
				}
			}
		}
	}
}

// c05cellStores returns every Store into the cell (declaring function and capturing closures).
func c05cellStores(cell *ssa.Alloc) []*ssa.Store {
	var out []*ssa.Store
	c05cellRefs(cell, func(addr ssa.Value, in ssa.Instruction) {
		if st, ok := in.(*ssa.Store); ok && st.Addr == addr {
			out = append(out, st)
		}
	})
	return out
}

// c05cellEscapes: the cell's address is used for anything but loads, stores and closure capture
// (then its content cannot be tracked).
func c05cellEscapes(cell *ssa.Alloc) bool {
	esc := false
	c05cellRefs(cell, func(addr ssa.Value, in ssa.Instruction) {
		switch x := in.(type) {
		case *ssa.Store:
			if x.Addr != addr {
				esc = true
			}
		case *ssa.UnOp, *ssa.MakeClosure, *ssa.DebugRef, *ssa.FieldAddr, *ssa.IndexAddr:
		default:
			esc = true
		}
	})
	return esc
}

// c05resolve follows value-preserving steps: conversions, and loads of single-assignment cells
// (also through closure captures). The result may live in an enclosing function.
func c05resolve(v ssa.Value) ssa.Value {
	for i := 0; i < 16; i++ {
		switch x := v.(type) {
		case *ssa.ChangeType:
			v = x.X
			continue
		case *ssa.ChangeInterface:
			v = x.X
			continue
		case *ssa.MakeInterface:
			v = x.X
			continue
		case *ssa.UnOp:
			if x.Op == token.MUL {
				if cell, ok := c05cellOf(x.X); ok {
					if _, isStruct := cell.Type().Underlying().(*types.Pointer).Elem().Underlying().(*types.Struct); isStruct {
						return v // struct cells are field-addressed; keep the load
					}
					st := c05cellStores(cell)
					if len(st) == 1 && !c05cellEscapes(cell) {
						v = st[0].Val
						continue
					}
				}
			}
		}
		return v
	}
	return v
}

// c05cellRoot: the variable a struct value/field address belongs to: &cell.f -> cell, *cell -> cell.
func c05cellRoot(v ssa.Value) ssa.Value {
	for i := 0; i < 8; i++ {
		switch x := v.(type) {
		case *ssa.FieldAddr:
			v = x.X
		case *ssa.Field:
			v = x.X
		case *ssa.UnOp:
			if x.Op != token.MUL {
				return v
			}
			if fa, ok := x.X.(*ssa.FieldAddr); ok {
				v = fa // load of a field: continue with the struct the field belongs to
				continue
			}
			if c, ok := c05cellOf(x.X); ok {
				return c
			}
			return v
		case *ssa.FreeVar:
			if c, ok := c05cellOf(x); ok {
				return c
			}
			return v
		default:
			return v
		}
	}
	return v
}

// c05fieldStore finds the value stored into field f of the struct cell (single store expected).
func c05fieldStores(cell ssa.Value, f *types.Var) []ssa.Value {
	var out []ssa.Value
	refs := cell.Referrers()
	if refs == nil {
		return nil
	}
	for _, r := range *refs {
		fa, ok := r.(*ssa.FieldAddr)
		if !ok || fieldOfAddr(fa) != f {
			continue
		}
		for _, u := range *fa.Referrers() {
			if st, ok := u.(*ssa.Store); ok && st.Addr == fa {
				out = append(out, st.Val)
			}
		}
	}
	return out
}

// ---------------------------------------------------------------------------
// dominance by a set of edges

// c05passesOneOf: every path from fn's entry to instruction in passes one of the edges (and there is one).
func c05passesOneOf(fn *ssa.Function, edges []Edge, in ssa.Instruction) (bool, []*ssa.BasicBlock) {
	if len(edges) == 0 {
		return false, nil
	}
	for _, e := range edges {
		if len(e.From.Succs) == 2 && e.From.Succs[0] == e.From.Succs[1] {
			return false, nil
		}
	}
	p := findPath(entryPoint(fn), Target{Instr: in}, newCuts().AddEdges(edges...))
	return p == nil, p
}

// c05eqEdges: for an If whose condition is X ==/!= Y returns the edge on which they are equal and
// the edge on which they differ.
func c05eqEdges(b *ssa.BasicBlock) (a Atom, eq, ne Edge, ok bool) {
	ifi := blockIf(b)
	if ifi == nil {
		return
	}
	a = condAtom(ifi.Cond)
	if a.Op != token.EQL && a.Op != token.NEQ {
		return
	}
	isEq := a.Op == token.EQL
	if a.Neg {
		isEq = !isEq
	}
	if isEq {
		return a, Edge{b, 0}, Edge{b, 1}, true
	}
	return a, Edge{b, 1}, Edge{b, 0}, true
}

// c05returns lists fn's Return instructions.
func c05returns(fn *ssa.Function) []*ssa.Return {
	var out []*ssa.Return
	for _, b := range fn.Blocks {
		if len(b.Instrs) > 0 {
			if r, ok := b.Instrs[len(b.Instrs)-1].(*ssa.Return); ok {
				out = append(out, r)
			}
		}
	}
	return out
}

// c05funcValueUses reports the module instructions that use function f as a value (not as the
// static callee of a call): method values, closures over it, assignments to function variables.
func (p *Prog) c05funcValueUses(f *ssa.Function) []ssa.Instruction {
	var out []ssa.Instruction
	for _, fn := range p.ModFns {
		allInstrs(fn, func(_ *ssa.BasicBlock, _ int, in ssa.Instruction) {
			var ops [12]*ssa.Value
			for _, op := range in.Operands(ops[:0]) {
				if *op != f {
					continue
				}
				if call, ok := in.(ssa.CallInstruction); ok && call.Common().Value == f {
					continue
				}
				out = append(out, in)
			}
			// bound method wrappers / thunks
			if mc, ok := in.(*ssa.MakeClosure); ok {
				if g, ok := mc.Fn.(*ssa.Function); ok && g.Synthetic != "" && g.Object() != nil && g.Object() == f.Object() {
					out = append(out, in)
				}
			}
		})
	}
	return out
}

// ---------------------------------------------------------------------------
// conditional constant propagation over SSA (finite table extraction)

const (
	c05kUnknown = iota
	c05kBool
	c05kString
	c05kNil
	c05kObj  // pointer to abstract object
	c05kAddr // address of a field of an abstract object
	c05kFunc // function value returning ret
)

type c05Obj struct {
	name   string
	fields map[*types.Var]c05Val
}

type c05Val struct {
	kind  int
	b     bool
	s     string
	obj   *c05Obj
	field *types.Var
	ret   *c05Val
}

func c05bool(b bool) c05Val      { return c05Val{kind: c05kBool, b: b} }
func c05str(s string) c05Val     { return c05Val{kind: c05kString, s: s} }
func c05ptr(o *c05Obj) c05Val    { return c05Val{kind: c05kObj, obj: o} }
func c05fnRet(r c05Val) c05Val   { return c05Val{kind: c05kFunc, ret: &r} }
func c05newObj(n string) *c05Obj { return &c05Obj{name: n, fields: map[*types.Var]c05Val{}} }

var c05nil = c05Val{kind: c05kNil}

type c05interp struct {
	steps int
}

// c05cmp decides x == y; ok=false when the abstract values do not decide it.
func c05cmp(x, y c05Val) (eq, ok bool) {
	switch {
	case x.kind == c05kBool && y.kind == c05kBool:
		return x.b == y.b, true
	case x.kind == c05kString && y.kind == c05kString:
		return x.s == y.s, true
	case x.kind == c05kNil && y.kind == c05kNil:
		return true, true
	case x.kind == c05kNil && (y.kind == c05kObj || y.kind == c05kFunc || y.kind == c05kAddr):
		return false, true
	case y.kind == c05kNil && (x.kind == c05kObj || x.kind == c05kFunc || x.kind == c05kAddr):
		return false, true
	case x.kind == c05kObj && y.kind == c05kObj:
		return x.obj == y.obj, true
	}
	return false, false
}

// eval interprets fn on abstract arguments and returns its (single) result. err != "" means the
// evaluation met a construct the interpreter does not model on the executed path.
func (ip *c05interp) eval(fn *ssa.Function, args []c05Val, depth int) (c05Val, string) {
	if fn == nil || fn.Blocks == nil {
		return c05Val{}, "no body"
	}
	if len(args) != len(fn.Params) {
		return c05Val{}, "arity mismatch calling " + fnName(fn)
	}
	env := map[ssa.Value]c05Val{}
	for i, p := range fn.Params {
		env[p] = args[i]
	}
	val := func(v ssa.Value) c05Val {
		if c, ok := v.(*ssa.Const); ok {
			if c.Value == nil {
				if isBasic(c.Type()) {
					return c05Val{}
				}
				return c05nil
			}
			switch c.Value.Kind() {
			case constant.Bool:
				return c05bool(constant.BoolVal(c.Value))
			case constant.String:
				return c05str(constant.StringVal(c.Value))
			}
			return c05Val{}
		}
		return env[v]
	}
	b := fn.Blocks[0]
	var prev *ssa.BasicBlock
	for {
		var next *ssa.BasicBlock
		for _, in := range b.Instrs {
			ip.steps++
			if ip.steps > 20000 {
				return c05Val{}, "step limit exceeded (loop?)"
			}
			switch x := in.(type) {
			case *ssa.DebugRef:
			case *ssa.Phi:
				idx := -1
				for i, p := range b.Preds {
					if p == prev {
						idx = i
					}
				}
				if idx < 0 {
					return c05Val{}, "phi without predecessor"
				}
				env[x] = val(x.Edges[idx])
			case *ssa.FieldAddr:
				base := val(x.X)
				if base.kind == c05kObj {
					env[x] = c05Val{kind: c05kAddr, obj: base.obj, field: fieldOfAddr(x)}
				} else if base.kind == c05kNil {
					return c05Val{}, "nil dereference at " + fnName(fn)
				}
			case *ssa.UnOp:
				a := val(x.X)
				switch x.Op {
				case token.MUL:
					if a.kind == c05kAddr {
						env[x] = a.obj.fields[a.field]
					}
				case token.NOT:
					if a.kind == c05kBool {
						env[x] = c05bool(!a.b)
					}
				}
			case *ssa.BinOp:
				if x.Op == token.EQL || x.Op == token.NEQ {
					if eq, ok := c05cmp(val(x.X), val(x.Y)); ok {
						env[x] = c05bool(eq == (x.Op == token.EQL))
					}
				}
			case *ssa.ChangeType:
				env[x] = val(x.X)
			case *ssa.Convert:
				env[x] = val(x.X)
			case *ssa.Store:
				a := val(x.Addr)
				if a.kind == c05kAddr {
					a.obj.fields[a.field] = val(x.Val)
				}
			case *ssa.Call:
				cc := x.Common()
				if cc.IsInvoke() {
					break // unknown result
				}
				if _, isB := cc.Value.(*ssa.Builtin); isB {
					break
				}
				if g := cc.StaticCallee(); g != nil {
					if g.Blocks != nil && fnPkg(g) != nil && inModule(fnPkg(g).Path()) && depth < 3 && g.Signature.Results().Len() == 1 {
						var as []c05Val
						for _, a := range cc.Args {
							as = append(as, val(a))
						}
						r, e := ip.eval(g, as, depth+1)
						if e != "" {
							return c05Val{}, e
						}
						env[x] = r
					}
					break
				}
				if f := val(cc.Value); f.kind == c05kFunc {
					env[x] = *f.ret
				} else if f.kind == c05kNil {
					return c05Val{}, "call of nil function at " + fnName(fn)
				}
			case *ssa.If:
				cnd := val(x.Cond)
				if cnd.kind != c05kBool {
					return c05Val{}, fmt.Sprintf("branch condition not decided by the inputs in %s (block %d)", fnName(fn), b.Index)
				}
				if cnd.b {
					next = b.Succs[0]
				} else {
					next = b.Succs[1]
				}
			case *ssa.Jump:
				next = b.Succs[0]
			case *ssa.Return:
				if len(x.Results) != 1 {
					return c05Val{}, "multi-value return"
				}
				return val(x.Results[0]), ""
			case *ssa.Go, *ssa.Defer, *ssa.Send, *ssa.Select, *ssa.Panic, *ssa.MapUpdate, *ssa.RunDefers, *ssa.Next, *ssa.Range:
				return c05Val{}, fmt.Sprintf("unsupported instruction %T in %s", in, fnName(fn))
			default:
				// other value-producing instructions: result unknown
			}
		}
		if next == nil {
			return c05Val{}, "fell off block"
		}
		prev, b = b, next
	}
}
