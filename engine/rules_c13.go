package main

import (
	"fmt"
	"go/token"
	"go/types"
	"sort"
	"strings"

	"golang.org/x/tools/go/ssa"
)

func init() { register("C13", c13r1, c13r2, c13r3, c13r4, c13r5, c13r6) }

// C13-R1: peer-controlled integers reaching sizes, bounds and indexes are bounded.
func c13r1(c *Ctx) {
	const rule = "C13-R1"
	c.Doc(rule, "T-TNT: every make/Grow size, slice bound and index operand that carries a peer-controlled integer is bounded above on the dominating path (constant, len/cap, non-peer value, checked ensureData) and, when signed, below; a bound counts when it is written inline, through a local boolean (branch on a boolean phi, resolved per incoming value), in a same-module predicate (if valid(n)) or in an error-returning / value-returning helper (summaries with parameters mapped to arguments)")
	e := c13Taint(c.Prog)
	n := 0
	for _, s := range e.sinks() {
		n++
		switch {
		case s.T.hi:
			c.Violate(rule, s.Key, fmt.Sprintf("%s operand is a peer-controlled integer with no upper bound on the path (source: %s)", s.Kind, s.T.why), s.Instr.Pos())
		case s.T.lo:
			c.Violate(rule, s.Key, fmt.Sprintf("%s operand is a peer-controlled signed integer that may be negative here (source: %s)", s.Kind, s.T.why), s.Instr.Pos())
		default:
			c.Ok(rule, s.Key, fmt.Sprintf("%s operand from %s is bounded on every path", s.Kind, s.Raw.why), s.Instr.Pos())
		}
	}
	for _, l := range e.lostArgs {
		c.Undecided(rule, fnName(l.fn)+"#lost", "unbounded peer integer passed to a "+l.what+" that cannot be followed (source: "+l.t.why+")", l.call.Pos())
	}
	c.Note("%s: taint fixpoint in %d rounds over %d library functions (call-graph index %.1fs, fixpoint %.1fs); source call sites: %v", rule, e.rounds, len(e.fns), e.tInvoke.Seconds(), e.tFix.Seconds(), e.sourceSites)
	c.Note("%s: not followed (stated, not claimed): integer elements of slices and maps, integers written through pointers by code outside the module (encoding/json, binary.Read), offsets derived from strings.Index in the text parsers (bounded by the string they index)", rule)
	c.MinCount(rule, "sink operands carrying peer integers", n, 2)
	nsrc := 0
	for _, k := range e.sourceSites {
		nsrc += k
	}
	c.MinCount(rule, "source call sites (Get*, binary.Uint*, strconv, ClassAd integers)", nsrc, 10)
}

// c13StringReader: a library function (*Message, ...) (string, error) — what the ClassAd receivers read
// expressions with. At end of message these either fail or (the plaintext readers) return "".
func c13StringReader(g *ssa.Function) bool {
	if g == nil || len(g.Params) == 0 {
		return false
	}
	res := g.Signature.Results()
	if res.Len() != 2 || !isErrorType(res.At(1).Type()) {
		return false
	}
	if b, ok := res.At(0).Type().Underlying().(*types.Basic); !ok || b.Kind() != types.String {
		return false
	}
	pt, ok := g.Params[0].Type().(*types.Pointer)
	if !ok {
		return false
	}
	nt, ok := pt.Elem().(*types.Named)
	return ok && nt.Obj().Name() == "Message" && nt.Obj().Pkg() != nil && nt.Obj().Pkg().Path() == ModPath+"/message"
}

// C13-R2: a loop whose trip count is an unbounded peer integer stops when the input is exhausted.
func c13r2(c *Ctx) {
	const rule = "C13-R2"
	c.Doc(rule, "every loop whose exit comparison involves an unbounded peer-controlled integer passes, on each iteration, the nil-error edge of a call that fails at end of input (ensureData(k>=1), io.ReadFull, Read, or a module function all of whose success returns pass one), or of a validator that rejects the empty string the swallowing string readers return at end of message")
	e := c13Taint(c.Prog)
	ensure := c.needFn(rule, "message", "(*Message).ensureData")
	if ensure == nil {
		return
	}
	c.Check(len(ensure.Params) == 3 && e.ubOnSuccess(ensure, 2, 0), rule, "ensureData#success=>buffered>=needed",
		"ensureData returns nil only when the buffer holds the demanded bytes", "ensureData can return nil without the demanded bytes being buffered (base fact of R1/R2 broken)", ensure.Pos())
	q := &c13EOM{e: e, ensure: ensure, memo: map[*ssa.Function]int{}}
	n := 0
	for _, fn := range e.fns {
		for _, l := range c13Loops(fn) {
			if l.programBounded(e) {
				// bounded by a value the program chose; when that value was a peer integer sanitised on the way
				// here (in this function or in a caller) the loop still is an instance of the rule
				if why := l.headerWas(e); why != "" {
					n++
					c.Ok(rule, l.Key, "trip count from "+why+" is bounded before the loop", c13BlockPos(l.Header))
				}
				continue
			}
			tainted, unbounded := false, false
			why := ""
			var pos token.Pos
			for _, ifi := range l.exitConds() {
				a := condAtom(ifi.Cond)
				if a.Op == token.ILLEGAL || a.Y == nil {
					continue
				}
				for _, op := range []ssa.Value{a.X, a.Y} {
					if !c13IsNum(op.Type()) {
						continue
					}
					if raw := e.eval(op); raw.hi || raw.was {
						tainted = true
						pos = ifi.Cond.Pos()
						if why == "" {
							why = raw.why
						}
						if e.use(op, ifi).hi {
							unbounded = true
						}
					}
				}
			}
			if !tainted {
				continue
			}
			n++
			if !pos.IsValid() {
				pos = c13BlockPos(l.Header)
			}
			if !unbounded {
				c.Ok(rule, l.Key, "trip count from "+why+" is bounded before the loop", pos)
				continue
			}
			cuts := q.cutsIn(fn, l.Blocks, 0)
			// validators that reject the "" a swallowing reader returns at end of message
			for b := range l.Blocks {
				for _, in := range b.Instrs {
					call, ok := in.(*ssa.Call)
					if !ok {
						continue
					}
					g := calleeFn(call)
					if g == nil || !e.inLib[g] {
						continue
					}
					for i, arg := range call.Call.Args {
						if bt, ok := arg.Type().Underlying().(*types.Basic); !ok || bt.Kind() != types.String {
							continue
						}
						all := true
						os := origins(fn, arg)
						for _, o := range os {
							oc, idx := originCall(o)
							if oc == nil || idx != 0 || !c13StringReader(calleeFn(oc)) {
								all = false
							}
						}
						if all && len(os) > 0 && c13RejectsEmpty(c.Prog, g, i) {
							if succ, _, checked := callErrEdges(fn, call); checked {
								cuts.AddEdges(succ...)
							}
						}
					}
				}
			}
			if path := l.cycleAvoiding(cuts); path != nil {
				c.Violate(rule, l.Key, "loop bounded only by a peer-controlled integer ("+why+") can iterate without any call that fails at end of input: it spins (and may grow memory) for a count the peer chose", pos, c.describePath(path)...)
			} else {
				c.Ok(rule, l.Key, "every iteration passes a call that fails once the input is exhausted (trip count from "+why+")", pos)
			}
		}
	}
	// record, per Message read primitive, whether end of message is an error (evidence)
	var sw, er []string
	for _, fn := range e.fns {
		if fn.Parent() != nil || len(fn.Params) == 0 || fn.Object() == nil || !fn.Object().Exported() {
			continue
		}
		if !strings.HasPrefix(fnName(fn), "(*message.Message).") || !(strings.HasPrefix(fn.Name(), "Get") || strings.HasPrefix(fn.Name(), "Skip")) {
			continue
		}
		if q.errsAtEOM(fn, 0) {
			er = append(er, fn.Name())
		} else {
			sw = append(sw, fn.Name())
		}
	}
	sort.Strings(sw)
	sort.Strings(er)
	c.Note("%s: Message readers that fail at end of message: %v; readers that may return success at end of message: %v", rule, er, sw)
	c.MinCount(rule, "loops with a peer-controlled trip count", n, 2)
}

// c13EntryPoint: exported library functions through which peer bytes enter a decoder.
func c13EntryPoint(fn *ssa.Function) bool {
	if fn.Parent() != nil || fn.Object() == nil || !fn.Object().Exported() {
		return false
	}
	if recv := fn.Signature.Recv(); recv != nil {
		t := recv.Type()
		if pt, ok := t.(*types.Pointer); ok {
			t = pt.Elem()
		}
		if nt, ok := t.(*types.Named); ok && !nt.Obj().Exported() {
			return false
		}
	}
	n := fn.Name()
	for _, pre := range []string{"Get", "Receive", "Read", "Skip", "Parse", "Import", "Verify", "Decode", "Code", "NewStreamWithCryptoState",
		"ServerHandshake", "ClientHandshake", "ServeConn", "Serve", "Accept", "Dial", "Connect", "Handle", "Start", "Listen", "Unmarshal", "Split", "Normalize", "Extract"} {
		if strings.HasPrefix(n, pre) {
			return true
		}
	}
	return false
}

// c13Graph: call edges between library functions: static callees and closures created, plus the
// dynamic edges (interface invokes, func values) of the VTA call graph.
func c13Graph(e *c13Engine) map[*ssa.Function][]c13CallEdge {
	g := map[*ssa.Function][]c13CallEdge{}
	cg := e.p.CG()
	for _, fn := range e.fns {
		allInstrs(fn, func(_ *ssa.BasicBlock, _ int, in ssa.Instruction) {
			if mc, ok := in.(*ssa.MakeClosure); ok {
				if h, ok := mc.Fn.(*ssa.Function); ok && e.inLib[h] {
					g[fn] = append(g[fn], c13CallEdge{h, nil, mc})
				}
			}
			if call, ok := in.(ssa.CallInstruction); ok {
				if h := calleeFn(call); h != nil && h.Blocks != nil && e.inLib[h] {
					g[fn] = append(g[fn], c13CallEdge{h, call, in})
				}
			}
		})
		if n := cg.Nodes[fn]; n != nil {
			for _, ed := range n.Out {
				if ed.Site == nil || calleeFn(ed.Site) != nil {
					continue
				}
				if h := ed.Callee.Func; h != nil && h.Blocks != nil && e.inLib[h] {
					g[fn] = append(g[fn], c13CallEdge{h, ed.Site, ed.Site.(ssa.Instruction)})
				}
			}
		}
	}
	return g
}

type c13CallEdge struct {
	To   *ssa.Function
	Call ssa.CallInstruction // nil for closure creation
	At   ssa.Instruction
}

// C13-R3: no unbounded recursion on the decode paths.
func c13r3(c *Ctx) {
	const rule = "C13-R3"
	c.Doc(rule, "T-REC: in the call graph of library functions reachable from the decoder entry points (static calls, closures, VTA-resolved dynamic calls) every cycle has, at each of its recursive call sites, a visibly decreasing argument (strict sub-slice of a parameter, parameter minus a positive constant, or parameter plus a constant under a dominating upper bound)")
	e := c13Taint(c.Prog)
	g := c13Graph(e)
	var roots []*ssa.Function
	for _, fn := range e.fns {
		if c13EntryPoint(fn) {
			roots = append(roots, fn)
		}
	}
	reach := map[*ssa.Function]bool{}
	work := append([]*ssa.Function{}, roots...)
	for len(work) > 0 {
		f := work[len(work)-1]
		work = work[:len(work)-1]
		if reach[f] {
			continue
		}
		reach[f] = true
		for _, ed := range g[f] {
			work = append(work, ed.To)
		}
	}
	// Tarjan
	index := map[*ssa.Function]int{}
	low := map[*ssa.Function]int{}
	on := map[*ssa.Function]bool{}
	var stack []*ssa.Function
	var sccs [][]*ssa.Function
	next := 0
	var strong func(v *ssa.Function)
	strong = func(v *ssa.Function) {
		next++
		index[v], low[v] = next, next
		stack = append(stack, v)
		on[v] = true
		for _, ed := range g[v] {
			w := ed.To
			if !reach[w] {
				continue
			}
			if index[w] == 0 {
				strong(w)
				if low[w] < low[v] {
					low[v] = low[w]
				}
			} else if on[w] && index[w] < low[v] {
				low[v] = index[w]
			}
		}
		if low[v] == index[v] {
			var comp []*ssa.Function
			for {
				w := stack[len(stack)-1]
				stack = stack[:len(stack)-1]
				on[w] = false
				comp = append(comp, w)
				if w == v {
					break
				}
			}
			sccs = append(sccs, comp)
		}
	}
	var ordered []*ssa.Function
	for f := range reach {
		ordered = append(ordered, f)
	}
	sort.Slice(ordered, func(i, j int) bool { return fnName(ordered[i]) < fnName(ordered[j]) })
	for _, f := range ordered {
		if index[f] == 0 {
			strong(f)
		}
	}
	cycles := 0
	for _, comp := range sccs {
		in := map[*ssa.Function]bool{}
		for _, f := range comp {
			in[f] = true
		}
		self := false
		for _, ed := range g[comp[0]] {
			if ed.To == comp[0] {
				self = true
			}
		}
		if len(comp) == 1 && !self {
			continue
		}
		cycles++
		sort.Slice(comp, func(i, j int) bool { return fnName(comp[i]) < fnName(comp[j]) })
		var names []string
		for _, f := range comp {
			names = append(names, fnName(f))
		}
		key := "cycle:" + strings.Join(names, ",")
		var bad []string
		var pos token.Pos
		for _, f := range comp {
			for _, ed := range g[f] {
				if !in[ed.To] {
					continue
				}
				if ed.Call == nil || !c13Decreasing(e, f, ed.Call) {
					bad = append(bad, fmt.Sprintf("%s -> %s at %s", fnName(f), fnName(ed.To), c.Pos(ed.At.Pos())))
					if !pos.IsValid() {
						pos = ed.At.Pos()
					}
				}
			}
		}
		if len(bad) == 0 {
			c.Ok(rule, key, "every recursive call passes a strictly smaller argument", comp[0].Pos())
		} else {
			c.Violate(rule, key, "recursion without a visible decreasing measure: each round of peer input can add a stack frame (Go's stack overflow is fatal, not recoverable)", pos, bad...)
		}
	}
	c.Note("%s: %d entry points, %d reachable library functions, %d call-graph cycles", rule, len(roots), len(reach), cycles)
	// the decoders the property names must be inside the analysed set (no vacuous pass when there is no cycle)
	for _, a := range [][2]string{{"stream", "(*Stream).readNextFrame"}, {"stream", "(*Stream).ReceiveCompleteMessage"}, {"stream", "(*Stream).ReceiveFrameWithEnd"},
		{"message", "(*Message).ensureData"}, {"message", "getClassAdFromMessageWithMaxSize"}, {"message", "parseAndInsertExpression"}, {"message", "(*Message).discard"},
		{"security", "(*CEDARTLSConnection).receiveMessage"}, {"security", "(*Authenticator).exchangeKey"}, {"security", "(*Authenticator).receiveTokenStep2"},
		{"security", "(*Authenticator).kerberosReadRequest"}, {"security", "ParseClaimIDStrict"}, {"security", "ImportSessionInfoAttributes"}, {"addresses", "ParseSinful"},
		{"client/sharedport", "readPassSockHeader"}, {"version", "Parse"}, {"watch", "DecodeHeader"}} {
		if f := c.needFn(rule, a[0], a[1]); f != nil && !reach[f] {
			c.Undecided(rule, "reachable:"+fnName(f), "decoder is not reachable from the entry points in the rule's call graph: recursion through it would go unnoticed", f.Pos())
		}
	}
	c.MinCount(rule, "decoder entry points", len(roots), 10)
	c.MinCount(rule, "library functions reachable from the entry points", len(reach), 50)
}

// c13Decreasing: some argument of the recursive call is strictly smaller than a parameter of the caller.
func c13Decreasing(e *c13Engine, f *ssa.Function, call ssa.CallInstruction) bool {
	isParam := func(v ssa.Value) bool {
		for _, o := range origins(f, v) {
			if _, ok := o.(*ssa.Parameter); !ok {
				return false
			}
		}
		return true
	}
	for _, a := range call.Common().Args {
		switch x := a.(type) {
		case *ssa.Slice:
			if isParam(x.X) && x.Low != nil {
				if n, ok := constInt(x.Low); !ok || n > 0 {
					return true
				}
			}
		case *ssa.BinOp:
			if !c13IsInt(x.Type()) {
				continue
			}
			if n, ok := constInt(x.Y); ok && isParam(x.X) {
				if (x.Op == token.SUB && n > 0) || (x.Op == token.ADD && n < 0) {
					return true
				}
				if x.Op == token.ADD && n > 0 {
					// depth+1 under a dominating "depth < max" test
					t := c13T{hi: true}
					if !e.sanitise(t, x.X, call.(ssa.Instruction), nil, 0).hi {
						return true
					}
				}
			}
		}
	}
	return false
}

// c13Caps classifies the string readers of the message package: uncapped (reach GetString) and
// capped (hand an int parameter down to GetStringWithMaxSize as the limit and read nothing uncapped).
type c13Caps struct {
	e        *c13Engine
	getStr   *ssa.Function
	getStrMx *ssa.Function
	unc      map[*ssa.Function]int
}

func (k *c13Caps) uncapped(g *ssa.Function, depth int) bool {
	if g == k.getStr {
		return true
	}
	if g == nil || g == k.getStrMx || g.Blocks == nil || !k.e.inLib[g] || depth > 4 {
		return false
	}
	switch k.unc[g] {
	case 1, 3:
		return false
	case 2:
		return true
	}
	k.unc[g] = 1
	r := false
	allInstrs(g, func(_ *ssa.BasicBlock, _ int, in ssa.Instruction) {
		if call, ok := in.(ssa.CallInstruction); ok && !r {
			if h := calleeFn(call); h != nil && k.uncapped(h, depth+1) {
				r = true
			}
		}
	})
	if r {
		k.unc[g] = 2
	} else {
		k.unc[g] = 3
	}
	return r
}

// readsCapped: g (or a helper it calls) contains a call of a capped reader.
func (k *c13Caps) readsCapped(g *ssa.Function, depth int) bool {
	if g == nil || g.Blocks == nil || depth > 2 {
		return false
	}
	found := false
	allInstrs(g, func(_ *ssa.BasicBlock, _ int, in ssa.Instruction) {
		if call, ok := in.(ssa.CallInstruction); ok && !found {
			h := calleeFn(call)
			if h == nil {
				return
			}
			if k.capped(h, 0) >= 0 || (h != g && k.e.inLib[h] && k.readsCapped(h, depth+1)) {
				found = true
			}
		}
	})
	return found
}

// capped: the index of the argument that is the byte limit, or -1.
func (k *c13Caps) capped(g *ssa.Function, depth int) int {
	if g == k.getStrMx {
		return 2
	}
	if g == nil || g.Blocks == nil || !k.e.inLib[g] || depth > 3 || k.uncapped(g, 0) {
		return -1
	}
	res := -1
	allInstrs(g, func(_ *ssa.BasicBlock, _ int, in ssa.Instruction) {
		call, ok := in.(ssa.CallInstruction)
		if !ok || res >= 0 {
			return
		}
		h := calleeFn(call)
		j := k.capped(h, depth+1)
		if j < 0 || j >= len(call.Common().Args) {
			return
		}
		for i, p := range g.Params {
			if c13IsInt(p.Type()) && mustDepend(g, call.Common().Args[j], func(v ssa.Value) bool { return v == ssa.Value(p) }) {
				res = i
			}
		}
	})
	return res
}

// C13-R4: the capped readers use the capped primitives with the remaining budget everywhere.
func c13r4(c *Ctx) {
	const rule = "C13-R4"
	c.Doc(rule, "in getClassAdFromMessageWithMaxSize no uncapped string read (GetString or a helper reaching it) is reachable unless maxSize <= 0; every capped read gets a limit that depends on maxSize, is known positive, and accounts for the length of every earlier capped read; inside GetStringWithMaxSize every ensureData demand and make size is bounded by maxSize; library packages other than message read ClassAds only through GetClassAdWithMaxSize with a positive constant cap")
	e := c13Taint(c.Prog)
	fn := c.needFn(rule, "message", "getClassAdFromMessageWithMaxSize")
	gs := c.needFn(rule, "message", "(*Message).GetString")
	gsm := c.needFn(rule, "message", "(*Message).GetStringWithMaxSize")
	ensure := c.needFn(rule, "message", "(*Message).ensureData")
	if fn == nil || gs == nil || gsm == nil || ensure == nil {
		return
	}
	k := &c13Caps{e: e, getStr: gs, getStrMx: gsm, unc: map[*ssa.Function]int{}}
	intParam := func(f *ssa.Function, name string) *ssa.Parameter {
		var only *ssa.Parameter
		n := 0
		for _, p := range f.Params {
			if c13IsInt(p.Type()) {
				n++
				only = p
				if p.Name() == name {
					return p
				}
			}
		}
		if n == 1 {
			return only
		}
		return nil
	}
	maxSize := intParam(fn, "maxSize")
	if maxSize == nil {
		c.Undecided(rule, fnName(fn)+"#maxSize", "cannot identify the size-cap parameter", fn.Pos())
		return
	}
	// analyse checks one function that reads strings under the cap held in its parameter maxSize: the
	// capped ClassAd reader itself and, recursively, the same-package helpers it hands the cap to
	// ("getStringWithinBudget(m, ctx, maxSize, used)": uncapped read when maxSize <= 0, otherwise a capped
	// read of what is left). It returns the indexes of the parameters its limits depend on besides the cap
	// (the "used so far" arguments, which the caller must keep up to date).
	nTests, nUnc, nCap := 0, 0, 0
	analysed := map[*ssa.Function][]int{}
	var analyse func(fn *ssa.Function, maxSize *ssa.Parameter, depth int) []int
	analyse = func(fn *ssa.Function, maxSize *ssa.Parameter, depth int) []int {
		if u, ok := analysed[fn]; ok {
			return u
		}
		analysed[fn] = nil
		isCap := func(v ssa.Value) bool {
			v = c13StripConv(v)
			if v == ssa.Value(maxSize) {
				return true
			}
			if ld, ok := v.(*ssa.UnOp); ok && ld.Op == token.MUL {
				if cell := e.cell(ld.X); cell != nil && e.singleStore(cell) {
					for _, r := range *maxSize.Referrers() {
						if st, ok := r.(*ssa.Store); ok && st.Val == ssa.Value(maxSize) && e.cell(st.Addr) == cell {
							return true
						}
					}
				}
			}
			return false
		}
		// edges on which maxSize <= 0 (the unlimited mode): comparisons of maxSize with a constant, also
		// through a local boolean or a module predicate (facts of the taint engine)
		off := newC13Cuts()
		offSeen := map[Edge]bool{}
		for _, f := range e.factsAbout(fn, maxSize) {
			if !f.ub || f.lenOf || f.by == nil || len(f.also) > 0 {
				continue
			}
			if _, isConst := c13StripConv(f.by).(*ssa.Const); !isConst {
				continue
			}
			z, ok := constInt(f.by)
			if !ok || !(z <= 0 || (f.strict && z <= 1)) {
				continue
			}
			off.addFact(f)
			offSeen[f.edge] = true
		}
		nTests += len(offSeen)
		// (a) uncapped reads only in unlimited mode
		ord := map[string]int{}
		type capRead struct {
			call   *ssa.Call
			limits []ssa.Value // the limit argument; for a budgeted helper: the arguments its limits depend on
			helper bool
			key    string
		}
		var capReads []capRead
		var calls []*ssa.Call
		allInstrs(fn, func(_ *ssa.BasicBlock, _ int, in ssa.Instruction) {
			if call, ok := in.(*ssa.Call); ok && calleeFn(call) != nil {
				calls = append(calls, call)
			}
		})
		sort.SliceStable(calls, func(i, j int) bool { return calls[i].Pos() < calls[j].Pos() })
		for _, call := range calls {
			g := calleeFn(call)
			if k.uncapped(g, 0) {
				// a helper that is handed the cap and reads under it: analysed like the reader itself
				if g != fn && g.Blocks != nil && fnPkg(g) == fnPkg(fn) && depth < 2 && k.readsCapped(g, 0) {
					pc := -1
					for i, a := range call.Call.Args {
						if i < len(g.Params) && c13IsInt(g.Params[i].Type()) && isCap(a) {
							pc = i
						}
					}
					if pc >= 0 {
						used := analyse(g, g.Params[pc], depth+1)
						ord["cap"]++
						r := capRead{call: call, helper: true, key: fmt.Sprintf("%s#capped%d", fnName(fn), ord["cap"])}
						for _, pu := range used {
							if pu < len(call.Call.Args) {
								r.limits = append(r.limits, call.Call.Args[pu])
							}
						}
						capReads = append(capReads, r)
						continue
					}
				}
				nUnc++
				ord[g.Name()]++
				key := fmt.Sprintf("%s#uncapped:%s%d", fnName(fn), g.Name(), ord[g.Name()])
				if cp := pointOf(call); e.reach(entryPoint(fn), c13Tgt{b: cp.Block, idx: cp.Idx}, off) {
					plain := newCuts()
					for ed := range off.edges {
						plain.AddEdges(ed)
					}
					c.Violate(rule, key, "uncapped string read ("+g.Name()+") is reachable while a size cap is in force (maxSize > 0): the peer can make the capped reader buffer an arbitrarily large value", call.Pos(), c.describePath(findPath(entryPoint(fn), Target{Instr: call}, plain))...)
				} else {
					c.Ok(rule, key, "reachable only when maxSize <= 0", call.Pos())
				}
				continue
			}
			if j := k.capped(g, 0); j >= 0 && j < len(call.Call.Args) {
				ord["cap"]++
				capReads = append(capReads, capRead{call: call, limits: []ssa.Value{call.Call.Args[j]}, key: fmt.Sprintf("%s#capped%d", fnName(fn), ord["cap"])})
			}
		}
		nCap += len(capReads)
		// (b) limits of the capped reads
		var lens []*ssa.Call
		allInstrs(fn, func(_ *ssa.BasicBlock, _ int, in ssa.Instruction) {
			if lc, ok := in.(*ssa.Call); ok {
				if b, ok := lc.Call.Value.(*ssa.Builtin); ok && b.Name() == "len" && len(lc.Call.Args) == 1 {
					lens = append(lens, lc)
				}
			}
		})
		usedSet := map[int]bool{}
		for _, r := range capReads {
			if !r.helper {
				limit := r.limits[0]
				dep := mustDepend(fn, limit, func(v ssa.Value) bool { return v == ssa.Value(maxSize) })
				c.Check(dep, rule, r.key+"#limit<-maxSize", "limit depends on maxSize", "the limit of this capped read does not depend on maxSize", r.call.Pos())
				pos := !e.sanitise(c13T{lo: true}, limit, r.call, nil, 0).lo
				c.Check(pos, rule, r.key+"#limit>0", "a dominating test guarantees a positive remaining budget", "no dominating test that the remaining budget is positive (GetStringWithMaxSize reads nothing for a limit <= 0, so the loop would stop consuming but keep going)", r.call.Pos())
			} else {
				c.Ok(rule, r.key+"#budgeted-helper", "the cap is handed to "+fnName(calleeFn(r.call))+", whose reads are checked against it", r.call.Pos())
			}
			// the other integer parameters of fn the limit depends on (when fn itself is a budgeted helper)
			for pi, p := range fn.Params {
				if p == maxSize || !c13IsInt(p.Type()) {
					continue
				}
				for _, l := range r.limits {
					if mustDepend(fn, l, func(v ssa.Value) bool { return v == ssa.Value(p) }) {
						usedSet[pi] = true
					}
				}
			}
			for _, a := range capReads {
				// only reads that can be followed by this one (an earlier read, or the same one on a later iteration)
				if findPath(after(a.call), Target{Instr: r.call}, nil) == nil {
					continue
				}
				res := extractN(a.call, 0)
				acc := false
				lenOfRes := func(lc *ssa.Call) bool {
					for _, o := range origins(fn, lc.Call.Args[0]) {
						if o == res {
							return true
						}
					}
					return false
				}
				for _, limit := range r.limits {
					for _, lc := range lens {
						if res != nil && mentionsValue(limit, lc) && lenOfRes(lc) {
							acc = true
						}
					}
					if !acc && res != nil {
						// the running total lives in a cell (captured by a budget closure, or handed to a helper): the
						// limit depends on what is stored into it
						acc = mustDepend(fn, limit, func(v ssa.Value) bool {
							for _, lc := range lens {
								if v == ssa.Value(lc) && lenOfRes(lc) {
									return true
								}
							}
							return false
						})
					}
				}
				c.Check(acc, rule, r.key+"#accounts:"+strings.TrimPrefix(a.key, fnName(fn)+"#"), "the limit is reduced by the length of the earlier read", "the limit does not account for the bytes consumed by the earlier capped read "+c.Pos(a.call.Pos())+": the cap is per string, not per ClassAd", r.call.Pos())
			}
		}
		var used []int
		for pi := range fn.Params {
			if usedSet[pi] {
				used = append(used, pi)
			}
		}
		analysed[fn] = used
		return used
	}
	analyse(fn, maxSize, 0)
	c.MinCount(rule, "maxSize > 0 tests", nTests, 1)
	c.Note("%s: %d uncapped read site(s) in the capped ClassAd reader and its budget helpers, each reachable only in unlimited mode (none is required)", rule, nUnc)
	c.MinCount(rule, "capped read sites in the capped ClassAd reader", nCap, 1)
	// (c) inside GetStringWithMaxSize nothing larger than maxSize is demanded or allocated
	if mx := intParam(gsm, "maxSize"); mx == nil {
		c.Undecided(rule, fnName(gsm)+"#maxSize", "cannot identify the size-cap parameter", gsm.Pos())
	} else {
		n := 0
		// the sites of GetStringWithMaxSize and of the same-package helpers it hands the cap to (an extracted
		// "read the encrypted form" step): there the helper's parameter is the bound
		var scan func(g *ssa.Function, bound *ssa.Parameter, depth int)
		seen := map[*ssa.Function]bool{}
		scan = func(g *ssa.Function, bound *ssa.Parameter, depth int) {
			if seen[g] || depth > 2 {
				return
			}
			seen[g] = true
			no := map[string]int{}
			allInstrs(g, func(_ *ssa.BasicBlock, _ int, in ssa.Instruction) {
				var v ssa.Value
				kind := ""
				switch x := in.(type) {
				case *ssa.MakeSlice:
					v, kind = x.Len, "make"
				case *ssa.Call:
					if calleeFn(x) == ensure && len(x.Call.Args) == 3 {
						v, kind = x.Call.Args[2], "ensureData"
					} else if h := calleeFn(x); h != nil && h.Blocks != nil && fnPkg(h) == fnPkg(gsm) && h != ensure {
						for i, a := range x.Call.Args {
							if i < len(h.Params) && c13StripConv(a) == ssa.Value(bound) && c13IsInt(h.Params[i].Type()) {
								scan(h, h.Params[i], depth+1)
							}
						}
					}
				}
				if v == nil {
					return
				}
				n++
				no[kind]++
				key := fmt.Sprintf("%s#%s%d<=maxSize", fnName(g), kind, no[kind])
				c.Check(e.boundedBy(v, in, nil, bound, 0), rule, key, "operand is a constant or bounded by maxSize", "operand is not bounded by maxSize: more than the cap can be buffered for one string", in.Pos())
			})
		}
		scan(gsm, mx, 0)
		c.MinCount(rule, "ensureData/make sites in GetStringWithMaxSize", n, 1)
	}
	// (d) who reads ClassAds uncapped outside the message package
	capFn := c.needFn(rule, "message", "(*Message).GetClassAdWithMaxSize")
	var uncReaders []types.Object
	for _, name := range []string{"(*Message).GetClassAd", "(*Message).GetClassAdRaw", "(*Message).GetClassAdRawBody", "(*Message).SkipClassAdRaw"} {
		if f := c.needFn(rule, "message", name); f != nil {
			uncReaders = append(uncReaders, f.Object())
		}
	}
	if capFn != nil {
		n := 0
		ord := map[string]int{}
		for _, cs := range c.callSites(capFn.Object()) {
			pk := fnPkg(cs.Fn)
			if pk == nil || !libPkg(pk.Path()) || pk.Path() == ModPath+"/message" {
				continue
			}
			n++
			args := cs.Call.Common().Args
			capv, ok := constInt(args[len(args)-1])
			ord[fnName(topFn(cs.Fn))]++
			key := fmt.Sprintf("%s#GetClassAdWithMaxSize%d", fnName(topFn(cs.Fn)), ord[fnName(topFn(cs.Fn))])
			c.Check(ok && capv > 0, rule, key, fmt.Sprintf("constant cap %d", capv), "the cap is not a positive compile-time constant (0 or less means unlimited)", cs.Call.Pos())
		}
		c.MinCount(rule, "GetClassAdWithMaxSize call sites in library packages", n, 1)
		for _, cs := range c.callSites(uncReaders...) {
			pk := fnPkg(cs.Fn)
			if pk == nil || !libPkg(pk.Path()) || pk.Path() == ModPath+"/message" {
				continue
			}
			c.Violate(rule, fnName(topFn(cs.Fn))+"#uncapped-classad-read", "library code reads a ClassAd from the peer without a size cap", cs.Call.Pos())
		}
	}
}

// C13-R5: frame-level and blob-level limits are checked before allocation / slicing.
func c13r5(c *Ctx) {
	const rule = "C13-R5"
	c.Doc(rule, "in ReceiveFrame and ReceiveFrameWithEnd the payload allocation (made there or in a helper that is handed the length) is dominated by the wire-length <= MaxMessageSize test (that very constant) and by the end-flag range test, the header being read there or by a helper that returns it; in NewStreamWithCryptoState, its closures and the helpers it hands the blob to, every slice/index of the blob with a constant bound (or the running offset after a straight line of constant increments) is dominated by a len(blob) >= K guard with K >= that bound, and every blob slice with a variable bound off+x is dominated by a test of off+x against len(blob) with no write to off in between; tests are recognised inline, through local booleans, predicates and error-returning helpers")
	e := c13Taint(c.Prog)
	maxObj, _ := c.needObj(rule, "stream", "MaxMessageSize").(*types.Const)
	n := 0
	for _, name := range []string{"(*Stream).ReceiveFrame", "(*Stream).ReceiveFrameWithEnd"} {
		fn := c.needFn(rule, "stream", name)
		if fn == nil || maxObj == nil {
			continue
		}
		maxV, _ := c13ConstInt64(maxObj)
		facts := e.factsOf(fn)
		// allocation sites: a make in the receiver, or a make in a same-package helper the receiver calls whose
		// size is a parameter of the helper (the argument then carries the length, and the call is the site)
		type allocSite struct {
			lenIn ssa.Value
			at    ssa.Instruction
			pos   token.Pos
		}
		var sites []allocSite
		allInstrs(fn, func(_ *ssa.BasicBlock, _ int, in ssa.Instruction) {
			switch x := in.(type) {
			case *ssa.MakeSlice:
				if _, isC := x.Len.(*ssa.Const); !isC {
					sites = append(sites, allocSite{x.Len, x, x.Pos()})
				}
			case *ssa.Call:
				h := calleeFn(x)
				if h == nil || h.Blocks == nil || fnPkg(h) != fnPkg(fn) || h == fn {
					return
				}
				allInstrs(h, func(_ *ssa.BasicBlock, _ int, hi ssa.Instruction) {
					hm, ok := hi.(*ssa.MakeSlice)
					if !ok {
						return
					}
					if pi := e.paramIndex(h, hm.Len); pi >= 0 && pi < len(x.Call.Args) {
						sites = append(sites, allocSite{x.Call.Args[pi], x, hm.Pos()})
					}
				})
			}
		})
		for _, ms := range sites {
			// the wire length: the make size must come from a binary.*.Uint32 of the header, read here or in
			// a helper that returns it (the value carrying it in this function is then the helper's result)
			var wire ssa.Value
			for _, o := range origins(fn, ms.lenIn) {
				for _, d := range e.deepOrigins(fn, o, 0) {
					if call, ok := d.(*ssa.Call); ok {
						if f := calleeObj(call); f != nil && f.Pkg() != nil && f.Pkg().Path() == "encoding/binary" {
							wire = o
						}
					}
				}
			}
			if wire == nil {
				continue
			}
			n++
			key := fnName(fn) + "#payload-alloc"
			okMax := false
			for _, f := range facts[wire] {
				if f.ub && f.by != nil && len(f.also) == 0 && e.factDominates(f, ms.at, nil) {
					if v, isC := constInt(f.by); isC && v == maxV {
						okMax = true
					}
				}
			}
			c.Check(okMax, rule, key+"<=MaxMessageSize", "allocation dominated by wire length <= MaxMessageSize", "the payload allocation is not dominated by a test of the wire length against MaxMessageSize", ms.pos)
			// end flag: a byte loaded from the same header buffer at index 0 (here or in the helper that
			// returns it), range-tested before the allocation
			okFlag := false
			for v, fs := range facts {
				isFlag := false
				for _, d := range e.deepOrigins(fn, v, 0) {
					ld, isLd := d.(*ssa.UnOp)
					if !isLd || ld.Op != token.MUL {
						continue
					}
					ia, isIA := ld.X.(*ssa.IndexAddr)
					if !isIA {
						continue
					}
					if idx, isC := constInt(ia.Index); isC && idx == 0 {
						isFlag = true
					}
				}
				if !isFlag {
					continue
				}
				for _, f := range fs {
					if _, isC := constInt(f.by); f.ub && f.by != nil && len(f.also) == 0 && isC && e.factDominates(f, ms.at, nil) {
						okFlag = true
					}
				}
			}
			c.Check(okFlag, rule, key+"#endflag-range", "allocation dominated by the end-flag range test", "the payload allocation is not dominated by a range test of the end flag (header byte 0)", ms.pos)
		}
	}
	c.MinCount(rule, "payload allocations in the frame receivers", n, 1)

	// blob import
	imp := c.needFn(rule, "stream", "NewStreamWithCryptoState")
	if imp == nil {
		return
	}
	c13r5Blob(c, e, rule, imp)
}

// c13BlobFn: a function that handles the blob of the importer: the importer itself, its closures that
// capture the blob, and module helpers it hands the blob to (bounded depth). roots are the values that
// denote the blob inside fn; sites are the calls (in other blob functions) through which fn is entered.
type c13BlobFn struct {
	fn    *ssa.Function
	roots map[ssa.Value]bool
	sites []ssa.Instruction
}

// c13r5Blob: the blob part of C13-R5. Every slice/index of the blob, in the importer or in a helper or
// closure it hands the blob to, has an upper bound that is either a constant (or the running offset
// after a straight line of constant increments) not above the constant K of a dominating len(blob) >= K
// guard, or a sum off+x that a dominating test compared with len(blob), with no write to the offset
// between test and use. Guards are recognised through local booleans, predicates and error-returning
// helpers (facts of the taint engine).
func c13r5Blob(c *Ctx, e *c13Engine, rule string, imp *ssa.Function) {
	var blob *ssa.Parameter
	for _, p := range imp.Params {
		if sl, ok := p.Type().Underlying().(*types.Slice); ok {
			if b, ok := sl.Elem().Underlying().(*types.Basic); ok && b.Kind() == types.Uint8 {
				blob = p
			}
		}
	}
	if blob == nil {
		c.Undecided(rule, fnName(imp)+"#blob", "cannot identify the blob parameter", imp.Pos())
		return
	}
	byFn := map[*ssa.Function]*c13BlobFn{imp: {fn: imp, roots: map[ssa.Value]bool{blob: true}}}
	order := []*c13BlobFn{byFn[imp]}
	isBlob := func(fn *ssa.Function, v ssa.Value) bool {
		bf := byFn[fn]
		for _, o := range origins(fn, v) {
			if bf != nil && bf.roots[o] {
				return true
			}
			if ld, ok := o.(*ssa.UnOp); ok && ld.Op == token.MUL {
				if cell := e.cell(ld.X); cell != nil {
					// a captured (or address-taken) copy of a blob value
					if al, ok := cell.(*ssa.Alloc); ok {
						for _, r := range *al.Referrers() {
							if st, ok := r.(*ssa.Store); ok && st.Addr == ssa.Value(al) {
								if pf := byFn[al.Parent()]; pf != nil && pf.roots[st.Val] {
									return true
								}
							}
						}
					}
				}
			}
		}
		return false
	}
	// discover closures and helpers (depth <= 2)
	for i := 0; i < len(order) && i < 16; i++ {
		bf := order[i]
		depth := 0
		for f := bf.fn; f != imp && depth < 8; depth++ {
			if len(byFn[f].sites) == 0 {
				break
			}
			f = byFn[f].sites[0].Parent()
		}
		if depth > 2 {
			continue
		}
		allInstrs(bf.fn, func(_ *ssa.BasicBlock, _ int, in ssa.Instruction) {
			call, ok := in.(ssa.CallInstruction)
			if !ok {
				return
			}
			g := calleeFn(call)
			if g == nil || g.Blocks == nil || !e.inLib[g] || g == bf.fn {
				return
			}
			add := func() *c13BlobFn {
				x := byFn[g]
				if x == nil {
					x = &c13BlobFn{fn: g, roots: map[ssa.Value]bool{}}
					byFn[g] = x
					order = append(order, x)
				}
				for _, s := range x.sites {
					if s == in {
						return x
					}
				}
				x.sites = append(x.sites, in)
				return x
			}
			if g.Parent() != nil {
				// a closure: a blob function when it reads a captured blob cell
				uses := false
				allInstrs(g, func(_ *ssa.BasicBlock, _ int, gi ssa.Instruction) {
					if ld, ok := gi.(*ssa.UnOp); ok && ld.Op == token.MUL && !uses {
						if _, isFV := ld.X.(*ssa.FreeVar); isFV && c13HasLen(ld.Type()) && isBlob(g, ld) {
							uses = true
						}
					}
				})
				if uses {
					add()
				}
			}
			for ai, arg := range call.Common().Args {
				if ai < len(g.Params) && c13HasLen(arg.Type()) && isBlob(bf.fn, arg) {
					add().roots[g.Params[ai]] = true
				}
			}
		})
	}
	// the running offset: a local cell of the importer whose load is the low bound of a blob slice
	var offCell ssa.Value
	for _, bf := range order {
		allInstrs(bf.fn, func(_ *ssa.BasicBlock, _ int, in ssa.Instruction) {
			if sl, ok := in.(*ssa.Slice); ok && sl.Low != nil && isBlob(bf.fn, sl.X) {
				if ld, ok := sl.Low.(*ssa.UnOp); ok && ld.Op == token.MUL {
					if cell := e.cell(ld.X); cell != nil {
						if al, ok := cell.(*ssa.Alloc); ok && al.Parent() == imp {
							offCell = cell
						}
					}
				}
			}
		})
	}
	// (i) minimum-length guards: facts len(blob) >= K (K constant) of a blob function
	type lenGuard struct {
		f c13Fact
		k int64
	}
	guardsOf := map[*ssa.Function][]lenGuard{}
	for _, bf := range order {
		for v, fs := range e.factsOf(bf.fn) {
			if !c13HasLen(v.Type()) || !isBlob(bf.fn, v) {
				continue
			}
			for _, f := range fs {
				if !f.lenOf || !f.lb || f.by == nil || len(f.also) > 0 {
					continue
				}
				if _, isConst := c13StripConv(f.by).(*ssa.Const); !isConst {
					continue
				}
				k, ok := constInt(f.by)
				if !ok {
					continue
				}
				if f.strict {
					k++
				}
				guardsOf[bf.fn] = append(guardsOf[bf.fn], lenGuard{f, k})
			}
		}
	}
	guardK := int64(-1)
	for _, g := range guardsOf[imp] {
		if g.k > guardK {
			guardK = g.k
		}
	}
	if guardK < 0 {
		c.Violate(rule, fnName(imp)+"#min-length-guard", "no len(blob) >= constant guard in the importer", imp.Pos())
		return
	}
	// is len(blob) >= need established at instruction in of blob function bf: by a guard of bf itself, or
	// (for a helper or closure) at every call through which it is entered?
	var guarded func(bf *c13BlobFn, in ssa.Instruction, need int64, depth int) (ok bool, any bool)
	guarded = func(bf *c13BlobFn, in ssa.Instruction, need int64, depth int) (bool, bool) {
		any := false
		for _, g := range guardsOf[bf.fn] {
			if e.factDominates(g.f, in, nil) {
				any = true
				if g.k >= need {
					return true, true
				}
			}
		}
		if bf.fn == imp || len(bf.sites) == 0 || depth > 3 {
			return false, any
		}
		all := true
		for _, s := range bf.sites {
			ok, a := guarded(byFn[s.Parent()], s, need, depth+1)
			any = any || a
			if !ok {
				all = false
			}
		}
		return all, any
	}
	// writers of the offset cell: stores, and calls of functions that (transitively) store to it
	writes := map[*ssa.Function]bool{}
	for changed := true; changed; {
		changed = false
		for _, bf := range order {
			if writes[bf.fn] {
				continue
			}
			allInstrs(bf.fn, func(_ *ssa.BasicBlock, _ int, in ssa.Instruction) {
				if st, ok := in.(*ssa.Store); ok && offCell != nil && e.cell(st.Addr) == offCell && bf.fn != imp {
					writes[bf.fn] = true
					changed = true
				}
				if call, ok := in.(ssa.CallInstruction); ok {
					if g := calleeFn(call); g != nil && writes[g] && !writes[bf.fn] && bf.fn != imp {
						writes[bf.fn] = true
						changed = true
					}
				}
			})
		}
	}
	isOffWrite := func(in ssa.Instruction) bool {
		if st, ok := in.(*ssa.Store); ok {
			return offCell != nil && e.cell(st.Addr) == offCell
		}
		if call, ok := in.(ssa.CallInstruction); ok {
			if g := calleeFn(call); g != nil && writes[g] {
				return true
			}
		}
		return false
	}
	before := func(a, b ssa.Instruction) bool { // a executes before b on every path to b
		if a.Block() == b.Block() {
			return pointOf(a).Idx < pointOf(b).Idx
		}
		return a.Block().Dominates(b.Block())
	}
	// the offset as a constant at instruction at of the importer: straight line of constant stores/increments
	offAt := func(at ssa.Instruction) (int64, bool) {
		if offCell == nil {
			return 0, false
		}
		var evs []ssa.Instruction
		allInstrs(imp, func(_ *ssa.BasicBlock, _ int, in ssa.Instruction) {
			if isOffWrite(in) {
				evs = append(evs, in)
			}
		})
		var prior []ssa.Instruction
		for _, ev := range evs {
			switch {
			case before(ev, at):
				prior = append(prior, ev)
			case before(at, ev):
			default:
				return 0, false // a write on a side path may or may not have happened
			}
		}
		sort.SliceStable(prior, func(i, j int) bool { return before(prior[i], prior[j]) })
		cur, known := int64(0), false
		for i, ev := range prior {
			if i > 0 && !before(prior[i-1], ev) {
				return 0, false
			}
			st, ok := ev.(*ssa.Store)
			if !ok {
				return 0, false // a callee moved the offset
			}
			if v, isC := constInt(st.Val); isC {
				cur, known = v, true
				continue
			}
			bo, ok := st.Val.(*ssa.BinOp)
			if !ok || bo.Op != token.ADD || !known {
				return 0, false
			}
			k, isC := constInt(bo.Y)
			ld, isLd := bo.X.(*ssa.UnOp)
			if !isC || !isLd || ld.Op != token.MUL || e.cell(ld.X) != offCell {
				return 0, false
			}
			cur += k
		}
		return cur, known
	}
	isLenBlob := func(fn *ssa.Function, v ssa.Value) bool {
		call, ok := c13StripConv(v).(*ssa.Call)
		if !ok {
			return false
		}
		b, ok := call.Call.Value.(*ssa.Builtin)
		return ok && b.Name() == "len" && len(call.Call.Args) == 1 && isBlob(fn, call.Call.Args[0])
	}
	nFixed, nVar, maxFixed := 0, 0, int64(0)
	badFixed := 0
	ord := map[*ssa.Function]int{}
	for _, bf := range order {
		fn := bf.fn
		facts := e.factsOf(fn)
		allInstrs(fn, func(_ *ssa.BasicBlock, _ int, in ssa.Instruction) {
			var x, bound ssa.Value
			plus := int64(0) // the access needs len(blob) >= bound + plus
			switch y := in.(type) {
			case *ssa.Slice:
				x, bound = y.X, y.High
				if bound == nil {
					bound = y.Low // blob[k:]: needs k <= len
				}
			case *ssa.IndexAddr:
				x, bound, plus = y.X, y.Index, 1
			case *ssa.Index:
				x, bound, plus = y.X, y.Index, 1
			case *ssa.Lookup:
				x, bound, plus = y.X, y.Index, 1
			}
			if x == nil || !isBlob(fn, x) {
				return
			}
			ord[fn]++
			// constant bound, or running offset + constant in the straight-line prefix of the importer
			need, isFixed := int64(0), false
			if bound == nil {
				need, isFixed = 0, true
			} else if k, ok := c13FoldConst(bound, 0); ok {
				need, isFixed = k+plus, true
			} else if fn == imp {
				v, k := c13StripConv(bound), int64(0)
				if bo, ok := v.(*ssa.BinOp); ok && bo.Op == token.ADD {
					if kk, isC := constInt(bo.Y); isC {
						v, k = bo.X, kk
					}
				}
				if ld, ok := v.(*ssa.UnOp); ok && ld.Op == token.MUL && offCell != nil && e.cell(ld.X) == offCell {
					if cur, known := offAt(in); known {
						need, isFixed = cur+k+plus, true
					}
				}
			}
			if isFixed {
				nFixed++
				if need > maxFixed {
					maxFixed = need
				}
				if ok, any := guarded(bf, in, need, 0); !ok {
					badFixed++
					if !any {
						c.Violate(rule, fmt.Sprintf("%s#blob-access%d", fnName(fn), ord[fn]), "blob is sliced/indexed before the minimum-length guard", in.Pos())
					} else {
						c.Violate(rule, fmt.Sprintf("%s#blob-access%d", fnName(fn), ord[fn]), fmt.Sprintf("the access needs %d bytes but the dominating length guard demands fewer (the importer's guard: %d): a short blob is sliced out of range", need, guardK), in.Pos())
					}
				}
				return
			}
			// variable bound: off+x (or off) compared with len(blob) on the dominating path
			nVar++
			key := fmt.Sprintf("%s#blob-slice%d", fnName(fn), nVar)
			hb, _ := c13StripConv(bound).(*ssa.BinOp)
			var hl *ssa.UnOp
			if hb == nil {
				hl, _ = c13StripConv(bound).(*ssa.UnOp)
			}
			if (hb == nil || hb.Op != token.ADD) && (hl == nil || hl.Op != token.MUL) || plus != 0 {
				c.Undecided(rule, key, "the bound of this blob access is not of the form off+x", in.Pos())
				return
			}
			ok := false
			for v, fs := range facts {
				same := false
				if gb, isAdd := v.(*ssa.BinOp); isAdd && gb.Op == token.ADD && hb != nil {
					same = c13SameAddend(e, gb, hb)
				} else if gl, isLd := v.(*ssa.UnOp); isLd && gl.Op == token.MUL && hl != nil {
					same = e.cell(gl.X) != nil && e.cell(gl.X) == e.cell(hl.X)
				}
				if !same {
					continue
				}
				for _, f := range fs {
					if !f.ub || f.lenOf || f.by == nil || len(f.also) > 0 || !isLenBlob(fn, f.by) || !e.factDominates(f, in, nil) {
						continue
					}
					// no write to the offset between the test and the access
					clean := true
					var cellV ssa.Value
					if hb != nil {
						if ld, isLd := hb.X.(*ssa.UnOp); isLd {
							cellV = e.cell(ld.X)
						}
					} else {
						cellV = e.cell(hl.X)
					}
					allInstrs(fn, func(_ *ssa.BasicBlock, _ int, w ssa.Instruction) {
						st, isSt := w.(*ssa.Store)
						wr := isSt && e.cell(st.Addr) != nil && e.cell(st.Addr) == cellV
						if call, isCall := w.(ssa.CallInstruction); isCall && cellV == offCell {
							if g := calleeFn(call); g != nil && writes[g] {
								wr = true
							}
						}
						if wr && e.factDominates(f, w, nil) && before(w, in) {
							clean = false
						}
					})
					if clean {
						ok = true
					}
				}
			}
			c.Check(ok, rule, key, "bound off+x tested against len(blob) on the dominating path", "blob[off:off+x] is not dominated by a test of off+x against len(blob): a truncated blob panics", in.Pos())
		})
	}
	if badFixed == 0 {
		c.Ok(rule, fnName(imp)+"#blob-accesses-after-guard", fmt.Sprintf("all %d fixed-part accesses to the blob follow len(blob) >= %d", nFixed, guardK), imp.Pos())
		c.Ok(rule, fnName(imp)+"#fixed-length<=guard", fmt.Sprintf("fixed part reaches byte %d, guard demands %d", maxFixed, guardK), imp.Pos())
	}
	c.MinCount(rule, "fixed-part blob accesses", nFixed, 1)
	c.MinCount(rule, "variable-field blob slices", nVar, 1)
}

// c13FoldConst: the value of an integer expression built from constants with + - * (a running offset kept
// in a plain local variable: "off := 4; off += 2").
func c13FoldConst(v ssa.Value, depth int) (int64, bool) {
	v = c13StripConv(v)
	if _, isC := v.(*ssa.Const); isC {
		return constInt(v)
	}
	bo, ok := v.(*ssa.BinOp)
	if !ok || depth > 40 {
		return 0, false
	}
	x, okx := c13FoldConst(bo.X, depth+1)
	y, oky := c13FoldConst(bo.Y, depth+1)
	if !okx || !oky {
		return 0, false
	}
	switch bo.Op {
	case token.ADD:
		return x + y, true
	case token.SUB:
		return x - y, true
	case token.MUL:
		return x * y, true
	}
	return 0, false
}

// c13SameAddend: two sums off+x with the same off (loads of the same cell, or the same SSA value) and the
// same x (same SSA value or equal constants).
func c13SameAddend(e *c13Engine, a, b *ssa.BinOp) bool {
	cellOf := func(v ssa.Value) ssa.Value {
		if ld, ok := v.(*ssa.UnOp); ok && ld.Op == token.MUL {
			return e.cell(ld.X)
		}
		return nil
	}
	ca, cb := cellOf(a.X), cellOf(b.X)
	if (ca == nil || ca != cb) && !(a.X == b.X && ca == nil && cb == nil) {
		return false
	}
	if a.Y == b.Y {
		return true
	}
	ka, oka := constInt(a.Y)
	kb, okb := constInt(b.Y)
	return oka && okb && ka == kb
}

func c13ConstInt64(c *types.Const) (int64, bool) {
	s := c.Val().ExactString()
	var v int64
	_, err := fmt.Sscanf(s, "%d", &v)
	return v, err == nil
}

// C13-R6: no explicit panic and no unchecked type assertion on values that are not provably local.
func c13r6(c *Ctx) {
	const rule = "C13-R6"
	c.Doc(rule, "library code contains no call of the panic builtin, and every single-result type assertion is on a value whose dynamic type the library fixed itself (tls.Conn.NetConn() of a connection every stored instance of which was built by tls.Client/tls.Server over the asserted type)")
	e := c13Taint(c.Prog)
	nTA, nUnchecked, nFns := 0, 0, 0
	ord := map[string]int{}
	for _, fn := range e.fns {
		nFns++
		allInstrs(fn, func(_ *ssa.BasicBlock, _ int, in ssa.Instruction) {
			switch x := in.(type) {
			case *ssa.Panic:
				// go/ssa also emits position-less Panic instructions of its own (the impossible
				// fall-through of a blocking select); only source-level panic(...) calls count
				if !x.Pos().IsValid() {
					return
				}
				ord["p"+fnName(fn)]++
				c.Violate(rule, fmt.Sprintf("%s#panic%d", fnName(fn), ord["p"+fnName(fn)]), "explicit panic in library code", in.Pos())
			case ssa.CallInstruction:
				// go panic(..) / defer panic(..)
				if b, ok := x.Common().Value.(*ssa.Builtin); ok && b.Name() == "panic" {
					ord["p"+fnName(fn)]++
					c.Violate(rule, fmt.Sprintf("%s#panic%d", fnName(fn), ord["p"+fnName(fn)]), "explicit panic in library code", in.Pos())
				}
			case *ssa.TypeAssert:
				nTA++
				if x.CommaOk {
					return
				}
				nUnchecked++
				ord["a"+fnName(fn)]++
				key := fmt.Sprintf("%s#assert%d", fnName(fn), ord["a"+fnName(fn)])
				if why, ok := c13LocalDynType(c.Prog, fn, x); ok {
					c.Ok(rule, key, "unchecked assertion on a locally fixed dynamic type: "+why, x.Pos())
				} else {
					c.Violate(rule, key, "single-result type assertion ("+types.TypeString(x.AssertedType, nil)+") on a value whose dynamic type the library does not fix: a mismatch panics ("+why+")", x.Pos())
				}
			}
		})
	}
	c.MinCount(rule, "library functions scanned", nFns, 50)
	c.MinCount(rule, "type assertions inspected", nTA, 1)
	c.Note("%s: %d single-result type assertion(s) (none is required)", rule, nUnchecked)
}

// c13NetConnField: v is conn.NetConn() on a *tls.Conn loaded from a struct field - directly, or as what a
// module helper returns on every path ("func (c *X) transport() net.Conn { return c.tlsConn.NetConn() }"):
// that field.
func c13NetConnField(v ssa.Value, depth int) (*types.Var, string) {
	call, ok := v.(*ssa.Call)
	if !ok {
		return nil, "operand is not a call result"
	}
	o := calleeObj(call)
	if o != nil && o.Pkg() != nil && o.Pkg().Path() == "crypto/tls" && o.Name() == "NetConn" && len(call.Call.Args) == 1 {
		_, f, isField := fieldRead(call.Call.Args[0])
		if !isField {
			return nil, "the tls.Conn is not loaded from a struct field"
		}
		return f, ""
	}
	g := calleeFn(call)
	if g == nil || g.Blocks == nil || fnPkg(g) == nil || !inModule(fnPkg(g).Path()) || depth > 2 {
		return nil, "operand is not (*tls.Conn).NetConn()"
	}
	var f *types.Var
	for _, b := range g.Blocks {
		if len(b.Instrs) == 0 {
			continue
		}
		ret, ok := b.Instrs[len(b.Instrs)-1].(*ssa.Return)
		if !ok {
			continue
		}
		if len(ret.Results) != 1 {
			return nil, "operand is not (*tls.Conn).NetConn()"
		}
		for _, o := range origins(g, ret.Results[0]) {
			rf, why := c13NetConnField(o, depth+1)
			if rf == nil || (f != nil && rf != f) {
				if why == "" {
					why = "the helper returns connections of different fields"
				}
				return nil, why
			}
			f = rf
		}
	}
	if f == nil {
		return nil, "operand is not (*tls.Conn).NetConn()"
	}
	return f, ""
}

// c13LocalDynType recognises x.(T) where x = conn.NetConn() on a *tls.Conn loaded from a struct field
// every store to which (in the module) is nil or tls.Client/tls.Server(MakeInterface(value of type T), ...).
func c13LocalDynType(p *Prog, fn *ssa.Function, ta *ssa.TypeAssert) (string, bool) {
	f, why := c13NetConnField(ta.X, 0)
	if f == nil {
		return why, false
	}
	n := 0
	for _, a := range p.fieldAccesses(f) {
		fa, ok := a.Instr.(*ssa.FieldAddr)
		if !ok {
			continue
		}
		for _, r := range *fa.Referrers() {
			st, ok := r.(*ssa.Store)
			if !ok || st.Addr != ssa.Value(fa) {
				continue
			}
			if isNilConst(st.Val) {
				continue
			}
			mk, ok := st.Val.(*ssa.Call)
			if !ok {
				return "field " + f.Name() + " is assigned something other than a tls.Client/tls.Server result at " + p.Pos(st.Pos()), false
			}
			mo := calleeObj(mk)
			if mo == nil || mo.Pkg() == nil || mo.Pkg().Path() != "crypto/tls" || (mo.Name() != "Client" && mo.Name() != "Server") {
				return "field " + f.Name() + " is assigned something other than a tls.Client/tls.Server result at " + p.Pos(st.Pos()), false
			}
			mi, ok := mk.Call.Args[0].(*ssa.MakeInterface)
			if !ok || !types.Identical(mi.X.Type(), ta.AssertedType) {
				return "the transport given to tls." + mo.Name() + " at " + p.Pos(mk.Pos()) + " is not of the asserted type", false
			}
			n++
		}
	}
	if n == 0 {
		return "no construction of field " + f.Name() + " found", false
	}
	return fmt.Sprintf("field %s is only ever set to tls.Client/Server over %s (%d site(s))", f.Name(), types.TypeString(ta.AssertedType, nil), n), true
}
