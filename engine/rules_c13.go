package main

import (
	"fmt"
	"go/token"
	"go/types"
	"sort"
	"strings"

	"golang.org/x/tools/go/ssa"
)

func init() { register("C13", c13r1, c13r2, c13r3, c13r4, c13r5, c13r6) }

// C13-R1: peer-controlled integers reaching sizes, bounds and indexes are bounded.
func c13r1(c *Ctx) {
	const rule = "C13-R1"
	c.Doc(rule, "T-TNT: every make/Grow size, slice bound and index operand that carries a peer-controlled integer is bounded above on the dominating path (constant, len/cap, non-peer value, checked ensureData) and, when signed, below")
	e := c13Taint(c.Prog)
	n := 0
	for _, s := range e.sinks() {
		n++
		switch {
		case s.T.hi:
			c.Violate(rule, s.Key, fmt.Sprintf("%s operand is a peer-controlled integer with no upper bound on the path (source: %s)", s.Kind, s.T.why), s.Instr.Pos())
		case s.T.lo:
			c.Violate(rule, s.Key, fmt.Sprintf("%s operand is a peer-controlled signed integer that may be negative here (source: %s)", s.Kind, s.T.why), s.Instr.Pos())
		default:
			c.Ok(rule, s.Key, fmt.Sprintf("%s operand from %s is bounded on every path", s.Kind, s.Raw.why), s.Instr.Pos())
		}
	}
	for _, l := range e.lostArgs {
		c.Undecided(rule, fnName(l.fn)+"#lost", "unbounded peer integer passed to a "+l.what+" that cannot be followed (source: "+l.t.why+")", l.call.Pos())
	}
	c.Note("%s: taint fixpoint in %d rounds over %d library functions (call-graph index %.1fs, fixpoint %.1fs); source call sites: %v", rule, e.rounds, len(e.fns), e.tInvoke.Seconds(), e.tFix.Seconds(), e.sourceSites)
	c.Note("%s: not followed (stated, not claimed): integer elements of slices and maps, integers written through pointers by code outside the module (encoding/json, binary.Read), offsets derived from strings.Index in the text parsers (bounded by the string they index)", rule)
	c.MinCount(rule, "sink operands carrying peer integers", n, 6)
	nsrc := 0
	for _, k := range e.sourceSites {
		nsrc += k
	}
	c.MinCount(rule, "source call sites (Get*, binary.Uint*, strconv, ClassAd integers)", nsrc, 60)
}

// c13StringReader: a library function (*Message, ...) (string, error) — what the ClassAd receivers read
// expressions with. At end of message these either fail or (the plaintext readers) return "".
func c13StringReader(g *ssa.Function) bool {
	if g == nil || len(g.Params) == 0 {
		return false
	}
	res := g.Signature.Results()
	if res.Len() != 2 || !isErrorType(res.At(1).Type()) {
		return false
	}
	if b, ok := res.At(0).Type().Underlying().(*types.Basic); !ok || b.Kind() != types.String {
		return false
	}
	pt, ok := g.Params[0].Type().(*types.Pointer)
	if !ok {
		return false
	}
	nt, ok := pt.Elem().(*types.Named)
	return ok && nt.Obj().Name() == "Message" && nt.Obj().Pkg() != nil && nt.Obj().Pkg().Path() == ModPath+"/message"
}

// C13-R2: a loop whose trip count is an unbounded peer integer stops when the input is exhausted.
func c13r2(c *Ctx) {
	const rule = "C13-R2"
	c.Doc(rule, "every loop whose exit comparison involves an unbounded peer-controlled integer passes, on each iteration, the nil-error edge of a call that fails at end of input (ensureData(k>=1), io.ReadFull, Read, or a module function all of whose success returns pass one), or of a validator that rejects the empty string the swallowing string readers return at end of message")
	e := c13Taint(c.Prog)
	ensure := c.needFn(rule, "message", "(*Message).ensureData")
	if ensure == nil {
		return
	}
	c.Check(len(ensure.Params) == 3 && e.ubOnSuccess(ensure, 2, 0), rule, "ensureData#success=>buffered>=needed",
		"ensureData returns nil only when the buffer holds the demanded bytes", "ensureData can return nil without the demanded bytes being buffered (base fact of R1/R2 broken)", ensure.Pos())
	q := &c13EOM{e: e, ensure: ensure, memo: map[*ssa.Function]int{}}
	n := 0
	for _, fn := range e.fns {
		for _, l := range c13Loops(fn) {
			if l.programBounded(e) {
				continue
			}
			tainted, unbounded := false, false
			why := ""
			var pos token.Pos
			for _, ifi := range l.exitConds() {
				a := condAtom(ifi.Cond)
				if a.Op == token.ILLEGAL || a.Y == nil {
					continue
				}
				for _, op := range []ssa.Value{a.X, a.Y} {
					if !c13IsNum(op.Type()) {
						continue
					}
					if raw := e.eval(op); raw.hi {
						tainted = true
						pos = ifi.Cond.Pos()
						if why == "" {
							why = raw.why
						}
						if e.use(op, ifi).hi {
							unbounded = true
						}
					}
				}
			}
			if !tainted {
				continue
			}
			n++
			if !pos.IsValid() {
				pos = c13BlockPos(l.Header)
			}
			if !unbounded {
				c.Ok(rule, l.Key, "trip count from "+why+" is bounded before the loop", pos)
				continue
			}
			cuts := q.cutsIn(fn, l.Blocks, 0)
			// validators that reject the "" a swallowing reader returns at end of message
			for b := range l.Blocks {
				for _, in := range b.Instrs {
					call, ok := in.(*ssa.Call)
					if !ok {
						continue
					}
					g := calleeFn(call)
					if g == nil || !e.inLib[g] {
						continue
					}
					for i, arg := range call.Call.Args {
						if bt, ok := arg.Type().Underlying().(*types.Basic); !ok || bt.Kind() != types.String {
							continue
						}
						all := true
						os := origins(fn, arg)
						for _, o := range os {
							oc, idx := originCall(o)
							if oc == nil || idx != 0 || !c13StringReader(calleeFn(oc)) {
								all = false
							}
						}
						if all && len(os) > 0 && c13RejectsEmpty(c.Prog, g, i) {
							if succ, _, checked := callErrEdges(fn, call); checked {
								cuts.AddEdges(succ...)
							}
						}
					}
				}
			}
			if path := l.cycleAvoiding(cuts); path != nil {
				c.Violate(rule, l.Key, "loop bounded only by a peer-controlled integer ("+why+") can iterate without any call that fails at end of input: it spins (and may grow memory) for a count the peer chose", pos, c.describePath(path)...)
			} else {
				c.Ok(rule, l.Key, "every iteration passes a call that fails once the input is exhausted (trip count from "+why+")", pos)
			}
		}
	}
	// record, per Message read primitive, whether end of message is an error (evidence)
	var sw, er []string
	for _, fn := range e.fns {
		if fn.Parent() != nil || len(fn.Params) == 0 || fn.Object() == nil || !fn.Object().Exported() {
			continue
		}
		if !strings.HasPrefix(fnName(fn), "(*message.Message).") || !(strings.HasPrefix(fn.Name(), "Get") || strings.HasPrefix(fn.Name(), "Skip")) {
			continue
		}
		if q.errsAtEOM(fn, 0) {
			er = append(er, fn.Name())
		} else {
			sw = append(sw, fn.Name())
		}
	}
	sort.Strings(sw)
	sort.Strings(er)
	c.Note("%s: Message readers that fail at end of message: %v; readers that may return success at end of message: %v", rule, er, sw)
	c.MinCount(rule, "loops with a peer-controlled trip count", n, 8)
}

// c13EntryPoint: exported library functions through which peer bytes enter a decoder.
func c13EntryPoint(fn *ssa.Function) bool {
	if fn.Parent() != nil || fn.Object() == nil || !fn.Object().Exported() {
		return false
	}
	if recv := fn.Signature.Recv(); recv != nil {
		t := recv.Type()
		if pt, ok := t.(*types.Pointer); ok {
			t = pt.Elem()
		}
		if nt, ok := t.(*types.Named); ok && !nt.Obj().Exported() {
			return false
		}
	}
	n := fn.Name()
	for _, pre := range []string{"Get", "Receive", "Read", "Skip", "Parse", "Import", "Verify", "Decode", "Code", "NewStreamWithCryptoState",
		"ServerHandshake", "ClientHandshake", "ServeConn", "Serve", "Accept", "Dial", "Connect", "Handle", "Start", "Listen", "Unmarshal", "Split", "Normalize", "Extract"} {
		if strings.HasPrefix(n, pre) {
			return true
		}
	}
	return false
}

// c13Graph: call edges between library functions: static callees and closures created, plus the
// dynamic edges (interface invokes, func values) of the VTA call graph.
func c13Graph(e *c13Engine) map[*ssa.Function][]c13CallEdge {
	g := map[*ssa.Function][]c13CallEdge{}
	cg := e.p.CG()
	for _, fn := range e.fns {
		allInstrs(fn, func(_ *ssa.BasicBlock, _ int, in ssa.Instruction) {
			if mc, ok := in.(*ssa.MakeClosure); ok {
				if h, ok := mc.Fn.(*ssa.Function); ok && e.inLib[h] {
					g[fn] = append(g[fn], c13CallEdge{h, nil, mc})
				}
			}
			if call, ok := in.(ssa.CallInstruction); ok {
				if h := calleeFn(call); h != nil && h.Blocks != nil && e.inLib[h] {
					g[fn] = append(g[fn], c13CallEdge{h, call, in})
				}
			}
		})
		if n := cg.Nodes[fn]; n != nil {
			for _, ed := range n.Out {
				if ed.Site == nil || calleeFn(ed.Site) != nil {
					continue
				}
				if h := ed.Callee.Func; h != nil && h.Blocks != nil && e.inLib[h] {
					g[fn] = append(g[fn], c13CallEdge{h, ed.Site, ed.Site.(ssa.Instruction)})
				}
			}
		}
	}
	return g
}

type c13CallEdge struct {
	To   *ssa.Function
	Call ssa.CallInstruction // nil for closure creation
	At   ssa.Instruction
}

// C13-R3: no unbounded recursion on the decode paths.
func c13r3(c *Ctx) {
	const rule = "C13-R3"
	c.Doc(rule, "T-REC: in the call graph of library functions reachable from the decoder entry points (static calls, closures, VTA-resolved dynamic calls) every cycle has, at each of its recursive call sites, a visibly decreasing argument (strict sub-slice of a parameter, parameter minus a positive constant, or parameter plus a constant under a dominating upper bound)")
	e := c13Taint(c.Prog)
	g := c13Graph(e)
	var roots []*ssa.Function
	for _, fn := range e.fns {
		if c13EntryPoint(fn) {
			roots = append(roots, fn)
		}
	}
	reach := map[*ssa.Function]bool{}
	work := append([]*ssa.Function{}, roots...)
	for len(work) > 0 {
		f := work[len(work)-1]
		work = work[:len(work)-1]
		if reach[f] {
			continue
		}
		reach[f] = true
		for _, ed := range g[f] {
			work = append(work, ed.To)
		}
	}
	// Tarjan
	index := map[*ssa.Function]int{}
	low := map[*ssa.Function]int{}
	on := map[*ssa.Function]bool{}
	var stack []*ssa.Function
	var sccs [][]*ssa.Function
	next := 0
	var strong func(v *ssa.Function)
	strong = func(v *ssa.Function) {
		next++
		index[v], low[v] = next, next
		stack = append(stack, v)
		on[v] = true
		for _, ed := range g[v] {
			w := ed.To
			if !reach[w] {
				continue
			}
			if index[w] == 0 {
				strong(w)
				if low[w] < low[v] {
					low[v] = low[w]
				}
			} else if on[w] && index[w] < low[v] {
				low[v] = index[w]
			}
		}
		if low[v] == index[v] {
			var comp []*ssa.Function
			for {
				w := stack[len(stack)-1]
				stack = stack[:len(stack)-1]
				on[w] = false
				comp = append(comp, w)
				if w == v {
					break
				}
			}
			sccs = append(sccs, comp)
		}
	}
	var ordered []*ssa.Function
	for f := range reach {
		ordered = append(ordered, f)
	}
	sort.Slice(ordered, func(i, j int) bool { return fnName(ordered[i]) < fnName(ordered[j]) })
	for _, f := range ordered {
		if index[f] == 0 {
			strong(f)
		}
	}
	cycles := 0
	for _, comp := range sccs {
		in := map[*ssa.Function]bool{}
		for _, f := range comp {
			in[f] = true
		}
		self := false
		for _, ed := range g[comp[0]] {
			if ed.To == comp[0] {
				self = true
			}
		}
		if len(comp) == 1 && !self {
			continue
		}
		cycles++
		sort.Slice(comp, func(i, j int) bool { return fnName(comp[i]) < fnName(comp[j]) })
		var names []string
		for _, f := range comp {
			names = append(names, fnName(f))
		}
		key := "cycle:" + strings.Join(names, ",")
		var bad []string
		var pos token.Pos
		for _, f := range comp {
			for _, ed := range g[f] {
				if !in[ed.To] {
					continue
				}
				if ed.Call == nil || !c13Decreasing(e, f, ed.Call) {
					bad = append(bad, fmt.Sprintf("%s -> %s at %s", fnName(f), fnName(ed.To), c.Pos(ed.At.Pos())))
					if !pos.IsValid() {
						pos = ed.At.Pos()
					}
				}
			}
		}
		if len(bad) == 0 {
			c.Ok(rule, key, "every recursive call passes a strictly smaller argument", comp[0].Pos())
		} else {
			c.Violate(rule, key, "recursion without a visible decreasing measure: each round of peer input can add a stack frame (Go's stack overflow is fatal, not recoverable)", pos, bad...)
		}
	}
	c.Note("%s: %d entry points, %d reachable library functions, %d call-graph cycles", rule, len(roots), len(reach), cycles)
	// the decoders the property names must be inside the analysed set (no vacuous pass when there is no cycle)
	for _, a := range [][2]string{{"stream", "(*Stream).readNextFrame"}, {"stream", "(*Stream).ReceiveCompleteMessage"}, {"stream", "(*Stream).ReceiveFrameWithEnd"},
		{"message", "(*Message).ensureData"}, {"message", "getClassAdFromMessageWithMaxSize"}, {"message", "parseAndInsertExpression"}, {"message", "(*Message).discard"},
		{"security", "(*CEDARTLSConnection).receiveMessage"}, {"security", "(*Authenticator).exchangeKey"}, {"security", "(*Authenticator).receiveTokenStep2"},
		{"security", "(*Authenticator).kerberosReadRequest"}, {"security", "ParseClaimIDStrict"}, {"security", "ImportSessionInfoAttributes"}, {"addresses", "ParseSinful"},
		{"client/sharedport", "readPassSockHeader"}, {"version", "Parse"}, {"watch", "DecodeHeader"}} {
		if f := c.needFn(rule, a[0], a[1]); f != nil && !reach[f] {
			c.Undecided(rule, "reachable:"+fnName(f), "decoder is not reachable from the entry points in the rule's call graph: recursion through it would go unnoticed", f.Pos())
		}
	}
	c.MinCount(rule, "decoder entry points", len(roots), 60)
	c.MinCount(rule, "library functions reachable from the entry points", len(reach), 300)
}

// c13Decreasing: some argument of the recursive call is strictly smaller than a parameter of the caller.
func c13Decreasing(e *c13Engine, f *ssa.Function, call ssa.CallInstruction) bool {
	isParam := func(v ssa.Value) bool {
		for _, o := range origins(f, v) {
			if _, ok := o.(*ssa.Parameter); !ok {
				return false
			}
		}
		return true
	}
	for _, a := range call.Common().Args {
		switch x := a.(type) {
		case *ssa.Slice:
			if isParam(x.X) && x.Low != nil {
				if n, ok := constInt(x.Low); !ok || n > 0 {
					return true
				}
			}
		case *ssa.BinOp:
			if !c13IsInt(x.Type()) {
				continue
			}
			if n, ok := constInt(x.Y); ok && isParam(x.X) {
				if (x.Op == token.SUB && n > 0) || (x.Op == token.ADD && n < 0) {
					return true
				}
				if x.Op == token.ADD && n > 0 {
					// depth+1 under a dominating "depth < max" test
					t := c13T{hi: true}
					if !e.sanitise(t, x.X, call.(ssa.Instruction), nil, 0).hi {
						return true
					}
				}
			}
		}
	}
	return false
}

// c13Caps classifies the string readers of the message package: uncapped (reach GetString) and
// capped (hand an int parameter down to GetStringWithMaxSize as the limit and read nothing uncapped).
type c13Caps struct {
	e        *c13Engine
	getStr   *ssa.Function
	getStrMx *ssa.Function
	unc      map[*ssa.Function]int
}

func (k *c13Caps) uncapped(g *ssa.Function, depth int) bool {
	if g == k.getStr {
		return true
	}
	if g == nil || g == k.getStrMx || g.Blocks == nil || !k.e.inLib[g] || depth > 4 {
		return false
	}
	switch k.unc[g] {
	case 1, 3:
		return false
	case 2:
		return true
	}
	k.unc[g] = 1
	r := false
	allInstrs(g, func(_ *ssa.BasicBlock, _ int, in ssa.Instruction) {
		if call, ok := in.(ssa.CallInstruction); ok && !r {
			if h := calleeFn(call); h != nil && k.uncapped(h, depth+1) {
				r = true
			}
		}
	})
	if r {
		k.unc[g] = 2
	} else {
		k.unc[g] = 3
	}
	return r
}

// capped: the index of the argument that is the byte limit, or -1.
func (k *c13Caps) capped(g *ssa.Function, depth int) int {
	if g == k.getStrMx {
		return 2
	}
	if g == nil || g.Blocks == nil || !k.e.inLib[g] || depth > 3 || k.uncapped(g, 0) {
		return -1
	}
	res := -1
	allInstrs(g, func(_ *ssa.BasicBlock, _ int, in ssa.Instruction) {
		call, ok := in.(ssa.CallInstruction)
		if !ok || res >= 0 {
			return
		}
		h := calleeFn(call)
		j := k.capped(h, depth+1)
		if j < 0 || j >= len(call.Common().Args) {
			return
		}
		for i, p := range g.Params {
			if c13IsInt(p.Type()) && mustDepend(g, call.Common().Args[j], func(v ssa.Value) bool { return v == ssa.Value(p) }) {
				res = i
			}
		}
	})
	return res
}

// C13-R4: the capped readers use the capped primitives with the remaining budget everywhere.
func c13r4(c *Ctx) {
	const rule = "C13-R4"
	c.Doc(rule, "in getClassAdFromMessageWithMaxSize no uncapped string read (GetString or a helper reaching it) is reachable unless maxSize <= 0; every capped read gets a limit that depends on maxSize, is known positive, and accounts for the length of every earlier capped read; inside GetStringWithMaxSize every ensureData demand and make size is bounded by maxSize; library packages other than message read ClassAds only through GetClassAdWithMaxSize with a positive constant cap")
	e := c13Taint(c.Prog)
	fn := c.needFn(rule, "message", "getClassAdFromMessageWithMaxSize")
	gs := c.needFn(rule, "message", "(*Message).GetString")
	gsm := c.needFn(rule, "message", "(*Message).GetStringWithMaxSize")
	ensure := c.needFn(rule, "message", "(*Message).ensureData")
	if fn == nil || gs == nil || gsm == nil || ensure == nil {
		return
	}
	k := &c13Caps{e: e, getStr: gs, getStrMx: gsm, unc: map[*ssa.Function]int{}}
	intParam := func(f *ssa.Function, name string) *ssa.Parameter {
		var only *ssa.Parameter
		n := 0
		for _, p := range f.Params {
			if c13IsInt(p.Type()) {
				n++
				only = p
				if p.Name() == name {
					return p
				}
			}
		}
		if n == 1 {
			return only
		}
		return nil
	}
	maxSize := intParam(fn, "maxSize")
	if maxSize == nil {
		c.Undecided(rule, fnName(fn)+"#maxSize", "cannot identify the size-cap parameter", fn.Pos())
		return
	}
	// edges on which maxSize <= 0 (the unlimited mode)
	off := newCuts()
	for _, b := range fn.Blocks {
		ifi := blockIf(b)
		if ifi == nil {
			continue
		}
		a := condAtom(ifi.Cond)
		if a.X != ssa.Value(maxSize) {
			continue
		}
		z, ok := constInt(a.Y)
		if !ok || z != 0 {
			continue
		}
		switch a.Op {
		case token.GTR: // maxSize > 0: false edge is "off"
			if a.Neg {
				off.AddEdges(Edge{b, 0})
			} else {
				off.AddEdges(Edge{b, 1})
			}
		case token.LEQ:
			if a.Neg {
				off.AddEdges(Edge{b, 1})
			} else {
				off.AddEdges(Edge{b, 0})
			}
		}
	}
	c.MinCount(rule, "maxSize > 0 tests", len(off.Edges), 3)
	// (a) uncapped reads only in unlimited mode
	ord := map[string]int{}
	type capRead struct {
		call  *ssa.Call
		limit ssa.Value
		key   string
	}
	var capReads []capRead
	nUnc := 0
	var calls []*ssa.Call
	allInstrs(fn, func(_ *ssa.BasicBlock, _ int, in ssa.Instruction) {
		if call, ok := in.(*ssa.Call); ok && calleeFn(call) != nil {
			calls = append(calls, call)
		}
	})
	sort.SliceStable(calls, func(i, j int) bool { return calls[i].Pos() < calls[j].Pos() })
	for _, call := range calls {
		g := calleeFn(call)
		if k.uncapped(g, 0) {
			nUnc++
			ord[g.Name()]++
			key := fmt.Sprintf("%s#uncapped:%s%d", fnName(fn), g.Name(), ord[g.Name()])
			if path := findPath(entryPoint(fn), Target{Instr: call}, off); path != nil {
				c.Violate(rule, key, "uncapped string read ("+g.Name()+") is reachable while a size cap is in force (maxSize > 0): the peer can make the capped reader buffer an arbitrarily large value", call.Pos(), c.describePath(path)...)
			} else {
				c.Ok(rule, key, "reachable only when maxSize <= 0", call.Pos())
			}
			continue
		}
		if j := k.capped(g, 0); j >= 0 && j < len(call.Call.Args) {
			ord["cap"]++
			capReads = append(capReads, capRead{call, call.Call.Args[j], fmt.Sprintf("%s#capped%d", fnName(fn), ord["cap"])})
		}
	}
	c.MinCount(rule, "uncapped read sites in the capped ClassAd reader", nUnc, 3)
	// (b) limits of the capped reads
	var lens []*ssa.Call
	allInstrs(fn, func(_ *ssa.BasicBlock, _ int, in ssa.Instruction) {
		if lc, ok := in.(*ssa.Call); ok {
			if b, ok := lc.Call.Value.(*ssa.Builtin); ok && b.Name() == "len" && len(lc.Call.Args) == 1 {
				lens = append(lens, lc)
			}
		}
	})
	for _, r := range capReads {
		dep := mustDepend(fn, r.limit, func(v ssa.Value) bool { return v == ssa.Value(maxSize) })
		c.Check(dep, rule, r.key+"#limit<-maxSize", "limit depends on maxSize", "the limit of this capped read does not depend on maxSize", r.call.Pos())
		pos := !e.sanitise(c13T{lo: true}, r.limit, r.call, nil, 0).lo
		c.Check(pos, rule, r.key+"#limit>0", "a dominating test guarantees a positive remaining budget", "no dominating test that the remaining budget is positive (GetStringWithMaxSize reads nothing for a limit <= 0, so the loop would stop consuming but keep going)", r.call.Pos())
		for _, a := range capReads {
			// only reads that can be followed by this one (an earlier read, or the same one on a later iteration)
			if findPath(after(a.call), Target{Instr: r.call}, nil) == nil {
				continue
			}
			res := extractN(a.call, 0)
			acc := false
			for _, lc := range lens {
				if res == nil || !mentionsValue(r.limit, lc) {
					continue
				}
				for _, o := range origins(fn, lc.Call.Args[0]) {
					if o == res {
						acc = true
					}
				}
			}
			c.Check(acc, rule, r.key+"#accounts:"+strings.TrimPrefix(a.key, fnName(fn)+"#"), "the limit is reduced by the length of the earlier read", "the limit does not account for the bytes consumed by the earlier capped read "+c.Pos(a.call.Pos())+": the cap is per string, not per ClassAd", r.call.Pos())
		}
	}
	c.MinCount(rule, "capped read sites in the capped ClassAd reader", len(capReads), 3)
	// (c) inside GetStringWithMaxSize nothing larger than maxSize is demanded or allocated
	if mx := intParam(gsm, "maxSize"); mx == nil {
		c.Undecided(rule, fnName(gsm)+"#maxSize", "cannot identify the size-cap parameter", gsm.Pos())
	} else {
		n := 0
		no := map[string]int{}
		allInstrs(gsm, func(_ *ssa.BasicBlock, _ int, in ssa.Instruction) {
			var v ssa.Value
			kind := ""
			switch x := in.(type) {
			case *ssa.MakeSlice:
				v, kind = x.Len, "make"
			case *ssa.Call:
				if calleeFn(x) == ensure && len(x.Call.Args) == 3 {
					v, kind = x.Call.Args[2], "ensureData"
				}
			}
			if v == nil {
				return
			}
			n++
			no[kind]++
			key := fmt.Sprintf("%s#%s%d<=maxSize", fnName(gsm), kind, no[kind])
			c.Check(e.boundedBy(v, in, nil, mx, 0), rule, key, "operand is a constant or bounded by maxSize", "operand is not bounded by maxSize: more than the cap can be buffered for one string", in.Pos())
		})
		c.MinCount(rule, "ensureData/make sites in GetStringWithMaxSize", n, 3)
	}
	// (d) who reads ClassAds uncapped outside the message package
	capFn := c.needFn(rule, "message", "(*Message).GetClassAdWithMaxSize")
	var uncReaders []types.Object
	for _, name := range []string{"(*Message).GetClassAd", "(*Message).GetClassAdRaw", "(*Message).GetClassAdRawBody", "(*Message).SkipClassAdRaw"} {
		if f := c.needFn(rule, "message", name); f != nil {
			uncReaders = append(uncReaders, f.Object())
		}
	}
	if capFn != nil {
		n := 0
		for _, cs := range c.callSites(capFn.Object()) {
			pk := fnPkg(cs.Fn)
			if pk == nil || !libPkg(pk.Path()) || pk.Path() == ModPath+"/message" {
				continue
			}
			n++
			args := cs.Call.Common().Args
			capv, ok := constInt(args[len(args)-1])
			ord[fnName(topFn(cs.Fn))]++
			key := fmt.Sprintf("%s#GetClassAdWithMaxSize%d", fnName(topFn(cs.Fn)), ord[fnName(topFn(cs.Fn))])
			c.Check(ok && capv > 0, rule, key, fmt.Sprintf("constant cap %d", capv), "the cap is not a positive compile-time constant (0 or less means unlimited)", cs.Call.Pos())
		}
		c.MinCount(rule, "GetClassAdWithMaxSize call sites in library packages", n, 6)
		for _, cs := range c.callSites(uncReaders...) {
			pk := fnPkg(cs.Fn)
			if pk == nil || !libPkg(pk.Path()) || pk.Path() == ModPath+"/message" {
				continue
			}
			c.Violate(rule, fnName(topFn(cs.Fn))+"#uncapped-classad-read", "library code reads a ClassAd from the peer without a size cap", cs.Call.Pos())
		}
	}
}

// C13-R5: frame-level and blob-level limits are checked before allocation / slicing.
func c13r5(c *Ctx) {
	const rule = "C13-R5"
	c.Doc(rule, "in ReceiveFrame and ReceiveFrameWithEnd the payload allocation is dominated by the wire-length <= MaxMessageSize test (that very constant) and by the end-flag range test; in NewStreamWithCryptoState every slice/index of the blob is dominated by len(blob) >= K with K >= the constant number of bytes the fixed part consumes, and in its variable-field reader every blob slice bound off+x is dominated by a test of off+x against len(blob) with no write to off in between")
	e := c13Taint(c.Prog)
	maxObj, _ := c.needObj(rule, "stream", "MaxMessageSize").(*types.Const)
	n := 0
	for _, name := range []string{"(*Stream).ReceiveFrame", "(*Stream).ReceiveFrameWithEnd"} {
		fn := c.needFn(rule, "stream", name)
		if fn == nil || maxObj == nil {
			continue
		}
		maxV, _ := c13ConstInt64(maxObj)
		facts := e.factsOf(fn)
		allInstrs(fn, func(_ *ssa.BasicBlock, _ int, in ssa.Instruction) {
			ms, ok := in.(*ssa.MakeSlice)
			if !ok {
				return
			}
			if _, isC := ms.Len.(*ssa.Const); isC {
				return
			}
			// the wire length: the make size must come from a binary.*.Uint32 of the header
			var wire ssa.Value
			for _, o := range origins(fn, ms.Len) {
				if call, ok := o.(*ssa.Call); ok {
					if f := calleeObj(call); f != nil && f.Pkg() != nil && f.Pkg().Path() == "encoding/binary" {
						wire = call
					}
				}
			}
			if wire == nil {
				return
			}
			n++
			key := fnName(fn) + "#payload-alloc"
			okMax := false
			for _, f := range facts[wire] {
				if f.ub && f.by != nil && e.dominates(f.edge, ms, nil) {
					if v, isC := constInt(f.by); isC && v == maxV {
						okMax = true
					}
				}
			}
			c.Check(okMax, rule, key+"<=MaxMessageSize", "allocation dominated by wire length <= MaxMessageSize", "the payload allocation is not dominated by a test of the wire length against MaxMessageSize", ms.Pos())
			// end flag: a byte loaded from the same header buffer at index 0, range-tested before the allocation
			okFlag := false
			for v, fs := range facts {
				ld, isLd := v.(*ssa.UnOp)
				if !isLd || ld.Op != token.MUL {
					continue
				}
				ia, isIA := ld.X.(*ssa.IndexAddr)
				if !isIA {
					continue
				}
				if idx, isC := constInt(ia.Index); !isC || idx != 0 {
					continue
				}
				for _, f := range fs {
					if _, isC := constInt(f.by); f.ub && f.by != nil && isC && e.dominates(f.edge, ms, nil) {
						okFlag = true
					}
				}
			}
			c.Check(okFlag, rule, key+"#endflag-range", "allocation dominated by the end-flag range test", "the payload allocation is not dominated by a range test of the end flag (header byte 0)", ms.Pos())
		})
	}
	c.MinCount(rule, "payload allocations in the frame receivers", n, 2)

	// blob import
	imp := c.needFn(rule, "stream", "NewStreamWithCryptoState")
	if imp == nil {
		return
	}
	var blob *ssa.Parameter
	for _, p := range imp.Params {
		if sl, ok := p.Type().Underlying().(*types.Slice); ok {
			if b, ok := sl.Elem().Underlying().(*types.Basic); ok && b.Kind() == types.Uint8 {
				blob = p
			}
		}
	}
	if blob == nil {
		c.Undecided(rule, fnName(imp)+"#blob", "cannot identify the blob parameter", imp.Pos())
		return
	}
	isBlob := func(fn *ssa.Function, v ssa.Value) bool {
		for _, o := range origins(fn, v) {
			if o == ssa.Value(blob) {
				return true
			}
			if ld, ok := o.(*ssa.UnOp); ok && ld.Op == token.MUL {
				if cell := e.cell(ld.X); cell != nil {
					// the closure's captured copy of the parameter
					for _, r := range *cell.Referrers() {
						if st, ok := r.(*ssa.Store); ok && st.Val == ssa.Value(blob) {
							return true
						}
					}
				}
			}
		}
		return false
	}
	isLenBlob := func(fn *ssa.Function, v ssa.Value) bool {
		call, ok := c13StripConv(v).(*ssa.Call)
		if !ok {
			return false
		}
		b, ok := call.Call.Value.(*ssa.Builtin)
		return ok && b.Name() == "len" && isBlob(fn, call.Call.Args[0])
	}
	// (i) the minimum-length guard and its constant
	var guard *Edge
	var guardK int64
	for _, b := range imp.Blocks {
		ifi := blockIf(b)
		if ifi == nil {
			continue
		}
		a := condAtom(ifi.Cond)
		if a.Op != token.LSS && a.Op != token.GEQ {
			continue
		}
		k, isC := constInt(a.Y)
		if !isC || !isLenBlob(imp, a.X) {
			continue
		}
		okEdge := 1 // len(blob) < K false edge
		if a.Op == token.GEQ {
			okEdge = 0
		}
		if a.Neg {
			okEdge = 1 - okEdge
		}
		if guard == nil || k > guardK {
			guard, guardK = &Edge{b, okEdge}, k
		}
	}
	if guard == nil {
		c.Violate(rule, fnName(imp)+"#min-length-guard", "no len(blob) >= constant guard in the importer", imp.Pos())
		return
	}
	nAcc := 0
	bad := 0
	allInstrs(imp, func(_ *ssa.BasicBlock, _ int, in ssa.Instruction) {
		var x ssa.Value
		switch y := in.(type) {
		case *ssa.Slice:
			x = y.X
		case *ssa.IndexAddr:
			x = y.X
		case *ssa.Index:
			x = y.X
		case *ssa.Lookup:
			x = y.X
		}
		if x == nil || !isBlob(imp, x) {
			return
		}
		nAcc++
		if !e.dominates(*guard, in, nil) {
			bad++
			c.Violate(rule, fmt.Sprintf("%s#blob-access%d", fnName(imp), nAcc), "blob is sliced/indexed before the minimum-length guard", in.Pos())
		}
	})
	if bad == 0 {
		c.Ok(rule, fnName(imp)+"#blob-accesses-after-guard", fmt.Sprintf("all %d fixed-part accesses to the blob follow len(blob) >= %d", nAcc, guardK), imp.Pos())
	}
	c.MinCount(rule, "fixed-part blob accesses", nAcc, 8)
	// (ii) bytes consumed by the fixed part: evaluate the stores to the offset cell along the straight line
	var offCell *ssa.Alloc
	allInstrs(imp, func(_ *ssa.BasicBlock, _ int, in ssa.Instruction) {
		if sl, ok := in.(*ssa.Slice); ok && isBlob(imp, sl.X) && sl.Low != nil {
			if ld, ok := sl.Low.(*ssa.UnOp); ok && ld.Op == token.MUL {
				if al, ok := ld.X.(*ssa.Alloc); ok {
					offCell = al
				}
			}
		}
	})
	if offCell == nil {
		c.Undecided(rule, fnName(imp)+"#offset-cell", "the running offset of the importer is not a local variable the rule can follow", imp.Pos())
	} else {
		var stores []*ssa.Store
		allInstrs(imp, func(_ *ssa.BasicBlock, _ int, in ssa.Instruction) {
			if st, ok := in.(*ssa.Store); ok && st.Addr == ssa.Value(offCell) {
				stores = append(stores, st)
			}
		})
		sort.SliceStable(stores, func(i, j int) bool {
			bi, bj := stores[i].Block(), stores[j].Block()
			if bi == bj {
				return pointOf(stores[i]).Idx < pointOf(stores[j]).Idx
			}
			return bi.Dominates(bj)
		})
		cur := int64(0)
		decided := true
		for i, st := range stores {
			if i > 0 && !(stores[i-1].Block() == st.Block() || stores[i-1].Block().Dominates(st.Block())) {
				decided = false
			}
			if v, isC := constInt(st.Val); isC {
				cur = v
				continue
			}
			bo, ok := st.Val.(*ssa.BinOp)
			if !ok || bo.Op != token.ADD {
				decided = false
				break
			}
			k, isC := constInt(bo.Y)
			ld, isLd := bo.X.(*ssa.UnOp)
			if !isC || !isLd || ld.X != ssa.Value(offCell) {
				decided = false
				break
			}
			cur += k
		}
		if !decided || len(stores) == 0 {
			c.Undecided(rule, fnName(imp)+"#fixed-length", "the fixed-part offset arithmetic is not a straight line of constant increments", imp.Pos())
		} else {
			c.Check(cur <= guardK, rule, fnName(imp)+"#fixed-length<=guard", fmt.Sprintf("fixed part consumes %d bytes, guard demands %d", cur, guardK), fmt.Sprintf("the fixed part consumes %d bytes but the guard only demands %d: a short blob is sliced out of range", cur, guardK), imp.Pos())
		}
		// (iii) the variable-field reader(s): closures that slice the blob at off+x
		nVar := 0
		for _, cl := range imp.AnonFuncs {
			allInstrs(cl, func(_ *ssa.BasicBlock, _ int, in ssa.Instruction) {
				sl, ok := in.(*ssa.Slice)
				if !ok || !isBlob(cl, sl.X) || sl.High == nil {
					return
				}
				nVar++
				key := fmt.Sprintf("%s#blob-slice%d", fnName(cl), nVar)
				hb, ok := sl.High.(*ssa.BinOp)
				if !ok || hb.Op != token.ADD {
					c.Undecided(rule, key, "slice bound is not of the form off+x", sl.Pos())
					return
				}
				guarded := false
				for _, b := range cl.Blocks {
					ifi := blockIf(b)
					if ifi == nil {
						continue
					}
					a := condAtom(ifi.Cond)
					gb, isAdd := a.X.(*ssa.BinOp)
					if !isAdd || gb.Op != token.ADD || !isLenBlob(cl, a.Y) || !c13SameAddend(e, gb, hb) {
						continue
					}
					okEdge := -1
					switch a.Op {
					case token.GTR:
						okEdge = 1
					case token.LEQ:
						okEdge = 0
					}
					if okEdge < 0 {
						continue
					}
					if a.Neg {
						okEdge = 1 - okEdge
					}
					ge := Edge{b, okEdge}
					if !e.dominates(ge, sl, nil) {
						continue
					}
					// no write to the offset between the test and the slice
					clean := true
					allInstrs(cl, func(_ *ssa.BasicBlock, _ int, x ssa.Instruction) {
						st, ok := x.(*ssa.Store)
						if !ok || e.cell(st.Addr) != ssa.Value(offCell) {
							return
						}
						if e.dominates(ge, st, nil) && (st.Block() != sl.Block() && st.Block().Dominates(sl.Block()) || st.Block() == sl.Block() && pointOf(st).Idx < pointOf(sl).Idx) {
							clean = false
						}
					})
					if clean {
						guarded = true
					}
				}
				c.Check(guarded, rule, key, "bound off+x tested against len(blob) on the dominating path", "blob[off:off+x] is not dominated by a test of off+x against len(blob): a truncated blob panics", sl.Pos())
			})
		}
		c.MinCount(rule, "variable-field blob slices", nVar, 2)
	}
}

// c13SameAddend: two sums load(cell)+x with the same cell and the same x (same SSA value or equal constants).
func c13SameAddend(e *c13Engine, a, b *ssa.BinOp) bool {
	cellOf := func(v ssa.Value) ssa.Value {
		if ld, ok := v.(*ssa.UnOp); ok && ld.Op == token.MUL {
			return e.cell(ld.X)
		}
		return nil
	}
	ca, cb := cellOf(a.X), cellOf(b.X)
	if ca == nil || ca != cb {
		return false
	}
	if a.Y == b.Y {
		return true
	}
	ka, oka := constInt(a.Y)
	kb, okb := constInt(b.Y)
	return oka && okb && ka == kb
}

func c13ConstInt64(c *types.Const) (int64, bool) {
	s := c.Val().ExactString()
	var v int64
	_, err := fmt.Sscanf(s, "%d", &v)
	return v, err == nil
}

// C13-R6: no explicit panic and no unchecked type assertion on values that are not provably local.
func c13r6(c *Ctx) {
	const rule = "C13-R6"
	c.Doc(rule, "library code contains no call of the panic builtin, and every single-result type assertion is on a value whose dynamic type the library fixed itself (tls.Conn.NetConn() of a connection every stored instance of which was built by tls.Client/tls.Server over the asserted type)")
	e := c13Taint(c.Prog)
	nTA, nUnchecked, nFns := 0, 0, 0
	ord := map[string]int{}
	for _, fn := range e.fns {
		nFns++
		allInstrs(fn, func(_ *ssa.BasicBlock, _ int, in ssa.Instruction) {
			switch x := in.(type) {
			case *ssa.Panic:
				// go/ssa also emits position-less Panic instructions of its own (the impossible
				// fall-through of a blocking select); only source-level panic(...) calls count
				if !x.Pos().IsValid() {
					return
				}
				ord["p"+fnName(fn)]++
				c.Violate(rule, fmt.Sprintf("%s#panic%d", fnName(fn), ord["p"+fnName(fn)]), "explicit panic in library code", in.Pos())
			case ssa.CallInstruction:
				// go panic(..) / defer panic(..)
				if b, ok := x.Common().Value.(*ssa.Builtin); ok && b.Name() == "panic" {
					ord["p"+fnName(fn)]++
					c.Violate(rule, fmt.Sprintf("%s#panic%d", fnName(fn), ord["p"+fnName(fn)]), "explicit panic in library code", in.Pos())
				}
			case *ssa.TypeAssert:
				nTA++
				if x.CommaOk {
					return
				}
				nUnchecked++
				ord["a"+fnName(fn)]++
				key := fmt.Sprintf("%s#assert%d", fnName(fn), ord["a"+fnName(fn)])
				if why, ok := c13LocalDynType(c.Prog, fn, x); ok {
					c.Ok(rule, key, "unchecked assertion on a locally fixed dynamic type: "+why, x.Pos())
				} else {
					c.Violate(rule, key, "single-result type assertion ("+types.TypeString(x.AssertedType, nil)+") on a value whose dynamic type the library does not fix: a mismatch panics ("+why+")", x.Pos())
				}
			}
		})
	}
	c.MinCount(rule, "library functions scanned", nFns, 400)
	c.MinCount(rule, "type assertions inspected", nTA, 10)
	c.MinCount(rule, "single-result type assertions", nUnchecked, 2)
}

// c13LocalDynType recognises x.(T) where x = conn.NetConn() on a *tls.Conn loaded from a struct field
// every store to which (in the module) is nil or tls.Client/tls.Server(MakeInterface(value of type T), ...).
func c13LocalDynType(p *Prog, fn *ssa.Function, ta *ssa.TypeAssert) (string, bool) {
	call, ok := ta.X.(*ssa.Call)
	if !ok {
		return "operand is not a call result", false
	}
	o := calleeObj(call)
	if o == nil || o.Pkg() == nil || o.Pkg().Path() != "crypto/tls" || o.Name() != "NetConn" || len(call.Call.Args) != 1 {
		return "operand is not (*tls.Conn).NetConn()", false
	}
	_, f, isField := fieldRead(call.Call.Args[0])
	if !isField {
		return "the tls.Conn is not loaded from a struct field", false
	}
	n := 0
	for _, a := range p.fieldAccesses(f) {
		fa, ok := a.Instr.(*ssa.FieldAddr)
		if !ok {
			continue
		}
		for _, r := range *fa.Referrers() {
			st, ok := r.(*ssa.Store)
			if !ok || st.Addr != ssa.Value(fa) {
				continue
			}
			if isNilConst(st.Val) {
				continue
			}
			mk, ok := st.Val.(*ssa.Call)
			if !ok {
				return "field " + f.Name() + " is assigned something other than a tls.Client/tls.Server result at " + p.Pos(st.Pos()), false
			}
			mo := calleeObj(mk)
			if mo == nil || mo.Pkg() == nil || mo.Pkg().Path() != "crypto/tls" || (mo.Name() != "Client" && mo.Name() != "Server") {
				return "field " + f.Name() + " is assigned something other than a tls.Client/tls.Server result at " + p.Pos(st.Pos()), false
			}
			mi, ok := mk.Call.Args[0].(*ssa.MakeInterface)
			if !ok || !types.Identical(mi.X.Type(), ta.AssertedType) {
				return "the transport given to tls." + mo.Name() + " at " + p.Pos(mk.Pos()) + " is not of the asserted type", false
			}
			n++
		}
	}
	if n == 0 {
		return "no construction of field " + f.Name() + " found", false
	}
	return fmt.Sprintf("field %s is only ever set to tls.Client/Server over %s (%d site(s))", f.Name(), types.TypeString(ta.AssertedType, nil), n), true
}
