package main

import (
	"fmt"
	"go/token"
	"go/types"
	"sort"
	"strings"

	"golang.org/x/tools/go/ssa"
)

func init() {
	register("C06", c06Timed("C06-R1", c06r1), c06Timed("C06-R2", c06r2), c06Timed("C06-R3", c06r3), c06Timed("C06-R4", c06r4), c06Timed("C06-R5", c06r5), c06Timed("C06-R6", c06r6), c06Timed("C06-R7", c06r7))
}

// c06A holds the resolved anchors of the resumption code.
type c06A struct {
	H, R, S                        *ssa.Function // handleSessionResumption, resumeSession, setupStreamEncryption
	keyInfo, policy                *ssa.Function // (*SessionEntry).KeyInfo / Policy
	lookupNE, lookup, lookupByCmd  *ssa.Function
	isAES, setSecret, getSecret    *ssa.Function
	setKey                         *ssa.Function // (*stream.Stream).SetSymmetricKey
	putAd, finish                  *ssa.Function // (*message.Message).PutClassAd / FinishMessage
	invalidate                     *ssa.Function
	fData, fProto                  *types.Var // KeyInfo.Data / Protocol
	fResumed, fCrypto              *types.Var // SecurityNegotiation.SessionResumed / NegotiatedCrypto
	fUser, fAuthn, fAuthM, fValidC *types.Var
	entryT                         types.Type // *SessionEntry
}

func c06Resolve(c *Ctx, rule string) *c06A {
	a := &c06A{}
	ok := true
	fn := func(dst **ssa.Function, rel, name string) {
		*dst = c.needFn(rule, rel, name)
		if *dst == nil {
			ok = false
		}
	}
	fld := func(dst **types.Var, typ, name string) {
		*dst = c.needField(rule, "security", typ, name)
		if *dst == nil {
			ok = false
		}
	}
	fn(&a.H, "security", "(*Authenticator).handleSessionResumption")
	fn(&a.R, "security", "(*Authenticator).resumeSession")
	fn(&a.S, "security", "(*Authenticator).setupStreamEncryption")
	fn(&a.keyInfo, "security", "(*SessionEntry).KeyInfo")
	fn(&a.policy, "security", "(*SessionEntry).Policy")
	fn(&a.lookupNE, "security", "(*SessionCache).LookupNonExpired")
	fn(&a.lookup, "security", "(*SessionCache).Lookup")
	fn(&a.lookupByCmd, "security", "(*SessionCache).LookupByCommand")
	fn(&a.invalidate, "security", "(*SessionCache).Invalidate")
	fn(&a.isAES, "security", "isAESGCM")
	fn(&a.setSecret, "security", "(*SecurityNegotiation).setSharedSecret")
	fn(&a.getSecret, "security", "(*SecurityNegotiation).GetSharedSecret")
	fn(&a.setKey, "stream", "(*Stream).SetSymmetricKey")
	fn(&a.putAd, "message", "(*Message).PutClassAd")
	fn(&a.finish, "message", "(*Message).FinishMessage")
	fld(&a.fData, "KeyInfo", "Data")
	fld(&a.fProto, "KeyInfo", "Protocol")
	fld(&a.fResumed, "SecurityNegotiation", "SessionResumed")
	fld(&a.fCrypto, "SecurityNegotiation", "NegotiatedCrypto")
	fld(&a.fUser, "SecurityNegotiation", "User")
	fld(&a.fAuthn, "SecurityNegotiation", "Authentication")
	fld(&a.fAuthM, "SecurityNegotiation", "NegotiatedAuth")
	fld(&a.fValidC, "SecurityNegotiation", "ValidCommands")
	if o := c.needObj(rule, "security", "SessionEntry"); o != nil {
		a.entryT = types.NewPointer(o.Type())
	} else {
		ok = false
	}
	if !ok {
		return nil
	}
	return a
}

// ---------------------------------------------------------------------------
// key evidence: edges on which the entry is known to carry a key that can be installed

const (
	c06KNonNil   = "KeyInfo()!=nil"
	c06KNonEmpty = "len(KeyInfo().Data)>0"
	c06KCipher   = "isAESGCM(KeyInfo().Protocol)"
)

var c06Kinds = []string{c06KNonNil, c06KNonEmpty, c06KCipher}

// isKeyInfoVal: v is (an alias of) the result of a KeyInfo() call in fn.
func (a *c06A) isKeyInfoVal(fn *ssa.Function, v ssa.Value) bool {
	return c06AllOrigins(fn, v, func(o ssa.Value) bool { return c06CallOf(o, a.keyInfo.Object()) != nil })
}

// isKeyField: v is a load of KeyInfo.<f> from a KeyInfo() result.
func (a *c06A) isKeyField(fn *ssa.Function, v ssa.Value, f *types.Var) bool {
	return c06AllOrigins(fn, v, func(o ssa.Value) bool {
		base, ok := c06FieldLoadOf(o, f)
		return ok && a.isKeyInfoVal(fn, base)
	})
}

// isCipherTest: v is isAESGCM(x) with x taken from KeyInfo().Protocol.
func (a *c06A) isCipherTest(fn *ssa.Function, v ssa.Value) bool {
	cl, ok := v.(*ssa.Call)
	if !ok || calleeFn(cl) != a.isAES || len(cl.Call.Args) != 1 {
		return false
	}
	return a.isKeyField(fn, cl.Call.Args[0], a.fProto)
}

// c06KeyFacts returns, per evidence kind, the edges of fn on which that fact is established:
// direct tests, or the true edge of a call to a boolean module helper that guarantees it.
func (c *Ctx) c06KeyFacts(a *c06A, fn *ssa.Function, depth int) map[string][]Edge {
	out := map[string][]Edge{}
	for _, cs := range callsIn(fn, a.keyInfo.Object()) {
		if v := cs.Value(); v != nil {
			_, nn := nilEdges(fn, v)
			out[c06KNonNil] = append(out[c06KNonNil], nn...)
		}
	}
	for _, b := range fn.Blocks {
		if root, _, nz, ok := zeroEdges(b); ok {
			if cl, isCall := root.(*ssa.Call); isCall {
				if bi, isB := cl.Call.Value.(*ssa.Builtin); isB && bi.Name() == "len" && a.isKeyField(fn, cl.Call.Args[0], a.fData) {
					out[c06KNonEmpty] = append(out[c06KNonEmpty], nz)
				}
			}
		}
		ifi := blockIf(b)
		if ifi == nil {
			continue
		}
		at := condAtom(ifi.Cond)
		if at.Op != token.ILLEGAL {
			continue
		}
		t := Edge{b, 0} // the edge on which the tested boolean is true
		if at.Neg {
			t = Edge{b, 1}
		}
		if a.isCipherTest(fn, at.X) {
			out[c06KCipher] = append(out[c06KCipher], t)
			continue
		}
		if cl, ok := at.X.(*ssa.Call); ok && depth > 0 {
			g := calleeFn(cl)
			if g == nil || g == fn || g.Blocks == nil || fnPkg(g) == nil || !inModule(fnPkg(g).Path()) {
				continue
			}
			takesEntry := false
			for _, arg := range cl.Call.Args {
				if types.Identical(arg.Type(), a.entryT) {
					takesEntry = true
				}
			}
			if !takesEntry {
				continue
			}
			for k, holds := range c.c06HelperGuarantees(a, g, depth-1) {
				if holds {
					out[k] = append(out[k], t)
				}
			}
		}
	}
	return out
}

// c06HelperGuarantees: for a boolean helper g(entry), which evidence kinds hold whenever g returns true.
func (c *Ctx) c06HelperGuarantees(a *c06A, g *ssa.Function, depth int) map[string]bool {
	res := map[string]bool{}
	if g.Signature.Results().Len() != 1 {
		return res
	}
	if bt, ok := g.Signature.Results().At(0).Type().Underlying().(*types.Basic); !ok || bt.Kind() != types.Bool {
		return res
	}
	// KeyInfo() receivers in g must be g's *SessionEntry parameter
	for _, cs := range callsIn(g, a.keyInfo.Object()) {
		recv := callArgs(cs)[0]
		if !c06AllOrigins(g, recv, func(o ssa.Value) bool { _, isP := o.(*ssa.Parameter); return isP }) {
			return res
		}
	}
	facts := c.c06KeyFacts(a, g, depth)
	pr := c06NewPruner(g)
	type tr struct {
		ret  *ssa.Return
		pred *ssa.BasicBlock
		val  ssa.Value
	}
	var trues []tr
	for _, b := range g.Blocks {
		if len(b.Instrs) == 0 {
			continue
		}
		ret, ok := b.Instrs[len(b.Instrs)-1].(*ssa.Return)
		if !ok {
			continue
		}
		v := ret.Results[0]
		if phi, ok := v.(*ssa.Phi); ok && phi.Block() == b {
			for i, e := range phi.Edges {
				trues = append(trues, tr{ret, b.Preds[i], e})
			}
		} else {
			trues = append(trues, tr{ret, nil, v})
		}
	}
	for _, k := range c06Kinds {
		holds, n := true, 0
		for _, t := range trues {
			if cv, isC := constBool(t.val); isC && !cv {
				continue
			}
			n++
			if k == c06KCipher && a.isCipherTest(g, t.val) {
				continue // returning isAESGCM(...) itself: true only when the cipher is installable
			}
			if c06FindPath(pr, entryPoint(g), Target{Instr: t.ret, Pred: t.pred}, newCuts().AddEdges(facts[k]...)) != nil {
				holds = false
			}
		}
		res[k] = holds && n > 0
	}
	return res
}

// entryFromLookup: v (a *SessionEntry used in handleSessionResumption) comes only from result #0 of LookupNonExpired / Lookup.
func (a *c06A) entryFromLookup(fn *ssa.Function, v ssa.Value) bool {
	return c06AllOrigins(fn, v, func(o ssa.Value) bool {
		ex, ok := o.(*ssa.Extract)
		return ok && ex.Index == 0 && c06CallOf(o, a.lookupNE.Object(), a.lookup.Object()) != nil
	})
}

// nilKeyEdges: edges on which a KeyInfo() result is nil.
func (a *c06A) nilKeyEdges(fn *ssa.Function) []Edge {
	var out []Edge
	for _, cs := range callsIn(fn, a.keyInfo.Object()) {
		if v := cs.Value(); v != nil {
			n, _ := nilEdges(fn, v)
			out = append(out, n...)
		}
	}
	return out
}

// c06Install decides, for fn in {handleSessionResumption, resumeSession}: given that the entry carries a key
// (nil-key edges removed), every success return passes the nil-error edge of setupStreamEncryption /
// SetSymmetricKey; the shared secret is the entry's key; SessionResumed and NegotiatedCrypto are set from the
// entry before the installer runs. Returns the number of installer calls seen.
func (c *Ctx) c06Install(rule string, a *c06A, fn *ssa.Function) int {
	pr := c06NewPruner(fn)
	nilE := a.nilKeyEdges(fn)
	base := func() *Cuts { return newCuts().AddEdges(nilE...) }
	// 1. the secret handed to the negotiation is the entry's key
	var setCalls []ssa.CallInstruction
	for _, cs := range callsIn(fn, a.setSecret.Object()) {
		setCalls = append(setCalls, cs)
		args := callArgs(cs)
		c.Check(len(args) == 2 && a.isKeyField(fn, args[1], a.fData), rule, fnName(fn)+"#setSharedSecret<-KeyInfo().Data",
			"the shared secret installed on resumption is the cached entry's key", "the shared secret installed on resumption is not taken from the cached entry's KeyInfo().Data", cs.Pos())
	}
	if len(setCalls) == 0 {
		c.Violate(rule, fnName(fn)+"#setSharedSecret<-KeyInfo().Data", "no setSharedSecret call: the cached key is never handed to the negotiation", fn.Pos())
	}
	// 2. "secret is empty" edges are infeasible once setSharedSecret(KeyInfo().Data) has run on every path to the test
	cuts := base()
	for _, b := range fn.Blocks {
		root, z, _, ok := zeroEdges(b)
		if !ok {
			continue
		}
		cl, isCall := root.(*ssa.Call)
		if !isCall {
			continue
		}
		bi, isB := cl.Call.Value.(*ssa.Builtin)
		if !isB || bi.Name() != "len" {
			continue
		}
		gs := c06CallOf(cl.Call.Args[0], a.getSecret.Object())
		if gs == nil {
			continue
		}
		pre := base()
		for _, sc := range setCalls {
			if c06SameValue(fn, callArgs(sc)[0], callArgs(gs)[0]) && a.isKeyField(fn, callArgs(sc)[1], a.fData) {
				pre.AddInstrs(sc)
			}
		}
		if c06FindPath(pr, entryPoint(fn), Target{Instr: blockIf(b)}, pre) == nil {
			cuts.AddEdges(z)
			c.Note("%s: %s: the empty-secret edge at %s is treated as infeasible (setSharedSecret(KeyInfo().Data) precedes it on every keyed path; non-emptiness is C06-R1's key evidence)", rule, fnName(fn), c.Pos(c06BlockPos(b)))
		}
	}
	// 3. installer calls
	n := 0
	var installers []ssa.CallInstruction
	for _, cs := range callsIn(fn, a.S.Object(), a.setKey.Object()) {
		n++
		installers = append(installers, cs)
		succ, _, checked := callErrEdges(fn, cs.Value())
		if !checked {
			c.Violate(rule, fnName(fn)+"#installer-error-tested", "the error of "+calleeObj(cs).Name()+" is not tested: a failed key install would still resume", cs.Pos())
			continue
		}
		cuts.AddEdges(succ...)
	}
	c.c06MustPassReturns(rule, pr, fn, c.c06SuccessTargets(fn), cuts, ":key-installed", "a nil-error setupStreamEncryption/SetSymmetricKey (given the entry carries a key)")
	// 4. what the installer keys on is set from the entry before it runs
	for _, cs := range installers {
		if calleeFn(cs) != a.S {
			continue
		}
		var resumedStores, cryptoStores []ssa.Instruction
		for _, st := range c06StoresToField(fn, a.fResumed) {
			if v, ok := constBool(st.Val); ok && v {
				resumedStores = append(resumedStores, st)
			}
		}
		for _, st := range c06StoresToField(fn, a.fCrypto) {
			if a.isKeyField(fn, st.Val, a.fProto) {
				cryptoStores = append(cryptoStores, st)
			}
		}
		p1 := c06FindPath(pr, entryPoint(fn), Target{Instr: cs}, base().AddInstrs(resumedStores...))
		c.Check(p1 == nil, rule, fnName(fn)+"#SessionResumed=true-before-setup", "SessionResumed is set before setupStreamEncryption on every keyed path",
			"setupStreamEncryption can be reached without SessionResumed=true: its resumed branch (the only one that installs a cached key) is skipped", cs.Pos(), c.describePath(p1)...)
		p2 := c06FindPath(pr, entryPoint(fn), Target{Instr: cs}, base().AddInstrs(cryptoStores...))
		c.Check(p2 == nil, rule, fnName(fn)+"#NegotiatedCrypto<-KeyInfo().Protocol-before-setup", "NegotiatedCrypto is restored from the entry before setupStreamEncryption",
			"setupStreamEncryption can be reached without NegotiatedCrypto restored from KeyInfo().Protocol", cs.Pos(), c.describePath(p2)...)
	}
	return n
}

// C06-R1: key or refuse (server side), and the key is installed.
func c06r1(c *Ctx) {
	const rule = "C06-R1"
	c.Doc(rule, "handleSessionResumption: every success return is reached only past evidence that the entry carries an installable key (KeyInfo()!=nil, len(Data)>0, isAESGCM(Protocol); directly or through a boolean helper; flag variables followed), and past a nil-error setupStreamEncryption fed with that key; setupStreamEncryption's SessionResumed branch returns success only after a nil-error SetSymmetricKey(GetSharedSecret())")
	a := c06Resolve(c, rule)
	if a == nil {
		return
	}
	H := a.H
	pr := c06NewPruner(H)
	facts := c.c06KeyFacts(a, H, 2)
	succ := c.c06SuccessTargets(H)
	grouped := map[int][]RetPoint{}
	var ords []int
	for _, t := range succ {
		o := retOrdinal(H, t.Ret)
		if _, ok := grouped[o]; !ok {
			ords = append(ords, o)
		}
		grouped[o] = append(grouped[o], t)
	}
	sort.Ints(ords)
	for _, o := range ords {
		var missing []string
		var wit []*ssa.BasicBlock
		for _, k := range c06Kinds {
			if len(facts[k]) == 0 {
				missing = append(missing, k+" (never tested)")
				continue
			}
			if p := c06PathToReturns(pr, H, grouped[o], newCuts().AddEdges(facts[k]...)); p != nil {
				missing = append(missing, k)
				if wit == nil {
					wit = p
				}
			}
		}
		construct := fmt.Sprintf("%s#return%d:key-evidence", fnName(H), o)
		pos := grouped[o][0].Ret.Pos()
		if len(missing) == 0 {
			c.Ok(rule, construct, "a session is resumed only past evidence of an installable key", pos)
		} else {
			c.Violate(rule, construct, "a session can be resumed without "+strings.Join(missing, ", ")+": a key-less (or uninstallable-key) session is resumed in clear with its stored identity", pos, c.describePath(wit)...)
		}
	}
	c.MinCount(rule, "success returns of handleSessionResumption", len(ords), 1)
	// the key of an entry never changes: KeyInfo() is a plain getter of a field only the constructor writes
	// (this is what lets one nil test speak for every later KeyInfo() call on the same entry)
	fKI := c.needField(rule, "security", "SessionEntry", "keyInfo")
	nse := c.needFn(rule, "security", "NewSessionEntry")
	if fKI != nil && nse != nil {
		getter := true
		for _, r := range c.c06LiveReturns(a.keyInfo) {
			base, ok := c06FieldLoadOf(c06RetVal(r.Ret, 0), fKI)
			if !ok || len(a.keyInfo.Params) == 0 || base != ssa.Value(a.keyInfo.Params[0]) {
				getter = false
			}
		}
		c.Check(getter, rule, fnName(a.keyInfo)+"#plain-getter", "KeyInfo() returns the receiver's keyInfo field", "KeyInfo() is not a plain getter of SessionEntry.keyInfo: key-presence tests do not carry over between calls", a.keyInfo.Pos())
		var wr []*ssa.Function
		poss := map[*ssa.Function]token.Pos{}
		for _, acc := range c.fieldAccesses(fKI) {
			if acc.Write {
				wr = append(wr, acc.Fn)
				poss[acc.Fn] = acc.Instr.Pos()
			}
		}
		c.whoMay(rule, "write SessionEntry.keyInfo", wr, poss, fnSet(nse))
		c.MinCount(rule, "writers of SessionEntry.keyInfo", len(wr), 1)
	}
	n := c.c06Install(rule, a, H)
	c.MinCount(rule, "key installer calls in handleSessionResumption", n, 1)

	// setupStreamEncryption: the resumed branch installs the key or fails
	cands := []*ssa.Function{a.S}
	allInstrs(a.S, func(_ *ssa.BasicBlock, _ int, in ssa.Instruction) {
		if cl, ok := in.(ssa.CallInstruction); ok {
			if g := calleeFn(cl); g != nil && g.Blocks != nil && fnPkg(g) == fnPkg(a.S) && g != a.S {
				cands = append(cands, g)
			}
		}
	})
	nb := 0
	for _, g := range cands {
		keyCuts := newCuts()
		var keyCalls []ssa.CallInstruction
		for _, cs := range callsIn(g, a.setKey.Object()) {
			keyCalls = append(keyCalls, cs)
			s, _, _ := callErrEdges(g, cs.Value())
			keyCuts.AddEdges(s...)
		}
		for _, b := range g.Blocks {
			ifi := blockIf(b)
			if ifi == nil {
				continue
			}
			at := condAtom(ifi.Cond)
			if at.Op != token.ILLEGAL || !readsField(at.X, a.fResumed) {
				continue
			}
			nb++
			if g != a.S {
				c.Note("%s: the SessionResumed branch lives in %s (called from setupStreamEncryption)", rule, fnName(g))
			}
			e := Edge{b, 0}
			if at.Neg {
				e = Edge{b, 1}
			}
			var wit []*ssa.BasicBlock
			for _, t := range c.successTargets(g) {
				if len(e.To().Instrs) == 0 {
					continue
				}
				if p := findPath(Point{e.To(), 0}, t.Target(), keyCuts); p != nil {
					wit = p
					break
				}
			}
			c.Check(wit == nil, rule, fnName(g)+"#resumed-branch=>SetSymmetricKey", "the resumed branch returns success only after a nil-error SetSymmetricKey",
				"the resumed branch can return success without a nil-error SetSymmetricKey", c06BlockPos(b), c.describePath(wit)...)
			okArg := false
			for _, cs := range keyCalls {
				if instrDominatedByEdge(g, e, cs) {
					args := callArgs(cs)
					okArg = len(args) == 2 && c06AllOrigins(g, args[1], func(o ssa.Value) bool { return c06CallOf(o, a.getSecret.Object()) != nil })
				}
			}
			c.Check(okArg, rule, fnName(g)+"#resumed-branch-key<-GetSharedSecret", "the key installed on the resumed branch is the negotiation's shared secret",
				"the key installed on the resumed branch is not GetSharedSecret()", c06BlockPos(b))
		}
	}
	c.MinCount(rule, "SessionResumed branches in setupStreamEncryption", nb, 1)
}

// C06-R2: only expiry-checked lookups feed the resumption.
func c06r2(c *Ctx) {
	const rule = "C06-R2"
	c.Doc(rule, "the *SessionEntry used by handleSessionResumption comes only from LookupNonExpired/Lookup and success passes their found=true edge; Lookup, LookupNonExpired and LookupByCommand return true only past a sessions-map hit and a false IsExpired(); Invalidate deletes the map entry before returning true; only the cache's own methods read the sessions map")
	a := c06Resolve(c, rule)
	isExp := c.needFn(rule, "security", "(*SessionEntry).IsExpired")
	fSess := c.needField(rule, "security", "SessionCache", "sessions")
	if a == nil || isExp == nil || fSess == nil {
		return
	}
	H := a.H
	n := 0
	allInstrs(H, func(_ *ssa.BasicBlock, _ int, in ssa.Instruction) {
		cl, ok := in.(ssa.CallInstruction)
		if !ok {
			return
		}
		for i, arg := range callArgs(cl) {
			if !types.Identical(arg.Type(), a.entryT) {
				continue
			}
			n++
			name := "<dynamic>"
			if o := calleeObj(cl); o != nil {
				name = o.Name()
			}
			if !a.entryFromLookup(H, arg) {
				c.Violate(rule, fmt.Sprintf("%s#entry-use:%s/arg%d", fnName(H), name, i), "a *SessionEntry used during resumption does not come from LookupNonExpired/Lookup (expiry unchecked)", cl.Pos())
			}
		}
	})
	c.Ok(rule, fnName(H)+"#entry-uses", fmt.Sprintf("%d uses of a *SessionEntry inspected", n), H.Pos())
	c.MinCount(rule, "uses of the looked-up entry in handleSessionResumption", n, 8)
	// success passes a found=true edge
	pr := c06NewPruner(H)
	cuts := newCuts()
	nl := 0
	for _, cs := range callsIn(H, a.lookupNE.Object(), a.lookup.Object()) {
		nl++
		if okv := extractN(cs.Value(), 1); okv != nil {
			t, _ := boolEdges(H, okv)
			cuts.AddEdges(t...)
		}
	}
	c.c06MustPassReturns(rule, pr, H, c.c06SuccessTargets(H), cuts, ":found", "the found=true edge of an expiry-checked lookup")
	c.MinCount(rule, "lookup calls in handleSessionResumption", nl, 2)
	// accessors
	for _, f := range []*ssa.Function{a.lookup, a.lookupNE, a.lookupByCmd} {
		c.c06AccessorChecks(rule, f, isExp, fSess)
	}
	// Invalidate deletes
	inv := a.invalidate
	var dels []ssa.Instruction
	allInstrs(inv, func(_ *ssa.BasicBlock, _ int, in ssa.Instruction) {
		if cl, ok := in.(*ssa.Call); ok {
			if bi, ok := cl.Call.Value.(*ssa.Builtin); ok && bi.Name() == "delete" && readsField(cl.Call.Args[0], fSess) {
				if len(inv.Params) >= 2 && cl.Call.Args[1] == inv.Params[1] {
					dels = append(dels, cl)
				}
			}
		}
	})
	var trues []RetPoint
	for _, r := range c.c06LiveReturns(inv) {
		if v, isC := constBool(c06RetVal(r.Ret, 0)); isC && !v {
			continue
		}
		trues = append(trues, r)
	}
	c.mustPassReturns(rule, inv, trues, newCuts().AddInstrs(dels...), "delete(sessions, id)")
	c.MinCount(rule, "delete(sessions,id) in Invalidate", len(dels), 1)
	// who may read the sessions map
	allow := fnSet(a.lookup, a.lookupNE, a.lookupByCmd, inv)
	for _, nm := range []string{"(*SessionCache).InvalidateExpired", "(*SessionCache).Snapshot", "(*SessionCache).DebugDump", "(*SessionCache).Size", "(*SessionCache).Store", "(*SessionCache).Clear", "NewSessionCache"} {
		if f := c.needFn(rule, "security", nm); f != nil {
			allow[f] = true
		}
	}
	var rd []*ssa.Function
	poss := map[*ssa.Function]token.Pos{}
	for _, acc := range c.fieldAccesses(fSess) {
		rd = append(rd, acc.Fn)
		poss[acc.Fn] = acc.Instr.Pos()
	}
	c.whoMay(rule, "access SessionCache.sessions", rd, poss, allow)
	c.MinCount(rule, "functions touching SessionCache.sessions", len(rd), 8)
}

// c06AccessorChecks: accessor f returns found=true only past a hit in the sessions map and a false
// IsExpired(), and the entry it returns is that map value.
func (c *Ctx) c06AccessorChecks(rule string, f, isExp *ssa.Function, fSess *types.Var) {
	var targets []RetPoint
	for _, r := range c.c06LiveReturns(f) {
		if len(r.Ret.Results) == 2 {
			if v, isC := constBool(c06RetVal(r.Ret, 1)); isC && !v {
				continue
			}
			targets = append(targets, r)
		}
	}
	expCuts, hitCuts := newCuts(), newCuts()
	for _, cs := range callsIn(f, isExp.Object()) {
		_, fe := boolEdges(f, cs.Value())
		expCuts.AddEdges(fe...)
	}
	var mapReads []*ssa.Lookup
	allInstrs(f, func(_ *ssa.BasicBlock, _ int, in ssa.Instruction) {
		if lk, ok := in.(*ssa.Lookup); ok && lk.CommaOk && readsField(lk.X, fSess) {
			mapReads = append(mapReads, lk)
			if okv := extractN(lk, 1); okv != nil {
				t, _ := boolEdges(f, okv)
				hitCuts.AddEdges(t...)
			}
		}
	})
	c.mustPassReturns(rule, f, targets, expCuts, "a false IsExpired()")
	for _, t := range targets {
		p := findPath(entryPoint(f), t.Target(), hitCuts)
		c.Check(p == nil, rule, fmt.Sprintf("%s#return%d:map-hit", fnName(f), retOrdinal(f, t.Ret)), "found=true only past a hit in the sessions map", "found=true can be returned without a hit in the sessions map", t.Ret.Pos(), c.describePath(p)...)
		fromMap := c06AllOrigins(f, c06RetVal(t.Ret, 0), func(o ssa.Value) bool {
			ex, ok := o.(*ssa.Extract)
			if !ok || ex.Index != 0 {
				return false
			}
			lk, ok := ex.Tuple.(*ssa.Lookup)
			return ok && readsField(lk.X, fSess)
		})
		c.Check(fromMap, rule, fmt.Sprintf("%s#return%d:entry<-sessions", fnName(f), retOrdinal(f, t.Ret)), "the returned entry is the sessions-map value", "the returned entry is not the value read from the sessions map", t.Ret.Pos())
	}
	c.MinCount(rule, "found=true returns of "+fnName(f), len(targets), 1)
	c.MinCount(rule, "sessions-map reads in "+fnName(f), len(mapReads), 1)

}

// c06Reply describes a reply ad handleSessionResumption sends: for each FinishMessage call the
// ReturnCode constant of the ad put on the same message.
type c06Reply struct {
	Finish, Put ssa.CallInstruction
	Ad          ssa.Value
	Code        string
}

func (a *c06A) replies(fn *ssa.Function) []c06Reply {
	sets := c06AdSets(fn)
	var out []c06Reply
	for _, fin := range callsIn(fn, a.finish.Object()) {
		m := callArgs(fin)[0]
		for _, put := range callsIn(fn, a.putAd.Object()) {
			pa := callArgs(put)
			if len(pa) < 3 || !c06SameValue(fn, pa[0], m) {
				continue
			}
			r := c06Reply{Finish: fin, Put: put, Ad: pa[2]}
			for _, s := range sets {
				if s.Name == "ReturnCode" && c06SameValue(fn, s.Ad, pa[2]) {
					if cs, ok := constString(s.Val); ok {
						r.Code = cs
					}
				}
			}
			out = append(out, r)
		}
	}
	return out
}

// clientCodes: the ReturnCode constants resumeSession tests: those whose equality leads to
// cache.Invalidate ("session gone") and all compared constants.
func (a *c06A) clientCodes(R *ssa.Function) (gone map[string]bool, cmps []c06StrCmp) {
	gone = map[string]bool{}
	allInstrs(R, func(_ *ssa.BasicBlock, _ int, in ssa.Instruction) {
		ex, ok := in.(*ssa.Extract)
		if !ok || ex.Index != 0 {
			return
		}
		if _, _, name, _, ok := c06AttrLookup(ex); !ok || name != "ReturnCode" {
			return
		}
		for _, cm := range c06StringCompares(R, ex) {
			cmps = append(cmps, cm)
			for _, inv := range callsIn(R, a.invalidate.Object()) {
				if instrDominatedByEdge(R, cm.EqEdge, inv) {
					gone[cm.Const] = true
				}
			}
		}
	})
	return
}

// c06NotAskedEdges: edges on which the requester did not ask for a reply (ResumeResponse false/absent).
func c06NotAskedEdges(fn *ssa.Function) []Edge {
	var out []Edge
	for _, b := range fn.Blocks {
		ifi := blockIf(b)
		if ifi == nil {
			continue
		}
		at := condAtom(ifi.Cond)
		if at.Op != token.ILLEGAL {
			continue
		}
		sawAttr := false
		ok := c06AllOrigins(fn, at.X, func(o ssa.Value) bool {
			if v, isC := constBool(o); isC {
				return !v
			}
			if _, _, name, idx, isL := c06AttrLookup(o); isL && name == "ResumeResponse" && idx == 0 {
				sawAttr = true
				return true
			}
			return false
		})
		if !ok || !sawAttr {
			continue
		}
		if at.Neg {
			out = append(out, Edge{b, 0})
		} else {
			out = append(out, Edge{b, 1})
		}
	}
	return out
}

// C06-R3: a requester that asked is told the session is gone.
func c06r3(c *Ctx) {
	const rule = "C06-R3"
	c.Doc(rule, "handleSessionResumption: every error return that can be reached without a found=true lookup edge is preceded by a completed reply (nil-error FinishMessage) whose ReturnCode is the constant resumeSession treats as 'session gone' (it invalidates on it), unless the requester did not ask (ResumeResponse false/absent) or sending the reply itself failed")
	a := c06Resolve(c, rule)
	if a == nil {
		return
	}
	H := a.H
	gone, _ := a.clientCodes(a.R)
	c.MinCount(rule, "ReturnCode constants on which resumeSession invalidates", len(gone), 1)
	cuts := newCuts()
	told := 0
	for _, r := range a.replies(H) {
		if !gone[r.Code] {
			continue
		}
		told++
		s, f, _ := callErrEdges(H, r.Finish.Value())
		cuts.AddEdges(s...).AddEdges(f...)
		_, f2, _ := callErrEdges(H, r.Put.Value())
		cuts.AddEdges(f2...)
	}
	na := c06NotAskedEdges(H)
	cuts.AddEdges(na...)
	for _, cs := range callsIn(H, a.lookupNE.Object(), a.lookup.Object()) {
		if okv := extractN(cs.Value(), 1); okv != nil {
			t, _ := boolEdges(H, okv)
			cuts.AddEdges(t...)
		}
	}
	var errs []RetPoint
	isSucc := map[*ssa.Return]bool{}
	for _, t := range c.c06SuccessTargets(H) {
		isSucc[t.Ret] = true
	}
	for _, r := range c.returnsOf(H) {
		if !isSucc[r.Ret] {
			errs = append(errs, r)
		}
	}
	pr := c06NewPruner(H)
	c.c06MustPassReturns(rule, pr, H, errs, cuts, ":told", "a completed 'session gone' reply, a not-asked edge, a reply I/O failure or a found=true edge")
	c.MinCount(rule, "'session gone' replies in handleSessionResumption", told, 1)
	c.MinCount(rule, "ResumeResponse tests", len(na), 1)
	c.MinCount(rule, "error returns of handleSessionResumption", len(errs), 4)
}

// C06-R4: identity restored from the entry's policy, never invented.
func c06r4(c *Ctx) {
	const rule = "C06-R4"
	c.Doc(rule, "on resumption User/Authentication/NegotiatedAuth/ValidCommands of the negotiation are assigned only from entry.Policy() lookups of User/Authenticated/AuthMethods/ValidCommands or the zero value (entry = the looked-up entry on the server, the cached entry on the client); every writer of session policies (storeSession, ImportClaimSession, ImportFileTransferSession, MintClaimSession, CreateNonNegotiatedSession) sets Authenticated, User and AuthMethods")
	a := c06Resolve(c, rule)
	if a == nil {
		return
	}
	want := map[*types.Var]string{a.fUser: "User", a.fAuthn: "Authenticated", a.fAuthM: "AuthMethods", a.fValidC: "ValidCommands"}
	count := map[*ssa.Function]int{}
	for _, fn := range []*ssa.Function{a.H, a.R} {
		for f, attr := range want {
			for _, st := range c06StoresToField(fn, f) {
				count[fn]++
				good := c06AllOrigins(fn, st.Val, func(o ssa.Value) bool {
					// the zero value ("", false) is a default, not an invented identity
					if b, isB := constBool(o); isB && !b {
						return true
					}
					if str, isS := constString(o); isS && str == "" {
						return true
					}
					_, ad, name, idx, ok := c06AttrLookup(o)
					if !ok || idx != 0 || name != attr {
						return false
					}
					return c06AllOrigins(fn, ad, func(p ssa.Value) bool {
						pc := c06CallOf(p, a.policy.Object())
						if pc == nil {
							return false
						}
						recv := callArgs(pc)[0]
						if fn == a.H {
							return a.entryFromLookup(fn, recv)
						}
						return c06AllOrigins(fn, recv, func(q ssa.Value) bool { return len(fn.Params) > 2 && q == fn.Params[2] })
					})
				})
				c.Check(good, rule, fnName(fn)+"#store:"+f.Name(), f.Name()+" is restored from the entry's policy attribute "+attr,
					f.Name()+" of a resumed session is assigned from something other than entry.Policy()."+attr+" (identity invented or taken from the peer)", st.Pos())
			}
		}
	}
	c.MinCount(rule, "identity stores in handleSessionResumption", count[a.H], 4)
	c.MinCount(rule, "identity stores in resumeSession", count[a.R], 2)
	nw := 0
	for _, nm := range []string{"(*Authenticator).storeSession", "ImportClaimSession", "ImportFileTransferSession", "MintClaimSession", "CreateNonNegotiatedSession"} {
		w := c.needFn(rule, "security", nm)
		if w == nil {
			continue
		}
		nw++
		names := map[string]bool{}
		for _, s := range c06AdSets(w) {
			names[s.Name] = true
		}
		for _, need := range []string{"Authenticated", "User", "AuthMethods"} {
			c.Check(names[need], rule, fnName(w)+"#sets:"+need, "the stored policy carries "+need, "the stored policy never sets "+need+", which resumption reads back", w.Pos())
		}
	}
	c.MinCount(rule, "policy writers", nw, 5)
}

// C06-R5: nothing switches protection off again.
func c06r5(c *Ctx) {
	const rule = "C06-R5"
	c.Doc(rule, "handleSessionResumption, resumeSession and setupStreamEncryption (and their closures) never call Stream.SetEncrypted / SetCryptoMode / PrepareCryptoForSecret: once the key is installed nothing on the resumption path turns protection off")
	a := c06Resolve(c, rule)
	if a == nil {
		return
	}
	var off []types.Object
	for _, nm := range []string{"(*Stream).SetEncrypted", "(*Stream).SetCryptoMode", "(*Stream).PrepareCryptoForSecret", "(*Stream).prepareCryptoForSecret"} {
		if o := c.needObj(rule, "stream", nm); o != nil {
			off = append(off, o)
		}
	}
	n := 0
	for _, top := range []*ssa.Function{a.H, a.R, a.S} {
		for _, fn := range withClosures(top) {
			allInstrs(fn, func(_ *ssa.BasicBlock, _ int, in ssa.Instruction) {
				if _, ok := in.(ssa.CallInstruction); ok {
					n++
				}
				if cl, ok := isCallTo(in, off...); ok {
					c.Violate(rule, fnName(top)+"#call:"+calleeObj(cl).Name(), "the resumption path calls "+calleeObj(cl).Name()+": bytes after the reply may travel unprotected", cl.Pos())
				}
			})
		}
	}
	c.Ok(rule, "resumption-path#no-crypto-off", fmt.Sprintf("%d call sites inspected, none switches stream protection off", n), token.NoPos)
	c.MinCount(rule, "call sites inspected", n, 60)
	c.MinCount(rule, "crypto-off entry points resolved", len(off), 4)
}

// C06-R6: freshness of the resumption exchange.
func c06r6(c *Ctx) {
	const rule = "C06-R6"
	c.Doc(rule, "some attribute of the resumption request ad (resumeSession) and of the success reply ad (handleSessionResumption) depends on crypto/rand, and no resumption succeeds without that reply having been sent: otherwise the cleartext transcript, hence the first-frame AAD, repeats across connections of a session and a recorded connection replays under the unchanged key")
	a := c06Resolve(c, rule)
	if a == nil {
		return
	}
	gone, _ := a.clientCodes(a.R)
	fresh := func(fn *ssa.Function, ad ssa.Value) (bool, int) {
		n := 0
		for _, s := range c06AdSets(fn) {
			if !c06SameValue(fn, s.Ad, ad) {
				continue
			}
			n++
			if c.c06Fresh(fn, s.Val, 3, map[*ssa.Function]bool{}) {
				return true, n
			}
		}
		return false, n
	}
	// request
	nreq := 0
	for _, put := range callsIn(a.R, a.putAd.Object()) {
		nreq++
		ok, n := fresh(a.R, callArgs(put)[2])
		c.Check(ok, rule, fnName(a.R)+"#request-ad", "the resumption request carries a fresh value",
			fmt.Sprintf("none of the %d attributes of the resumption request depends on crypto/rand: the client's cleartext transcript is identical on every resumption of a session, so a recorded server->client stream replays against a resuming client", n), put.Pos())
	}
	c.MinCount(rule, "request ads in resumeSession", nreq, 1)
	// reply
	nrep := 0
	cuts := newCuts()
	for _, r := range a.replies(a.H) {
		if gone[r.Code] || r.Code == "" {
			continue
		}
		nrep++
		ok, n := fresh(a.H, r.Ad)
		c.Check(ok, rule, fnName(a.H)+"#reply-ad", "the resumption reply carries a fresh value",
			fmt.Sprintf("none of the %d attributes of the %s reply depends on crypto/rand: the server's cleartext transcript is identical on every resumption of a session, so the recorded client->server bytes of one connection (request + encrypted frames, sender-chosen IV) verify again on a new connection", n, r.Code), r.Put.Pos())
		s, _, _ := callErrEdges(a.H, r.Finish.Value())
		cuts.AddEdges(s...)
	}
	c.MinCount(rule, "success reply ads in handleSessionResumption", nrep, 1)
	pr := c06NewPruner(a.H)
	wit := c06PathToReturns(pr, a.H, c.c06SuccessTargets(a.H), cuts)
	c.Check(wit == nil, rule, fnName(a.H)+"#reply-less-resumption", "every resumption sends the reply",
		"a session is resumed without any reply being sent (ResumeResponse false/absent): the server contributes nothing to the transcript, so a recorded client->server stream of such a connection replays whatever the reply would contain", a.H.Pos(), c.describePath(wit)...)
}

// C06-R7: client side symmetry.
func c06r7(c *Ctx) {
	const rule = "C06-R7"
	c.Doc(rule, "resumeSession: every success return passes the edge on which the reply's ReturnCode equals the constant the server puts in its success reply (an absent ReturnCode is not success); the installed secret is the cached entry's key and success passes a nil-error setupStreamEncryption")
	a := c06Resolve(c, rule)
	if a == nil {
		return
	}
	gone, cmps := a.clientCodes(a.R)
	okCodes := map[string]bool{}
	for _, r := range a.replies(a.H) {
		if r.Code != "" && !gone[r.Code] {
			okCodes[r.Code] = true
		}
	}
	c.MinCount(rule, "success ReturnCode constants sent by handleSessionResumption", len(okCodes), 1)
	cuts := newCuts()
	n := 0
	for _, cm := range cmps {
		if okCodes[cm.Const] {
			n++
			cuts.AddEdges(cm.EqEdge)
		}
	}
	c.MinCount(rule, "comparisons of ReturnCode with the success constant in resumeSession", n, 1)
	pr := c06NewPruner(a.R)
	succ := c.c06SuccessTargets(a.R)
	c.c06MustPassReturns(rule, pr, a.R, succ, cuts, ":authorized", "the edge on which ReturnCode == the server's success constant")
	c.MinCount(rule, "success returns of resumeSession", len(succ), 1)
	ni := c.c06Install(rule, a, a.R)
	c.MinCount(rule, "key installer calls in resumeSession", ni, 1)
}
