package main

import (
	"fmt"
	"go/token"
	"go/types"
	"sort"
	"strings"

	"golang.org/x/tools/go/ssa"
)

func init() {
	register("C06", c06Timed("C06-R1", c06r1), c06Timed("C06-R2", c06r2), c06Timed("C06-R3", c06r3), c06Timed("C06-R4", c06r4), c06Timed("C06-R5", c06r5), c06Timed("C06-R6", c06r6), c06Timed("C06-R7", c06r7))
}

// c06A holds the resolved anchors of the resumption code.
type c06A struct {
	H, R, S                        *ssa.Function // handleSessionResumption, resumeSession, setupStreamEncryption
	keyInfo, policy                *ssa.Function // (*SessionEntry).KeyInfo / Policy
	lookupNE, lookup, lookupByCmd  *ssa.Function
	isAES, setSecret, getSecret    *ssa.Function
	setKey                         *ssa.Function // (*stream.Stream).SetSymmetricKey
	putAd, finish                  *ssa.Function // (*message.Message).PutClassAd / FinishMessage
	invalidate                     *ssa.Function
	fData, fProto                  *types.Var // KeyInfo.Data / Protocol
	fResumed, fCrypto              *types.Var // SecurityNegotiation.SessionResumed / NegotiatedCrypto
	fUser, fAuthn, fAuthM, fValidC *types.Var
	fKeyInfoF, fPolicyF, fSecretF  *types.Var // optional: the fields behind the KeyInfo()/Policy()/GetSharedSecret() getters (an inlined getter reads them)
	entryT                         types.Type // *SessionEntry
}

func c06Resolve(c *Ctx, rule string) *c06A {
	a := &c06A{}
	ok := true
	fn := func(dst **ssa.Function, rel, name string) {
		*dst = c.needFn(rule, rel, name)
		if *dst == nil {
			ok = false
		}
	}
	fld := func(dst **types.Var, typ, name string) {
		*dst = c.needField(rule, "security", typ, name)
		if *dst == nil {
			ok = false
		}
	}
	fn(&a.H, "security", "(*Authenticator).handleSessionResumption")
	fn(&a.R, "security", "(*Authenticator).resumeSession")
	fn(&a.S, "security", "(*Authenticator).setupStreamEncryption")
	fn(&a.keyInfo, "security", "(*SessionEntry).KeyInfo")
	fn(&a.policy, "security", "(*SessionEntry).Policy")
	fn(&a.lookupNE, "security", "(*SessionCache).LookupNonExpired")
	fn(&a.lookup, "security", "(*SessionCache).Lookup")
	fn(&a.lookupByCmd, "security", "(*SessionCache).LookupByCommand")
	fn(&a.invalidate, "security", "(*SessionCache).Invalidate")
	fn(&a.isAES, "security", "isAESGCM")
	fn(&a.setSecret, "security", "(*SecurityNegotiation).setSharedSecret")
	fn(&a.getSecret, "security", "(*SecurityNegotiation).GetSharedSecret")
	fn(&a.setKey, "stream", "(*Stream).SetSymmetricKey")
	fn(&a.putAd, "message", "(*Message).PutClassAd")
	fn(&a.finish, "message", "(*Message).FinishMessage")
	fld(&a.fData, "KeyInfo", "Data")
	fld(&a.fProto, "KeyInfo", "Protocol")
	fld(&a.fResumed, "SecurityNegotiation", "SessionResumed")
	fld(&a.fCrypto, "SecurityNegotiation", "NegotiatedCrypto")
	fld(&a.fUser, "SecurityNegotiation", "User")
	fld(&a.fAuthn, "SecurityNegotiation", "Authentication")
	fld(&a.fAuthM, "SecurityNegotiation", "NegotiatedAuth")
	fld(&a.fValidC, "SecurityNegotiation", "ValidCommands")
	a.fKeyInfoF = c.Field("security", "SessionEntry", "keyInfo")
	a.fPolicyF = c.Field("security", "SessionEntry", "policy")
	a.fSecretF = c.Field("security", "SecurityNegotiation", "sharedSecret")
	if o := c.needObj(rule, "security", "SessionEntry"); o != nil {
		a.entryT = types.NewPointer(o.Type())
	} else {
		ok = false
	}
	if !ok {
		return nil
	}
	return a
}

// ---------------------------------------------------------------------------
// views of the resumption code

// stopFns: the anchors; a view never looks inside them (a rule that asks for "a call of X" sees the call).
func (a *c06A) stopFns() []*ssa.Function {
	return []*ssa.Function{a.H, a.R, a.S, a.keyInfo, a.policy, a.lookupNE, a.lookup, a.lookupByCmd, a.isAES, a.setSecret, a.getSecret, a.invalidate}
}

func (c *Ctx) c06View(a *c06A, root *ssa.Function) *c06View {
	return c.c06NewView(root, a.stopFns()...)
}

// ---------------------------------------------------------------------------
// key evidence: conditions under which the entry is known to carry a key that can be installed

const (
	c06KNonNil   = "KeyInfo()!=nil"
	c06KNonEmpty = "len(KeyInfo().Data)>0"
	c06KCipher   = "isAESGCM(KeyInfo().Protocol)"
)

var c06Kinds = []string{c06KNonNil, c06KNonEmpty, c06KCipher}

// isKeyInfoVal: v is (an alias of) the result of a KeyInfo() call, or a read of the field that getter returns.
func (a *c06A) isKeyInfoVal(vw *c06View, v c06FV) bool {
	return vw.AllOrigins(v, func(o c06FV) bool {
		if _, ok := c06SiteOf(o, a.keyInfo.Object()); ok {
			return true
		}
		if a.fKeyInfoF != nil {
			if _, ok := c06XFieldLoad(o, a.fKeyInfoF); ok {
				return true
			}
		}
		return false
	})
}

// isPolicyVal: v is the result of a Policy() call (or a read of the field it returns); returns the entries it is taken from.
func (a *c06A) isPolicyVal(vw *c06View, v c06FV, entry func(c06FV) bool) bool {
	return vw.AllOrigins(v, func(o c06FV) bool {
		if s, ok := c06SiteOf(o, a.policy.Object()); ok {
			return entry(s.Arg(0))
		}
		if a.fPolicyF != nil {
			if base, ok := c06XFieldLoad(o, a.fPolicyF); ok {
				return entry(base)
			}
		}
		return false
	})
}

// isKeyField: v is a load of KeyInfo.<f> from a KeyInfo() result.
func (a *c06A) isKeyField(vw *c06View, v c06FV, f *types.Var) bool {
	return vw.AllOrigins(v, func(o c06FV) bool {
		base, ok := c06XFieldLoad(o, f)
		return ok && a.isKeyInfoVal(vw, base)
	})
}

// isSecretVal: v is the negotiation's shared secret (GetSharedSecret() or the field it returns); recv receives the negotiation.
func (a *c06A) isSecretVal(vw *c06View, v c06FV, recv *c06FV) bool {
	return vw.AllOrigins(v, func(o c06FV) bool {
		if s, ok := c06SiteOf(o, a.getSecret.Object()); ok {
			if recv != nil {
				*recv = s.Arg(0)
			}
			return true
		}
		if a.fSecretF != nil {
			if base, ok := c06XFieldLoad(o, a.fSecretF); ok {
				if recv != nil {
					*recv = base
				}
				return true
			}
		}
		return false
	})
}

// isCipherTest: v is isAESGCM(x) with x taken from KeyInfo().Protocol.
func (a *c06A) isCipherTest(vw *c06View, v c06FV) bool {
	cl, ok := v.V.(*ssa.Call)
	if !ok || calleeFn(cl) != a.isAES || len(cl.Call.Args) != 1 {
		return false
	}
	return a.isKeyField(vw, c06FV{cl.Call.Args[0], v.F}, a.fProto)
}

// c06NilAtom: at compares v with nil; eqNil tells whether the atom being true means v == nil.
func c06NilAtom(at Atom) (v ssa.Value, nilOnTrue, ok bool) {
	if at.Op != token.EQL && at.Op != token.NEQ {
		return nil, false, false
	}
	switch {
	case isNilConst(at.Y):
		v = at.X
	case isNilConst(at.X):
		v = at.Y
	default:
		return nil, false, false
	}
	return v, at.Op == token.EQL, true
}

// c06ZeroAtom: at is "R ==/!=/>/<= 0" (R an unsigned or length value); zeroOnTrue tells whether the atom
// being true means R == 0 (zeroEdges of ssahelp.go on an atom instead of a block).
func c06ZeroAtom(at Atom) (root ssa.Value, zeroOnTrue, ok bool) {
	if at.Op == token.ILLEGAL || at.Y == nil {
		return nil, false, false
	}
	k, isC := constInt(at.Y)
	if !isC || k != 0 {
		return nil, false, false
	}
	x := at.X
	unsignedOrLen := false
	if bt, isB := x.Type().Underlying().(*types.Basic); isB && bt.Info()&types.IsUnsigned != 0 {
		unsignedOrLen = true
	}
	if call, isCall := x.(*ssa.Call); isCall {
		if bi, isB := call.Call.Value.(*ssa.Builtin); isB && bi.Name() == "len" {
			unsignedOrLen = true
		}
	}
	switch at.Op {
	case token.EQL:
		zeroOnTrue = true
	case token.NEQ:
		zeroOnTrue = false
	case token.GTR:
		if !unsignedOrLen {
			return nil, false, false
		}
		zeroOnTrue = false
	case token.LEQ:
		if !unsignedOrLen {
			return nil, false, false
		}
		zeroOnTrue = true
	default:
		return nil, false, false
	}
	return zeroRoot(x), zeroOnTrue, true
}

// c06LenArg: root is len(x); returns x.
func c06LenArg(root ssa.Value) (ssa.Value, bool) {
	if cl, ok := root.(*ssa.Call); ok {
		if bi, ok := cl.Call.Value.(*ssa.Builtin); ok && bi.Name() == "len" && len(cl.Call.Args) == 1 {
			return cl.Call.Args[0], true
		}
	}
	return nil, false
}

// keyFacts: one fact per evidence kind.
func (a *c06A) keyFacts(vw *c06View) map[string]*c06Fact {
	return map[string]*c06Fact{
		c06KNonNil: {Name: c06KNonNil, Cond: func(fr *c06Frame, at Atom) (bool, bool) {
			v, nilOnTrue, ok := c06NilAtom(at)
			if !ok || !a.isKeyInfoVal(vw, c06FV{v, fr}) {
				return false, false
			}
			return !nilOnTrue, nilOnTrue
		}},
		c06KNonEmpty: {Name: c06KNonEmpty, Cond: func(fr *c06Frame, at Atom) (bool, bool) {
			root, zeroOnTrue, ok := c06ZeroAtom(at)
			if !ok {
				return false, false
			}
			x, isLen := c06LenArg(root)
			if !isLen || !a.isKeyField(vw, c06FV{x, fr}, a.fData) {
				return false, false
			}
			return !zeroOnTrue, zeroOnTrue
		}},
		c06KCipher: {Name: c06KCipher, Cond: func(fr *c06Frame, at Atom) (bool, bool) {
			if at.Op != token.ILLEGAL || at.X == nil {
				return false, false
			}
			return a.isCipherTest(vw, c06FV{at.X, fr}), false
		}},
	}
}

// nilKeyFact: "the entry carries no key" (KeyInfo() == nil); what follows such an edge is outside the
// obligations that are stated "given that the entry carries a key".
func (a *c06A) nilKeyFact(vw *c06View) *c06Fact {
	return &c06Fact{Name: "KeyInfo()==nil", Cond: func(fr *c06Frame, at Atom) (bool, bool) {
		v, nilOnTrue, ok := c06NilAtom(at)
		if !ok || !a.isKeyInfoVal(vw, c06FV{v, fr}) {
			return false, false
		}
		return nilOnTrue, !nilOnTrue
	}}
}

// entryFromLookup: v (a *SessionEntry used on the server's resumption path) comes only from result #0 of LookupNonExpired / Lookup.
func (a *c06A) entryFromLookup(vw *c06View, v c06FV) bool {
	return vw.AllOrigins(v, func(o c06FV) bool {
		ex, ok := o.V.(*ssa.Extract)
		return ok && ex.Index == 0 && c06CallOf(o.V, a.lookupNE.Object(), a.lookup.Object()) != nil
	})
}

// foundFact: the found=true outcome of an expiry-checked lookup.
func (a *c06A) foundFact(vw *c06View) *c06Fact {
	return &c06Fact{Name: "found", Cond: func(fr *c06Frame, at Atom) (bool, bool) {
		if at.Op != token.ILLEGAL || at.X == nil {
			return false, false
		}
		ok := vw.AllOrigins(c06FV{at.X, fr}, func(o c06FV) bool {
			ex, isEx := o.V.(*ssa.Extract)
			return isEx && ex.Index == 1 && c06CallOf(o.V, a.lookupNE.Object(), a.lookup.Object()) != nil
		})
		return ok, false
	}}
}

// c06ErrOnlyReturned: the error result of call is handed straight to the caller ("return f(...)").
func c06ErrOnlyReturned(call ssa.CallInstruction) bool {
	v := call.Value()
	if v == nil {
		return false
	}
	n := 0
	for _, e := range errResults(v) {
		for _, r := range *e.Referrers() {
			switch r.(type) {
			case *ssa.Return:
				n++
			case *ssa.DebugRef:
			default:
				return false
			}
		}
	}
	return n > 0
}

// c06Install decides, for the view of handleSessionResumption / resumeSession: given that the entry carries a
// key (what follows a KeyInfo()==nil edge is disregarded), every success return passes the nil-error outcome of
// setupStreamEncryption / SetSymmetricKey; the shared secret is the entry's key; SessionResumed and
// NegotiatedCrypto are set from the entry before the installer runs. Returns the number of installer calls seen.
func (c *Ctx) c06Install(rule string, a *c06A, vw *c06View) int {
	fn := vw.Root.Fn
	nilKey := a.nilKeyFact(vw)
	// 1. the secret handed to the negotiation is the entry's key
	type setEv struct {
		in   ssa.Instruction
		fr   *c06Frame
		recv c06FV
		good bool
	}
	var sets []setEv
	for _, cs := range vw.Calls(a.setSecret.Object()) {
		good := cs.NArgs() == 2 && a.isKeyField(vw, cs.Arg(1), a.fData)
		sets = append(sets, setEv{cs.Call, cs.F, cs.Arg(0), good})
		c.Check(good, rule, fnName(fn)+"#setSharedSecret<-KeyInfo().Data",
			"the shared secret installed on resumption is the cached entry's key", "the shared secret installed on resumption is not taken from the cached entry's KeyInfo().Data", cs.Pos())
	}
	if a.fSecretF != nil {
		for _, st := range vw.StoresToField(a.fSecretF) {
			good := a.isKeyField(vw, st.Val(), a.fData)
			sets = append(sets, setEv{st.St, st.F, st.Base(), good})
			c.Check(good, rule, fnName(fn)+"#setSharedSecret<-KeyInfo().Data",
				"the shared secret installed on resumption is the cached entry's key", "the shared secret installed on resumption is not taken from the cached entry's KeyInfo().Data", st.St.Pos())
		}
	}
	if len(sets) == 0 {
		c.Violate(rule, fnName(fn)+"#setSharedSecret<-KeyInfo().Data", "no setSharedSecret call: the cached key is never handed to the negotiation", fn.Pos())
	}
	// secretSet(n): the negotiation n has been given the entry's key
	secretSet := func(n c06FV) *c06Fact {
		return c06AnyOf("setSharedSecret(KeyInfo().Data)", nilKey, &c06Fact{Instr: func(fr *c06Frame, in ssa.Instruction) bool {
			for _, s := range sets {
				if s.in == in && s.fr == fr && s.good && vw.Same(s.recv, n) {
					return true
				}
			}
			return false
		}})
	}
	// 2. "secret is empty" edges are infeasible once setSharedSecret(KeyInfo().Data) has run on every path to the test
	emptySecretEdges := func(fr *c06Frame) []Edge {
		var out []Edge
		for _, b := range fr.Fn.Blocks {
			root, z, _, ok := zeroEdges(b)
			if !ok {
				continue
			}
			x, isLen := c06LenArg(root)
			if !isLen {
				continue
			}
			var n c06FV
			if !a.isSecretVal(vw, c06FV{x, fr}, &n) || n.V == nil {
				continue
			}
			if ok, _ := vw.MustPassTo(fr, blockIf(b), secretSet(n)); ok {
				out = append(out, z)
				c.Note("%s: %s: the empty-secret edge at %s is treated as infeasible (setSharedSecret(KeyInfo().Data) precedes it on every keyed path; non-emptiness is C06-R1's key evidence)", rule, fnName(fr.Fn), c.Pos(c06BlockPos(b)))
			}
		}
		return out
	}
	// 3. installer calls
	n := 0
	var installers []c06Site
	for _, cs := range vw.Calls(a.S.Object(), a.setKey.Object()) {
		n++
		installers = append(installers, cs)
		if _, _, checked := callErrEdges(cs.F.Fn, cs.Call.Value()); !checked && !c06ErrOnlyReturned(cs.Call) {
			c.Violate(rule, fnName(fn)+"#installer-error-tested", "the error of "+calleeObj(cs.Call).Name()+" is not tested: a failed key install would still resume", cs.Pos())
		}
	}
	installed := c06AnyOf("key installed", nilKey, &c06Fact{
		CallOK: func(fr *c06Frame, cl ssa.CallInstruction) bool {
			o := calleeObj(cl)
			return o != nil && (types.Object(o) == a.S.Object() || types.Object(o) == a.setKey.Object())
		},
		Edges: emptySecretEdges,
	})
	vw.MustPassReturns(rule, c.c06SuccessTargets(fn), installed, 1, ":key-installed", "a nil-error setupStreamEncryption/SetSymmetricKey (given the entry carries a key)")
	// 4. what the installer keys on is set from the entry before it runs
	resumedSet := c06AnyOf("SessionResumed=true", nilKey, &c06Fact{Instr: func(fr *c06Frame, in ssa.Instruction) bool {
		st, ok := in.(*ssa.Store)
		if !ok {
			return false
		}
		fa, ok := st.Addr.(*ssa.FieldAddr)
		if !ok || fieldOfAddr(fa) != a.fResumed {
			return false
		}
		v, isC := vw.ConstBool(c06FV{st.Val, fr})
		return isC && v
	}})
	cryptoSet := c06AnyOf("NegotiatedCrypto<-KeyInfo().Protocol", nilKey, &c06Fact{Instr: func(fr *c06Frame, in ssa.Instruction) bool {
		st, ok := in.(*ssa.Store)
		if !ok {
			return false
		}
		fa, ok := st.Addr.(*ssa.FieldAddr)
		return ok && fieldOfAddr(fa) == a.fCrypto && a.isKeyField(vw, c06FV{st.Val, fr}, a.fProto)
	}})
	for _, cs := range installers {
		if calleeFn(cs.Call) != a.S {
			continue
		}
		ok1, p1 := vw.MustPassTo(cs.F, cs.Call, resumedSet)
		c.Check(ok1, rule, fnName(fn)+"#SessionResumed=true-before-setup", "SessionResumed is set before setupStreamEncryption on every keyed path",
			"setupStreamEncryption can be reached without SessionResumed=true: its resumed branch (the only one that installs a cached key) is skipped", cs.Pos(), c.describePath(p1)...)
		ok2, p2 := vw.MustPassTo(cs.F, cs.Call, cryptoSet)
		c.Check(ok2, rule, fnName(fn)+"#NegotiatedCrypto<-KeyInfo().Protocol-before-setup", "NegotiatedCrypto is restored from the entry before setupStreamEncryption",
			"setupStreamEncryption can be reached without NegotiatedCrypto restored from KeyInfo().Protocol", cs.Pos(), c.describePath(p2)...)
	}
	return n
}

// C06-R1: key or refuse (server side), and the key is installed.
func c06r1(c *Ctx) {
	const rule = "C06-R1"
	c.Doc(rule, "handleSessionResumption: every success return is reached only past evidence that the entry carries an installable key (KeyInfo()!=nil, len(Data)>0, isAESGCM(Protocol); directly, through boolean helpers or local booleans; flag variables followed), and past a nil-error setupStreamEncryption fed with that key (the restoring / installing steps may live in helpers); setupStreamEncryption's SessionResumed branch returns success only after a nil-error SetSymmetricKey(GetSharedSecret())")
	a := c06Resolve(c, rule)
	if a == nil {
		return
	}
	H := a.H
	vw := c.c06View(a, H)
	facts := a.keyFacts(vw)
	succ := c.c06SuccessTargets(H)
	grouped := map[int][]RetPoint{}
	var ords []int
	for _, t := range succ {
		o := retOrdinal(H, t.Ret)
		if _, ok := grouped[o]; !ok {
			ords = append(ords, o)
		}
		grouped[o] = append(grouped[o], t)
	}
	sort.Ints(ords)
	for _, o := range ords {
		var missing []string
		var wit []*ssa.BasicBlock
		for _, k := range c06Kinds {
			if vw.CutCount(vw.Root, facts[k]) == 0 {
				missing = append(missing, k+" (never tested)")
				continue
			}
			if p := vw.PathToReturns(vw.Root, grouped[o], facts[k], 0); p != nil {
				missing = append(missing, k)
				if wit == nil {
					wit = p
				}
			}
		}
		construct := fmt.Sprintf("%s#return%d:key-evidence", fnName(H), o)
		pos := grouped[o][0].Ret.Pos()
		if len(missing) == 0 {
			c.Ok(rule, construct, "a session is resumed only past evidence of an installable key", pos)
		} else {
			c.Violate(rule, construct, "a session can be resumed without "+strings.Join(missing, ", ")+": a key-less (or uninstallable-key) session is resumed in clear with its stored identity", pos, c.describePath(wit)...)
		}
	}
	c.MinCount(rule, "success returns of handleSessionResumption", len(ords), 1)
	// the key of an entry never changes: KeyInfo() is a plain getter of a field only the constructor writes
	// (this is what lets one nil test speak for every later KeyInfo() call on the same entry)
	fKI := c.needField(rule, "security", "SessionEntry", "keyInfo")
	nse := c.needFn(rule, "security", "NewSessionEntry")
	if fKI != nil && nse != nil {
		getter := true
		for _, r := range c.c06LiveReturns(a.keyInfo) {
			base, ok := c06FieldLoadOf(c06RetVal(r.Ret, 0), fKI)
			if !ok || len(a.keyInfo.Params) == 0 || base != ssa.Value(a.keyInfo.Params[0]) {
				getter = false
			}
		}
		c.Check(getter, rule, fnName(a.keyInfo)+"#plain-getter", "KeyInfo() returns the receiver's keyInfo field", "KeyInfo() is not a plain getter of SessionEntry.keyInfo: key-presence tests do not carry over between calls", a.keyInfo.Pos())
		var wr []*ssa.Function
		poss := map[*ssa.Function]token.Pos{}
		for _, acc := range c.fieldAccesses(fKI) {
			if acc.Write {
				wr = append(wr, acc.Fn)
				poss[acc.Fn] = acc.Instr.Pos()
			}
		}
		c.c06WhoMay(rule, "write SessionEntry.keyInfo", wr, poss, fnSet(nse))
		c.MinCount(rule, "writers of SessionEntry.keyInfo", len(wr), 1)
	}
	n := c.c06Install(rule, a, vw)
	c.MinCount(rule, "key installer calls in handleSessionResumption", n, 1)

	// setupStreamEncryption: the resumed branch installs the key or fails (the branch may live in a helper of it)
	vs := c.c06View(a, a.S)
	anyKey := &c06Fact{Name: "SetSymmetricKey", CallOK: func(fr *c06Frame, cl ssa.CallInstruction) bool {
		o := calleeObj(cl)
		return o != nil && types.Object(o) == a.setKey.Object()
	}}
	secretKey := &c06Fact{Name: "SetSymmetricKey(GetSharedSecret())", CallOK: func(fr *c06Frame, cl ssa.CallInstruction) bool {
		o := calleeObj(cl)
		if o == nil || types.Object(o) != a.setKey.Object() {
			return false
		}
		args := callArgs(cl)
		return len(args) == 2 && a.isSecretVal(vs, c06FV{args[1], fr}, nil)
	}}
	// the edges on which negotiation.SessionResumed is known true: the branch itself, the true edge of a predicate
	// that tests it, or a branch on a local boolean that carries it
	resumedF := &c06Fact{Name: "SessionResumed", Cond: func(fr *c06Frame, at Atom) (bool, bool) {
		return at.Op == token.ILLEGAL && at.X != nil && readsField(at.X, a.fResumed), false
	}}
	nb := 0
	for _, fr := range vs.Frames() {
		g := fr.Fn
		if c06ErrIndex(g.Signature) < 0 {
			continue // a predicate: its callers' branches are looked at
		}
		cuts := vs.Cuts(fr, resumedF)
		var edges []Edge
		for e := range cuts.Edges {
			edges = append(edges, e)
		}
		for v := range cuts.Via {
			if !cuts.Edges[Edge{v.From, v.Succ}] {
				edges = append(edges, Edge{v.From, v.Succ})
			}
		}
		sort.Slice(edges, func(i, j int) bool {
			if edges[i].From.Index != edges[j].From.Index {
				return edges[i].From.Index < edges[j].From.Index
			}
			return edges[i].Succ < edges[j].Succ
		})
		for _, e := range edges {
			b := e.From
			nb++
			if g != a.S {
				c.Note("%s: the SessionResumed branch lives in %s (called from setupStreamEncryption)", rule, fnName(g))
			}
			if len(e.To().Instrs) == 0 {
				continue
			}
			search := func(f *c06Fact) []*ssa.BasicBlock {
				for _, t := range c.successTargets(g) {
					if vs.retEstablishes(fr, f, t, true) {
						continue
					}
					if p := c06FindPathVia(vs.pruner(fr), Point{e.To(), 0}, e.From, t.Target(), vs.Cuts(fr, f)); p != nil {
						return p
					}
				}
				return nil
			}
			wit := search(anyKey)
			c.Check(wit == nil, rule, fnName(g)+"#resumed-branch=>SetSymmetricKey", "the resumed branch returns success only after a nil-error SetSymmetricKey",
				"the resumed branch can return success without a nil-error SetSymmetricKey", c06BlockPos(b), c.describePath(wit)...)
			w2 := search(secretKey)
			c.Check(w2 == nil, rule, fnName(g)+"#resumed-branch-key<-GetSharedSecret", "the key installed on the resumed branch is the negotiation's shared secret",
				"the key installed on the resumed branch is not GetSharedSecret()", c06BlockPos(b), c.describePath(w2)...)
		}
	}
	c.MinCount(rule, "SessionResumed branches in setupStreamEncryption", nb, 1)
}

// C06-R2: only expiry-checked lookups feed the resumption.
func c06r2(c *Ctx) {
	const rule = "C06-R2"
	c.Doc(rule, "the *SessionEntry used by handleSessionResumption (and by the helpers it hands it to) comes only from LookupNonExpired/Lookup and success passes their found=true outcome; Lookup, LookupNonExpired and LookupByCommand return true only past a sessions-map hit and a false IsExpired(); Invalidate deletes the map entry before returning true; only the cache's own methods (and helpers only they call) read the sessions map")
	a := c06Resolve(c, rule)
	isExp := c.needFn(rule, "security", "(*SessionEntry).IsExpired")
	fSess := c.needField(rule, "security", "SessionCache", "sessions")
	if a == nil || isExp == nil || fSess == nil {
		return
	}
	H := a.H
	vw := c.c06View(a, H)
	n := 0
	vw.EachInstr(func(fr *c06Frame, in ssa.Instruction) {
		switch x := in.(type) {
		case ssa.CallInstruction:
			for i, arg := range callArgs(x) {
				if !types.Identical(arg.Type(), a.entryT) {
					continue
				}
				n++
				name := "<dynamic>"
				if o := calleeObj(x); o != nil {
					name = o.Name()
				} else if g := calleeFn(x); g != nil {
					name = g.Name()
				}
				if !a.entryFromLookup(vw, c06FV{arg, fr}) {
					c.Violate(rule, fmt.Sprintf("%s#entry-use:%s/arg%d", fnName(H), name, i), "a *SessionEntry used during resumption does not come from LookupNonExpired/Lookup (expiry unchecked)", x.Pos())
				}
			}
		case *ssa.FieldAddr:
			if types.Identical(x.X.Type(), a.entryT) {
				n++
				if !a.entryFromLookup(vw, c06FV{x.X, fr}) {
					c.Violate(rule, fmt.Sprintf("%s#entry-use:field-%s", fnName(H), fieldOfAddr(x).Name()), "a *SessionEntry used during resumption does not come from LookupNonExpired/Lookup (expiry unchecked)", x.Pos())
				}
			}
		}
	})
	c.Ok(rule, fnName(H)+"#entry-uses", fmt.Sprintf("%d uses of a *SessionEntry inspected", n), H.Pos())
	c.MinCount(rule, "uses of the looked-up entry in handleSessionResumption", n, 1)
	// success passes a found=true edge
	nl := len(vw.Calls(a.lookupNE.Object(), a.lookup.Object()))
	vw.MustPassReturns(rule, c.c06SuccessTargets(H), a.foundFact(vw), 0, ":found", "the found=true edge of an expiry-checked lookup")
	c.MinCount(rule, "lookup calls in handleSessionResumption", nl, 1)
	// accessors
	for _, f := range []*ssa.Function{a.lookup, a.lookupNE, a.lookupByCmd} {
		c.c06AccessorChecks(rule, a, f, isExp, fSess)
	}
	// Invalidate deletes
	inv := a.invalidate
	vi := c.c06View(a, inv)
	nd := 0
	del := &c06Fact{Name: "delete(sessions, id)", Instr: func(fr *c06Frame, in ssa.Instruction) bool {
		cl, ok := in.(*ssa.Call)
		if !ok {
			return false
		}
		bi, ok := cl.Call.Value.(*ssa.Builtin)
		if !ok || bi.Name() != "delete" || !readsField(cl.Call.Args[0], fSess) {
			return false
		}
		return vi.IsRootParam(c06FV{cl.Call.Args[1], fr}, 1)
	}}
	vi.EachInstr(func(fr *c06Frame, in ssa.Instruction) {
		if del.Instr(fr, in) {
			nd++
		}
	})
	var trues []RetPoint
	for _, r := range c.c06LiveReturns(inv) {
		if v, isC := constBool(c06RetVal(r.Ret, 0)); isC && !v {
			continue
		}
		trues = append(trues, r)
	}
	vi.MustPassReturns(rule, trues, del, 0, "", "delete(sessions, id)")
	c.MinCount(rule, "delete(sessions,id) in Invalidate", nd, 1)
	// who may read the sessions map
	allow := fnSet(a.lookup, a.lookupNE, a.lookupByCmd, inv)
	for _, nm := range []string{"(*SessionCache).InvalidateExpired", "(*SessionCache).Snapshot", "(*SessionCache).DebugDump", "(*SessionCache).Size", "(*SessionCache).Store", "(*SessionCache).Clear", "NewSessionCache"} {
		if f := c.needFn(rule, "security", nm); f != nil {
			allow[f] = true
		}
	}
	var rd []*ssa.Function
	poss := map[*ssa.Function]token.Pos{}
	for _, acc := range c.fieldAccesses(fSess) {
		rd = append(rd, acc.Fn)
		poss[acc.Fn] = acc.Instr.Pos()
	}
	users := c.c06WhoMay(rule, "access SessionCache.sessions", rd, poss, allow)
	c.MinCount(rule, "functions touching SessionCache.sessions", users, 2)
}

// c06AccessorChecks: accessor f returns found=true only past a hit in the sessions map and a false
// IsExpired(), and the entry it returns is that map value (the lookup proper may live in a helper of f).
func (c *Ctx) c06AccessorChecks(rule string, a *c06A, f, isExp *ssa.Function, fSess *types.Var) {
	vw := c.c06View(a, f)
	// delegation: result #idx of another of the checked accessors carries what that accessor guarantees
	var others []types.Object
	for _, g := range []*ssa.Function{a.lookup, a.lookupNE, a.lookupByCmd} {
		if g != f {
			others = append(others, g.Object())
		}
	}
	isDelegated := func(o c06FV, idx int) bool {
		ex, ok := o.V.(*ssa.Extract)
		return ok && ex.Index == idx && c06CallOf(o.V, others...) != nil
	}
	isMapOk := func(o c06FV, idx int) bool {
		if isDelegated(o, idx) {
			return true
		}
		ex, ok := o.V.(*ssa.Extract)
		if !ok || ex.Index != idx {
			return false
		}
		lk, ok := ex.Tuple.(*ssa.Lookup)
		return ok && lk.CommaOk && readsField(lk.X, fSess)
	}
	notExpired := &c06Fact{Name: "!IsExpired()", Cond: func(fr *c06Frame, at Atom) (bool, bool) {
		if at.Op != token.ILLEGAL || at.X == nil {
			return false, false
		}
		if vw.AllOrigins(c06FV{at.X, fr}, func(o c06FV) bool { return isDelegated(o, 1) }) {
			return true, false
		}
		cl, ok := at.X.(*ssa.Call)
		return false, ok && calleeFn(cl) == isExp
	}}
	hit := &c06Fact{Name: "sessions-map hit", Cond: func(fr *c06Frame, at Atom) (bool, bool) {
		if at.Op != token.ILLEGAL || at.X == nil {
			return false, false
		}
		return vw.AllOrigins(c06FV{at.X, fr}, func(o c06FV) bool { return isMapOk(o, 1) }), false
	}}
	var targets []RetPoint
	for _, r := range c.c06LiveReturns(f) {
		if len(r.Ret.Results) == 2 {
			if v, isC := constBool(c06RetVal(r.Ret, 1)); isC && !v {
				continue
			}
			targets = append(targets, r)
		}
	}
	// "return helper(id)": the returned found flag itself may carry the fact
	open := func(fact *c06Fact) []RetPoint {
		var out []RetPoint
		for _, t := range targets {
			if yes, _ := vw.evalValue(vw.Root, fact, c06RetVal(t.Ret, 1), 0); yes {
				continue
			}
			out = append(out, t)
		}
		return out
	}
	vw.MustPassReturns(rule, open(notExpired), notExpired, 0, "", "a false IsExpired()")
	for _, t := range targets {
		var p []*ssa.BasicBlock
		if yes, _ := vw.evalValue(vw.Root, hit, c06RetVal(t.Ret, 1), 0); !yes {
			p = vw.PathToReturns(vw.Root, []RetPoint{t}, hit, 0)
		}
		c.Check(p == nil, rule, fmt.Sprintf("%s#return%d:map-hit", fnName(f), retOrdinal(f, t.Ret)), "found=true only past a hit in the sessions map", "found=true can be returned without a hit in the sessions map", t.Ret.Pos(), c.describePath(p)...)
		fromMap := vw.AllOrigins(vw.fv(c06RetVal(t.Ret, 0)), func(o c06FV) bool { return isMapOk(o, 0) })
		c.Check(fromMap, rule, fmt.Sprintf("%s#return%d:entry<-sessions", fnName(f), retOrdinal(f, t.Ret)), "the returned entry is the sessions-map value", "the returned entry is not the value read from the sessions map", t.Ret.Pos())
	}
	nr := len(vw.Calls(others...))
	vw.EachInstr(func(fr *c06Frame, in ssa.Instruction) {
		if lk, ok := in.(*ssa.Lookup); ok && lk.CommaOk && readsField(lk.X, fSess) {
			nr++
		}
	})
	c.MinCount(rule, "found=true returns of "+fnName(f), len(targets), 1)
	c.MinCount(rule, "sessions-map reads (or calls of another checked accessor) in "+fnName(f), nr, 1)
}

// c06Reply describes a reply ad the resumption handler sends: for each FinishMessage call (in the handler or
// in a helper of it) the ReturnCode constant of the ad put on the same message.
type c06Reply struct {
	Finish, Put c06Site
	Ad          c06FV
	Code        string
}

func (a *c06A) replies(vw *c06View) []c06Reply {
	sets := vw.Sets()
	var out []c06Reply
	for _, fin := range vw.Calls(a.finish.Object()) {
		m := fin.Arg(0)
		for _, put := range vw.Calls(a.putAd.Object()) {
			if put.NArgs() < 3 || !vw.Same(put.Arg(0), m) {
				continue
			}
			r := c06Reply{Finish: fin, Put: put, Ad: put.Arg(2)}
			for _, s := range sets {
				if s.Name == "ReturnCode" && vw.Same(s.Ad, r.Ad) {
					if cs, ok := vw.ConstString(s.Val); ok {
						r.Code = cs
					}
				}
			}
			out = append(out, r)
		}
	}
	return out
}

// c06CodeCmp is a comparison of the reply's ReturnCode attribute with a string constant, somewhere in the view.
type c06CodeCmp struct {
	Const string
	F     *c06Frame
}

// isReturnCode: v is the value of the ReturnCode attribute of an ad.
func (a *c06A) isReturnCode(vw *c06View, v c06FV) bool {
	return vw.AllOrigins(v, func(o c06FV) bool {
		_, _, name, idx, ok := vw.AttrLookup(o)
		return ok && name == "ReturnCode" && idx == 0
	})
}

// codeAtom: at compares the ReturnCode attribute with a string constant.
func (a *c06A) codeAtom(vw *c06View, fr *c06Frame, at Atom) (k string, eqOnTrue, ok bool) {
	if at.Op != token.EQL && at.Op != token.NEQ || at.X == nil || at.Y == nil {
		return "", false, false
	}
	x, y := c06FV{at.X, fr}, c06FV{at.Y, fr}
	if s, isC := vw.ConstString(y); isC && a.isReturnCode(vw, x) {
		return s, at.Op == token.EQL, true
	}
	if s, isC := vw.ConstString(x); isC && a.isReturnCode(vw, y) {
		return s, at.Op == token.EQL, true
	}
	return "", false, false
}

// codeFact: "ReturnCode == k" (eq) resp. "ReturnCode != k" for some k in ks.
func (a *c06A) codeFact(vw *c06View, ks map[string]bool, eq bool) *c06Fact {
	return &c06Fact{Name: "ReturnCode", Cond: func(fr *c06Frame, at Atom) (bool, bool) {
		k, eqOnTrue, ok := a.codeAtom(vw, fr, at)
		if !ok || !ks[k] {
			return false, false
		}
		if eq {
			return eqOnTrue, !eqOnTrue
		}
		return !eqOnTrue, eqOnTrue
	}}
}

// clientCodes: the ReturnCode constants resumeSession (or a helper of it) compares the reply's code with, and
// those whose equality leads to cache.Invalidate ("session gone").
func (a *c06A) clientCodes(vw *c06View) (gone map[string]bool, all map[string]bool) {
	gone, all = map[string]bool{}, map[string]bool{}
	vw.EachInstr(func(fr *c06Frame, in ssa.Instruction) {
		bo, ok := in.(*ssa.BinOp)
		if !ok {
			return
		}
		if k, _, ok := a.codeAtom(vw, fr, Atom{Op: bo.Op, X: bo.X, Y: bo.Y}); ok {
			all[k] = true
		}
	})
	for k := range all {
		f := a.codeFact(vw, map[string]bool{k: true}, true)
		for _, inv := range vw.Calls(a.invalidate.Object()) {
			if ok, _ := vw.MustPassTo(inv.F, inv.Call, f); ok {
				gone[k] = true
			}
		}
	}
	return
}

// notAskedFact: the requester did not ask for a reply (ResumeResponse false or absent).
func (a *c06A) notAskedFact(vw *c06View, seen map[c06FV]bool) *c06Fact {
	return &c06Fact{Name: "ResumeResponse false/absent", Cond: func(fr *c06Frame, at Atom) (bool, bool) {
		if at.Op != token.ILLEGAL || at.X == nil {
			return false, false
		}
		sawAttr := false
		ok := vw.AllOrigins(c06FV{at.X, fr}, func(o c06FV) bool {
			if v, isC := constBool(o.V); isC {
				return !v
			}
			// the attribute's value, or its "present" flag: absent counts as not asked
			if _, _, name, _, isL := vw.AttrLookup(o); isL && name == "ResumeResponse" {
				sawAttr = true
				return true
			}
			return false
		})
		if !ok || !sawAttr {
			return false, false
		}
		if seen != nil {
			seen[c06FV{at.X, fr}] = true
		}
		return false, true
	}}
}

// C06-R3: a requester that asked is told the session is gone.
func c06r3(c *Ctx) {
	const rule = "C06-R3"
	c.Doc(rule, "handleSessionResumption: every error return that can be reached without a found=true lookup edge is preceded by a completed reply (nil-error FinishMessage, possibly sent by a helper) whose ReturnCode is the constant resumeSession treats as 'session gone' (it invalidates on it), unless the requester did not ask (ResumeResponse false/absent) or sending the reply itself failed")
	a := c06Resolve(c, rule)
	if a == nil {
		return
	}
	H := a.H
	vw := c.c06View(a, H)
	gone, _ := a.clientCodes(c.c06View(a, a.R))
	c.MinCount(rule, "ReturnCode constants on which resumeSession invalidates", len(gone), 1)
	fin, put := map[c06Site]bool{}, map[c06Site]bool{}
	told := 0
	for _, r := range a.replies(vw) {
		if !gone[r.Code] {
			continue
		}
		told++
		fin[r.Finish], put[r.Put] = true, true
	}
	toldFact := &c06Fact{Name: "told",
		CallOK:   func(fr *c06Frame, cl ssa.CallInstruction) bool { return fin[c06Site{cl, fr}] },
		CallFail: func(fr *c06Frame, cl ssa.CallInstruction) bool { return fin[c06Site{cl, fr}] || put[c06Site{cl, fr}] },
	}
	tests := map[c06FV]bool{}
	fact := c06AnyOf("told / not asked / found", toldFact, a.notAskedFact(vw, tests), a.foundFact(vw))
	var errs []RetPoint
	isSucc := map[*ssa.Return]bool{}
	for _, t := range c.c06SuccessTargets(H) {
		isSucc[t.Ret] = true
	}
	for _, r := range c.returnsOf(H) {
		if !isSucc[r.Ret] {
			errs = append(errs, r)
		}
	}
	vw.MustPassReturns(rule, errs, fact, 2, ":told", "a completed 'session gone' reply, a not-asked edge, a reply I/O failure or a found=true edge")
	c.MinCount(rule, "'session gone' replies in handleSessionResumption", told, 1)
	c.MinCount(rule, "ResumeResponse tests", len(tests), 1)
	c.MinCount(rule, "error returns of handleSessionResumption", len(errs), 1)
}

// C06-R4: identity restored from the entry's policy, never invented.
func c06r4(c *Ctx) {
	const rule = "C06-R4"
	c.Doc(rule, "on resumption User/Authentication/NegotiatedAuth/ValidCommands of the negotiation are assigned (in the handler or a helper of it) only from entry.Policy() lookups of User/Authenticated/AuthMethods/ValidCommands or the zero value (entry = the looked-up entry on the server, the cached entry on the client); every writer of session policies (storeSession, ImportClaimSession, ImportFileTransferSession, MintClaimSession, CreateNonNegotiatedSession) sets Authenticated, User and AuthMethods on the policy it registers")
	a := c06Resolve(c, rule)
	if a == nil {
		return
	}
	want := map[*types.Var]string{a.fUser: "User", a.fAuthn: "Authenticated", a.fAuthM: "AuthMethods", a.fValidC: "ValidCommands"}
	type fnField struct {
		fn *ssa.Function
		f  *types.Var
	}
	count := map[fnField]int{}
	for _, fn := range []*ssa.Function{a.H, a.R} {
		vw := c.c06View(a, fn)
		isEntry := func(v c06FV) bool {
			if fn == a.H {
				return a.entryFromLookup(vw, v)
			}
			return vw.IsRootParam(v, 2)
		}
		for f, attr := range want {
			for _, st := range vw.StoresToField(f) {
				count[fnField{fn, f}]++
				good := vw.AllOrigins(st.Val(), func(o c06FV) bool {
					// the zero value ("", false) is a default, not an invented identity
					if b, isB := constBool(o.V); isB && !b {
						return true
					}
					if str, isS := constString(o.V); isS && str == "" {
						return true
					}
					_, ad, name, idx, ok := vw.AttrLookup(o)
					if !ok || idx != 0 || name != attr {
						return false
					}
					return a.isPolicyVal(vw, ad, isEntry)
				})
				c.Check(good, rule, fnName(fn)+"#store:"+f.Name(), f.Name()+" is restored from the entry's policy attribute "+attr,
					f.Name()+" of a resumed session is assigned from something other than entry.Policy()."+attr+" (identity invented or taken from the peer)", st.St.Pos())
			}
		}
	}
	// the property names the identity and the authentication status: both ends must restore these two
	for _, fn := range []*ssa.Function{a.H, a.R} {
		for _, f := range []*types.Var{a.fUser, a.fAuthn} {
			c.MinCount(rule, "stores of "+f.Name()+" in "+fnName(fn), count[fnField{fn, f}], 1)
		}
	}
	nw := 0
	nse := c.needFn(rule, "security", "NewSessionEntry")
	for _, nm := range []string{"(*Authenticator).storeSession", "ImportClaimSession", "ImportFileTransferSession", "MintClaimSession", "CreateNonNegotiatedSession"} {
		w := c.needFn(rule, "security", nm)
		if w == nil || nse == nil {
			continue
		}
		nw++
		vw := c.c06NewView(w, append(a.stopFns(), nse)...)
		// the policies this writer registers
		var policies []c06FV
		for _, e := range vw.Calls(nse.Object()) {
			if e.NArgs() == 7 {
				policies = append(policies, e.Arg(3))
			}
		}
		if len(policies) == 0 {
			c.Undecided(rule, fnName(w)+"#NewSessionEntry", "the writer does not build its session entry with NewSessionEntry: which policy it registers is not decided", w.Pos())
			continue
		}
		names := map[string]bool{}
		for _, s := range vw.Sets() {
			for _, p := range policies {
				if s.Name != "" && vw.Same(s.Ad, p) {
					names[s.Name] = true
				}
			}
		}
		for _, need := range []string{"Authenticated", "User", "AuthMethods"} {
			c.Check(names[need], rule, fnName(w)+"#sets:"+need, "the stored policy carries "+need, "the stored policy never sets "+need+", which resumption reads back", w.Pos())
		}
	}
	c.MinCount(rule, "policy writers", nw, 5)
}

// C06-R5: nothing switches protection off again.
func c06r5(c *Ctx) {
	const rule = "C06-R5"
	c.Doc(rule, "handleSessionResumption, resumeSession and setupStreamEncryption (their closures and the same-package helpers they call) never call Stream.SetEncrypted / SetCryptoMode / PrepareCryptoForSecret: once the key is installed nothing on the resumption path turns protection off")
	a := c06Resolve(c, rule)
	if a == nil {
		return
	}
	var off []types.Object
	for _, nm := range []string{"(*Stream).SetEncrypted", "(*Stream).SetCryptoMode", "(*Stream).PrepareCryptoForSecret"} {
		if o := c.needObj(rule, "stream", nm); o != nil {
			off = append(off, o)
		}
	}
	// the unexported worker behind PrepareCryptoForSecret, when there is one
	if o := c.LookupObj("stream", "(*Stream).prepareCryptoForSecret"); o != nil {
		off = append(off, o)
	}
	n := 0
	for _, top := range []*ssa.Function{a.H, a.R, a.S} {
		n0 := n
		seen := map[*ssa.Function]bool{}
		var fns []*ssa.Function
		for _, fr := range c.c06View(a, top).Frames() {
			for _, fn := range withClosures(fr.Fn) {
				if !seen[fn] {
					seen[fn] = true
					fns = append(fns, fn)
				}
			}
		}
		for _, fn := range fns {
			allInstrs(fn, func(_ *ssa.BasicBlock, _ int, in ssa.Instruction) {
				if _, ok := in.(ssa.CallInstruction); ok {
					n++
				}
				if cl, ok := isCallTo(in, off...); ok {
					c.Violate(rule, fnName(top)+"#call:"+calleeObj(cl).Name(), "the resumption path calls "+calleeObj(cl).Name()+": bytes after the reply may travel unprotected", cl.Pos())
				}
			})
		}
		c.MinCount(rule, "call sites inspected in "+fnName(top), n-n0, 1)
	}
	c.Ok(rule, "resumption-path#no-crypto-off", fmt.Sprintf("%d call sites inspected, none switches stream protection off", n), token.NoPos)
	c.MinCount(rule, "crypto-off entry points resolved", len(off), 3)
}

// C06-R6: freshness of the resumption exchange.
func c06r6(c *Ctx) {
	const rule = "C06-R6"
	c.Doc(rule, "some attribute of the resumption request ad (resumeSession) and of the success reply ad (handleSessionResumption) depends on crypto/rand, and no resumption succeeds without that reply having been sent: otherwise the cleartext transcript, hence the first-frame AAD, repeats across connections of a session and a recorded connection replays under the unchanged key")
	a := c06Resolve(c, rule)
	if a == nil {
		return
	}
	vr, vh := c.c06View(a, a.R), c.c06View(a, a.H)
	gone, _ := a.clientCodes(vr)
	fresh := func(vw *c06View, ad c06FV) (bool, int) {
		n := 0
		for _, s := range vw.Sets() {
			if !vw.Same(s.Ad, ad) {
				continue
			}
			n++
			if c.c06FreshX(vw, s.Val) {
				return true, n
			}
		}
		return false, n
	}
	// request
	nreq := 0
	for _, put := range vr.Calls(a.putAd.Object()) {
		nreq++
		ok, n := fresh(vr, put.Arg(2))
		c.Check(ok, rule, fnName(a.R)+"#request-ad", "the resumption request carries a fresh value",
			fmt.Sprintf("none of the %d attributes of the resumption request depends on crypto/rand: the client's cleartext transcript is identical on every resumption of a session, so a recorded server->client stream replays against a resuming client", n), put.Pos())
	}
	c.MinCount(rule, "request ads in resumeSession", nreq, 1)
	// reply
	nrep := 0
	fin := map[c06Site]bool{}
	for _, r := range a.replies(vh) {
		if gone[r.Code] || r.Code == "" {
			continue
		}
		nrep++
		ok, n := fresh(vh, r.Ad)
		c.Check(ok, rule, fnName(a.H)+"#reply-ad", "the resumption reply carries a fresh value",
			fmt.Sprintf("none of the %d attributes of the %s reply depends on crypto/rand: the server's cleartext transcript is identical on every resumption of a session, so the recorded client->server bytes of one connection (request + encrypted frames, sender-chosen IV) verify again on a new connection", n, r.Code), r.Put.Pos())
		fin[r.Finish] = true
	}
	c.MinCount(rule, "success reply ads in handleSessionResumption", nrep, 1)
	sent := &c06Fact{Name: "reply sent", CallOK: func(fr *c06Frame, cl ssa.CallInstruction) bool { return fin[c06Site{cl, fr}] }}
	wit := vh.PathToReturns(vh.Root, c.c06SuccessTargets(a.H), sent, 1)
	c.Check(wit == nil, rule, fnName(a.H)+"#reply-less-resumption", "every resumption sends the reply",
		"a session is resumed without any reply being sent (ResumeResponse false/absent): the server contributes nothing to the transcript, so a recorded client->server stream of such a connection replays whatever the reply would contain", a.H.Pos(), c.describePath(wit)...)
}

// C06-R7: client side symmetry.
func c06r7(c *Ctx) {
	const rule = "C06-R7"
	c.Doc(rule, "resumeSession: every success return passes the edge on which the reply's ReturnCode equals the constant the server puts in its success reply (an absent ReturnCode is not success; the comparison may live in a helper); the installed secret is the cached entry's key and success passes a nil-error setupStreamEncryption")
	a := c06Resolve(c, rule)
	if a == nil {
		return
	}
	vr, vh := c.c06View(a, a.R), c.c06View(a, a.H)
	gone, all := a.clientCodes(vr)
	okCodes := map[string]bool{}
	for _, r := range a.replies(vh) {
		if r.Code != "" && !gone[r.Code] {
			okCodes[r.Code] = true
		}
	}
	c.MinCount(rule, "success ReturnCode constants sent by handleSessionResumption", len(okCodes), 1)
	n := 0
	for k := range all {
		if okCodes[k] {
			n++
		}
	}
	c.MinCount(rule, "comparisons of ReturnCode with the success constant in resumeSession", n, 1)
	succ := c.c06SuccessTargets(a.R)
	vr.MustPassReturns(rule, succ, a.codeFact(vr, okCodes, true), 0, ":authorized", "the edge on which ReturnCode == the server's success constant")
	c.MinCount(rule, "success returns of resumeSession", len(succ), 1)
	ni := c.c06Install(rule, a, vr)
	c.MinCount(rule, "key installer calls in resumeSession", ni, 1)
}
