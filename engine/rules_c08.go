package main

import (
	"go/token"
	"go/types"
	"strconv"
	"strings"

	"golang.org/x/tools/go/ssa"
)

// C08 -- ClassAds survive the wire; decoder shortcuts agree with the full parser (DESIGN.md section 5).
//
//	R1 receivers consume the same wire items (language equality with the stated layout) + SkipString frames like GetString
//	R2 senders: layout, count == len(loop slice) (+1 only with the ServerTime string), every iteration writes
//	R3 the quoted-string shortcut inspects the interior for a double quote
//	R4 MyType/TargetType travel in trailing strings #1/#2 on every side
//
// Deliberately not decided here: that the per-expression loop runs exactly <count> times (loop-bound
// arithmetic), and the for-all-strings agreement of the bool/int/real shortcuts with the parser.
func init() { register("C08", c08r1, c08r2, c08r3, c08r4) }

// ---------------------------------------------------------------------------
// expected wire layouts (see help_c08.go for the item alphabet; ".l" = inside a loop)

// secretItem: the put_secret field after a marker: one string, bracketed by Prepare/Restore when the
// stream implements the crypto-for-secret toggle.
func secretItemL() wre {
	return wAlt(wLit("STR.l"), wSeq(wLit("PREP.l"), wLit("STR.l"), wLit("REST.l")))
}

// recvBodyL: one counted expression as the receivers must consume it.
func recvBodyL() wre {
	return wSeq(wLit("STR.l"), wAlt(wLit("M-.l"), wSeq(wLit("M+.l"), secretItemL())))
}

const recvLayoutText = "INT (STR [==SecretMarker: SECRET])* STR STR, SECRET = STR inside Prepare/RestoreCryptoForSecret"

// c08Receivers lists the receivers and whether they consume the leading count themselves.
var c08Receivers = []struct {
	rel, name string
	count     bool
}{
	{"message", "getClassAdFromMessageWithMaxSize", true},
	{"message", "(*Message).GetClassAdRaw", true},
	{"message", "(*Message).GetClassAdRawBody", false},
	{"message", "(*Message).SkipClassAdRaw", true},
}

// c08FindMatchers looks, among the module callees the receivers would inline, for string readers of the
// shape func (m *Message) f(..., want string) (bool, error) and admits those whose byte-level framing equals
// GetString's and whose boolean result depends on the string parameter. They then count as STR items and a
// branch on their result (called with the SecretMarker constant) counts as the marker test.
func c08FindMatchers(c *Ctx, rule string, w *wireAnchors, roots []*ssa.Function) {
	seen := map[*ssa.Function]bool{}
	var visit func(fn *ssa.Function, d int)
	visit = func(fn *ssa.Function, d int) {
		if fn == nil || seen[fn] || d > 6 {
			return
		}
		seen[fn] = true
		allInstrs(fn, func(_ *ssa.BasicBlock, _ int, in ssa.Instruction) {
			call, ok := in.(ssa.CallInstruction)
			if !ok {
				return
			}
			act := w.itemAct(fn, call)
			if act.Inline == nil {
				return
			}
			g := act.Inline
			if c08MatcherShape(w, g) && !seen[g] {
				seen[g] = true
				if c08SameFraming(c, rule, w, g) {
					dep := false
					for _, t := range c.successTargets(g) {
						res := t.Ret.Results[0]
						if _, isConst := res.(*ssa.Const); isConst {
							continue
						}
						if mustDepend(g, res, func(v ssa.Value) bool {
							p, ok := v.(*ssa.Parameter)
							return ok && c08IsStringType(p.Type())
						}) {
							dep = true
						}
					}
					if c.Check(dep, rule, "matcher:"+fnName(g), "the boolean result depends on the string it is asked to match",
						"the boolean result of this matching string reader does not depend on its string parameter", g.Pos()) {
						w.matchers[g] = true
					}
				}
				return
			}
			visit(g, d+1)
		})
	}
	for _, r := range roots {
		visit(r, 0)
	}
}

func c08IsStringType(t types.Type) bool {
	b, ok := t.Underlying().(*types.Basic)
	return ok && b.Kind() == types.String
}

func c08MatcherShape(w *wireAnchors, g *ssa.Function) bool {
	sig := g.Signature
	if sig.Recv() == nil || !w.isMessage(sig.Recv().Type()) || sig.Results().Len() != 2 {
		return false
	}
	if b, ok := sig.Results().At(0).Type().Underlying().(*types.Basic); !ok || b.Kind() != types.Bool {
		return false
	}
	if !isErrorType(sig.Results().At(1).Type()) {
		return false
	}
	for i := 0; i < sig.Params().Len(); i++ {
		if c08IsStringType(sig.Params().At(i).Type()) {
			return true
		}
	}
	return false
}

// c08SameFraming: the byte-level language of fn equals GetString's (length-prefixed when the stream is
// encrypting, NUL-terminated otherwise).
func c08SameFraming(c *Ctx, rule string, w *wireAnchors, fn *ssa.Function) bool {
	abs := &wireAbs{c: c, act: w.byteAct, edge: w.byteEdges}
	ref := abs.build(w.getString)
	got := abs.build(fn)
	construct := "framing:" + fnName(fn) + "~GetString"
	if wnfaEmpty(ref) {
		c.Undecided(rule, construct, "cannot abstract GetString's framing (no success path found)", w.getString.Pos())
		return false
	}
	word, inGot, differ := wnfaDiff(got, ref)
	if !differ {
		c.Ok(rule, construct, "consumes a string exactly as GetString does: E+ INT NBYTES | E- (BYTE Z-)* [BYTE Z+]", fn.Pos())
		return true
	}
	if c08Unfollowed(word) {
		c.Undecided(rule, construct, "cannot abstract the byte-level reads of "+fnName(fn)+": "+c08WordString(word), fn.Pos())
		return false
	}
	if inGot {
		c.Violate(rule, construct, fnName(fn)+" can consume ["+c08WordString(word)+"], which GetString never does: the two disagree on where a string ends (E=stream encrypting, INT=length prefix, NBYTES=prefixed bytes, BYTE/Z=byte and NUL test)", fn.Pos())
	} else {
		c.Violate(rule, construct, "GetString can consume ["+c08WordString(word)+"], which "+fnName(fn)+" never does: the two disagree on where a string ends (E=stream encrypting, INT=length prefix, NBYTES=prefixed bytes, BYTE/Z=byte and NUL test)", fn.Pos())
	}
	return false
}

func c08Unfollowed(word []string) bool {
	for _, l := range word {
		if strings.Contains(l, "?") {
			return true
		}
	}
	return false
}

// c08CompareLayout compares fn's item language with the expected one and records one obligation.
func c08CompareLayout(c *Ctx, rule string, w *wireAnchors, fn *ssa.Function, exp wre, layout string, project func(string) bool) bool {
	abs := &wireAbs{c: c, act: w.itemAct, edge: w.markerEdges, other: w.itemOther}
	got := abs.build(fn)
	if project != nil {
		got = got.erase(project)
	}
	construct := fnName(fn) + "#wire-layout"
	if wnfaEmpty(got) {
		c.Undecided(rule, construct, "no path to a success return could be abstracted", fn.Pos())
		return false
	}
	word, inGot, differ := wnfaDiff(got, wCompile(exp))
	if !differ {
		c.Ok(rule, construct, "wire items on every success path form "+layout, fn.Pos())
		return true
	}
	if c08Unfollowed(word) {
		c.Undecided(rule, construct, "cannot abstract "+fnName(fn)+" to wire items: a success path performs ["+c08WordString(word)+"]", fn.Pos())
		return false
	}
	if inGot {
		c.Violate(rule, construct, "a success path performs the items ["+c08WordString(word)+"], which the layout "+layout+" does not allow (.l = inside the per-expression loop, M+/M- = outcome of the ==SecretMarker test)", fn.Pos())
	} else {
		c.Violate(rule, construct, "no success path performs ["+c08WordString(word)+"], which the layout "+layout+" requires (.l = inside the per-expression loop, M+/M- = outcome of the ==SecretMarker test)", fn.Pos())
	}
	return false
}

// C08-R1: the three receivers consume the same wire items.
func c08r1(c *Ctx) {
	const rule = "C08-R1"
	defer c08RuleTimer(rule)()
	c.Doc(rule, "sibling agreement of the receivers: getClassAdFromMessageWithMaxSize, GetClassAdRaw(+Body) and SkipClassAdRaw are abstracted (SSA, control-flow order, loops as cycles, module helpers inlined, error returns pruned) to a regular language over wire items and each must equal "+recvLayoutText+"; SkipString (and any matching skipper) must frame a string exactly as GetString does (length prefix when the stream encrypts, NUL terminator otherwise)")
	w := c.wireAnchors(rule)
	if !w.ok {
		return
	}
	var fns []*ssa.Function
	for _, r := range c08Receivers {
		fns = append(fns, c.needFn(rule, r.rel, r.name))
	}
	// framing of the skipping string reader against the reference reader
	n := 0
	if skip := c.needFn(rule, "message", "(*Message).SkipString"); skip != nil {
		c08SameFraming(c, rule, w, skip)
		n++
	}
	c08FindMatchers(c, rule, w, fns)
	for i, r := range c08Receivers {
		if fns[i] == nil {
			continue
		}
		exp := wSeq(wStar(recvBodyL()), wLit("STR"), wLit("STR"))
		if r.count {
			exp = wSeq(wLit("INT"), exp)
		}
		c08CompareLayout(c, rule, w, fns[i], exp, recvLayoutText, nil)
		n++
	}
	c.MinCount(rule, "receivers and string skippers compared", n, 5)
}

// ---------------------------------------------------------------------------
// C08-R2: senders

var c08Senders = []struct {
	rel, name string
	options   bool // the option-driven sender (server time, secrets, optional type names)
}{
	{"message", "putClassAdToMessageWithOptions", true},
	{"message", "(*Message).PutClassAdRaw", false},
	{"message", "(*Message).PutClassAdRawBytes", false},
}

func c08r2(c *Ctx) {
	const rule = "C08-R2"
	defer c08RuleTimer(rule)()
	c.Doc(rule, "sibling agreement of the senders: putClassAdToMessageWithOptions, PutClassAdRaw, PutClassAdRawBytes abstract to INT [STR] (STR | MARK STR)* [STR STR] (raw senders: INT STR* STR STR); the count written is len(S) of the slice S the per-expression loop ranges over (+1 exactly under the condition that writes the extra ServerTime string); no path through the loop body skips the write except the named unreachable !exists edge")
	w := c.wireAnchors(rule)
	if !w.ok {
		return
	}
	project := func(l string) bool {
		l = strings.TrimSuffix(l, wireLoop)
		return l == "FLUSH" || l == "PREP" || l == "REST"
	}
	n := 0
	for _, s := range c08Senders {
		fn := c.needFn(rule, s.rel, s.name)
		if fn == nil {
			continue
		}
		n++
		var exp wre
		layout := "INT STR* STR STR"
		if s.options {
			layout = "INT [STR] (STR | MARK STR)* [STR STR]"
			exp = wSeq(wLit("INT"), wOpt(wLit("STR")), wStar(wAlt(wLit("STR.l"), wSeq(wLit("MARK.l"), wLit("STR.l")))), wOpt(wSeq(wLit("STR"), wLit("STR"))))
		} else {
			exp = wSeq(wLit("INT"), wStar(wLit("STR.l")), wLit("STR"), wLit("STR"))
		}
		c08CompareLayout(c, rule, w, fn, exp, layout, project)
		c08CountAgreement(c, rule, w, fn)
	}
	c.MinCount(rule, "senders compared", n, 3)
}

// c08LoopOf returns the blocks of the CFG cycle (strongly connected component) that contains b, or nil.
func c08LoopOf(fn *ssa.Function, b *ssa.BasicBlock) map[*ssa.BasicBlock]bool {
	fwd := map[*ssa.BasicBlock]bool{}
	var walk func(x *ssa.BasicBlock, seen map[*ssa.BasicBlock]bool, succ bool)
	walk = func(x *ssa.BasicBlock, seen map[*ssa.BasicBlock]bool, succ bool) {
		next := x.Succs
		if !succ {
			next = x.Preds
		}
		for _, y := range next {
			if !seen[y] {
				seen[y] = true
				walk(y, seen, succ)
			}
		}
	}
	walk(b, fwd, true)
	if !fwd[b] {
		return nil
	}
	bwd := map[*ssa.BasicBlock]bool{}
	walk(b, bwd, false)
	out := map[*ssa.BasicBlock]bool{}
	for x := range fwd {
		if bwd[x] {
			out[x] = true
		}
	}
	return out
}

// c08LenOperand: v is len(S) (possibly plus constants on some phi edges); returns S and the "+k" adders found.
func c08LenOperand(fn *ssa.Function, v ssa.Value) (slice ssa.Value, adders []*ssa.BinOp, ok bool) {
	seen := map[ssa.Value]bool{}
	ok = true
	var walk func(v ssa.Value)
	walk = func(v ssa.Value) {
		if seen[v] || !ok {
			return
		}
		seen[v] = true
		switch x := v.(type) {
		case *ssa.Phi:
			for _, e := range x.Edges {
				walk(e)
			}
		case *ssa.Convert:
			walk(x.X)
		case *ssa.BinOp:
			if k, isC := constInt(x.Y); x.Op == token.ADD && isC && k == 1 {
				adders = append(adders, x)
				walk(x.X)
				return
			}
			ok = false
		case *ssa.Call:
			if b, isB := x.Call.Value.(*ssa.Builtin); isB && b.Name() == "len" && len(x.Call.Args) == 1 {
				if slice == nil || slice == x.Call.Args[0] {
					slice = x.Call.Args[0]
					return
				}
			}
			ok = false
		default:
			ok = false
		}
	}
	walk(v)
	return slice, adders, ok && slice != nil
}

// c08CountAgreement: the INT written first is the number of strings the loop writes.
func c08CountAgreement(c *Ctx, rule string, w *wireAnchors, fn *ssa.Function) {
	var ints, loopWrites, preWrites []ssa.CallInstruction
	cyc := c08CyclicBlocks(fn)
	allInstrs(fn, func(b *ssa.BasicBlock, _ int, in ssa.Instruction) {
		call, ok := in.(*ssa.Call)
		if !ok {
			return
		}
		g := calleeFn(call)
		act := w.itemAct(fn, call)
		switch {
		case g != nil && w.intWriters[g]:
			ints = append(ints, call)
		case cyc[b] && (act.Label == "STR" || act.Inline != nil):
			loopWrites = append(loopWrites, call)
		}
	})
	key := fnName(fn) + "#count"
	if len(ints) != 1 || len(loopWrites) == 0 {
		c.Undecided(rule, key, "expected exactly one integer write and at least one per-expression write in a loop", fn.Pos())
		return
	}
	cnt := ints[0]
	args := cnt.Common().Args
	slice, adders, ok := c08LenOperand(fn, args[len(args)-1])
	if !ok {
		c.Violate(rule, key, "the expression count written is not len(S) (+1 per extra string) of a single slice S", cnt.Pos())
		return
	}
	// the loop that holds the writes ranges over S: every write's string argument depends on an element of S
	loop := c08LoopOf(fn, loopWrites[0].Block())
	for _, lw := range loopWrites {
		if !loop[lw.Block()] {
			c.Undecided(rule, key, "per-expression writes are spread over more than one loop", lw.Pos())
			return
		}
		a := lw.Common().Args
		dep := c08DependsOnElem(fn, a[len(a)-1], slice)
		c.Check(dep, rule, fnName(fn)+"#loop-element:"+calleeFn(lw).Name(), "the string written in the loop is built from an element of the counted slice",
			"the string written in the loop is not built from an element of the slice whose length was sent as the count", lw.Pos())
	}
	// loop bound: the loop's exit test compares against len(S)
	bound := false
	for b := range loop {
		if ifi := blockIf(b); ifi != nil {
			a := condAtom(ifi.Cond)
			for _, side := range []ssa.Value{a.X, a.Y} {
				if side == nil {
					continue
				}
				if call, ok := side.(*ssa.Call); ok {
					if bi, ok := call.Call.Value.(*ssa.Builtin); ok && bi.Name() == "len" && call.Call.Args[0] == slice {
						bound = true
					}
				}
			}
		}
	}
	c.Check(bound, rule, key+"=len(loop-slice)", "count written and loop bound are len() of the same slice value",
		"the loop that writes the expressions is not bounded by len() of the slice whose length was sent as the count", cnt.Pos())
	// every +1 on the count is matched by exactly one extra string written before the loop under the same condition
	allInstrs(fn, func(b *ssa.BasicBlock, _ int, in ssa.Instruction) {
		call, ok := in.(*ssa.Call)
		if !ok || cyc[b] {
			return
		}
		if act := w.itemAct(fn, call); act.Label == "STR" || act.Label == "MARK" {
			// before the loop = the loop is reachable from it
			if findPath(after(call), Target{Instr: loopWrites[0]}, nil) != nil {
				preWrites = append(preWrites, call)
			}
		}
	})
	if len(adders) != len(preWrites) {
		c.Violate(rule, key+"+extras", "the count is incremented "+c08Itoa(len(adders))+" time(s) but "+c08Itoa(len(preWrites))+" extra string(s) are written before the loop", cnt.Pos())
	} else {
		okAll := true
		for i, ad := range adders {
			ca := c08ControllingCond(fn, ad.Block())
			cw := c08ControllingCond(fn, preWrites[i].Block())
			if ca == nil || cw == nil || ca != cw {
				okAll = false
			}
		}
		c.Check(okAll, rule, key+"+extras", "each increment of the count and the extra string it accounts for are controlled by the same condition value",
			"an increment of the count and the extra string written before the loop are not controlled by the same condition", cnt.Pos())
	}
	// no path through the loop body from the element load back to the loop head skips the write
	c08LoopBodyWrites(c, rule, w, fn, loop, loopWrites)
}

func c08Itoa(i int) string { return strconv.Itoa(i) }

// c08DependsOnElem: v depends on a load of an element of slice s.
func c08DependsOnElem(fn *ssa.Function, v, s ssa.Value) bool {
	return mustDepend(fn, v, func(x ssa.Value) bool {
		ia, ok := x.(*ssa.IndexAddr)
		return ok && ia.X == s
	})
}

// c08ControllingCond: the condition value of the If whose true edge dominates block b (nearest), or nil.
func c08ControllingCond(fn *ssa.Function, b *ssa.BasicBlock) ssa.Value {
	for d := b; d != nil; d = d.Idom() {
		id := d.Idom()
		if id == nil {
			return nil
		}
		if ifi := blockIf(id); ifi != nil && len(id.Succs) == 2 && id.Succs[0] != id.Succs[1] {
			if edgeDominates(fn, Edge{id, 0}, b) {
				return ifi.Cond
			}
		}
	}
	return nil
}

// c08LoopBodyWrites: inside the loop, every path from the loop head around to the loop head passes a write,
// except through the documented !exists edge of putClassAdToMessageWithOptions.
func c08LoopBodyWrites(c *Ctx, rule string, w *wireAnchors, fn *ssa.Function, loop map[*ssa.BasicBlock]bool, writes []ssa.CallInstruction) {
	// loop head: the block of the loop with a predecessor outside it
	var head *ssa.BasicBlock
	for b := range loop {
		for _, p := range b.Preds {
			if !loop[p] {
				head = b
			}
		}
	}
	key := fnName(fn) + "#loop-writes-every-iteration"
	if head == nil {
		c.Undecided(rule, key, "cannot find the loop head", fn.Pos())
		return
	}
	cuts := newCuts()
	for _, wr := range writes {
		cuts.AddInstrs(wr)
	}
	// leaving the loop is not "another iteration"
	for b := range loop {
		for i, s := range b.Succs {
			if !loop[s] {
				cuts.AddEdges(Edge{b, i})
			}
		}
	}
	// exception (one symbol, one reason): the attribute names iterated come from ad.GetAttributes() of the same
	// ad and the whitelist filter keeps only names for which ad.Lookup succeeds, so Lookup cannot miss here.
	excused := 0
	if fn.Name() == "putClassAdToMessageWithOptions" {
		for b := range loop {
			ifi := blockIf(b)
			if ifi == nil {
				continue
			}
			a := condAtom(ifi.Cond)
			if a.Op != token.ILLEGAL {
				continue
			}
			if ex, ok := a.X.(*ssa.Extract); ok && ex.Index == 1 {
				if call, ok := ex.Tuple.(*ssa.Call); ok {
					if o := calleeObj(call); o != nil && o.Name() == "Lookup" && o.Pkg() != nil && strings.HasSuffix(o.Pkg().Path(), "classad/classad") {
						missing := Edge{b, 1}
						if a.Neg {
							missing = Edge{b, 0}
						}
						cuts.AddEdges(missing)
						excused++
					}
				}
			}
		}
		c.Note("%s: excused the !exists edge of ad.Lookup in %s (%d edge): names come from ad.GetAttributes() of the same ad", rule, fnName(fn), excused)
	}
	// from the first instruction of each successor of the head inside the loop, back to the head
	var wit []*ssa.BasicBlock
	for i, s := range head.Succs {
		if !loop[s] || cuts.Edges[Edge{head, i}] {
			continue
		}
		if len(head.Instrs) == 0 || len(s.Instrs) == 0 {
			continue
		}
		if p := findPath(Point{s, 0}, Target{Instr: head.Instrs[0]}, cuts); p != nil {
			wit = p
		}
	}
	if wit == nil {
		c.Ok(rule, key, "every iteration of the per-expression loop writes exactly what the count announced (one item per element)", writes[0].Pos())
	} else {
		c.Violate(rule, key, "an iteration of the per-expression loop can finish without writing its expression although the count already included it", writes[0].Pos(), c.describePath(wit)...)
	}
}

// ---------------------------------------------------------------------------
// C08-R3: the quoted-string shortcut must look at the interior for a double quote

// quoteTesters: strings functions that can decide whether a string contains a given byte.
var c08QuoteTesters = map[string]bool{"Contains": true, "ContainsAny": true, "ContainsRune": true, "IndexByte": true, "IndexRune": true, "IndexAny": true, "Index": true, "Count": true}

func c08r3(c *Ctx) {
	const rule = "C08-R3"
	defer c08RuleTimer(rule)()
	c.Doc(rule, "in tryInsertLiteral the Set(attr, interior) of the quoted-string shortcut (value = trimmed[1:len-1]) is reachable only through the not-found edge of a test that searches the interior for a double quote (strings.Contains/ContainsAny/ContainsRune/Index*/Count with a needle containing '\"', haystack = the interior): a value that merely starts and ends with a quote is not one string literal")
	fn := c.needFn(rule, "message", "tryInsertLiteral")
	if fn == nil {
		return
	}
	n := 0
	allInstrs(fn, func(_ *ssa.BasicBlock, _ int, in ssa.Instruction) {
		call, ok := in.(*ssa.Call)
		if !ok {
			return
		}
		o := calleeObj(call)
		if o == nil || o.Name() != "Set" || o.Pkg() == nil || !strings.HasSuffix(o.Pkg().Path(), "classad/classad") {
			return
		}
		args := call.Common().Args
		val := stripConv(args[len(args)-1])
		sl, ok := val.(*ssa.Slice)
		if !ok || !c08IsStringType(sl.X.Type()) {
			return // not the interior of a quoted value (bool / int / float shortcut)
		}
		if lo, isC := constInt(sl.Low); !isC || lo != 1 {
			return
		}
		n++
		key := fnName(fn) + "#Set(interior)"
		// tests on the interior found in the function
		found, decided := false, false
		allInstrs(fn, func(_ *ssa.BasicBlock, _ int, in2 ssa.Instruction) {
			t, ok := in2.(*ssa.Call)
			if !ok {
				return
			}
			to := calleeObj(t)
			if to == nil || to.Pkg() == nil {
				return
			}
			targs := t.Common().Args
			if (to.Pkg().Path() == "strings" || to.Pkg().Path() == "bytes") && c08QuoteTesters[to.Name()] && len(targs) == 2 {
				if !c08IsInterior(targs[0], sl) || !c08NeedleHasQuote(targs[1]) {
					return
				}
				found = true
				notFound := c08NotFoundEdges(fn, t, to.Name())
				for _, e := range notFound {
					if instrDominatedByEdge(fn, e, call) {
						decided = true
					}
				}
				return
			}
			// one level of module helper handed the interior
			if g := calleeFn(t); g != nil && g.Blocks != nil && fnPkg(g) != nil && inModule(fnPkg(g).Path()) {
				for _, a := range targs {
					if c08IsInterior(a, sl) && c08HelperLooksForQuote(g) {
						found = true
					}
				}
			}
		})
		switch {
		case decided:
			c.Ok(rule, key, "the shortcut stores the interior only when it contains no double quote", call.Pos())
		case found:
			c.Undecided(rule, key, "a test of the interior for a double quote exists but the store is not dominated by its not-found edge in a recognised form", call.Pos())
		default:
			c.Violate(rule, key, "the quoted-string shortcut stores trimmed[1:len-1] without looking for a double quote inside it: the value text \"a\" + \"b\" is stored as the string a\" + \"b instead of being parsed", call.Pos())
		}
	})
	c.MinCount(rule, "quoted-string shortcut stores", n, 1)
}

// c08IsInterior: v is the interior slice itself or an identical re-slice [1:len-1] of the same string.
func c08IsInterior(v ssa.Value, sl *ssa.Slice) bool {
	v = stripConv(v)
	if v == sl {
		return true
	}
	if cv, ok := v.(*ssa.Convert); ok { // []byte(interior)
		return c08IsInterior(cv.X, sl)
	}
	if o, ok := v.(*ssa.Slice); ok && o.X == sl.X {
		lo, isC := constInt(o.Low)
		return isC && lo == 1 && o.High != nil
	}
	return false
}

func c08NeedleHasQuote(v ssa.Value) bool {
	if s, ok := constString(v); ok {
		return strings.Contains(s, "\"")
	}
	if k, ok := constInt(v); ok {
		return k == '"'
	}
	return false
}

// c08NotFoundEdges: edges on which the tester call reported "no double quote".
func c08NotFoundEdges(fn *ssa.Function, t *ssa.Call, name string) []Edge {
	var out []Edge
	switch name {
	case "Contains", "ContainsAny", "ContainsRune":
		_, f := boolEdges(fn, t)
		return f
	}
	for _, b := range fn.Blocks {
		ifi := blockIf(b)
		if ifi == nil {
			continue
		}
		a := condAtom(ifi.Cond)
		if a.X != ssa.Value(t) {
			continue
		}
		k, isC := constInt(a.Y)
		if !isC {
			continue
		}
		var notFoundOnTrue, ok bool
		switch {
		case name == "Count" && k == 0:
			switch a.Op {
			case token.EQL, token.LEQ:
				notFoundOnTrue, ok = true, true
			case token.NEQ, token.GTR:
				notFoundOnTrue, ok = false, true
			}
		case name != "Count" && k == -1:
			switch a.Op {
			case token.EQL:
				notFoundOnTrue, ok = true, true
			case token.NEQ, token.GTR:
				notFoundOnTrue, ok = false, true
			}
		case name != "Count" && k == 0:
			switch a.Op {
			case token.LSS:
				notFoundOnTrue, ok = true, true
			case token.GEQ:
				notFoundOnTrue, ok = false, true
			}
		}
		if !ok {
			continue
		}
		if a.Neg {
			notFoundOnTrue = !notFoundOnTrue
		}
		if notFoundOnTrue {
			out = append(out, Edge{b, 0})
		} else {
			out = append(out, Edge{b, 1})
		}
	}
	return out
}

// c08HelperLooksForQuote: a module helper compares a byte with '"' or calls a strings tester with a quote needle.
func c08HelperLooksForQuote(g *ssa.Function) bool {
	hit := false
	allInstrs(g, func(_ *ssa.BasicBlock, _ int, in ssa.Instruction) {
		switch x := in.(type) {
		case *ssa.BinOp:
			if k, ok := constInt(x.Y); ok && k == '"' && (x.Op == token.EQL || x.Op == token.NEQ) {
				hit = true
			}
		case *ssa.Call:
			if o := calleeObj(x); o != nil && o.Pkg() != nil && o.Pkg().Path() == "strings" && c08QuoteTesters[o.Name()] {
				a := x.Common().Args
				if len(a) == 2 && c08NeedleHasQuote(a[1]) {
					hit = true
				}
			}
		}
	})
	return hit
}

// ---------------------------------------------------------------------------
// C08-R4: type names travel in the two trailing strings, in the same order on every side

func c08r4(c *Ctx) {
	const rule = "C08-R4"
	defer c08RuleTimer(rule)()
	c.Doc(rule, "attribute-constant agreement for the type names: the parsing receiver sets MyType from the first and TargetType from the second trailing string, the raw receiver renders them under the same two names, and the senders write the value of MyType first and TargetType second (raw senders: their myType then targetType parameter)")
	w := c.wireAnchors(rule)
	if !w.ok {
		return
	}
	n := 0
	names := []string{"MyType", "TargetType"}
	// receivers
	for _, r := range []string{"getClassAdFromMessageWithMaxSize", "(*Message).GetClassAdRawBody"} {
		fn := c.needFn(rule, "message", r)
		if fn == nil {
			continue
		}
		ord := c08TrailingOrdinals(w, fn)
		for k, name := range names {
			uses := c08NamedUses(fn, name)
			key := fnName(fn) + "#" + name
			if len(uses) == 0 {
				c.Violate(rule, key, "the receiver never stores the trailing string under the attribute name "+name, fn.Pos())
				continue
			}
			for _, u := range uses {
				n++
				ok := len(origins(fn, u.val)) > 0
				for _, o := range origins(fn, u.val) {
					call, idx := originCall(o)
					if call == nil || idx != 0 {
						ok = false
						continue
					}
					if got, has := ord[call]; !has || got != k {
						ok = false
					}
				}
				c.Check(ok, rule, key, name+" is taken from trailing string #"+c08Itoa(k+1), name+" is not taken from trailing string #"+c08Itoa(k+1)+" of the ad (type names swapped or taken from elsewhere)", u.pos)
			}
		}
	}
	// senders
	for _, s := range c08Senders {
		fn := c.needFn(rule, s.rel, s.name)
		if fn == nil {
			continue
		}
		ord := c08TrailingOrdinals(w, fn)
		byOrd := map[int][]ssa.CallInstruction{}
		for call, k := range ord {
			byOrd[k] = append(byOrd[k], call)
		}
		for k, name := range names {
			key := fnName(fn) + "#" + name
			if len(byOrd[k]) == 0 {
				c.Violate(rule, key, "the sender has no trailing string write #"+c08Itoa(k+1), fn.Pos())
				continue
			}
			for _, call := range byOrd[k] {
				n++
				args := call.Common().Args
				v := args[len(args)-1]
				ok := true
				if s.options {
					// value of ad.EvaluateAttrString(name) or the empty string
					for _, o := range origins(fn, v) {
						if sv, isC := constString(o); isC && sv == "" {
							continue
						}
						oc, idx := originCall(o)
						if oc == nil || idx != 0 || len(oc.Common().Args) < 2 {
							ok = false
							continue
						}
						an, isC := constString(oc.Common().Args[len(oc.Common().Args)-1])
						if !isC || an != name {
							ok = false
						}
					}
				} else {
					// raw senders: parameter order ctx, exprs, myType, targetType
					p, isP := v.(*ssa.Parameter)
					want := len(fn.Params) - 2 + k
					ok = isP && want >= 0 && want < len(fn.Params) && fn.Params[want] == p
				}
				c.Check(ok, rule, key, "trailing string #"+c08Itoa(k+1)+" carries "+name, "trailing string #"+c08Itoa(k+1)+" does not carry "+name+" (type names swapped or taken from another attribute)", call.Pos())
			}
		}
	}
	c.MinCount(rule, "type-name bindings checked", n, 10)
}

type c08Use struct {
	val ssa.Value
	pos token.Pos
}

// c08NamedUses finds ad.Set("<name>", v) calls and fmt.Fprintf(..., "<name> = ...", v) renderings.
func c08NamedUses(fn *ssa.Function, name string) []c08Use {
	var out []c08Use
	allInstrs(fn, func(_ *ssa.BasicBlock, _ int, in ssa.Instruction) {
		call, ok := in.(*ssa.Call)
		if !ok {
			return
		}
		o := calleeObj(call)
		if o == nil || o.Pkg() == nil {
			return
		}
		args := call.Common().Args
		switch {
		case o.Name() == "Set" && strings.HasSuffix(o.Pkg().Path(), "classad/classad") && len(args) == 3:
			if s, ok := constString(args[1]); ok && s == name {
				out = append(out, c08Use{stripConv(args[2]), call.Pos()})
			}
		case o.Pkg().Path() == "fmt" && (o.Name() == "Fprintf" || o.Name() == "Sprintf"):
			fi := 0
			if o.Name() == "Fprintf" {
				fi = 1
			}
			if len(args) < fi+2 {
				return
			}
			f, ok := constString(args[fi])
			if !ok || !strings.HasPrefix(strings.TrimSpace(f), name+" ") {
				return
			}
			// the variadic slice: values stored into its backing array
			root := memRoot(args[fi+1])
			if al, ok := root.(*ssa.Alloc); ok {
				for _, r := range *al.Referrers() {
					if ia, ok := r.(*ssa.IndexAddr); ok {
						for _, rr := range *ia.Referrers() {
							if st, ok := rr.(*ssa.Store); ok && st.Addr == ia {
								out = append(out, c08Use{stripConv(st.Val), call.Pos()})
							}
						}
					}
				}
			}
		}
	})
	return out
}

// c08TrailingOrdinals numbers the string items outside any loop that follow the per-expression loop:
// ordinal = number of such items already passed on every path from the loop to the call (alternatives
// like GetString | GetStringWithMaxSize share an ordinal). Calls reached with differing counts are omitted.
func c08TrailingOrdinals(w *wireAnchors, fn *ssa.Function) map[ssa.CallInstruction]int {
	cyc := c08CyclicBlocks(fn)
	isItem := func(in ssa.Instruction, b *ssa.BasicBlock) (ssa.CallInstruction, bool) {
		call, ok := in.(*ssa.Call)
		if !ok || cyc[b] {
			return nil, false
		}
		act := w.itemAct(fn, call)
		return call, act.Label == "STR"
	}
	// only items after the loop: a loop block reaches them
	afterLoop := func(call ssa.CallInstruction) bool {
		for b := range cyc {
			if len(b.Instrs) > 0 && findPath(Point{b, 0}, Target{Instr: call}, nil) != nil {
				return true
			}
		}
		return false
	}
	type st struct {
		b *ssa.BasicBlock
		n int
	}
	counts := map[ssa.CallInstruction]map[int]bool{}
	seen := map[st]bool{}
	work := []st{{fn.Blocks[0], 0}}
	seen[work[0]] = true
	for len(work) > 0 {
		s := work[len(work)-1]
		work = work[:len(work)-1]
		n := s.n
		for _, in := range s.b.Instrs {
			if call, ok := isItem(in, s.b); ok && afterLoop(call) {
				if counts[call] == nil {
					counts[call] = map[int]bool{}
				}
				counts[call][n] = true
				if n < 8 {
					n++
				}
			}
		}
		for _, nx := range s.b.Succs {
			k := st{nx, n}
			if !seen[k] {
				seen[k] = true
				work = append(work, k)
			}
		}
	}
	out := map[ssa.CallInstruction]int{}
	for call, ns := range counts {
		if len(ns) == 1 {
			for n := range ns {
				out[call] = n
			}
		}
	}
	return out
}
