package main

import (
	"fmt"
	"go/token"
	"go/types"
	"sort"
	"strconv"
	"strings"

	"golang.org/x/tools/go/ssa"
)

// C08 -- ClassAds survive the wire; decoder shortcuts agree with the full parser (DESIGN.md section 5).
//
//	R1 receivers consume the same wire items (language equality with the stated layout) + SkipString frames like GetString
//	R2 senders: layout, count == len(loop slice) (+1 only with the ServerTime string), every iteration writes
//	R3 the quoted-string shortcut inspects the interior for a double quote
//	R4 MyType/TargetType travel in trailing strings #1/#2 on every side
//
// Deliberately not decided here: that the per-expression loop runs exactly <count> times (loop-bound
// arithmetic), and the for-all-strings agreement of the bool/int/real shortcuts with the parser.
func init() { register("C08", c08r1, c08r2, c08r3, c08r4) }

// ---------------------------------------------------------------------------
// expected wire layouts (see help_c08.go for the item alphabet; ".l" = inside a loop)

// recvBodyL: one counted expression as the receivers must consume it. The put_secret field after a marker is one
// string, bracketed by Prepare/Restore when the stream implements the crypto-for-secret toggle (bracketed = true)
// and bare when it does not; which of the two holds cannot change while one ad is read.
func recvBodyL(bracketed bool) wre {
	secret := wLit("STR.l")
	if bracketed {
		secret = wSeq(wLit("PREP.l"), wLit("STR.l"), wLit("REST.l"))
	}
	return wSeq(wLit("STR.l"), wAlt(wLit("M-.l"), wSeq(wLit("M+.l"), secret)))
}

// recvLayout: the expected language of a receiver, for a stream with and without the toggle.
func recvLayout(count bool) *wnfa {
	mk := func(bracketed bool) *wnfa {
		exp := wSeq(wStar(recvBodyL(bracketed)), wLit("STR"), wLit("STR"))
		if count {
			exp = wSeq(wLit("INT"), exp)
		}
		return wCompile(exp)
	}
	return wnfaUnion(mk(true), mk(false))
}

const recvLayoutText = "INT (STR [==SecretMarker: SECRET])* STR STR, SECRET = STR inside Prepare/RestoreCryptoForSecret"

// c08Receivers lists the receivers and whether they consume the leading count themselves.
var c08Receivers = []struct {
	rel, name string
	count     bool
}{
	{"message", "getClassAdFromMessageWithMaxSize", true},
	{"message", "(*Message).GetClassAdRaw", true},
	{"message", "(*Message).GetClassAdRawBody", false},
	{"message", "(*Message).SkipClassAdRaw", true},
}

// c08FindMatchers looks, among the module callees the receivers would inline, for string readers of the
// shape func (m *Message) f(..., want string) (bool, error) and admits those whose byte-level framing equals
// GetString's and whose boolean result depends on the string parameter. They then count as STR items and a
// branch on their result (called with the SecretMarker constant) counts as the marker test.
func c08FindMatchers(c *Ctx, rule string, w *wireAnchors, roots []*ssa.Function) {
	seen := map[*ssa.Function]bool{}
	var visit func(fn *ssa.Function, d int)
	visit = func(fn *ssa.Function, d int) {
		if fn == nil || seen[fn] || d > 6 {
			return
		}
		seen[fn] = true
		allInstrs(fn, func(_ *ssa.BasicBlock, _ int, in ssa.Instruction) {
			call, ok := in.(ssa.CallInstruction)
			if !ok {
				return
			}
			act := w.itemAct(fn, call)
			if act.Inline == nil {
				return
			}
			g := act.Inline
			if c08MatcherShape(w, g) && !seen[g] {
				seen[g] = true
				if c08SameFraming(c, rule, w, g) {
					dep := false
					for _, t := range c.successTargets(g) {
						res := t.Ret.Results[0]
						if _, isConst := res.(*ssa.Const); isConst {
							continue
						}
						if mustDepend(g, res, func(v ssa.Value) bool {
							p, ok := v.(*ssa.Parameter)
							return ok && c08IsStringType(p.Type())
						}) {
							dep = true
						}
					}
					if c.Check(dep, rule, "matcher:"+fnName(g), "the boolean result depends on the string it is asked to match",
						"the boolean result of this matching string reader does not depend on its string parameter", g.Pos()) {
						w.matchers[g] = true
					}
				}
				return
			}
			visit(g, d+1)
		})
	}
	for _, r := range roots {
		visit(r, 0)
	}
}

func c08IsStringType(t types.Type) bool {
	b, ok := t.Underlying().(*types.Basic)
	return ok && b.Kind() == types.String
}

func c08MatcherShape(w *wireAnchors, g *ssa.Function) bool {
	sig := g.Signature
	if sig.Recv() == nil || !w.isMessage(sig.Recv().Type()) || sig.Results().Len() != 2 {
		return false
	}
	if b, ok := sig.Results().At(0).Type().Underlying().(*types.Basic); !ok || b.Kind() != types.Bool {
		return false
	}
	if !isErrorType(sig.Results().At(1).Type()) {
		return false
	}
	for i := 0; i < sig.Params().Len(); i++ {
		if c08IsStringType(sig.Params().At(i).Type()) {
			return true
		}
	}
	return false
}

// c08SameFraming: the byte-level language of fn equals GetString's (length-prefixed when the stream is
// encrypting, NUL-terminated otherwise).
func c08SameFraming(c *Ctx, rule string, w *wireAnchors, fn *ssa.Function) bool {
	abs := &wireAbs{c: c, act: w.byteAct, actFr: w.byteActFr, edge: w.byteEdges}
	ref := abs.build(w.getString)
	got := abs.build(fn)
	construct := "framing:" + fnName(fn) + "~GetString"
	if wnfaEmpty(ref) {
		c.Undecided(rule, construct, "cannot abstract GetString's framing (no success path found)", w.getString.Pos())
		return false
	}
	word, inGot, differ := wnfaDiff(got, ref)
	if !differ {
		c.Ok(rule, construct, "consumes a string exactly as GetString does: E+ INT NBYTES | E- (BYTE Z-)* [BYTE Z+]", fn.Pos())
		return true
	}
	if c08Unfollowed(word) {
		c.Undecided(rule, construct, "cannot abstract the byte-level reads of "+fnName(fn)+": "+c08WordString(word), fn.Pos())
		return false
	}
	if inGot {
		c.Violate(rule, construct, fnName(fn)+" can consume ["+c08WordString(word)+"], which GetString never does: the two disagree on where a string ends (E=stream encrypting, INT=length prefix, NBYTES=prefixed bytes, BYTE/Z=byte and NUL test)", fn.Pos())
	} else {
		c.Violate(rule, construct, "GetString can consume ["+c08WordString(word)+"], which "+fnName(fn)+" never does: the two disagree on where a string ends (E=stream encrypting, INT=length prefix, NBYTES=prefixed bytes, BYTE/Z=byte and NUL test)", fn.Pos())
	}
	return false
}

func c08Unfollowed(word []string) bool {
	for _, l := range word {
		if strings.Contains(l, "?") {
			return true
		}
	}
	return false
}

// c08CompareLayout compares fn's item language with the expected one and records one obligation.
func c08CompareLayout(c *Ctx, rule string, w *wireAnchors, fn *ssa.Function, exp *wnfa, layout string, project func(string) bool) bool {
	abs := &wireAbs{c: c, act: w.itemAct, edge: w.markerEdges, edgeFr: w.itemEdgesFr, other: w.itemOther}
	got := c08ConsistentToggle(abs.build(fn))
	if project != nil {
		got = got.erase(project)
	}
	construct := fnName(fn) + "#wire-layout"
	if wnfaEmpty(got) {
		c.Undecided(rule, construct, "no path to a success return could be abstracted", fn.Pos())
		return false
	}
	word, inGot, differ := wnfaDiff(got, exp)
	if !differ {
		c.Ok(rule, construct, "wire items on every success path form "+layout, fn.Pos())
		return true
	}
	if c08Unfollowed(word) {
		c.Undecided(rule, construct, "cannot abstract "+fnName(fn)+" to wire items: a success path performs ["+c08WordString(word)+"]", fn.Pos())
		return false
	}
	if inGot {
		c.Violate(rule, construct, "a success path performs the items ["+c08WordString(word)+"], which the layout "+layout+" does not allow (.l = inside the per-expression loop, M+/M- = outcome of the ==SecretMarker test)", fn.Pos())
	} else {
		c.Violate(rule, construct, "no success path performs ["+c08WordString(word)+"], which the layout "+layout+" requires (.l = inside the per-expression loop, M+/M- = outcome of the ==SecretMarker test)", fn.Pos())
	}
	return false
}

// C08-R1: the three receivers consume the same wire items.
func c08r1(c *Ctx) {
	const rule = "C08-R1"
	defer c08RuleTimer(rule)()
	c.Doc(rule, "sibling agreement of the receivers: getClassAdFromMessageWithMaxSize, GetClassAdRaw(+Body) and SkipClassAdRaw are abstracted (SSA, control-flow order, loops as cycles, module helpers inlined, error returns pruned) to a regular language over wire items and each must equal "+recvLayoutText+"; SkipString (and any matching skipper) must frame a string exactly as GetString does (length prefix when the stream encrypts, NUL terminator otherwise)")
	w := c.wireAnchors(rule)
	if !w.ok {
		return
	}
	var fns []*ssa.Function
	for _, r := range c08Receivers {
		fns = append(fns, c.needFn(rule, r.rel, r.name))
	}
	// framing of the skipping string reader against the reference reader
	n := 0
	if skip := c.needFn(rule, "message", "(*Message).SkipString"); skip != nil {
		c08SameFraming(c, rule, w, skip)
		n++
	}
	c08FindMatchers(c, rule, w, fns)
	for i, r := range c08Receivers {
		if fns[i] == nil {
			continue
		}
		c08CompareLayout(c, rule, w, fns[i], recvLayout(r.count), recvLayoutText, nil)
		n++
	}
	c.MinCount(rule, "receivers and string skippers compared", n, 2) // each receiver is a required anchor (needFn); at least the skipper and one receiver
}

// ---------------------------------------------------------------------------
// C08-R2: senders

var c08Senders = []struct {
	rel, name string
	options   bool // the option-driven sender (server time, secrets, optional type names)
}{
	{"message", "putClassAdToMessageWithOptions", true},
	{"message", "(*Message).PutClassAdRaw", false},
	{"message", "(*Message).PutClassAdRawBytes", false},
}

func c08r2(c *Ctx) {
	const rule = "C08-R2"
	defer c08RuleTimer(rule)()
	c.Doc(rule, "sibling agreement of the senders: putClassAdToMessageWithOptions, PutClassAdRaw, PutClassAdRawBytes abstract to INT [STR] (STR | MARK STR)* [STR STR] (raw senders: INT STR* STR STR); the count written is len(S) of the slice S the per-expression loop ranges over (+1 exactly under the condition that writes the extra ServerTime string); no path through the loop body skips the write except the named unreachable !exists edge")
	w := c.wireAnchors(rule)
	if !w.ok {
		return
	}
	project := func(l string) bool {
		l = strings.TrimSuffix(l, wireLoop)
		return l == "FLUSH" || l == "PREP" || l == "REST"
	}
	n := 0
	for _, s := range c08Senders {
		fn := c.needFn(rule, s.rel, s.name)
		if fn == nil {
			continue
		}
		n++
		var exp wre
		layout := "INT STR* STR STR"
		if s.options {
			layout = "INT [STR] (STR | MARK STR)* [STR STR]"
			exp = wSeq(wLit("INT"), wOpt(wLit("STR")), wStar(wAlt(wLit("STR.l"), wSeq(wLit("MARK.l"), wLit("STR.l")))), wOpt(wSeq(wLit("STR"), wLit("STR"))))
		} else {
			exp = wSeq(wLit("INT"), wStar(wLit("STR.l")), wLit("STR"), wLit("STR"))
		}
		c08CompareLayout(c, rule, w, fn, wCompile(exp), layout, project)
		c08CountAgreement(c, rule, w, fn)
	}
	c.MinCount(rule, "senders compared", n, 1) // each sender is a required anchor (needFn)
}

// c08LoopOf returns the blocks of the CFG cycle (strongly connected component) that contains b, or nil.
func c08LoopOf(fn *ssa.Function, b *ssa.BasicBlock) map[*ssa.BasicBlock]bool {
	fwd := map[*ssa.BasicBlock]bool{}
	var walk func(x *ssa.BasicBlock, seen map[*ssa.BasicBlock]bool, succ bool)
	walk = func(x *ssa.BasicBlock, seen map[*ssa.BasicBlock]bool, succ bool) {
		next := x.Succs
		if !succ {
			next = x.Preds
		}
		for _, y := range next {
			if !seen[y] {
				seen[y] = true
				walk(y, seen, succ)
			}
		}
	}
	walk(b, fwd, true)
	if !fwd[b] {
		return nil
	}
	bwd := map[*ssa.BasicBlock]bool{}
	walk(b, bwd, false)
	out := map[*ssa.BasicBlock]bool{}
	for x := range fwd {
		if bwd[x] {
			out[x] = true
		}
	}
	return out
}

// c08LenOperand: v is len(S) (possibly plus constants on some phi edges); returns S and the "+k" adders found.
func c08LenOperand(fn *ssa.Function, v ssa.Value) (slice ssa.Value, adders []*ssa.BinOp, ok bool) {
	seen := map[ssa.Value]bool{}
	ok = true
	var walk func(v ssa.Value)
	walk = func(v ssa.Value) {
		if seen[v] || !ok {
			return
		}
		seen[v] = true
		switch x := v.(type) {
		case *ssa.Phi:
			for _, e := range x.Edges {
				walk(e)
			}
		case *ssa.Convert:
			walk(x.X)
		case *ssa.BinOp:
			if k, isC := constInt(x.Y); x.Op == token.ADD && isC && k == 1 {
				adders = append(adders, x)
				walk(x.X)
				return
			}
			ok = false
		case *ssa.Call:
			if b, isB := x.Call.Value.(*ssa.Builtin); isB && b.Name() == "len" && len(x.Call.Args) == 1 {
				if slice == nil || slice == x.Call.Args[0] {
					slice = x.Call.Args[0]
					return
				}
			}
			ok = false
		default:
			ok = false
		}
	}
	walk(v)
	return slice, adders, ok && slice != nil
}

// c08CountAgreement: the INT written first is the number of strings the loop writes.
func c08CountAgreement(c *Ctx, rule string, w *wireAnchors, fn *ssa.Function) {
	var ints, loopWrites, preWrites []ssa.CallInstruction
	cyc := c08CyclicBlocks(fn)
	allInstrs(fn, func(b *ssa.BasicBlock, _ int, in ssa.Instruction) {
		call, ok := in.(*ssa.Call)
		if !ok {
			return
		}
		g := calleeFn(call)
		act := w.itemAct(fn, call)
		switch {
		case g != nil && w.intWriters[g]:
			ints = append(ints, call)
		case cyc[b] && (act.Label == "STR" || act.Inline != nil):
			loopWrites = append(loopWrites, call)
		}
	})
	key := fnName(fn) + "#count"
	if len(ints) == 0 {
		// delegation: the function writes nothing itself and hands the whole ad to one other sender, which is
		// checked in its own right
		var delegate *ssa.Function
		nd, direct := 0, 0
		allInstrs(fn, func(_ *ssa.BasicBlock, _ int, in ssa.Instruction) {
			call, ok := in.(*ssa.Call)
			if !ok {
				return
			}
			g := calleeFn(call)
			act := w.itemAct(fn, call)
			if act.Label != "" {
				direct++
			}
			for _, s := range c08Senders {
				if g != nil && g != fn && g == c.LookupFn(s.rel, s.name) {
					delegate = g
					nd++
				}
			}
		})
		if nd == 1 && direct == 0 {
			c.Ok(rule, key, "hands the whole ad to "+fnName(delegate)+", which writes the count and the expressions", fn.Pos())
			return
		}
	}
	if len(ints) != 1 || len(loopWrites) == 0 {
		c.Undecided(rule, key, "expected exactly one integer write and at least one per-expression write in a loop", fn.Pos())
		return
	}
	cnt := ints[0]
	args := cnt.Common().Args
	slice, adders, ok := c08LenOperand(fn, args[len(args)-1])
	if !ok {
		c.Violate(rule, key, "the expression count written is not len(S) (+1 per extra string) of a single slice S", cnt.Pos())
		return
	}
	// the loop that holds the writes ranges over S: every write's string argument depends on an element of S
	loop := c08LoopOf(fn, loopWrites[0].Block())
	for _, lw := range loopWrites {
		if !loop[lw.Block()] {
			c.Undecided(rule, key, "per-expression writes are spread over more than one loop", lw.Pos())
			return
		}
		a := lw.Common().Args
		dep := c08DependsOnElem(fn, a[len(a)-1], slice)
		if !dep && w.itemAct(fn, lw).Inline != nil {
			// a same-module helper holding the write: it is handed (something built from) the element
			for _, arg := range a {
				if !w.isMessage(arg.Type()) && c08DependsOnElem(fn, arg, slice) {
					dep = true
				}
			}
		}
		c.Check(dep, rule, fnName(fn)+"#loop-element:"+calleeFn(lw).Name(), "the string written in the loop is built from an element of the counted slice",
			"the string written in the loop is not built from an element of the slice whose length was sent as the count", lw.Pos())
	}
	// loop bound: the loop's exit test compares against len(S)
	bound := false
	for b := range loop {
		if ifi := blockIf(b); ifi != nil {
			a := condAtom(ifi.Cond)
			for _, side := range []ssa.Value{a.X, a.Y} {
				if side == nil {
					continue
				}
				if call, ok := side.(*ssa.Call); ok {
					if bi, ok := call.Call.Value.(*ssa.Builtin); ok && bi.Name() == "len" && call.Call.Args[0] == slice {
						bound = true
					}
				}
			}
		}
	}
	c.Check(bound, rule, key+"=len(loop-slice)", "count written and loop bound are len() of the same slice value",
		"the loop that writes the expressions is not bounded by len() of the slice whose length was sent as the count", cnt.Pos())
	// every +1 on the count is matched by exactly one extra string written before the loop under the same condition
	allInstrs(fn, func(b *ssa.BasicBlock, _ int, in ssa.Instruction) {
		call, ok := in.(*ssa.Call)
		if !ok || cyc[b] {
			return
		}
		act := w.itemAct(fn, call)
		oneItem := act.Inline != nil && c08ItemCount(c, w, act.Inline, map[*ssa.Function]bool{}, 0) == 1
		if act.Label == "STR" || act.Label == "MARK" || oneItem {
			// before the loop = the loop is reachable from it
			if findPath(after(call), Target{Instr: loopWrites[0]}, nil) != nil {
				preWrites = append(preWrites, call)
			}
		}
	})
	if len(adders) != len(preWrites) {
		c.Violate(rule, key+"+extras", "the count is incremented "+c08Itoa(len(adders))+" time(s) but "+c08Itoa(len(preWrites))+" extra string(s) are written before the loop", cnt.Pos())
	} else {
		okAll := true
		for i, ad := range adders {
			ca := c08ControllingCond(fn, ad.Block())
			cw := c08ControllingCond(fn, preWrites[i].Block())
			if ca == nil || cw == nil || ca != cw {
				okAll = false
			}
		}
		c.Check(okAll, rule, key+"+extras", "each increment of the count and the extra string it accounts for are controlled by the same condition value",
			"an increment of the count and the extra string written before the loop are not controlled by the same condition", cnt.Pos())
	}
	// no path through the loop body from the element load back to the loop head skips the write
	c08LoopBodyWrites(c, rule, w, fn, loop, loopWrites)
}

func c08Itoa(i int) string { return strconv.Itoa(i) }

// c08DependsOnElem: v depends on a load of an element of slice s.
func c08DependsOnElem(fn *ssa.Function, v, s ssa.Value) bool {
	return mustDepend(fn, v, func(x ssa.Value) bool {
		ia, ok := x.(*ssa.IndexAddr)
		return ok && ia.X == s
	})
}

// c08ControllingCond: the condition value of the If whose true edge dominates block b (nearest), or nil.
func c08ControllingCond(fn *ssa.Function, b *ssa.BasicBlock) ssa.Value {
	for d := b; d != nil; d = d.Idom() {
		id := d.Idom()
		if id == nil {
			return nil
		}
		if ifi := blockIf(id); ifi != nil && len(id.Succs) == 2 && id.Succs[0] != id.Succs[1] {
			if edgeDominates(fn, Edge{id, 0}, b) {
				return ifi.Cond
			}
		}
	}
	return nil
}

// c08LoopBodyWrites: inside the loop, every path from the loop head around to the loop head passes a write,
// except through the documented !exists edge of putClassAdToMessageWithOptions.
func c08LoopBodyWrites(c *Ctx, rule string, w *wireAnchors, fn *ssa.Function, loop map[*ssa.BasicBlock]bool, writes []ssa.CallInstruction) {
	// loop head: the block of the loop with a predecessor outside it
	var head *ssa.BasicBlock
	for b := range loop {
		for _, p := range b.Preds {
			if !loop[p] {
				head = b
			}
		}
	}
	key := fnName(fn) + "#loop-writes-every-iteration"
	if head == nil {
		c.Undecided(rule, key, "cannot find the loop head", fn.Pos())
		return
	}
	cuts := newCuts()
	for _, wr := range writes {
		cuts.AddInstrs(wr)
	}
	// leaving the loop is not "another iteration"
	for b := range loop {
		for i, s := range b.Succs {
			if !loop[s] {
				cuts.AddEdges(Edge{b, i})
			}
		}
	}
	// exception (one symbol, one reason): the attribute names iterated come from ad.GetAttributes() of the same
	// ad and the whitelist filter keeps only names for which ad.Lookup succeeds, so Lookup cannot miss here.
	excused := 0
	if fn.Name() == "putClassAdToMessageWithOptions" {
		for b := range loop {
			ifi := blockIf(b)
			if ifi == nil {
				continue
			}
			a := condAtom(ifi.Cond)
			if a.Op != token.ILLEGAL {
				continue
			}
			if ex, ok := a.X.(*ssa.Extract); ok && ex.Index == 1 {
				if call, ok := ex.Tuple.(*ssa.Call); ok {
					if o := calleeObj(call); o != nil && o.Name() == "Lookup" && o.Pkg() != nil && strings.HasSuffix(o.Pkg().Path(), "classad/classad") {
						missing := Edge{b, 1}
						if a.Neg {
							missing = Edge{b, 0}
						}
						cuts.AddEdges(missing)
						excused++
					}
				}
			}
		}
		c.Note("%s: excused the !exists edge of ad.Lookup in %s (%d edge): names come from ad.GetAttributes() of the same ad", rule, fnName(fn), excused)
	}
	// from the first instruction of each successor of the head inside the loop, back to the head
	var wit []*ssa.BasicBlock
	for i, s := range head.Succs {
		if !loop[s] || cuts.Edges[Edge{head, i}] {
			continue
		}
		if len(head.Instrs) == 0 || len(s.Instrs) == 0 {
			continue
		}
		if p := findPath(Point{s, 0}, Target{Instr: head.Instrs[0]}, cuts); p != nil {
			wit = p
		}
	}
	if wit == nil {
		c.Ok(rule, key, "every iteration of the per-expression loop writes exactly what the count announced (one item per element)", writes[0].Pos())
	} else {
		c.Violate(rule, key, "an iteration of the per-expression loop can finish without writing its expression although the count already included it", writes[0].Pos(), c.describePath(wit)...)
	}
}

// ---------------------------------------------------------------------------
// C08-R3: the quoted-string shortcut must look at the interior for a double quote

// quoteTesters: strings functions that can decide whether a string contains a given byte.
var c08QuoteTesters = map[string]bool{"Contains": true, "ContainsAny": true, "ContainsRune": true, "IndexByte": true, "IndexRune": true, "IndexAny": true, "Index": true, "Count": true}

func c08r3(c *Ctx) {
	const rule = "C08-R3"
	defer c08RuleTimer(rule)()
	c.Doc(rule, "in tryInsertLiteral the Set(attr, interior) of the quoted-string shortcut (value = trimmed[1:len-1]) is reachable only through the not-found edge of a test that searches the interior for a double quote (strings.Contains/ContainsAny/ContainsRune/Index*/Count with a needle containing '\"', haystack = the interior): a value that merely starts and ends with a quote is not one string literal. The test may be written inline, kept in a local boolean, or sit in a same-module predicate / value helper (followed with parameters mapped to arguments)")
	fn := c.needFn(rule, "message", "tryInsertLiteral")
	if fn == nil {
		return
	}
	top := cxTop(fn)
	n := 0
	allInstrs(fn, func(_ *ssa.BasicBlock, _ int, in ssa.Instruction) {
		call, ok := in.(*ssa.Call)
		if !ok {
			return
		}
		o := calleeObj(call)
		if o == nil || o.Name() != "Set" || o.Pkg() == nil || !strings.HasSuffix(o.Pkg().Path(), "classad/classad") {
			return
		}
		args := call.Common().Args
		val := stripConv(args[len(args)-1])
		// the interior: a string re-slice [1:...] -- the stored value itself, or what a value helper returns for it
		type fv struct {
			fn *ssa.Function
			v  ssa.Value
		}
		interior := map[fv]*ssa.Slice{}
		seen := map[fv]bool{}
		var leaves func(fr *cxFrame, v ssa.Value, d int)
		leaves = func(fr *cxFrame, v ssa.Value, d int) {
			v = stripConv(v)
			if v == nil || d > 12 || seen[fv{fr.fn, v}] {
				return
			}
			seen[fv{fr.fn, v}] = true
			switch x := v.(type) {
			case *ssa.Slice:
				// not the interior of a quoted value otherwise (bool / int / float shortcut, "" of a failed helper)
				if lo, isC := constInt(x.Low); isC && lo == 1 && c08IsStringType(x.X.Type()) {
					interior[fv{fr.fn, x}] = x
				}
			case *ssa.Phi:
				for _, e := range x.Edges {
					leaves(fr, e, d+1)
				}
			case *ssa.Parameter, *ssa.FreeVar:
				if r := fr.resolve(v); r.fr != fr {
					leaves(r.fr, r.v, d+1)
				}
			case *ssa.Call, *ssa.Extract:
				hc, idx := originCall(v)
				if hc == nil {
					return
				}
				if sub := fr.enter(hc); sub != nil {
					for _, ret := range cxReturns(sub.fn) {
						if idx < len(ret.Results) {
							leaves(sub, ret.Results[idx], d+1)
						}
					}
				}
			}
		}
		leaves(top, val, 0)
		if len(interior) == 0 {
			return
		}
		n++
		key := fnName(fn) + "#Set(interior)"
		isInterior := func(fr *cxFrame, v ssa.Value) bool {
			r := fr.resolve(v)
			rv := stripConv(r.v)
			if r.fr == top && rv == val {
				return true
			}
			for k, sl := range interior {
				if k.fn == r.fr.fn && c08IsInterior(rv, sl) {
					return true
				}
			}
			return false
		}
		// tester: v is a call of a strings/bytes searcher over the interior with a needle containing a double quote
		found := false
		tester := func(fr *cxFrame, v ssa.Value) string {
			t, ok := v.(*ssa.Call)
			if !ok {
				return ""
			}
			to := calleeObj(t)
			if to == nil || to.Pkg() == nil {
				return ""
			}
			targs := t.Common().Args
			if (to.Pkg().Path() == "strings" || to.Pkg().Path() == "bytes") && c08QuoteTesters[to.Name()] && len(targs) == 2 {
				if isInterior(fr, targs[0]) && c08NeedleHasQuote(fr.resolve(targs[1]).v) {
					found = true
					return to.Name()
				}
			}
			return ""
		}
		// fact: "the interior contains no double quote"
		atom := func(fr *cxFrame, a Atom) (onTrue, onFalse bool) {
			if a.X == nil {
				return false, false
			}
			name := tester(fr, a.X)
			if name == "" {
				return false, false
			}
			switch a.Op {
			case token.ILLEGAL:
				switch name {
				case "Contains", "ContainsAny", "ContainsRune":
					return a.Neg, !a.Neg // found on true: no quote on false
				}
				return false, false
			}
			k, isC := constInt(a.Y)
			if !isC {
				return false, false
			}
			notFoundOnTrue, ok := c08NotFoundOn(name, a.Op, k)
			if !ok {
				return false, false
			}
			if a.Neg {
				notFoundOnTrue = !notFoundOnTrue
			}
			return notFoundOnTrue, !notFoundOnTrue
		}
		cuts := c.cxFactCuts(top, atom, cxDepth)
		decided := len(cuts.Edges)+len(cuts.Via) > 0 && findPath(entryPoint(fn), Target{Instr: call}, cuts) == nil
		if !decided && !found {
			// a hand-written search in a module helper handed the interior (one level)
			allInstrs(fn, func(_ *ssa.BasicBlock, _ int, in2 ssa.Instruction) {
				t, ok := in2.(*ssa.Call)
				if !ok {
					return
				}
				if g := calleeFn(t); g != nil && g.Blocks != nil && fnPkg(g) != nil && inModule(fnPkg(g).Path()) {
					for _, a := range t.Common().Args {
						if isInterior(top, a) && c08HelperLooksForQuote(g) {
							found = true
						}
					}
				}
			})
		}
		switch {
		case decided:
			c.Ok(rule, key, "the shortcut stores the interior only when it contains no double quote", call.Pos())
		case found:
			c.Undecided(rule, key, "a test of the interior for a double quote exists but the store is not dominated by its not-found edge in a recognised form", call.Pos())
		default:
			c.Violate(rule, key, "the quoted-string shortcut stores trimmed[1:len-1] without looking for a double quote inside it: the value text \"a\" + \"b\" is stored as the string a\" + \"b instead of being parsed", call.Pos())
		}
	})
	c.MinCount(rule, "quoted-string shortcut stores", n, 1)
}

// c08NotFoundOn: for a strings searcher compared with constant k, does the comparison being true mean "not found"?
func c08NotFoundOn(name string, op token.Token, k int64) (notFoundOnTrue, ok bool) {
	switch {
	case name == "Count" && k == 0:
		switch op {
		case token.EQL, token.LEQ:
			return true, true
		case token.NEQ, token.GTR:
			return false, true
		}
	case name == "Count" && k == 1:
		switch op {
		case token.LSS:
			return true, true
		case token.GEQ:
			return false, true
		}
	case name != "Count" && k == -1:
		switch op {
		case token.EQL, token.LEQ:
			return true, true
		case token.NEQ, token.GTR:
			return false, true
		}
	case name != "Count" && k == 0:
		switch op {
		case token.LSS:
			return true, true
		case token.GEQ:
			return false, true
		}
	}
	return false, false
}

// c08IsInterior: v is the interior slice itself or an identical re-slice [1:len-1] of the same string.
func c08IsInterior(v ssa.Value, sl *ssa.Slice) bool {
	v = stripConv(v)
	if v == sl {
		return true
	}
	if cv, ok := v.(*ssa.Convert); ok { // []byte(interior)
		return c08IsInterior(cv.X, sl)
	}
	if o, ok := v.(*ssa.Slice); ok && o.X == sl.X {
		lo, isC := constInt(o.Low)
		return isC && lo == 1 && o.High != nil
	}
	return false
}

func c08NeedleHasQuote(v ssa.Value) bool {
	if s, ok := constString(v); ok {
		return strings.Contains(s, "\"")
	}
	if k, ok := constInt(v); ok {
		return k == '"'
	}
	return false
}

// c08HelperLooksForQuote: a module helper compares a byte with '"' or calls a strings tester with a quote needle.
func c08HelperLooksForQuote(g *ssa.Function) bool {
	hit := false
	allInstrs(g, func(_ *ssa.BasicBlock, _ int, in ssa.Instruction) {
		switch x := in.(type) {
		case *ssa.BinOp:
			if k, ok := constInt(x.Y); ok && k == '"' && (x.Op == token.EQL || x.Op == token.NEQ) {
				hit = true
			}
		case *ssa.Call:
			if o := calleeObj(x); o != nil && o.Pkg() != nil && o.Pkg().Path() == "strings" && c08QuoteTesters[o.Name()] {
				a := x.Common().Args
				if len(a) == 2 && c08NeedleHasQuote(a[1]) {
					hit = true
				}
			}
		}
	})
	return hit
}

// ---------------------------------------------------------------------------
// C08-R4: type names travel in the two trailing strings, in the same order on every side

func c08r4(c *Ctx) {
	const rule = "C08-R4"
	defer c08RuleTimer(rule)()
	c.Doc(rule, "attribute-constant agreement for the type names: the parsing receiver sets MyType from the first and TargetType from the second trailing string, the raw receiver renders them under the same two names, and the senders write the value of MyType first and TargetType second (raw senders: their myType then targetType parameter). Trailing strings are numbered along the control flow, through the same-module helpers that read or write them (a helper's parameters are mapped to the caller's arguments)")
	w := c.wireAnchors(rule)
	if !w.ok {
		return
	}
	n := 0
	names := []string{"MyType", "TargetType"}
	// receivers
	for _, r := range []string{"getClassAdFromMessageWithMaxSize", "(*Message).GetClassAdRawBody"} {
		fn := c.needFn(rule, "message", r)
		if fn == nil {
			continue
		}
		top := cxTop(fn)
		ord := c08TrailingOrdinalsDeep(c, w, top)
		isItem := func(f *cxFrame, call ssa.CallInstruction) bool { return w.itemAct(f.fn, call).Label == "STR" }
		for k, name := range names {
			uses := c08NamedUsesDeep(w, top, name)
			key := fnName(fn) + "#" + name
			if len(uses) == 0 {
				c.Violate(rule, key, "the receiver never stores the trailing string under the attribute name "+name, fn.Pos())
				continue
			}
			for _, u := range uses {
				n++
				os := c.cxOriginsOK(u.fr, u.val, isItem)
				ok := len(os) > 0
				for _, o := range os {
					call, idx := originCall(o.v)
					if call == nil || idx != 0 {
						ok = false
						continue
					}
					if got, has := ord.get(o.fr, call); !has || got != k {
						ok = false
					}
				}
				c.Check(ok, rule, key, name+" is taken from trailing string #"+c08Itoa(k+1), name+" is not taken from trailing string #"+c08Itoa(k+1)+" of the ad (type names swapped or taken from elsewhere)", u.pos)
			}
		}
	}
	// senders
	for _, s := range c08Senders {
		fn := c.needFn(rule, s.rel, s.name)
		if fn == nil {
			continue
		}
		top := cxTop(fn)
		ord := c08TrailingOrdinalsDeep(c, w, top)
		byOrd := map[int][]c08OrdItem{}
		for _, it := range ord.items() {
			byOrd[it.ord] = append(byOrd[it.ord], it)
		}
		for k, name := range names {
			key := fnName(fn) + "#" + name
			if len(byOrd[k]) == 0 {
				c.Violate(rule, key, "the sender has no trailing string write #"+c08Itoa(k+1), fn.Pos())
				continue
			}
			for _, it := range byOrd[k] {
				n++
				call := it.call
				args := call.Common().Args
				v := args[len(args)-1]
				ok := true
				leaves := c.cxOriginsOK(it.fr, v, nil)
				if len(leaves) == 0 {
					ok = false
				}
				if s.options {
					// value of ad.EvaluateAttrString(name) or the empty string
					for _, o := range leaves {
						if sv, isC := constString(o.v); isC && sv == "" {
							continue
						}
						oc, idx := originCall(o.v)
						if oc == nil || idx != 0 || len(oc.Common().Args) < 2 {
							ok = false
							continue
						}
						an, isC := constString(o.fr.resolve(oc.Common().Args[len(oc.Common().Args)-1]).v)
						if !isC || an != name {
							ok = false
						}
					}
				} else {
					// raw senders: parameter order ctx, exprs, myType, targetType
					want := len(fn.Params) - 2 + k
					for _, o := range leaves {
						p, isP := o.v.(*ssa.Parameter)
						if !(isP && o.fr.up == nil && want >= 0 && want < len(fn.Params) && fn.Params[want] == p) {
							ok = false
						}
					}
				}
				c.Check(ok, rule, key, "trailing string #"+c08Itoa(k+1)+" carries "+name, "trailing string #"+c08Itoa(k+1)+" does not carry "+name+" (type names swapped or taken from another attribute)", call.Pos())
			}
		}
	}
	// two receivers and three senders, MyType and TargetType each; a function that obtains its trailing strings
	// by calling another one contributes through that callee
	c.MinCount(rule, "type-name bindings checked", n, 2) // a missing binding is reported per function above; at least one receiver and one sender binding
}

type c08Use struct {
	fr  *cxFrame
	val ssa.Value
	pos token.Pos
}

// c08NamedUsesDeep finds ad.Set("<name>", v) calls and fmt.Fprintf(..., "<name> = ...", v) renderings in fr.fn
// and in the same-module helpers it calls (the name may arrive through a helper's parameter).
func c08NamedUsesDeep(w *wireAnchors, top *cxFrame, name string) []c08Use {
	var out []c08Use
	cxCallsDeep(top, func(fr *cxFrame, call ssa.CallInstruction) bool {
		g := calleeFn(call)
		return g != nil && !w.strReaders[g] && !w.intReaders[g] && !w.strWriters[g] && !w.intWriters[g] && !w.rawMsg[g] && !w.nbytes[g] && g != w.flush && g != w.ensure
	}, func(fr *cxFrame, ci ssa.CallInstruction) {
		call, ok := ci.(*ssa.Call)
		if !ok {
			return
		}
		o := calleeObj(call)
		if o == nil || o.Pkg() == nil {
			return
		}
		args := call.Common().Args
		switch {
		case o.Name() == "Set" && strings.HasSuffix(o.Pkg().Path(), "classad/classad") && len(args) == 3:
			if s, ok := constString(fr.resolve(args[1]).v); ok && s == name {
				out = append(out, c08Use{fr, stripConv(args[2]), call.Pos()})
			}
		case o.Pkg().Path() == "fmt" && (o.Name() == "Fprintf" || o.Name() == "Sprintf"):
			fi := 0
			if o.Name() == "Fprintf" {
				fi = 1
			}
			if len(args) < fi+2 {
				return
			}
			f, ok := constString(fr.resolve(args[fi]).v)
			if !ok || !strings.HasPrefix(strings.TrimSpace(f), name+" ") {
				return
			}
			// the variadic slice: values stored into its backing array
			root := memRoot(args[fi+1])
			if al, ok := root.(*ssa.Alloc); ok {
				for _, r := range *al.Referrers() {
					if ia, ok := r.(*ssa.IndexAddr); ok {
						for _, rr := range *ia.Referrers() {
							if st, ok := rr.(*ssa.Store); ok && st.Addr == ia {
								out = append(out, c08Use{fr, stripConv(st.Val), call.Pos()})
							}
						}
					}
				}
			}
		}
	})
	return out
}

// c08OrdKey identifies a string item: the chain of calls that leads from the anchored function into the helper
// holding it, and the call of the reader/writer itself.
type c08OrdKey struct {
	chain string
	call  ssa.CallInstruction
}

type c08OrdItem struct {
	fr   *cxFrame
	call ssa.CallInstruction
	ord  int
}

// c08Ordinals is the numbering of the trailing string items of one function.
type c08Ordinals struct {
	w      *wireAnchors
	ord    map[c08OrdKey]int
	frames map[c08OrdKey]*cxFrame
}

func (o *c08Ordinals) get(fr *cxFrame, call ssa.CallInstruction) (int, bool) {
	n, ok := o.ord[c08OrdKey{c08FrameKey(fr), call}]
	return n, ok
}

// items lists the numbered reader/writer calls themselves (not the helper calls that stand for one item).
func (o *c08Ordinals) items() []c08OrdItem {
	var items []c08OrdItem
	for k, n := range o.ord {
		if fr := o.frames[k]; fr != nil && o.w.itemAct(fr.fn, k.call).Label == "STR" {
			items = append(items, c08OrdItem{fr, k.call, n})
		}
	}
	sort.Slice(items, func(i, j int) bool { return items[i].call.Pos() < items[j].call.Pos() })
	return items
}

func c08FrameKey(fr *cxFrame) string {
	k := ""
	for f := fr; f != nil && f.call != nil; f = f.up {
		k = fmt.Sprintf("%p/", f.call) + k
	}
	return k
}

// c08ItemCount: the number of string items fn performs on every path to a (possibly) successful return, through
// the helpers it inlines; -1 when the paths disagree (a loop, an optional item).
func c08ItemCount(c *Ctx, w *wireAnchors, fn *ssa.Function, active map[*ssa.Function]bool, depth int) int {
	if fn == nil || fn.Blocks == nil || active[fn] || depth > 6 {
		return -1
	}
	active[fn] = true
	defer delete(active, fn)
	type rk struct{ b, pred *ssa.BasicBlock }
	errRet := map[rk]bool{}
	for _, r := range c.returnsOf(fn) {
		if c08RetClass(c, fn, r) == "error" {
			errRet[rk{r.Ret.Block(), r.Pred}] = true
		}
	}
	type st struct {
		b *ssa.BasicBlock
		n int
	}
	seen := map[st]bool{{fn.Blocks[0], 0}: true}
	work := []st{{fn.Blocks[0], 0}}
	counts := map[int]bool{}
	for len(work) > 0 {
		s := work[len(work)-1]
		work = work[:len(work)-1]
		n := s.n
		dead := false
		for _, in := range s.b.Instrs {
			switch x := in.(type) {
			case *ssa.Call:
				act := w.itemAct(fn, x)
				switch {
				case act.Label == "STR" || act.Label == "MARK":
					n++
				case act.Inline != nil:
					k := c08ItemCount(c, w, act.Inline, active, depth+1)
					if k < 0 {
						return -1
					}
					n += k
				}
			case *ssa.Return:
				if !errRet[rk{s.b, nil}] {
					counts[n] = true
				}
				dead = true
			case *ssa.Panic:
				dead = true
			}
			if n > 8 {
				return -1
			}
			if dead {
				break
			}
		}
		if dead {
			continue
		}
		for _, nx := range s.b.Succs {
			if errRet[rk{nx, s.b}] {
				continue
			}
			k := st{nx, n}
			if !seen[k] {
				seen[k] = true
				work = append(work, k)
			}
		}
	}
	if len(counts) != 1 {
		return -1
	}
	for n := range counts {
		return n
	}
	return -1
}

// c08TrailingOrdinalsDeep numbers the string items outside any loop that follow the per-expression loop of
// top.fn: ordinal = number of such items already passed on every path from the loop to the call (alternatives
// like GetString | GetStringWithMaxSize share an ordinal). Items inside same-module helpers called after the
// loop are numbered in their own frame, continuing the caller's count; a helper whose number of items is not
// the same on every path ends the numbering. Calls reached with differing counts are omitted.
func c08TrailingOrdinalsDeep(c *Ctx, w *wireAnchors, top *cxFrame) *c08Ordinals {
	out := map[c08OrdKey]int{}
	frames := map[c08OrdKey]*cxFrame{}
	conflict := map[c08OrdKey]bool{}
	record := func(fr *cxFrame, call ssa.CallInstruction, n int) {
		k := c08OrdKey{c08FrameKey(fr), call}
		if old, ok := out[k]; ok && old != n {
			conflict[k] = true
		}
		out[k] = n
		frames[k] = fr
	}
	var walk func(fr *cxFrame, base int, isTop bool)
	walk = func(fr *cxFrame, base int, isTop bool) {
		fn := fr.fn
		cyc := c08CyclicBlocks(fn)
		afterLoop := func(call ssa.CallInstruction) bool {
			if !isTop {
				return true
			}
			for b := range cyc {
				if len(b.Instrs) > 0 && findPath(Point{b, 0}, Target{Instr: call}, nil) != nil {
					return true
				}
			}
			return false
		}
		type st struct {
			b *ssa.BasicBlock
			n int
		}
		seen := map[st]bool{{fn.Blocks[0], base}: true}
		work := []st{{fn.Blocks[0], base}}
		for len(work) > 0 {
			s := work[len(work)-1]
			work = work[:len(work)-1]
			n := s.n
			for _, in := range s.b.Instrs {
				call, ok := in.(*ssa.Call)
				if !ok || cyc[s.b] || n < 0 {
					continue
				}
				act := w.itemAct(fn, call)
				switch {
				case act.Label == "STR" && afterLoop(call):
					record(fr, call, n)
					if n < 8 {
						n++
					}
				case act.Inline != nil && (afterLoop(call) || isTop):
					sub := fr.enter(call)
					k := c08ItemCount(c, w, act.Inline, map[*ssa.Function]bool{}, 0)
					if sub != nil && k < 0 && isTop {
						// the helper holds the per-expression loop (the function delegates the whole ad): the
						// trailing strings are the ones after the loop in there
						walk(sub, 0, true)
						n = -1
						continue
					}
					if sub == nil || k < 0 || !afterLoop(call) {
						if afterLoop(call) {
							n = -1 // the numbering cannot be continued past this call
						}
						continue
					}
					record(fr, call, n) // a helper that performs exactly one item stands for it in the caller
					walk(sub, n, false)
					n += k
					if n > 8 {
						n = 8
					}
				}
			}
			for _, nx := range s.b.Succs {
				k := st{nx, n}
				if !seen[k] {
					seen[k] = true
					work = append(work, k)
				}
			}
		}
	}
	walk(top, 0, true)
	for k := range conflict {
		delete(out, k)
		delete(frames, k)
	}
	return &c08Ordinals{w: w, ord: out, frames: frames}
}
