package main

// Lockset analysis (template T-LCK) for C17.
//
// Per function: forward must-dataflow over SSA blocks. A lock is identified by the SSA value of the
// receiver (loads of single-assignment cells resolved) plus the mutex field object, or by a global
// mutex. Lock/RLock add the lock (mode W/R), Unlock/RUnlock remove it; `defer mu.Unlock()` keeps
// the lock to function exit (the deferred release is ignored). At a join the locksets of the
// predecessors are intersected (weaker mode wins).
//
// Inter-procedural: demand driven. When an access in an unexported helper is not protected locally
// and the guarded object is one of the helper's parameters, every static call site of the helper is
// asked whether it holds the lock of the corresponding argument (depth <= InlineDepth) — the
// `...Locked` helper idiom. Exported functions are never excused this way (anybody may call them).

import (
	"fmt"
	"go/token"
	"go/types"
	"sort"
	"strings"

	"golang.org/x/tools/go/ssa"
)

type c17Key struct {
	root string       // canonical access path of the receiver ("" for globals), see c17path
	mu   types.Object // mutex field (*types.Var) or global variable
}

// c17keyType remembers the receiver type of each lock key (for naming lock classes).
var c17keyType = map[c17Key]types.Type{}

// c17path renders a receiver value as a canonical access path so that two loads of the same field
// chain (s.cache.mu.Lock() ... s.cache.sessions) denote the same object: identity of the base SSA
// value plus the field names walked. Reassignment of an intermediate field between the two loads is
// not modelled (usual lockset approximation).
func c17path(v ssa.Value) string {
	v = c05resolve(v)
	switch x := v.(type) {
	case *ssa.UnOp:
		if x.Op == token.MUL {
			if fa, ok := x.X.(*ssa.FieldAddr); ok {
				return c17path(fa.X) + "." + fieldOfAddr(fa).Name() + "*"
			}
		}
	case *ssa.FieldAddr:
		return c17path(x.X) + ".&" + fieldOfAddr(x).Name()
	case *ssa.Field:
		return c17path(x.X) + "." + x.X.Type().Underlying().(*types.Struct).Field(x.Field).Name()
	}
	return fmt.Sprintf("%p", v)
}

func c17mkKey(recv ssa.Value, mu types.Object) c17Key {
	k := c17Key{root: c17path(recv), mu: mu}
	if _, ok := c17keyType[k]; !ok {
		c17keyType[k] = recv.Type()
	}
	return k
}

const (
	c17R = 1
	c17W = 2
)

type c17Set map[c17Key]int

func (s c17Set) clone() c17Set {
	o := c17Set{}
	for k, v := range s {
		o[k] = v
	}
	return o
}

// c17root resolves a receiver value to a stable identity inside one function.
func c17root(v ssa.Value) ssa.Value { return c05resolve(v) }

type c17Op struct {
	key     c17Key
	recv    ssa.Value // resolved receiver (nil for globals)
	acquire bool
	mode    int
}

// c17lockOp recognises sync.Mutex / sync.RWMutex operations on a struct field or a global.
func c17lockOp(in ssa.Instruction) (c17Op, bool) {
	call, ok := in.(ssa.CallInstruction)
	if !ok {
		return c17Op{}, false
	}
	o := calleeObj(call)
	if o == nil || o.Pkg() == nil || o.Pkg().Path() != "sync" {
		return c17Op{}, false
	}
	sig, _ := o.Type().(*types.Signature)
	if sig == nil || sig.Recv() == nil {
		return c17Op{}, false
	}
	rt := sig.Recv().Type()
	if p, ok := rt.(*types.Pointer); ok {
		rt = p.Elem()
	}
	n, _ := rt.(*types.Named)
	if n == nil || (n.Obj().Name() != "Mutex" && n.Obj().Name() != "RWMutex") {
		return c17Op{}, false
	}
	var op c17Op
	switch o.Name() {
	case "Lock":
		op.acquire, op.mode = true, c17W
	case "RLock":
		op.acquire, op.mode = true, c17R
	case "Unlock", "RUnlock":
		op.acquire = false
	default:
		return c17Op{}, false
	}
	args := call.Common().Args
	if len(args) == 0 {
		return c17Op{}, false
	}
	switch a := args[0].(type) {
	case *ssa.FieldAddr:
		op.recv = c17root(a.X)
		op.key = c17mkKey(a.X, fieldOfAddr(a))
	case *ssa.Global:
		op.key = c17Key{mu: a.Object()}
	default:
		return c17Op{}, false // local or otherwise unnamed mutex: not tracked
	}
	return op, true
}

// c17Flow is the solved dataflow of one function (entry lockset empty).
type c17Flow struct {
	fn *ssa.Function
	in map[*ssa.BasicBlock]c17Set // nil entry = not reached
}

var c17flows = map[*ssa.Function]*c17Flow{}

func c17transfer(s c17Set, in ssa.Instruction) {
	if _, isDefer := in.(*ssa.Defer); isDefer {
		return // deferred release: the lock stays held to function exit
	}
	if _, isGo := in.(*ssa.Go); isGo {
		return
	}
	if op, ok := c17lockOp(in); ok {
		if op.acquire {
			s[op.key] = op.mode
		} else {
			delete(s, op.key)
		}
	}
}

func c17solve(fn *ssa.Function) *c17Flow {
	if f, ok := c17flows[fn]; ok {
		return f
	}
	f := &c17Flow{fn: fn, in: map[*ssa.BasicBlock]c17Set{}}
	c17flows[fn] = f
	if len(fn.Blocks) == 0 {
		return f
	}
	f.in[fn.Blocks[0]] = c17Set{}
	out := map[*ssa.BasicBlock]c17Set{}
	changed := true
	for iter := 0; changed && iter < 64; iter++ {
		changed = false
		for _, b := range fn.Blocks {
			var cur c17Set
			if b == fn.Blocks[0] {
				cur = c17Set{}
			} else {
				first := true
				for _, p := range b.Preds {
					po, ok := out[p]
					if !ok {
						continue
					}
					if first {
						cur = po.clone()
						first = false
						continue
					}
					for k, m := range cur {
						pm, has := po[k]
						if !has {
							delete(cur, k)
						} else if pm < m {
							cur[k] = pm
						}
					}
				}
				if first {
					continue // no solved predecessor yet (or unreachable, e.g. the recover block)
				}
			}
			f.in[b] = cur
			o := cur.clone()
			for _, in := range b.Instrs {
				c17transfer(o, in)
			}
			if prev, ok := out[b]; !ok || !c17equal(prev, o) {
				out[b] = o
				changed = true
			}
		}
	}
	return f
}

func c17equal(a, b c17Set) bool {
	if len(a) != len(b) {
		return false
	}
	for k, v := range a {
		if b[k] != v {
			return false
		}
	}
	return true
}

// heldAt returns the lockset just before instruction in.
func (f *c17Flow) heldAt(in ssa.Instruction) c17Set {
	b := in.Block()
	cur, ok := f.in[b]
	if !ok || cur == nil {
		return c17Set{}
	}
	s := cur.clone()
	for _, x := range b.Instrs {
		if x == in {
			break
		}
		c17transfer(s, x)
	}
	return s
}

// c17held: is the mutex mu of the object root held (in at least mode need) at instruction in of fn,
// locally or — for unexported helpers taking the object as a parameter — at every call site?
// Returns the weakest mode found (0 = not held) and a short explanation.
func (p *Prog) c17held(fn *ssa.Function, in ssa.Instruction, root ssa.Value, mu types.Object, depth int) (int, string) {
	ls := c17solve(fn).heldAt(in)
	if m, ok := ls[c17mkKey(root, mu)]; ok {
		return m, "held in " + fnName(fn)
	}
	par, isPar := root.(*ssa.Parameter)
	if !isPar || depth >= InlineDepth || fn.Parent() != nil || fn.Object() == nil || token.IsExported(fn.Name()) {
		return 0, "not held in " + fnName(fn)
	}
	idx := -1
	for i, q := range fn.Params {
		if q == par {
			idx = i
		}
	}
	sites := p.callSites(fn.Object())
	if idx < 0 || len(sites) == 0 || len(p.c05funcValueUses(fn)) > 0 {
		return 0, "not held in " + fnName(fn) + " (callers cannot be enumerated)"
	}
	weakest := c17W
	for _, cs := range sites {
		if _, isCall := cs.Call.(*ssa.Call); !isCall {
			return 0, fmt.Sprintf("%s is started with go/defer from %s without the lock", fnName(fn), fnName(cs.Fn))
		}
		args := cs.Call.Common().Args
		if idx >= len(args) {
			return 0, "call shape"
		}
		if _, fresh := c17root(args[idx]).(*ssa.Alloc); fresh {
			continue // the caller allocated the object itself: not shared yet (constructor)
		}
		if !c17reachableUnder(fn, in, cs.Call) {
			continue // the access sits behind a flag parameter that this call site passes the other constant for
		}
		m, why := p.c17held(cs.Fn, cs.Call, c17root(args[idx]), mu, depth+1)
		if m == 0 {
			return 0, why + " (calls " + fnName(fn) + ")"
		}
		if m < weakest {
			weakest = m
		}
	}
	return weakest, "held by every caller of " + fnName(fn)
}

// ---------------------------------------------------------------------------
// guarded-field accesses

type c17Access struct {
	fn    *ssa.Function
	in    ssa.Instruction
	base  ssa.Value // resolved receiver
	write bool
	fresh bool // receiver is a struct allocated in this function (constructor)
}

// c17accesses lists every access to field f in the module, classifying map/slice mutation through
// the loaded value (m[k] = v, delete(m, k)) as a write of the field.
func (p *Prog) c17accesses(f *types.Var) []c17Access {
	var out []c17Access
	for _, fn := range p.ModFns {
		allInstrs(fn, func(_ *ssa.BasicBlock, _ int, in ssa.Instruction) {
			switch x := in.(type) {
			case *ssa.FieldAddr:
				if fieldOfAddr(x) != f {
					return
				}
				a := c17Access{fn: fn, in: x, base: c17root(x.X)}
				_, a.fresh = a.base.(*ssa.Alloc)
				for _, r := range *x.Referrers() {
					switch u := r.(type) {
					case *ssa.Store:
						a.write = true
					case *ssa.UnOp:
						if c17mutatedThrough(u) {
							a.write = true
						}
					case *ssa.DebugRef:
					case *ssa.FieldAddr, *ssa.IndexAddr:
						w, _ := addrUses(u.(ssa.Value))
						a.write = a.write || w
					default:
						a.write = true // address escapes into a call etc.
					}
				}
				out = append(out, a)
			case *ssa.Field:
				if x.X.Type().Underlying().(*types.Struct).Field(x.Field) == f {
					out = append(out, c17Access{fn: fn, in: x, base: c17root(x.X)})
				}
			}
		})
	}
	return out
}

// c17mutatedThrough: the loaded map value is updated or deleted from.
func c17mutatedThrough(v ssa.Value) bool {
	for _, r := range *v.Referrers() {
		switch u := r.(type) {
		case *ssa.MapUpdate:
			if u.Map == v {
				return true
			}
		case *ssa.Call:
			if b, ok := u.Call.Value.(*ssa.Builtin); ok && (b.Name() == "delete" || b.Name() == "clear") && len(u.Call.Args) > 0 && u.Call.Args[0] == v {
				return true
			}
		}
	}
	return false
}

// ---------------------------------------------------------------------------
// lock classes and lock order

// c17class names a lock by declaring struct type and field (or global variable).
func c17class(k c17Key) string {
	switch o := k.mu.(type) {
	case *types.Var:
		if o.IsField() && c17keyType[k] != nil {
			t := c17keyType[k]
			if p, ok := t.Underlying().(*types.Pointer); ok {
				t = p.Elem()
			}
			return strings.TrimPrefix(types.TypeString(t, nil), ModPath+"/") + "." + o.Name()
		}
		if o.Pkg() != nil {
			return strings.TrimPrefix(o.Pkg().Path(), ModPath+"/") + "." + o.Name()
		}
	}
	return fmt.Sprint(k.mu)
}

type c17OrderEdge struct {
	from, to string
	fn       *ssa.Function
	pos      token.Pos
	via      string
}

type c17Order struct {
	p        *Prog
	acq      map[*ssa.Function]map[string]bool         // lock classes a function may acquire (transitively)
	acqParam map[*ssa.Function]map[[2]interface{}]bool // (param index, mutex object) acquired on own parameters
	busy     map[*ssa.Function]bool
}

func (o *c17Order) moduleCallee(in ssa.Instruction) *ssa.Function {
	call, ok := in.(*ssa.Call)
	if !ok {
		return nil
	}
	g := calleeFn(call)
	if g == nil || g.Blocks == nil || fnPkg(g) == nil || !inModule(fnPkg(g).Path()) {
		return nil
	}
	return g
}

// acquires: lock classes fn may take, directly or through static module callees (depth-bounded).
func (o *c17Order) acquires(fn *ssa.Function, depth int) (map[string]bool, map[[2]interface{}]bool) {
	if a, ok := o.acq[fn]; ok {
		return a, o.acqParam[fn]
	}
	if o.busy[fn] || depth > 6 {
		return nil, nil
	}
	o.busy[fn] = true
	defer delete(o.busy, fn)
	a := map[string]bool{}
	ap := map[[2]interface{}]bool{}
	pidx := func(v ssa.Value) int {
		for i, q := range fn.Params {
			if ssa.Value(q) == v {
				return i
			}
		}
		return -1
	}
	allInstrs(fn, func(_ *ssa.BasicBlock, _ int, in ssa.Instruction) {
		if _, isGo := in.(*ssa.Go); isGo {
			return
		}
		if op, ok := c17lockOp(in); ok {
			if op.acquire {
				a[c17class(op.key)] = true
				if i := pidx(op.recv); i >= 0 {
					ap[[2]interface{}{i, op.key.mu}] = true
				}
			}
			return
		}
		if g := o.moduleCallee(in); g != nil {
			ga, gp := o.acquires(g, depth+1)
			for c := range ga {
				a[c] = true
			}
			args := in.(*ssa.Call).Call.Args
			for k := range gp {
				gi := k[0].(int)
				if gi < len(args) {
					if i := pidx(c17root(args[gi])); i >= 0 {
						ap[[2]interface{}{i, k[1]}] = true
					}
				}
			}
		}
	})
	o.acq[fn], o.acqParam[fn] = a, ap
	return a, ap
}

// c17lockOrder builds the module's lock-order graph and lists definite self-deadlocks.
func (p *Prog) c17lockOrder() (edges []c17OrderEdge, self []c17OrderEdge) {
	o := &c17Order{p: p, acq: map[*ssa.Function]map[string]bool{}, acqParam: map[*ssa.Function]map[[2]interface{}]bool{}, busy: map[*ssa.Function]bool{}}
	for _, fn := range p.ModFns {
		hasLock := false
		allInstrs(fn, func(_ *ssa.BasicBlock, _ int, in ssa.Instruction) {
			if _, ok := c17lockOp(in); ok {
				hasLock = true
			}
		})
		if !hasLock {
			continue
		}
		fl := c17solve(fn)
		allInstrs(fn, func(_ *ssa.BasicBlock, _ int, in ssa.Instruction) {
			if _, isDefer := in.(*ssa.Defer); isDefer {
				return
			}
			if _, isGo := in.(*ssa.Go); isGo {
				return
			}
			op, isOp := c17lockOp(in)
			g := o.moduleCallee(in)
			if !(isOp && op.acquire) && g == nil {
				return
			}
			held := fl.heldAt(in)
			if len(held) == 0 {
				return
			}
			if isOp {
				for k, m := range held {
					if k == op.key {
						if m == c17W || op.mode == c17W {
							self = append(self, c17OrderEdge{from: c17class(k), to: c17class(k), fn: fn, pos: in.Pos(), via: "re-acquired while held"})
						}
						continue
					}
					edges = append(edges, c17OrderEdge{from: c17class(k), to: c17class(op.key), fn: fn, pos: in.Pos()})
				}
				return
			}
			ga, gp := o.acquires(g, 0)
			args := in.(*ssa.Call).Call.Args
			for k := range held {
				for c := range ga {
					if c == c17class(k) {
						// same class through a call: a definite self-deadlock only if it is the same object
						for q := range gp {
							gi := q[0].(int)
							if q[1] == k.mu && gi < len(args) && c17path(args[gi]) == k.root {
								self = append(self, c17OrderEdge{from: c, to: c, fn: fn, pos: in.Pos(), via: "calls " + fnName(g) + " which locks the same object"})
							}
						}
						continue
					}
					edges = append(edges, c17OrderEdge{from: c17class(k), to: c, fn: fn, pos: in.Pos(), via: fnName(g)})
				}
			}
		})
	}
	sort.SliceStable(edges, func(i, j int) bool {
		if edges[i].from != edges[j].from {
			return edges[i].from < edges[j].from
		}
		return edges[i].to < edges[j].to
	})
	return
}

// ---------------------------------------------------------------------------
// helpers of the who-may tables

// c17onlyCalledFrom: fn (its outermost enclosing function) is one of allowed, or an unexported helper
// — never used as a function value, and with plainOnly never started with go/defer — all of whose
// static callers are, transitively (depth <= InlineDepth). A who-may table names the API functions;
// a helper reachable only from them acts on their behalf.
func (p *Prog) c17onlyCalledFrom(fn *ssa.Function, allowed map[*ssa.Function]bool, plainOnly bool, depth int) bool {
	fn = topFn(fn)
	if allowed[fn] {
		return true
	}
	if depth >= InlineDepth || fn.Object() == nil || token.IsExported(fn.Name()) || len(p.c05funcValueUses(fn)) > 0 {
		return false
	}
	sites := p.callSites(fn.Object())
	if len(sites) == 0 {
		return false
	}
	for _, cs := range sites {
		if _, plain := cs.Call.(*ssa.Call); !plain && plainOnly {
			return false
		}
		if !p.c17onlyCalledFrom(cs.Fn, allowed, plainOnly, depth+1) {
			return false
		}
	}
	return true
}

// c17Use is a use of a value that was followed through the results of unexported helpers: the
// instruction, the function it is in, and the receiver the value was loaded from as seen there.
type c17Use struct {
	fn   *ssa.Function
	in   ssa.Instruction
	base ssa.Value
}

// c17usesOf lists the uses of v (a value of fn derived from receiver base): its referrers, where a
// Return of an unexported helper continues at the helper's call sites with the result value.
func (p *Prog) c17usesOf(fn *ssa.Function, v ssa.Value, base ssa.Value, depth int) []c17Use {
	var out []c17Use
	if v.Referrers() == nil {
		return nil
	}
	for _, u := range *v.Referrers() {
		// spilled into a local cell (named or defer-spilled result, local variable): continue at its loads
		if st, isSt := u.(*ssa.Store); isSt && st.Val == v && depth < 2*InlineDepth {
			if al, isAl := st.Addr.(*ssa.Alloc); isAl && !c05cellEscapes(al) {
				c05cellRefs(al, func(addr ssa.Value, in ssa.Instruction) {
					if ld, ok := in.(*ssa.UnOp); ok && ld.Op == token.MUL && ld.X == addr {
						if ld.Parent() == fn {
							out = append(out, p.c17usesOf(fn, ld, base, depth+1)...)
						} else {
							out = append(out, c17Use{ld.Parent(), ld, nil})
						}
					}
				})
				continue
			}
		}
		ret, isRet := u.(*ssa.Return)
		if !isRet || depth >= InlineDepth || fn.Object() == nil || fn.Parent() != nil || token.IsExported(fn.Name()) || len(p.c05funcValueUses(fn)) > 0 {
			out = append(out, c17Use{fn, u, base})
			continue
		}
		idx := -1
		for i, r := range ret.Results {
			if r == v {
				idx = i
			}
		}
		par, isPar := base.(*ssa.Parameter)
		sites := p.callSites(fn.Object())
		if idx < 0 || !isPar || len(sites) == 0 {
			out = append(out, c17Use{fn, u, base})
			continue
		}
		pi := c05paramIndex(fn, par)
		for _, cs := range sites {
			args := cs.Call.Common().Args
			rv := cs.Call.Value()
			if rv == nil || pi < 0 || pi >= len(args) {
				out = append(out, c17Use{cs.Fn, cs.Call, nil})
				continue
			}
			var res ssa.Value = rv
			if _, isTuple := rv.Type().(*types.Tuple); isTuple {
				res = extractN(rv, idx)
			}
			if res == nil {
				continue // result unused at this call site
			}
			out = append(out, p.c17usesOf(cs.Fn, res, c17root(args[pi]), depth+1)...)
		}
	}
	return out
}

// c17accessPoints: the instructions of fn at which the fields listed in direct are accessed: direct
// accesses, and calls of same-package helpers that (transitively) access them.
func (p *Prog) c17accessPoints(fn *ssa.Function, direct map[*ssa.Function][]c17Access, depth int) []ssa.Instruction {
	var out []ssa.Instruction
	for _, a := range direct[fn] {
		out = append(out, a.in)
	}
	if depth >= InlineDepth {
		return out
	}
	allInstrs(fn, func(_ *ssa.BasicBlock, _ int, in ssa.Instruction) {
		call, ok := in.(*ssa.Call)
		if !ok {
			return
		}
		g := calleeFn(call)
		if g == nil || g == fn || g.Blocks == nil || fnPkg(g) != fnPkg(fn) {
			return
		}
		if len(p.c17accessPoints(g, direct, depth+1)) > 0 {
			out = append(out, in)
		}
	})
	return out
}

// c17reachableUnder: can instruction in of fn execute when fn is entered through call? A boolean
// parameter the call passes a constant for decides the branches on it (a flag-parameter helper is judged
// per call site, with the flag's value).
func c17reachableUnder(fn *ssa.Function, in ssa.Instruction, call ssa.CallInstruction) bool {
	cuts := newCuts()
	for j, arg := range call.Common().Args {
		bv, isC := constBool(arg)
		if !isC || j >= len(fn.Params) {
			continue
		}
		tE, fE := boolEdges(fn, fn.Params[j])
		if bv {
			cuts.AddEdges(fE...)
		} else {
			cuts.AddEdges(tE...)
		}
	}
	if len(cuts.Edges) == 0 {
		return true
	}
	return findPath(entryPoint(fn), Target{Instr: in}, cuts) != nil
}
