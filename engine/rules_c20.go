package main

// C20 — a CCB dial returns only the connection that presents its fresh connect id.
// Decided clause (DESIGN.md section 5): the match-before-return skeleton of ccb/requester.go, the
// provenance of the connect id, the hello shape, and the single-winner structure of the races.
// Cell/closure provenance helpers: help_c05.go.

import (
	"fmt"
	"go/token"
	"go/types"
	"strings"

	"golang.org/x/tools/go/ssa"
)

func init() { register("C20", c20r1, c20r2, c20r3, c20r4, c20r5) }

// c20constStr returns the value of a package-level string constant.
func (c *Ctx) c20constStr(rule, rel, name string) (string, bool) {
	o, _ := c.needObj(rule, rel, name).(*types.Const)
	if o == nil {
		return "", false
	}
	return constString(ssa.NewConst(o.Val(), o.Type()))
}

// c20isParam: v resolves (through conversions and single-assignment cells) to parameter p.
func c20isParam(v ssa.Value, p *ssa.Parameter) bool { return c05resolve(v) == ssa.Value(p) }

// c20idMatchEdges: edges of fn on which AdString(<ad>, "ClaimId") equals the value `id`, and the
// edges on which they differ.
func (c *Ctx) c20idMatchEdges(fn *ssa.Function, adString *ssa.Function, claimAttr string, ad ssa.Value, id func(ssa.Value) bool) (eq, ne []Edge) {
	isGot := func(v ssa.Value) bool {
		call, ok := c05resolve(v).(*ssa.Call)
		if !ok || calleeFn(call) != adString || len(call.Call.Args) != 2 {
			return false
		}
		s, isC := constString(call.Call.Args[1])
		return isC && s == claimAttr && c05resolve(call.Call.Args[0]) == ad
	}
	for _, b := range fn.Blocks {
		a, e, n, ok := c05eqEdges(b)
		if !ok {
			continue
		}
		if (isGot(a.X) && id(a.Y)) || (isGot(a.Y) && id(a.X)) {
			eq = append(eq, e)
			ne = append(ne, n)
		}
	}
	return
}

// c20closes: invoke of Close on a value that resolves to conn.
func c20closes(fn *ssa.Function, conn ssa.Value) []ssa.Instruction {
	var out []ssa.Instruction
	allInstrs(fn, func(_ *ssa.BasicBlock, _ int, in ssa.Instruction) {
		if call, ok := in.(*ssa.Call); ok && call.Call.IsInvoke() && call.Call.Method.Name() == "Close" && c05resolve(call.Call.Value) == conn {
			out = append(out, call)
		}
	})
	return out
}

// c20resultStores: the values a function may return as result i, with the instruction at which the
// value is committed (the Store into the spilled result cell, or the Return itself).
type c20Res struct {
	val ssa.Value
	at  ssa.Instruction
}

func c20results(fn *ssa.Function, i int) []c20Res {
	var out []c20Res
	seen := map[ssa.Instruction]bool{}
	for _, r := range c05returns(fn) {
		v := r.Results[i]
		if ld, ok := v.(*ssa.UnOp); ok && ld.Op == token.MUL {
			if cell, ok := ld.X.(*ssa.Alloc); ok {
				for _, st := range c05cellStores(cell) {
					if !seen[st] {
						seen[st] = true
						out = append(out, c20Res{st.Val, st})
					}
				}
				continue
			}
		}
		out = append(out, c20Res{v, r})
	}
	return out
}

// C20-R1: the identifier is matched before a connection is returned.
func c20r1(c *Ctx) {
	defer c05timer("c20r1")()
	const rule = "C20-R1"
	c.Doc(rule, "acceptReversed returns a connection only after a nil-error hello read from a stream made of that same connection and on the equal edge of AdString(hello, ClaimId) == connectID; on the hello-error and mismatch edges the connection is closed before the next Accept or any return; proxyRequestOnStream returns the broker connection only after Result == true, a nil-error hello on the same broker stream and the same equality, and the request it wrote carried that connectID as ClaimId")
	acc := c.needFn(rule, "ccb", "acceptReversed")
	prx := c.needFn(rule, "ccb", "proxyRequestOnStream")
	rrc := c.needFn(rule, "ccb", "readReverseConnect")
	ads := c.needFn(rule, "ccb", "AdString")
	adb := c.needFn(rule, "ccb", "AdBool")
	rca := c.needFn(rule, "ccb", "ReadControlAd")
	newStream := c.needFn(rule, "stream", "NewStream")
	claim, ok1 := c.c20constStr(rule, "ccb", "AttrClaimID")
	resultAttr, ok2 := c.c20constStr(rule, "ccb", "AttrResult")
	if acc == nil || prx == nil || rrc == nil || ads == nil || adb == nil || rca == nil || newStream == nil || !ok1 || !ok2 {
		return
	}
	// --- acceptReversed
	n := 0
	if len(acc.Params) == 3 {
		idP := acc.Params[2]
		for _, r := range c20results(acc, 0) {
			if isNilConst(r.val) {
				continue
			}
			n++
			key := fmt.Sprintf("%s#return-conn", fnName(acc))
			if n > 1 {
				key = fmt.Sprintf("%s/%d", key, n)
			}
			conn := c05resolve(r.val)
			ex, isEx := conn.(*ssa.Extract)
			var accCall *ssa.Call
			if isEx {
				accCall, _ = ex.Tuple.(*ssa.Call)
			}
			if accCall == nil || !accCall.Call.IsInvoke() || accCall.Call.Method.Name() != "Accept" || !c20isParam(accCall.Call.Value, acc.Params[1]) {
				c.Violate(rule, key+":accepted", "the returned connection is not one accepted from the reverse-connect listener", r.at.Pos())
				continue
			}
			var helloOK, eq, fail []Edge
			for _, hc := range callsIn(acc, rrc.Object()) {
				sarg, isCall := c05resolve(hc.Common().Args[1]).(*ssa.Call)
				if !isCall || calleeFn(sarg) != newStream || c05resolve(sarg.Call.Args[0]) != conn {
					continue // hello read from some other connection's stream
				}
				succ, fl, _ := callErrEdges(acc, hc.Value())
				helloOK = append(helloOK, succ...)
				fail = append(fail, fl...)
				e, ne := c.c20idMatchEdges(acc, ads, claim, extractN(hc.Value(), 0), func(v ssa.Value) bool { return c20isParam(v, idP) })
				eq = append(eq, e...)
				fail = append(fail, ne...)
			}
			okH, p1 := c05passesOneOf(acc, helloOK, r.at)
			c.Check(okH, rule, key+":hello-read", "returned only after a nil-error hello read from this very connection", "a connection can be returned without a successfully read hello from that same connection", r.at.Pos(), c.describePath(p1)...)
			okE, p2 := c05passesOneOf(acc, eq, r.at)
			c.Check(okE, rule, key+":id-match", "returned only on the equal edge of hello ClaimId == connectID", "a connection can be returned without its hello's ClaimId having compared equal to this request's connect id", r.at.Pos(), c.describePath(p2)...)
			// rejected connections are closed before the loop goes on
			closes := c20closes(acc, conn)
			var wit []*ssa.BasicBlock
			for _, e := range fail {
				start := Point{e.To(), 0}
				if p := findPath(start, Target{Instr: accCall}, newCuts().AddInstrs(closes...)); p != nil {
					wit = p
				}
				for _, ret := range c05returns(acc) {
					if p := findPath(start, Target{Instr: ret}, newCuts().AddInstrs(closes...)); p != nil {
						wit = p
					}
				}
			}
			c.Check(len(fail) >= 2 && wit == nil, rule, key+":reject-closes", "a connection whose hello is unreadable or carries another id is closed before the next Accept", "a rejected reverse connection is left open (or no reject edge was found)", accCall.Pos(), c.describePath(wit)...)
		}
	}
	c.MinCount(rule, "connection-returning exits of acceptReversed", n, 1)
	// --- proxyRequestOnStream
	m := 0
	if len(prx.Params) == 8 {
		connP, strP, idP := prx.Params[1], prx.Params[2], prx.Params[5]
		for _, r := range c20results(prx, 0) {
			if isNilConst(r.val) {
				continue
			}
			m++
			key := fmt.Sprintf("%s#return-conn", fnName(prx))
			if m > 1 {
				key = fmt.Sprintf("%s/%d", key, m)
			}
			c.Check(c20isParam(r.val, connP), rule, key+":broker-conn", "the returned connection is the broker connection the request was sent on", "proxyRequestOnStream returns something other than its broker connection", r.at.Pos())
			var resOK, helloOK, eq []Edge
			for _, rc := range callsIn(prx, rca.Object()) {
				if !c20isParam(rc.Common().Args[1], strP) {
					continue
				}
				reply := extractN(rc.Value(), 0)
				for _, bc := range callsIn(prx, adb.Object()) {
					s, isC := constString(bc.Common().Args[1])
					if !isC || s != resultAttr || c05resolve(bc.Common().Args[0]) != reply {
						continue
					}
					if v := extractN(bc.Value(), 0); v != nil {
						t, _ := boolEdges(prx, v)
						resOK = append(resOK, t...)
					}
				}
			}
			for _, hc := range callsIn(prx, rrc.Object()) {
				if !c20isParam(hc.Common().Args[1], strP) {
					continue
				}
				succ, _, _ := callErrEdges(prx, hc.Value())
				helloOK = append(helloOK, succ...)
				e, _ := c.c20idMatchEdges(prx, ads, claim, extractN(hc.Value(), 0), func(v ssa.Value) bool { return c20isParam(v, idP) })
				eq = append(eq, e...)
			}
			ok1, p1 := c05passesOneOf(prx, resOK, r.at)
			c.Check(ok1, rule, key+":result-true", "returned only after the broker's reply carried Result == true", "the broker connection can be returned although the broker did not report success", r.at.Pos(), c.describePath(p1)...)
			ok2, p2 := c05passesOneOf(prx, helloOK, r.at)
			c.Check(ok2, rule, key+":hello-read", "returned only after a nil-error hello on the broker stream", "the broker connection can be returned without a hello read from it", r.at.Pos(), c.describePath(p2)...)
			ok3, p3 := c05passesOneOf(prx, eq, r.at)
			c.Check(ok3, rule, key+":id-match", "returned only on the equal edge of hello ClaimId == connectID", "the broker connection can be returned without the proxied hello's ClaimId having matched this request's connect id", r.at.Pos(), c.describePath(p3)...)
		}
		c.c20requestCarriesID(rule, prx, idP, func(v ssa.Value) bool { return c20isParam(v, strP) })
	} else {
		c.Undecided(rule, fnName(prx)+"#signature", "unexpected parameter list", prx.Pos())
	}
	c.MinCount(rule, "connection-returning exits of proxyRequestOnStream", m, 1)
	ds := c.needFn(rule, "ccb", "dialStandard")
	if ds != nil && len(ds.Params) == 4 {
		c.c20requestCarriesID(rule, ds, ds.Params[2], nil)
	}
	// the functions between Dial and the two matchers only pass a matched connection up
	src := fnSet(prx, ds)
	k := 0
	perFn := map[*ssa.Function]int{}
	for _, name := range []string{"dialProxy", "proxyRequestDial", "resolveContact", "dialOne"} {
		f := c.needFn(rule, "ccb", name)
		if f == nil {
			continue
		}
		src[f] = true
	}
	for _, f := range sortedFns(src) {
		if f == prx || f == ds {
			continue
		}
		for _, r := range c20results(f, 0) {
			if isNilConst(r.val) {
				continue
			}
			k++
			perFn[f]++
			call, idx := originCall(c05resolve(r.val))
			cl, _ := call.(*ssa.Call)
			good := cl != nil && idx == 0 && src[calleeFn(cl)] && calleeFn(cl) != f
			key := fnName(f) + "#return-conn"
			if perFn[f] > 1 {
				key = fmt.Sprintf("%s/%d", key, perFn[f])
			}
			c.Check(good, rule, key+":passed-up", "the connection returned is the one a matcher (or the next function down the dial chain) returned", "a connection is returned that did not come from dialStandard / proxyRequestOnStream (no identifier match stands behind it)", r.at.Pos())
		}
	}
	c.MinCount(rule, "connection-returning exits between Dial and the matchers", k, 6)
}

// c20requestCarriesID: the request ad written to the broker has ClaimId = the function's connectID.
func (c *Ctx) c20requestCarriesID(rule string, fn *ssa.Function, idP *ssa.Parameter, onStream func(ssa.Value) bool) {
	newAd := c.needFn(rule, "ccb", "NewAd")
	wca := c.needFn(rule, "ccb", "WriteControlAd")
	claim, ok := c.c20constStr(rule, "ccb", "AttrClaimID")
	if newAd == nil || wca == nil || !ok {
		return
	}
	good, n := false, 0
	for _, w := range callsIn(fn, wca.Object()) {
		if onStream != nil && !onStream(w.Common().Args[1]) {
			continue
		}
		n++
		adCall, isCall := c05resolve(w.Common().Args[2]).(*ssa.Call)
		if !isCall || calleeFn(adCall) != newAd {
			continue
		}
		mp := adCall.Call.Args[0]
		for _, r := range *mp.Referrers() {
			mu, ok := r.(*ssa.MapUpdate)
			if !ok || mu.Map != mp {
				continue
			}
			if k, isC := constString(mu.Key); isC && k == claim && c20isParam(mu.Value, idP) {
				good = true
			}
		}
	}
	c.Check(good && n > 0, rule, fnName(fn)+"#request-claimid", "the request sent to the broker carries this attempt's connectID as ClaimId", "the request written to the broker does not carry this attempt's connect id as ClaimId (the id compared later is not the one the target was told to present)", fn.Pos())
}

// C20-R2: the connect id is fresh, per attempt, and unguessable.
func c20r2(c *Ctx) {
	defer c05timer("c20r2")()
	const rule = "C20-R2"
	c.Doc(rule, "the connectID compared in acceptReversed / proxyRequestOnStream is, at every call chain in the module, result #0 of a GenerateConnectID() call whose error was tested, made in a function that runs once per attempt (reachable from dialOne, itself started per broker in a goroutine of Dial); GenerateConnectID returns hex of >= 20 bytes filled by crypto/rand.Read with the error checked, and calls nothing from math/rand")
	gen := c.needFn(rule, "ccb", "GenerateConnectID")
	acc := c.needFn(rule, "ccb", "acceptReversed")
	prx := c.needFn(rule, "ccb", "proxyRequestOnStream")
	one := c.needFn(rule, "ccb", "dialOne")
	dial := c.needFn(rule, "ccb", "Dial")
	if gen == nil || acc == nil || prx == nil || one == nil || dial == nil {
		return
	}
	perAttempt := c.reachableFns([]*ssa.Function{one}, false)
	nOrigins := 0
	var trace func(fn *ssa.Function, idx int, chain string, depth int)
	trace = func(fn *ssa.Function, idx int, chain string, depth int) {
		if depth > 8 {
			c.Undecided(rule, chain+":depth", "call chain too deep", fn.Pos())
			return
		}
		if fn.Object() == nil {
			c.Undecided(rule, chain+":anon", "connect id is a parameter of an anonymous function", fn.Pos())
			return
		}
		sites := c.callSites(fn.Object())
		if len(c.c05funcValueUses(fn)) > 0 {
			c.Undecided(rule, chain+":value-use", fnName(fn)+" is used as a function value: its callers cannot be enumerated", fn.Pos())
		}
		if len(sites) == 0 {
			if token.IsExported(fn.Name()) {
				c.Violate(rule, chain+":external", "the connect id is supplied by callers outside the module (exported "+fnName(fn)+")", fn.Pos())
			} else {
				c.Note("%s: %s has no callers in the module (dead code), chain %s ends", rule, fnName(fn), chain)
			}
			return
		}
		for _, cs := range sites {
			args := cs.Call.Common().Args
			if idx >= len(args) {
				c.Undecided(rule, chain+":args", "call shape", cs.Call.Pos())
				continue
			}
			v := c05resolve(args[idx])
			link := chain + "<-" + fnName(topFn(cs.Fn))
			switch x := v.(type) {
			case *ssa.Parameter:
				pi := -1
				for i, q := range x.Parent().Params {
					if q == x {
						pi = i
					}
				}
				trace(x.Parent(), pi, link, depth+1)
			case *ssa.Extract:
				call, _ := x.Tuple.(*ssa.Call)
				if call == nil || calleeFn(call) != gen || x.Index != 0 {
					c.Violate(rule, link+":origin", "the connect id does not come from GenerateConnectID()", cs.Call.Pos())
					continue
				}
				nOrigins++
				holder := call.Parent()
				// the error of GenerateConnectID is tested before the id is used
				use := ssa.Instruction(cs.Call)
				for g := cs.Fn; g != holder && g != nil; g = g.Parent() {
					if mcs := c05closureSites(g); len(mcs) == 1 {
						use = mcs[0]
					}
				}
				succ, _, _ := callErrEdges(holder, call)
				okE, p := c05passesOneOf(holder, succ, use)
				c.Check(okE, rule, link+":generated", "fresh GenerateConnectID() result, used only after its error was found nil", "the connect id is used although GenerateConnectID may have failed (empty id)", call.Pos(), c.describePath(p)...)
				c.Check(perAttempt[holder], rule, link+":per-attempt", "generated inside the per-attempt function chain (dialOne)", "the connect id is generated outside the per-attempt function "+fnName(one)+": several attempts (or requests) would share one id", call.Pos())
			default:
				c.Violate(rule, link+":origin", fmt.Sprintf("the connect id is not a fresh GenerateConnectID() result (it is a %s: constant, cached or shared value)", strings.TrimPrefix(fmt.Sprintf("%T", v), "*ssa.")), cs.Call.Pos())
			}
		}
	}
	if len(acc.Params) == 3 {
		trace(acc, 2, fnName(acc), 0)
	}
	if len(prx.Params) == 8 {
		trace(prx, 5, fnName(prx), 0)
	}
	c.MinCount(rule, "GenerateConnectID origins reaching the comparisons", nOrigins, 3)
	// dialOne runs once per broker attempt: called from a goroutine body nested in Dial
	sites := c.callSites(one.Object())
	good := len(sites) > 0
	for _, cs := range sites {
		if topFn(cs.Fn) != dial || cs.Fn.Parent() == nil {
			good = false
			continue
		}
		launched := false
		for _, mc := range c05closureSites(cs.Fn) {
			for _, r := range *mc.Referrers() {
				if g, ok := r.(*ssa.Go); ok && g.Call.Value == ssa.Value(mc) {
					launched = true
				}
			}
		}
		good = good && launched
	}
	c.Check(good, rule, fnName(one)+"#per-attempt", "dialOne is called only from the goroutine Dial starts per broker attempt", "dialOne is not (only) the per-attempt goroutine body of Dial: 'per attempt' freshness of the id is not established", one.Pos())
	// GenerateConnectID itself
	var readCall *ssa.Call
	nCalls := 0
	allInstrs(gen, func(_ *ssa.BasicBlock, _ int, in ssa.Instruction) {
		call, ok := in.(ssa.CallInstruction)
		if !ok {
			return
		}
		o := calleeObj(call)
		if o == nil || o.Pkg() == nil {
			return
		}
		nCalls++
		switch o.Pkg().Path() {
		case "math/rand", "math/rand/v2":
			c.Violate(rule, fnName(gen)+"#math-rand", "GenerateConnectID calls "+o.Pkg().Path()+"."+o.Name()+": the connect id must not depend on a predictable generator", call.Pos())
		case "crypto/rand":
			if cl, isCall := call.(*ssa.Call); isCall && o.Name() == "Read" {
				readCall = cl
			}
		}
	})
	if readCall == nil {
		c.Violate(rule, fnName(gen)+"#crypto-rand", "GenerateConnectID does not fill the id from crypto/rand.Read", gen.Pos())
		return
	}
	buf := memRoot(readCall.Call.Args[0])
	ln := int64(0)
	switch b := buf.(type) {
	case *ssa.MakeSlice:
		ln, _ = constInt(b.Len)
	case *ssa.Alloc: // make([]byte, const) is an array allocation plus a slice
		if arr, ok := b.Type().Underlying().(*types.Pointer).Elem().Underlying().(*types.Array); ok {
			ln = arr.Len()
		}
	}
	c.Check(ln >= 20, rule, fnName(gen)+"#entropy", fmt.Sprintf("%d random bytes (>= 160 bit)", ln), "the random buffer is shorter than 20 bytes or its size is not a constant", readCall.Pos())
	succ, _, _ := callErrEdges(gen, readCall)
	for _, t := range c.successTargets(gen) {
		p := findPath(entryPoint(gen), t.Target(), newCuts().AddEdges(succ...))
		key := fmt.Sprintf("%s#return%d", fnName(gen), retOrdinal(gen, t.Ret))
		c.Check(p == nil, rule, key+":rand-ok", "an id is returned only after crypto/rand.Read succeeded", "an id can be returned although crypto/rand.Read failed (predictable buffer)", t.Ret.Pos(), c.describePath(p)...)
		dep := mustDepend(gen, t.Ret.Results[0], func(v ssa.Value) bool { return v == buf })
		c.Check(dep, rule, key+":from-buffer", "the returned id is derived from the random buffer", "the returned id does not depend on the bytes crypto/rand filled", t.Ret.Pos())
	}
}

// C20-R3: hello shape.
func c20r3(c *Ctx) {
	defer c05timer("c20r3")()
	const rule = "C20-R3"
	c.Doc(rule, "ReadReverseConnectAd yields an ad only on the equal edge of cmd == CCB_REVERSE_CONNECT and from the size-capped ClassAd reader on the same message; readReverseConnect passes it the command integer it read (nil error) from a fresh message on the given stream")
	rra := c.needFn(rule, "ccb", "ReadReverseConnectAd")
	rrc := c.needFn(rule, "ccb", "readReverseConnect")
	getAd := c.needFn(rule, "message", "(*Message).GetClassAdWithMaxSize")
	getInt := c.needFn(rule, "message", "(*Message).GetInt")
	nmfs := c.needFn(rule, "message", "NewMessageFromStream")
	cmdC, _ := c.needObj(rule, "ccb", "CommandReverseConnect").(*types.Const)
	capC, _ := c.needObj(rule, "ccb", "maxControlAdSize").(*types.Const)
	if rra == nil || rrc == nil || getAd == nil || getInt == nil || nmfs == nil || cmdC == nil || capC == nil {
		return
	}
	want, _ := constInt(ssa.NewConst(cmdC.Val(), cmdC.Type()))
	capV, _ := constInt(ssa.NewConst(capC.Val(), capC.Type()))
	if len(rra.Params) != 3 || len(rrc.Params) != 2 {
		c.Undecided(rule, "signature", "unexpected parameter lists", rra.Pos())
		return
	}
	msgP, cmdP := rra.Params[1], rra.Params[2]
	var eq []Edge
	for _, b := range rra.Blocks {
		a, e, _, ok := c05eqEdges(b)
		if !ok {
			continue
		}
		x, y := a.X, a.Y
		if v, isC := constInt(x); isC && v == want {
			x, y = y, x
		}
		if v, isC := constInt(y); isC && v == want && c20isParam(x, cmdP) {
			eq = append(eq, e)
		}
	}
	n := 0
	for _, r := range c20results(rra, 0) {
		if isNilConst(r.val) {
			continue
		}
		n++
		key := fmt.Sprintf("%s#return-ad", fnName(rra))
		if n > 1 {
			key = fmt.Sprintf("%s/%d", key, n)
		}
		okC, p := c05passesOneOf(rra, eq, r.at)
		c.Check(okC, rule, key+":command", "an ad is returned only when cmd == CCB_REVERSE_CONNECT", "a hello with another command integer is accepted", r.at.Pos(), c.describePath(p)...)
		call, idx := originCall(c05resolve(r.val))
		cl, _ := call.(*ssa.Call)
		good := cl != nil && idx == 0 && calleeFn(cl) == getAd && c20isParam(cl.Call.Args[0], msgP)
		if good {
			v, isC := constInt(cl.Call.Args[2])
			good = isC && v == capV && v > 0
		}
		c.Check(good, rule, key+":capped-reader", "the ad comes from GetClassAdWithMaxSize(maxControlAdSize) on the message the command was read from", "the hello ad is not read through the size-capped reader on the same message", r.at.Pos())
		if good {
			succ, _, _ := callErrEdges(rra, cl)
			okE, p2 := c05passesOneOf(rra, succ, r.at)
			c.Check(okE, rule, key+":read-ok", "returned only after the reader's error was nil", "an ad is returned although reading it failed", r.at.Pos(), c.describePath(p2)...)
		}
	}
	c.MinCount(rule, "ad-returning exits of ReadReverseConnectAd", n, 1)
	// readReverseConnect
	k := 0
	for _, cs := range callsIn(rrc, rra.Object()) {
		k++
		a := cs.Common().Args
		msg := c05resolve(a[1])
		mcall, _ := msg.(*ssa.Call)
		fresh := mcall != nil && calleeFn(mcall) == nmfs && c20isParam(mcall.Call.Args[0], rrc.Params[1])
		c.Check(fresh, rule, fnName(rrc)+"#message", "reads from a fresh message on the given stream", "the hello is not read from a fresh message on the stream passed in", cs.Pos())
		gcall, gi := originCall(c05resolve(a[2]))
		gc, _ := gcall.(*ssa.Call)
		good := gc != nil && gi == 0 && calleeFn(gc) == getInt && c05resolve(gc.Call.Args[0]) == msg
		if good {
			succ, _, _ := callErrEdges(rrc, gc)
			good, _ = c05passesOneOf(rrc, succ, cs)
		}
		c.Check(good, rule, fnName(rrc)+"#command", "the command handed on is the integer just read (nil error) from that message", "the command integer validated is not the one read from the hello message", cs.Pos())
	}
	for _, r := range c20results(rrc, 0) {
		if isNilConst(r.val) {
			continue
		}
		call, idx := originCall(c05resolve(r.val))
		cl, _ := call.(*ssa.Call)
		c.Check(cl != nil && idx == 0 && calleeFn(cl) == rra, rule, fnName(rrc)+"#return-ad", "every ad returned went through ReadReverseConnectAd", "readReverseConnect returns an ad that bypassed the command validation", r.at.Pos())
	}
	c.MinCount(rule, "ReadReverseConnectAd calls in readReverseConnect", k, 1)
}

// ---------------------------------------------------------------------------
// channels and select (R4, R5)

// c20recv describes a value received in a select: the struct cell it is stored in (if any), the
// channel, and the select.
type c20Recv struct {
	sel   *ssa.Select
	state int
	val   ssa.Value // Extract of the received value
	ch    ssa.Value // resolved channel (MakeChan)
}

// c20chan resolves a channel operand to its MakeChan: like c05resolve, but a channel variable that
// is additionally set to nil (the idiom that disables a select case) still denotes that one channel.
func c20chan(v ssa.Value) ssa.Value {
	v = c05resolve(v)
	ld, ok := v.(*ssa.UnOp)
	if !ok || ld.Op != token.MUL {
		return v
	}
	cell, ok := c05cellOf(ld.X)
	if !ok || c05cellEscapes(cell) {
		return v
	}
	var mk ssa.Value
	for _, st := range c05cellStores(cell) {
		if isNilConst(st.Val) {
			continue
		}
		if mk != nil && mk != st.Val {
			return v
		}
		mk = st.Val
	}
	if mk == nil {
		return v
	}
	return c05resolve(mk)
}

// c20recvOf: v is (a field of a struct cell holding) a value received by a select in fn.
func c20recvOf(v ssa.Value) (c20Recv, *types.Var, bool) {
	var field *types.Var
	v = c05resolve(v)
	if ld, ok := v.(*ssa.UnOp); ok && ld.Op == token.MUL {
		if fa, ok := ld.X.(*ssa.FieldAddr); ok {
			field = fieldOfAddr(fa)
			cell, ok := fa.X.(*ssa.Alloc)
			if !ok {
				return c20Recv{}, nil, false
			}
			st := c05cellStores(cell)
			if len(st) != 1 {
				return c20Recv{}, nil, false
			}
			v = st[0].Val
		}
	}
	ex, ok := v.(*ssa.Extract)
	if !ok {
		return c20Recv{}, nil, false
	}
	sel, ok := ex.Tuple.(*ssa.Select)
	if !ok || ex.Index < 2 {
		return c20Recv{}, nil, false
	}
	// received values are numbered in order of the receive states
	k := ex.Index - 2
	for i, s := range sel.States {
		if s.Dir != types.RecvOnly {
			continue
		}
		if k == 0 {
			return c20Recv{sel: sel, state: i, val: ex, ch: c20chan(s.Chan)}, field, true
		}
		k--
	}
	return c20Recv{}, nil, false
}

// c20sends lists the Send instructions on channel ch in fn and its closures.
func c20sends(fn *ssa.Function, ch ssa.Value) []*ssa.Send {
	var out []*ssa.Send
	for _, g := range withClosures(fn) {
		allInstrs(g, func(_ *ssa.BasicBlock, _ int, in ssa.Instruction) {
			if s, ok := in.(*ssa.Send); ok && c20chan(s.Chan) == ch {
				out = append(out, s)
			}
		})
	}
	return out
}

// c20sentField: the value stored in field f of the struct value sent by s (or the sent value itself when f == nil).
func c20sentField(s *ssa.Send, f *types.Var) ssa.Value {
	if f == nil {
		return c05resolve(s.X)
	}
	ld, ok := s.X.(*ssa.UnOp)
	if !ok {
		return nil
	}
	cell, ok := ld.X.(*ssa.Alloc)
	if !ok {
		return nil
	}
	vals := c05fieldStores(cell, f)
	if len(vals) != 1 {
		return nil
	}
	return c05resolve(vals[0])
}

// c20errFieldNilEdges: edges on which field #1 (the error) of the same received struct is nil.
func c20errNilEdges(fn *ssa.Function, connVal ssa.Value) []Edge {
	v := c05resolve(connVal)
	ld, ok := v.(*ssa.UnOp)
	if !ok {
		return nil
	}
	fa, ok := ld.X.(*ssa.FieldAddr)
	if !ok {
		return nil
	}
	cell := fa.X
	var out []Edge
	for _, b := range fn.Blocks {
		a, eq, _, ok := c05eqEdges(b)
		if !ok {
			continue
		}
		x, y := a.X, a.Y
		if isNilConst(x) {
			x, y = y, x
		}
		if !isNilConst(y) || !isErrorType(x.Type()) {
			continue
		}
		xl, ok := x.(*ssa.UnOp)
		if !ok {
			continue
		}
		xfa, ok := xl.X.(*ssa.FieldAddr)
		if ok && xfa.X == cell {
			out = append(out, eq)
		}
	}
	return out
}

// c20deferCloses: the Defer instructions of fn whose closure invokes Close on the variable that
// holds result #idx of the call `acq`.
func c20deferCloses(fn *ssa.Function, acq *ssa.Call, idx int) []ssa.Instruction {
	var out []ssa.Instruction
	for _, d := range deferredCallees(fn) {
		mc, ok := d.Call.Value.(*ssa.MakeClosure)
		if !ok {
			continue
		}
		g, _ := mc.Fn.(*ssa.Function)
		if g == nil {
			continue
		}
		hit := false
		allInstrs(g, func(_ *ssa.BasicBlock, _ int, in ssa.Instruction) {
			call, ok := in.(*ssa.Call)
			if !ok || !call.Call.IsInvoke() || call.Call.Method.Name() != "Close" {
				return
			}
			if ex, ok := c05resolve(call.Call.Value).(*ssa.Extract); ok && ex.Tuple == ssa.Value(acq) && ex.Index == idx {
				hit = true
			}
		})
		if hit {
			out = append(out, d)
		}
	}
	return out
}

// C20-R4: the standard-mode race between the reverse connection and the broker's reply.
func c20r4(c *Ctx) {
	defer c05timer("c20r4")()
	const rule = "C20-R4"
	c.Doc(rule, "dialStandard returns a non-nil connection only from the accept channel, whose only sender sends the result of acceptReversed(ctx, this listener, this connectID), and only when that result's error is nil; a non-nil broker reply ends the attempt with that error and no connection; a success reply returns nothing; every exit after acquisition runs the deferred Close of the listener and of the broker connection")
	ds := c.needFn(rule, "ccb", "dialStandard")
	acc := c.needFn(rule, "ccb", "acceptReversed")
	rbf := c.needFn(rule, "ccb", "readBrokerFailure")
	nrl := c.needFn(rule, "ccb", "newReverseListener")
	dba := c.needFn(rule, "ccb", "dialBrokerAuth")
	if ds == nil || acc == nil || rbf == nil || nrl == nil || dba == nil {
		return
	}
	if len(ds.Params) != 4 {
		c.Undecided(rule, fnName(ds)+"#signature", "unexpected parameter list", ds.Pos())
		return
	}
	idP := ds.Params[2]
	var lnCall, brCall *ssa.Call
	for _, cs := range callsIn(ds, nrl.Object()) {
		lnCall, _ = cs.(*ssa.Call)
	}
	for _, cs := range callsIn(ds, dba.Object()) {
		brCall, _ = cs.(*ssa.Call)
	}
	if lnCall == nil || brCall == nil {
		c.Undecided(rule, fnName(ds)+"#acquire", "listener / broker acquisition calls not found", ds.Pos())
		return
	}
	n := 0
	var sel *ssa.Select
	var connAts []ssa.Instruction
	for _, r := range c20results(ds, 0) {
		if isNilConst(r.val) {
			continue
		}
		n++
		connAts = append(connAts, r.at)
		key := fmt.Sprintf("%s#return-conn", fnName(ds))
		if n > 1 {
			key = fmt.Sprintf("%s/%d", key, n)
		}
		rv, field, ok := c20recvOf(r.val)
		if !ok {
			c.Violate(rule, key+":from-accept-channel", "a connection is returned that was not received from the accept channel", r.at.Pos())
			continue
		}
		sel = rv.sel
		sends := c20sends(ds, rv.ch)
		good := len(sends) > 0
		for _, s := range sends {
			v := c20sentField(s, field)
			ex, _ := v.(*ssa.Extract)
			var call *ssa.Call
			if ex != nil {
				call, _ = ex.Tuple.(*ssa.Call)
			}
			if call == nil || ex.Index != 0 || calleeFn(call) != acc {
				good = false
				continue
			}
			a := call.Call.Args
			lnv, _ := c05resolve(a[1]).(*ssa.Extract)
			if !c20isParam(a[2], idP) || lnv == nil || lnv.Tuple != ssa.Value(lnCall) || lnv.Index != 0 {
				good = false
			}
		}
		c.Check(good, rule, key+":from-accept-channel", "the returned connection was sent by the accept goroutine: acceptReversed(ctx, this attempt's listener, this attempt's connectID)", "the channel the returned connection comes from is also fed by something other than acceptReversed on this attempt's listener and connect id", r.at.Pos())
		okE, p := c05passesOneOf(ds, c20errNilEdges(ds, r.val), r.at)
		c.Check(okE, rule, key+":accept-ok", "returned only when the accept result's error is nil", "a connection is returned without testing the error that came with it", r.at.Pos(), c.describePath(p)...)
	}
	c.MinCount(rule, "connection-returning exits of dialStandard", n, 1)
	// the reply channel
	if sel != nil {
		found := 0
		for i, st := range sel.States {
			if st.Dir != types.RecvOnly {
				continue
			}
			ch := c20chan(st.Chan)
			sends := c20sends(ds, ch)
			isReply := len(sends) > 0
			for _, s := range sends {
				call, _ := c05resolve(s.X).(*ssa.Call)
				if call == nil || calleeFn(call) != rbf {
					isReply = false
				}
			}
			if !isReply {
				continue
			}
			found++
			// the Extract holding this state's received value
			ridx := 2
			for j := 0; j < i; j++ {
				if sel.States[j].Dir == types.RecvOnly {
					ridx++
				}
			}
			var rv ssa.Value
			for _, r := range *sel.Referrers() {
				if ex, ok := r.(*ssa.Extract); ok && ex.Index == ridx {
					rv = ex
				}
			}
			if rv == nil {
				c.Violate(rule, fnName(ds)+"#broker-reply:examined", "the broker's reply is received but never examined", sel.Pos())
				continue
			}
			nilE, nonNil := nilEdges(ds, rv)
			// failure: ends the attempt, with that error, without a connection
			var wit []*ssa.BasicBlock
			carries := false
			for _, e := range nonNil {
				start := Point{e.To(), 0}
				if p := findPath(start, Target{Instr: sel}, nil); p != nil {
					wit = p
				}
				for _, at := range connAts {
					if p := findPath(start, Target{Instr: at}, nil); p != nil {
						wit = p
					}
				}
				for _, er := range c20results(ds, 1) {
					if findPath(start, Target{Instr: er.at}, nil) != nil && mustDepend(ds, er.val, func(v ssa.Value) bool { return v == rv }) {
						carries = true
					}
				}
			}
			c.Check(len(nonNil) > 0 && wit == nil, rule, fnName(ds)+"#broker-failure:ends-attempt", "a failure reply leaves the wait loop and returns no connection", "after a failure reply the dial keeps waiting or can still return a connection", sel.Pos(), c.describePath(wit)...)
			c.Check(carries, rule, fnName(ds)+"#broker-failure:error", "the broker's error is what the attempt returns", "a failure reported by the broker is not the error returned", sel.Pos())
			// success: returns nothing by itself
			wit = nil
			for _, e := range nilE {
				for _, ret := range c05returns(ds) {
					if p := findPath(Point{e.To(), 0}, Target{Instr: ret}, newCuts().AddInstrs(sel)); p != nil {
						wit = p
					}
				}
			}
			c.Check(len(nilE) > 0 && wit == nil, rule, fnName(ds)+"#broker-success:keeps-waiting", "a success reply only continues the wait for the reverse connection", "a success reply from the broker makes dialStandard return by itself", sel.Pos(), c.describePath(wit)...)
		}
		c.MinCount(rule, "broker-reply receive states", found, 1)
	}
	// deferred cleanup
	for _, q := range []struct {
		name string
		call *ssa.Call
		idx  int
	}{{"listener", lnCall, 0}, {"broker-conn", brCall, 0}} {
		defs := c20deferCloses(ds, q.call, q.idx)
		succ, _, _ := callErrEdges(ds, q.call)
		var wit []*ssa.BasicBlock
		for _, e := range succ {
			for _, ret := range c05returns(ds) {
				if p := findPath(Point{e.To(), 0}, Target{Instr: ret}, newCuts().AddInstrs(defs...)); p != nil {
					wit = p
				}
			}
		}
		c.Check(len(defs) > 0 && len(succ) > 0 && wit == nil, rule, fnName(ds)+"#cleanup:"+q.name, "every exit after acquisition runs a deferred Close of it", "an exit of dialStandard leaves the "+q.name+" open (no deferred Close registered on that path)", q.call.Pos(), c.describePath(wit)...)
	}
}

// C20-R5: single winner among brokers.
func c20r5(c *Ctx) {
	defer c05timer("c20r5")()
	const rule = "C20-R5"
	c.Doc(rule, "Dial has exactly one exit that returns a non-nil connection; its value was received from the results channel, whose only senders send dialOne(attemptCtx, …) results, and the exit is on the nil-error edge of that result; attemptCtx comes from a context.WithCancel whose cancel function is deferred")
	dial := c.needFn(rule, "ccb", "Dial")
	one := c.needFn(rule, "ccb", "dialOne")
	if dial == nil || one == nil {
		return
	}
	n := 0
	for _, r := range c20results(dial, 0) {
		if isNilConst(r.val) {
			continue
		}
		n++
		key := fmt.Sprintf("%s#return-conn", fnName(dial))
		if n > 1 {
			key = fmt.Sprintf("%s/%d", key, n)
		}
		rv, field, ok := c20recvOf(r.val)
		if !ok {
			c.Violate(rule, key+":from-results-channel", "Dial returns a connection that was not received from the results channel", r.at.Pos())
			continue
		}
		sends := c20sends(dial, rv.ch)
		good := len(sends) > 0
		cancelled := len(sends) > 0
		for _, s := range sends {
			v := c20sentField(s, field)
			ex, _ := v.(*ssa.Extract)
			var call *ssa.Call
			if ex != nil {
				call, _ = ex.Tuple.(*ssa.Call)
			}
			if call == nil || ex.Index != 0 || calleeFn(call) != one {
				good = false
				continue
			}
			// the attempt's context is cancelled when Dial returns
			cx, _ := c05resolve(call.Call.Args[0]).(*ssa.Extract)
			var wc *ssa.Call
			if cx != nil {
				wc, _ = cx.Tuple.(*ssa.Call)
			}
			okCtx := false
			if wc != nil && cx.Index == 0 {
				if o := calleeObj(wc); o != nil && o.Pkg() != nil && o.Pkg().Path() == "context" && (o.Name() == "WithCancel" || o.Name() == "WithTimeout" || o.Name() == "WithDeadline") {
					if cf := extractN(wc, 1); cf != nil {
						for _, d := range deferredCallees(dial) {
							if d.Call.Value == cf {
								okCtx = true
							}
						}
					}
				}
			}
			cancelled = cancelled && okCtx
		}
		c.Check(good, rule, key+":from-results-channel", "the returned connection is a dialOne result sent by an attempt goroutine", "the results channel is fed by something other than dialOne results", r.at.Pos())
		c.Check(cancelled, rule, key+":attempts-cancelled", "attempts run under a context whose cancel is deferred in Dial", "attempts do not run under a context that Dial cancels on return: losing attempts keep running", r.at.Pos())
		okE, p := c05passesOneOf(dial, c20errNilEdges(dial, r.val), r.at)
		c.Check(okE, rule, key+":attempt-ok", "returned only when the attempt's error is nil", "a connection is returned without testing the attempt's error", r.at.Pos(), c.describePath(p)...)
	}
	c.Check(n == 1, rule, fnName(dial)+"#single-winner", "exactly one exit returns a connection", fmt.Sprintf("%d exits of Dial return a connection (expected exactly one)", n), dial.Pos())
	c.MinCount(rule, "connection-returning exits of Dial", n, 1)
}
