package main

// C20 — a CCB dial returns only the connection that presents its fresh connect id.
// Decided clause (DESIGN.md section 5): the match-before-return skeleton of ccb/requester.go, the
// provenance of the connect id, the hello shape, and the single-winner structure of the races.
// Cell/closure provenance helpers: help_c05.go.

import (
	"fmt"
	"go/token"
	"go/types"
	"strings"

	"golang.org/x/tools/go/ssa"
)

func init() { register("C20", c20r1, c20r2, c20r3, c20r4, c20r5) }

// c20constStr returns the value of a package-level string constant.
func (c *Ctx) c20constStr(rule, rel, name string) (string, bool) {
	o, _ := c.needObj(rule, rel, name).(*types.Const)
	if o == nil {
		return "", false
	}
	return constString(ssa.NewConst(o.Val(), o.Type()))
}

// c20resultStores: the values a function may return as result i, with the instruction at which the
// value is committed (the Store into the spilled result cell, or the Return itself).
type c20Res struct {
	val ssa.Value
	at  ssa.Instruction
}

func c20results(fn *ssa.Function, i int) []c20Res {
	var out []c20Res
	seen := map[ssa.Instruction]bool{}
	rets := c05returns(fn)
	for _, r := range rets {
		if fn.Recover != nil && r.Block() == fn.Recover && len(rets) > 1 {
			continue // the recover block re-reads the result cells the other returns filled (load.go despillReturns)
		}
		v := r.Results[i]
		if ld, ok := v.(*ssa.UnOp); ok && ld.Op == token.MUL {
			if cell, ok := ld.X.(*ssa.Alloc); ok {
				for _, st := range c05cellStores(cell) {
					if !seen[st] {
						seen[st] = true
						out = append(out, c20Res{st.Val, st})
					}
				}
				continue
			}
		}
		out = append(out, c20Res{v, r})
	}
	return out
}

// c20connTg: the target "result value r is committed" (the Return, or the Store into the spilled result
// cell; it counts only when the value is not nil on the path that reaches it).
func c20connTg(root *c05Frame, r c20Res) c05Tg {
	return c05Tg{fr: root, in: r.at, ifNonNil: r.val}
}

// c20Match gathers, for one root function and one stream predicate, the hello reads and the facts
// they give: a nil-error readReverseConnect on an accepted stream, and the equal outcome of
// AdString(hello, ClaimId) == connectID.
type c20Match struct {
	hellos map[c05Call]bool
	claim  string
	ads    *ssa.Function
	id     c05V
}

func (m *c20Match) helloOK() c05Fact {
	return c05factErrNil(func(x c05Call) bool { return m.hellos[x] })
}
func (m *c20Match) helloFailed() c05Fact {
	return c05factNilOfCall(false, func(x c05Call) bool { return m.hellos[x] })
}

// isGot: v is AdString(<ad read by one of the hellos>, "ClaimId").
func (m *c20Match) isGot(v c05V) bool {
	if v.fr == nil {
		return false
	}
	r := v.fr.res(v.v)
	call, ok := r.v.(*ssa.Call)
	if !ok || r.fr == nil || calleeFn(call) != m.ads || len(call.Call.Args) != 2 {
		return false
	}
	s, isC := constString(call.Call.Args[1])
	if !isC || s != m.claim {
		return false
	}
	ad := r.fr.res(call.Call.Args[0])
	hc, idx := c05resultOf(ad.v)
	return hc != nil && idx == 0 && m.hellos[c05Call{ad.fr, hc}]
}

// idIs: the outcome "hello ClaimId == connectID" (want=true) or "!=" (want=false).
func (m *c20Match) idIs(want bool) c05Fact {
	return func(t c05Test) bool {
		x, y, eq, ok := c05eqTest(t.v.v)
		if !ok || t.v.fr == nil {
			return false
		}
		f := t.v.fr
		if !(m.isGot(c05V{x, f}) && f.res(y) == m.id) && !(m.isGot(c05V{y, f}) && f.res(x) == m.id) {
			return false
		}
		return (eq == t.truth) == want
	}
}

// C20-R1: the identifier is matched before a connection is returned.
func c20r1(c *Ctx) {
	defer c05timer("c20r1")()
	const rule = "C20-R1"
	c.Doc(rule, "acceptReversed (seen together with its same-package helpers) returns a connection only after a nil-error hello read from a stream made of that same connection and on the equal edge of AdString(hello, ClaimId) == connectID; on the hello-error and mismatch edges the connection is closed before the next Accept or any return; proxyRequestOnStream returns the broker connection only after Result == true, a nil-error hello on the same broker stream and the same equality, and the request it wrote carried that connectID as ClaimId")
	acc := c.needFn(rule, "ccb", "acceptReversed")
	prx := c.needFn(rule, "ccb", "proxyRequestOnStream")
	rrc := c.needFn(rule, "ccb", "readReverseConnect")
	ads := c.needFn(rule, "ccb", "AdString")
	adb := c.needFn(rule, "ccb", "AdBool")
	rca := c.needFn(rule, "ccb", "ReadControlAd")
	newStream := c.needFn(rule, "stream", "NewStream")
	claim, ok1 := c.c20constStr(rule, "ccb", "AttrClaimID")
	resultAttr, ok2 := c.c20constStr(rule, "ccb", "AttrResult")
	if acc == nil || prx == nil || rrc == nil || ads == nil || adb == nil || rca == nil || newStream == nil || !ok1 || !ok2 {
		return
	}
	stops := []*ssa.Function{rrc, ads, adb, rca, c.LookupFn("ccb", "NewAd"), c.LookupFn("ccb", "WriteControlAd")}
	// --- acceptReversed
	n := 0
	if len(acc.Params) == 3 {
		root := c.c05rootFrame(acc, stops...)
		idP, lnP := c05V{acc.Params[2], root}, c05V{acc.Params[1], root}
		for _, r := range c20results(acc, 0) {
			if isNilConst(r.val) {
				continue
			}
			for _, conn := range c05nonNilOrigins(root, r.val) {
				n++
				key := fmt.Sprintf("%s#return-conn", fnName(acc))
				if n > 1 {
					key = fmt.Sprintf("%s/%d", key, n)
				}
				accCall, aidx := c05resultOf(conn.v)
				if accCall == nil || aidx != 0 || conn.fr == nil || !accCall.Call.IsInvoke() || accCall.Call.Method.Name() != "Accept" || conn.fr.res(accCall.Call.Value) != lnP {
					c.Violate(rule, key+":accepted", "the returned connection is not one accepted from the reverse-connect listener", r.at.Pos())
					continue
				}
				m := &c20Match{hellos: map[c05Call]bool{}, claim: claim, ads: ads, id: idP}
				for _, hc := range root.calls(rrc.Object()) {
					sv := hc.fr.res(hc.call.Call.Args[1])
					sarg, isCall := sv.v.(*ssa.Call)
					if !isCall || sv.fr == nil || calleeFn(sarg) != newStream || sv.fr.res(sarg.Call.Args[0]) != conn {
						continue // hello read from some other connection's stream
					}
					m.hellos[hc] = true
				}
				tg := c20connTg(root, r)
				okH, p1 := c05dominated(tg, c05newCuts(m.helloOK()))
				c.Check(okH, rule, key+":hello-read", "returned only after a nil-error hello read from this very connection", "a connection can be returned without a successfully read hello from that same connection", r.at.Pos(), c.describePath(p1)...)
				okE, p2 := c05dominated(tg, c05newCuts(m.idIs(true)))
				c.Check(okE, rule, key+":id-match", "returned only on the equal edge of hello ClaimId == connectID", "a connection can be returned without its hello's ClaimId having compared equal to this request's connect id", r.at.Pos(), c.describePath(p2)...)
				// rejected connections are closed before the loop goes on
				closes := c05newCuts()
				for _, f := range root.all() {
					allInstrs(f.fn, func(_ *ssa.BasicBlock, _ int, in ssa.Instruction) {
						if call, ok := in.(*ssa.Call); ok && call.Call.IsInvoke() && call.Call.Method.Name() == "Close" && f.res(call.Call.Value) == conn {
							closes.addInstr(f, call)
						}
					})
				}
				reject := c05anyFact(m.helloFailed(), m.idIs(false))
				nFail := 0
				var wit []*ssa.BasicBlock
				for _, f := range root.all() {
					for _, b := range f.fn.Blocks {
						done := map[int]bool{}
						for _, o := range c05staticTests(f, b) {
							if done[o.succ] || !reject(o.t) {
								continue
							}
							done[o.succ] = true
							nFail++
							start := c05edgePt(f, b, o.succ)
							if p := c05path(start, c05Tg{fr: conn.fr, in: accCall}, &c05Cuts{edges: closes.edges, instrs: closes.instrs}); p != nil {
								wit = p
							}
							for _, ret := range c05returns(acc) {
								if p := c05path(start, c05Tg{fr: root, in: ret}, &c05Cuts{edges: closes.edges, instrs: closes.instrs}); p != nil {
									wit = p
								}
							}
						}
					}
				}
				c.Check(nFail >= 2 && wit == nil, rule, key+":reject-closes", "a connection whose hello is unreadable or carries another id is closed before the next Accept", "a rejected reverse connection is left open (or no reject edge was found)", accCall.Pos(), c.describePath(wit)...)
			}
		}
	}
	c.MinCount(rule, "connection-returning exits of acceptReversed", n, 1)
	// --- proxyRequestOnStream
	k := 0
	if len(prx.Params) == 8 {
		root := c.c05rootFrame(prx, stops...)
		connP, strP, idP := c05V{prx.Params[1], root}, c05V{prx.Params[2], root}, c05V{prx.Params[5], root}
		for _, r := range c20results(prx, 0) {
			if isNilConst(r.val) {
				continue
			}
			k++
			key := fmt.Sprintf("%s#return-conn", fnName(prx))
			if k > 1 {
				key = fmt.Sprintf("%s/%d", key, k)
			}
			isBroker := true
			for _, o := range c05nonNilOrigins(root, r.val) {
				if o != connP {
					isBroker = false
				}
			}
			c.Check(isBroker, rule, key+":broker-conn", "the returned connection is the broker connection the request was sent on", "proxyRequestOnStream returns something other than its broker connection", r.at.Pos())
			replies := map[c05V]bool{}
			for _, rc := range root.calls(rca.Object()) {
				if rc.fr.res(rc.call.Call.Args[1]) != strP {
					continue
				}
				if ex := extractN(rc.call, 0); ex != nil {
					replies[c05V{ex, rc.fr}] = true
				}
			}
			resTrue := c05factBool(true, func(v c05V) bool {
				bc, idx := c05resultOf(v.v)
				if bc == nil || idx != 0 || v.fr == nil || calleeFn(bc) != adb || len(bc.Call.Args) != 2 {
					return false
				}
				s, isC := constString(bc.Call.Args[1])
				return isC && s == resultAttr && replies[v.fr.res(bc.Call.Args[0])]
			})
			m := &c20Match{hellos: map[c05Call]bool{}, claim: claim, ads: ads, id: idP}
			for _, hc := range root.calls(rrc.Object()) {
				if hc.fr.res(hc.call.Call.Args[1]) == strP {
					m.hellos[hc] = true
				}
			}
			tg := c20connTg(root, r)
			okR, p1 := c05dominated(tg, c05newCuts(resTrue))
			c.Check(okR, rule, key+":result-true", "returned only after the broker's reply carried Result == true", "the broker connection can be returned although the broker did not report success", r.at.Pos(), c.describePath(p1)...)
			okH, p2 := c05dominated(tg, c05newCuts(m.helloOK()))
			c.Check(okH, rule, key+":hello-read", "returned only after a nil-error hello on the broker stream", "the broker connection can be returned without a hello read from it", r.at.Pos(), c.describePath(p2)...)
			okE, p3 := c05dominated(tg, c05newCuts(m.idIs(true)))
			c.Check(okE, rule, key+":id-match", "returned only on the equal edge of hello ClaimId == connectID", "the broker connection can be returned without the proxied hello's ClaimId having matched this request's connect id", r.at.Pos(), c.describePath(p3)...)
		}
		c.c20requestCarriesID(rule, prx, prx.Params[5], prx.Params[2])
	} else {
		c.Undecided(rule, fnName(prx)+"#signature", "unexpected parameter list", prx.Pos())
	}
	c.MinCount(rule, "connection-returning exits of proxyRequestOnStream", k, 1)
	ds := c.needFn(rule, "ccb", "dialStandard")
	if ds != nil && len(ds.Params) == 4 {
		c.c20requestCarriesID(rule, ds, ds.Params[2], nil)
	}
	// the functions between dialOne and the two matchers only pass a matched connection up: every function of
	// the package that dialOne reaches, that itself reaches a matcher, and that returns a net.Conn
	src := fnSet(prx, ds)
	q := 0
	perFn := map[*ssa.Function]int{}
	if one := c.needFn(rule, "ccb", "dialOne"); one != nil {
		for f := range c.reachableFns([]*ssa.Function{one}, false) {
			if f == prx || f == ds || f.Parent() != nil || fnPkg(f) != fnPkg(one) {
				continue
			}
			res := f.Signature.Results()
			if res.Len() == 0 || types.TypeString(res.At(0).Type(), nil) != "net.Conn" {
				continue
			}
			below := c.reachableFns([]*ssa.Function{f}, false)
			if below[prx] || (ds != nil && below[ds]) {
				src[f] = true
			}
		}
	}
	for _, f := range sortedFns(src) {
		if f == prx || f == ds {
			continue
		}
		root := c.c05rootFrame(f, sortedFns(src)...)
		for _, r := range c20results(f, 0) {
			if isNilConst(r.val) {
				continue
			}
			perFn[f]++
			good := true
			os := c05nonNilOrigins(root, r.val)
			q += len(os)
			for _, o := range os {
				cl, idx := c05resultOf(o.v)
				if cl == nil || idx != 0 || !src[calleeFn(cl)] || calleeFn(cl) == f {
					good = false
				}
			}
			key := fnName(f) + "#return-conn"
			if perFn[f] > 1 {
				key = fmt.Sprintf("%s/%d", key, perFn[f])
			}
			c.Check(good && len(os) > 0, rule, key+":passed-up", "the connection returned is the one a matcher (or the next function down the dial chain) returned", "a connection is returned that did not come from dialStandard / proxyRequestOnStream (no identifier match stands behind it)", r.at.Pos())
		}
	}
	c.MinCount(rule, "connection-returning exits between dialOne and the matchers", q, 1)
}

// c20requestCarriesID: the request ad written to the broker (by fn or a helper it calls) has
// ClaimId = the function's connectID.
func (c *Ctx) c20requestCarriesID(rule string, fn *ssa.Function, idP *ssa.Parameter, strP *ssa.Parameter) {
	newAd := c.needFn(rule, "ccb", "NewAd")
	wca := c.needFn(rule, "ccb", "WriteControlAd")
	claim, ok := c.c20constStr(rule, "ccb", "AttrClaimID")
	if newAd == nil || wca == nil || !ok {
		return
	}
	root := c.c05rootFrame(fn, newAd, wca)
	id := c05V{idP, root}
	good, n := false, 0
	for _, w := range root.calls(wca.Object()) {
		if strP != nil && w.fr.res(w.call.Call.Args[1]) != (c05V{strP, root}) {
			continue
		}
		n++
		ad := w.fr.res(w.call.Call.Args[2])
		adCall, isCall := ad.v.(*ssa.Call)
		if !isCall || ad.fr == nil || calleeFn(adCall) != newAd {
			continue
		}
		mp := ad.fr.res(adCall.Call.Args[0])
		if mp.fr == nil || mp.v.Referrers() == nil {
			continue
		}
		for _, r := range *mp.v.Referrers() {
			mu, ok := r.(*ssa.MapUpdate)
			if !ok || mu.Map != mp.v {
				continue
			}
			if k, isC := constString(mu.Key); isC && k == claim && mp.fr.res(mu.Value) == id {
				good = true
			}
		}
	}
	c.Check(good && n > 0, rule, fnName(fn)+"#request-claimid", "the request sent to the broker carries this attempt's connectID as ClaimId", "the request written to the broker does not carry this attempt's connect id as ClaimId (the id compared later is not the one the target was told to present)", fn.Pos())
}

// C20-R2: the connect id is fresh, per attempt, and unguessable.
func c20r2(c *Ctx) {
	defer c05timer("c20r2")()
	const rule = "C20-R2"
	c.Doc(rule, "the connectID compared in acceptReversed / proxyRequestOnStream is, at every call chain in the module, result #0 of a GenerateConnectID() call whose error was tested, made in a function that runs once per attempt (reachable from dialOne, itself started per broker in a goroutine of Dial); GenerateConnectID returns hex of >= 20 bytes filled by crypto/rand.Read with the error checked, and calls nothing from math/rand")
	gen := c.needFn(rule, "ccb", "GenerateConnectID")
	acc := c.needFn(rule, "ccb", "acceptReversed")
	prx := c.needFn(rule, "ccb", "proxyRequestOnStream")
	one := c.needFn(rule, "ccb", "dialOne")
	dial := c.needFn(rule, "ccb", "Dial")
	if gen == nil || acc == nil || prx == nil || one == nil || dial == nil {
		return
	}
	perAttempt := c.reachableFns([]*ssa.Function{one}, false)
	nOrigins := 0
	var trace func(fn *ssa.Function, idx int, chain string, depth int)
	trace = func(fn *ssa.Function, idx int, chain string, depth int) {
		if depth > 8 {
			c.Undecided(rule, chain+":depth", "call chain too deep", fn.Pos())
			return
		}
		if fn.Object() == nil {
			c.Undecided(rule, chain+":anon", "connect id is a parameter of an anonymous function", fn.Pos())
			return
		}
		sites := c.callSites(fn.Object())
		if len(c.c05funcValueUses(fn)) > 0 {
			c.Undecided(rule, chain+":value-use", fnName(fn)+" is used as a function value: its callers cannot be enumerated", fn.Pos())
		}
		if len(sites) == 0 {
			if token.IsExported(fn.Name()) {
				c.Violate(rule, chain+":external", "the connect id is supplied by callers outside the module (exported "+fnName(fn)+")", fn.Pos())
			} else {
				c.Note("%s: %s has no callers in the module (dead code), chain %s ends", rule, fnName(fn), chain)
			}
			return
		}
		for _, cs := range sites {
			args := cs.Call.Common().Args
			if idx >= len(args) {
				c.Undecided(rule, chain+":args", "call shape", cs.Call.Pos())
				continue
			}
			link := chain + "<-" + fnName(topFn(cs.Fn))
			ufr := c.c05rootFrame(cs.Fn, gen)
			for _, o := range ufr.origins(args[idx]) {
				switch x := o.v.(type) {
				case *ssa.Parameter:
					trace(x.Parent(), c05paramIndex(x.Parent(), x), link, depth+1)
				case *ssa.Extract:
					call, _ := x.Tuple.(*ssa.Call)
					if call == nil || calleeFn(call) != gen || x.Index != 0 {
						c.Violate(rule, link+":origin", "the connect id does not come from GenerateConnectID()", cs.Call.Pos())
						continue
					}
					nOrigins++
					holder := call.Parent()
					var okE bool
					var p []*ssa.BasicBlock
					if ucall, isPlain := cs.Call.(*ssa.Call); isPlain && o.fr != nil && o.fr.root() == ufr {
						// generated in the using function or a helper it calls: the nil-error outcome dominates the use
						gc := c05Call{o.fr, call}
						okE, p = c05dominated(c05Tg{fr: ufr, in: ucall}, c05newCuts(c05factErrNil(func(y c05Call) bool { return y == gc })))
					} else {
						// generated in an enclosing function: the error is tested before the closure using the id is made
						use := ssa.Instruction(cs.Call)
						for g := cs.Fn; g != holder && g != nil; g = g.Parent() {
							if mcs := c05closureSites(g); len(mcs) == 1 {
								use = mcs[0]
							}
						}
						succ, _, _ := callErrEdges(holder, call)
						okE, p = c05passesOneOf(holder, succ, use)
					}
					c.Check(okE, rule, link+":generated", "fresh GenerateConnectID() result, used only after its error was found nil", "the connect id is used although GenerateConnectID may have failed (empty id)", call.Pos(), c.describePath(p)...)
					c.Check(perAttempt[holder], rule, link+":per-attempt", "generated inside the per-attempt function chain (dialOne)", "the connect id is generated outside the per-attempt function "+fnName(one)+": several attempts (or requests) would share one id", call.Pos())
				default:
					c.Violate(rule, link+":origin", fmt.Sprintf("the connect id is not a fresh GenerateConnectID() result (it is a %s: constant, cached or shared value)", strings.TrimPrefix(fmt.Sprintf("%T", o.v), "*ssa.")), cs.Call.Pos())
				}
			}
		}
	}
	if len(acc.Params) == 3 {
		trace(acc, 2, fnName(acc), 0)
	}
	c.MinCount(rule, "GenerateConnectID origins reaching the comparison in acceptReversed", nOrigins, 1)
	nAcc := nOrigins
	if len(prx.Params) == 8 {
		trace(prx, 5, fnName(prx), 0)
	}
	c.MinCount(rule, "GenerateConnectID origins reaching the comparison in proxyRequestOnStream", nOrigins-nAcc, 1)
	// dialOne runs once per broker attempt: called from a goroutine body nested in Dial
	// (a closure of Dial started with go, or a same-package function started with go from Dial or one of
	// its closures, possibly through helpers called only from there)
	var perGo func(fn *ssa.Function, depth int) bool
	perGo = func(fn *ssa.Function, depth int) bool {
		if depth > c05MaxDepth {
			return false
		}
		if fn.Parent() != nil { // closure: every MakeClosure of it is the operand of a go statement in Dial
			if topFn(fn) != dial {
				return false
			}
			mcs := c05closureSites(fn)
			launched := len(mcs) > 0
			for _, mc := range mcs {
				isGo := false
				for _, r := range *mc.Referrers() {
					if g, ok := r.(*ssa.Go); ok && g.Call.Value == ssa.Value(mc) {
						isGo = true
					}
				}
				launched = launched && isGo
			}
			return launched
		}
		if fn.Object() == nil || len(c.c05funcValueUses(fn)) > 0 {
			return false
		}
		ss := c.callSites(fn.Object())
		if len(ss) == 0 {
			return false
		}
		for _, cs := range ss {
			if _, isGo := cs.Call.(*ssa.Go); isGo && topFn(cs.Fn) == dial {
				continue
			}
			if _, plain := cs.Call.(*ssa.Call); plain && perGo(cs.Fn, depth+1) {
				continue
			}
			return false
		}
		return true
	}
	sites := c.callSites(one.Object())
	good := len(sites) > 0
	for _, cs := range sites {
		if _, plain := cs.Call.(*ssa.Call); !plain || !perGo(cs.Fn, 0) {
			good = false
		}
	}
	c.Check(good, rule, fnName(one)+"#per-attempt", "dialOne is called only from the goroutine Dial starts per broker attempt", "dialOne is not (only) the per-attempt goroutine body of Dial: 'per attempt' freshness of the id is not established", one.Pos())
	// GenerateConnectID itself (seen together with its same-package helpers)
	groot := c.c05rootFrame(gen)
	var readCall c05Call
	for _, f := range groot.all() {
		allInstrs(f.fn, func(_ *ssa.BasicBlock, _ int, in ssa.Instruction) {
			call, ok := in.(ssa.CallInstruction)
			if !ok {
				return
			}
			o := calleeObj(call)
			if o == nil || o.Pkg() == nil {
				return
			}
			switch o.Pkg().Path() {
			case "math/rand", "math/rand/v2":
				c.Violate(rule, fnName(gen)+"#math-rand", "GenerateConnectID calls "+o.Pkg().Path()+"."+o.Name()+": the connect id must not depend on a predictable generator", call.Pos())
			case "crypto/rand":
				if cl, isCall := call.(*ssa.Call); isCall && o.Name() == "Read" {
					readCall = c05Call{f, cl}
				}
			}
		})
	}
	if readCall.call == nil {
		c.Violate(rule, fnName(gen)+"#crypto-rand", "GenerateConnectID does not fill the id from crypto/rand.Read", gen.Pos())
		return
	}
	buf := readCall.fr.res(memRoot(readCall.call.Call.Args[0]))
	buf.v = memRoot(buf.v)
	ln := int64(0)
	switch b := buf.v.(type) {
	case *ssa.MakeSlice:
		if k, isC := constInt(buf.fr.res(b.Len).v); isC {
			ln = k
		}
	case *ssa.Alloc: // make([]byte, const) is an array allocation plus a slice
		if arr, ok := b.Type().Underlying().(*types.Pointer).Elem().Underlying().(*types.Array); ok {
			ln = arr.Len()
		}
	}
	c.Check(ln >= 20, rule, fnName(gen)+"#entropy", fmt.Sprintf("%d random bytes (>= 160 bit)", ln), "the random buffer is shorter than 20 bytes or its size is not a constant", readCall.call.Pos())
	readOK := c05factErrNil(func(x c05Call) bool { return x == readCall })
	for _, t := range c.successTargets(gen) {
		p := c05path(c05entryPt(groot), c05errTg(groot, t), c05newCuts(readOK))
		key := fmt.Sprintf("%s#return%d", fnName(gen), retOrdinal(gen, t.Ret))
		c.Check(p == nil, rule, key+":rand-ok", "an id is returned only after crypto/rand.Read succeeded", "an id can be returned although crypto/rand.Read failed (predictable buffer)", t.Ret.Pos(), c.describePath(p)...)
		dep := c05dependsOn(groot, t.Ret.Results[0], func(v c05V) bool { return v == buf })
		c.Check(dep, rule, key+":from-buffer", "the returned id is derived from the random buffer", "the returned id does not depend on the bytes crypto/rand filled", t.Ret.Pos())
	}
}

// C20-R3: hello shape.
func c20r3(c *Ctx) {
	defer c05timer("c20r3")()
	const rule = "C20-R3"
	c.Doc(rule, "ReadReverseConnectAd yields an ad only on the equal edge of cmd == CCB_REVERSE_CONNECT and from the size-capped ClassAd reader on the same message; readReverseConnect passes it the command integer it read (nil error) from a fresh message on the given stream")
	rra := c.needFn(rule, "ccb", "ReadReverseConnectAd")
	rrc := c.needFn(rule, "ccb", "readReverseConnect")
	getAd := c.needFn(rule, "message", "(*Message).GetClassAdWithMaxSize")
	getInt := c.needFn(rule, "message", "(*Message).GetInt")
	nmfs := c.needFn(rule, "message", "NewMessageFromStream")
	cmdC, _ := c.needObj(rule, "ccb", "CommandReverseConnect").(*types.Const)
	capC, _ := c.needObj(rule, "ccb", "maxControlAdSize").(*types.Const)
	if rra == nil || rrc == nil || getAd == nil || getInt == nil || nmfs == nil || cmdC == nil || capC == nil {
		return
	}
	want, _ := constInt(ssa.NewConst(cmdC.Val(), cmdC.Type()))
	capV, _ := constInt(ssa.NewConst(capC.Val(), capC.Type()))
	if len(rra.Params) != 3 || len(rrc.Params) != 2 {
		c.Undecided(rule, "signature", "unexpected parameter lists", rra.Pos())
		return
	}
	aroot := c.c05rootFrame(rra)
	msgP, cmdP := c05V{rra.Params[1], aroot}, c05V{rra.Params[2], aroot}
	isHello := func(t c05Test) bool {
		x, y, eq, ok := c05eqTest(t.v.v)
		if !ok || t.v.fr == nil {
			return false
		}
		if v, isC := constInt(x); isC && v == want {
			x, y = y, x
		}
		v, isC := constInt(y)
		return isC && v == want && t.v.fr.res(x) == cmdP && eq == t.truth
	}
	n := 0
	for _, r := range c20results(rra, 0) {
		if isNilConst(r.val) {
			continue
		}
		for _, ad := range c05nonNilOrigins(aroot, r.val) {
			n++
			key := fmt.Sprintf("%s#return-ad", fnName(rra))
			if n > 1 {
				key = fmt.Sprintf("%s/%d", key, n)
			}
			tg := c20connTg(aroot, r)
			okC, p := c05dominated(tg, c05newCuts(isHello))
			c.Check(okC, rule, key+":command", "an ad is returned only when cmd == CCB_REVERSE_CONNECT", "a hello with another command integer is accepted", r.at.Pos(), c.describePath(p)...)
			cl, idx := c05resultOf(ad.v)
			good := cl != nil && idx == 0 && ad.fr != nil && calleeFn(cl) == getAd && ad.fr.res(cl.Call.Args[0]) == msgP
			if good {
				v, isC := constInt(ad.fr.res(cl.Call.Args[2]).v)
				good = isC && v == capV && v > 0
			}
			c.Check(good, rule, key+":capped-reader", "the ad comes from GetClassAdWithMaxSize(maxControlAdSize) on the message the command was read from", "the hello ad is not read through the size-capped reader on the same message", r.at.Pos())
			if good {
				rd := c05Call{ad.fr, cl}
				okE, p2 := c05dominated(tg, c05newCuts(c05factErrNil(func(x c05Call) bool { return x == rd })))
				c.Check(okE, rule, key+":read-ok", "returned only after the reader's error was nil", "an ad is returned although reading it failed", r.at.Pos(), c.describePath(p2)...)
			}
		}
	}
	c.MinCount(rule, "ad-returning exits of ReadReverseConnectAd", n, 1)
	// readReverseConnect
	rroot := c.c05rootFrame(rrc, rra)
	k := 0
	for _, cs := range rroot.calls(rra.Object()) {
		k++
		a := cs.call.Call.Args
		msg := cs.fr.res(a[1])
		mcall, _ := msg.v.(*ssa.Call)
		fresh := mcall != nil && msg.fr != nil && calleeFn(mcall) == nmfs && msg.fr.res(mcall.Call.Args[0]) == (c05V{rrc.Params[1], rroot})
		c.Check(fresh, rule, fnName(rrc)+"#message", "reads from a fresh message on the given stream", "the hello is not read from a fresh message on the stream passed in", cs.call.Pos())
		cv := cs.fr.res(a[2])
		gc, gi := c05resultOf(cv.v)
		good := gc != nil && gi == 0 && cv.fr != nil && calleeFn(gc) == getInt && cv.fr.res(gc.Call.Args[0]) == msg
		if good {
			rd := c05Call{cv.fr, gc}
			good, _ = c05dominated(c05Tg{fr: cs.fr, in: cs.call}, c05newCuts(c05factErrNil(func(x c05Call) bool { return x == rd })))
		}
		c.Check(good, rule, fnName(rrc)+"#command", "the command handed on is the integer just read (nil error) from that message", "the command integer validated is not the one read from the hello message", cs.call.Pos())
	}
	for _, r := range c20results(rrc, 0) {
		if isNilConst(r.val) {
			continue
		}
		good := true
		os := c05nonNilOrigins(rroot, r.val)
		for _, o := range os {
			cl, idx := c05resultOf(o.v)
			if cl == nil || idx != 0 || calleeFn(cl) != rra {
				good = false
			}
		}
		c.Check(good && len(os) > 0, rule, fnName(rrc)+"#return-ad", "every ad returned went through ReadReverseConnectAd", "readReverseConnect returns an ad that bypassed the command validation", r.at.Pos())
	}
	c.MinCount(rule, "ReadReverseConnectAd calls in readReverseConnect", k, 1)
}

// ---------------------------------------------------------------------------
// channels and select (R4, R5)

// c20recv describes a value received in a select: the struct cell it is stored in (if any), the
// channel, and the select.
type c20Recv struct {
	fr    *c05Frame // frame the select lives in
	sel   *ssa.Select
	state int
	val   ssa.Value // Extract of the received value
	cell  ssa.Value // struct variable the received value is kept in (nil when used directly)
	ch    ssa.Value // resolved channel (MakeChan)
}

// c20chan resolves a channel operand to its MakeChan: like c05resolve, but a channel variable that
// is additionally set to nil (the idiom that disables a select case) still denotes that one channel.
func c20chan(v ssa.Value) ssa.Value {
	v = c05resolve(v)
	ld, ok := v.(*ssa.UnOp)
	if !ok || ld.Op != token.MUL {
		return v
	}
	cell, ok := c05cellOf(ld.X)
	if !ok || c05cellEscapes(cell) {
		return v
	}
	var mk ssa.Value
	for _, st := range c05cellStores(cell) {
		if isNilConst(st.Val) {
			continue
		}
		if mk != nil && mk != st.Val {
			return v
		}
		mk = st.Val
	}
	if mk == nil {
		return v
	}
	return c05resolve(mk)
}

// c20chanF is c20chan seen from a frame: a helper's channel parameter denotes the caller's channel, and
// a parameter that is reassigned nil inside a loop (a phi of the channel and nil) still denotes it.
func c20chanF(fr *c05Frame, v ssa.Value) ssa.Value {
	leaves := map[ssa.Value]bool{}
	seen := map[c05V]bool{}
	var walk func(f *c05Frame, v ssa.Value, d int)
	walk = func(f *c05Frame, v ssa.Value, d int) {
		r := f.res(v)
		x := c20chan(r.v)
		if x != r.v {
			r = f.res(x)
			x = r.v
		}
		if seen[c05V{x, r.fr}] || d > 12 {
			return
		}
		seen[c05V{x, r.fr}] = true
		if isNilConst(x) {
			return
		}
		if phi, ok := x.(*ssa.Phi); ok && r.fr != nil {
			for _, e := range phi.Edges {
				walk(r.fr, e, d+1)
			}
			return
		}
		leaves[x] = true
	}
	walk(fr, v, 0)
	if len(leaves) == 1 {
		for x := range leaves {
			return x
		}
	}
	return fr.res(v).v
}

// c20recvOf: v (a value of frame fr) is (a field of a struct cell holding) a value received by a select.
func c20recvOf(fr *c05Frame, v ssa.Value) (c20Recv, *types.Var, bool) {
	var field *types.Var
	var cellV ssa.Value
	v = c05resolve(v)
	if ld, ok := v.(*ssa.UnOp); ok && ld.Op == token.MUL {
		if fa, ok := ld.X.(*ssa.FieldAddr); ok {
			field = fieldOfAddr(fa)
			cell, ok := fa.X.(*ssa.Alloc)
			if !ok {
				return c20Recv{}, nil, false
			}
			st := c05cellStores(cell)
			if len(st) != 1 {
				return c20Recv{}, nil, false
			}
			v, cellV = st[0].Val, cell
		}
	}
	ex, ok := v.(*ssa.Extract)
	if !ok {
		return c20Recv{}, nil, false
	}
	sel, ok := ex.Tuple.(*ssa.Select)
	if !ok || ex.Index < 2 {
		return c20Recv{}, nil, false
	}
	if h := fr.home(sel); h != nil {
		fr = h
	}
	// received values are numbered in order of the receive states
	k := ex.Index - 2
	for i, s := range sel.States {
		if s.Dir != types.RecvOnly {
			continue
		}
		if k == 0 {
			return c20Recv{fr: fr, sel: sel, state: i, val: ex, cell: cellV, ch: c20chanF(fr, s.Chan)}, field, true
		}
		k--
	}
	return c20Recv{}, nil, false
}

// c20recvOrigin: every non-nil value v may carry (seen from root) was received by one and the same select.
func c20recvOrigin(root *c05Frame, v ssa.Value) (c20Recv, *types.Var, bool) {
	var got c20Recv
	var field *types.Var
	n := 0
	for _, o := range c05nonNilOrigins(root, v) {
		of := o.fr
		if of == nil {
			of = root
		}
		rv, f, ok := c20recvOf(of, o.v)
		if !ok || (n > 0 && (rv.val != got.val || f != field)) {
			return c20Recv{}, nil, false
		}
		got, field = rv, f
		n++
	}
	return got, field, n > 0
}

// c20errNil: the outcome "the error field of the struct the connection was received in is nil".
func c20errNil(rv c20Recv) c05Fact {
	return func(t c05Test) bool {
		if !t.hasNil || !t.isNil || rv.cell == nil || !isErrorType(t.x.v.Type()) {
			return false
		}
		xl, ok := c05resolve(t.x.v).(*ssa.UnOp)
		if !ok {
			return false
		}
		xfa, ok := xl.X.(*ssa.FieldAddr)
		return ok && xfa.X == rv.cell
	}
}

// c20Send is a Send instruction seen from a frame below the function that owns the channel.
type c20Send struct {
	fr *c05Frame
	s  *ssa.Send
}

// c20sends lists the Send instructions on channel ch (a value of root's function) in that function,
// its closures, and the same-package functions it calls, defers or starts with go handing them the channel.
func c20sends(root *c05Frame, ch ssa.Value) []c20Send {
	var out []c20Send
	covered := map[*ssa.Function]bool{}
	scan := func(f *c05Frame) {
		covered[f.fn] = true
		allInstrs(f.fn, func(_ *ssa.BasicBlock, _ int, in ssa.Instruction) {
			if s, ok := in.(*ssa.Send); ok {
				if r := f.res(s.Chan); c20chan(r.v) == ch {
					out = append(out, c20Send{f, s})
				}
			}
		})
	}
	for _, f := range root.allAny() {
		scan(f)
	}
	// closures that are never called statically (stored, passed on)
	for _, g := range withClosures(root.fn) {
		if !covered[g] {
			scan(&c05Frame{p: root.p, fn: g, stop: root.stop, kids: map[ssa.CallInstruction]*c05Frame{}})
		}
	}
	return out
}

// c20sentField: the value stored in field f of the struct value sent by s (or the sent value itself
// when f == nil), resolved from the sender's frame.
func c20sentField(s c20Send, f *types.Var) c05V {
	if f == nil {
		return s.fr.res(s.s.X)
	}
	ld, ok := s.s.X.(*ssa.UnOp)
	if !ok {
		return c05V{}
	}
	cell, ok := ld.X.(*ssa.Alloc)
	if !ok {
		return c05V{}
	}
	vals := c05fieldStores(cell, f)
	if len(vals) != 1 {
		return c05V{}
	}
	return s.fr.res(vals[0])
}

// c20deferCloses: the Defer instructions of fn whose callee (a closure or a same-package helper, seen
// with the helpers it calls) invokes Close on the value that is result #idx of the call `acq`.
func (c *Ctx) c20deferCloses(fn *ssa.Function, acq *ssa.Call, idx int) []ssa.Instruction {
	var out []ssa.Instruction
	root := c.c05rootFrame(fn)
	ex := extractN(acq, idx)
	if ex == nil {
		return nil
	}
	want := root.res(ex)
	for _, d := range deferredCallees(fn) {
		k := root.kidAny(d)
		if k == nil {
			continue
		}
		hit := false
		for _, f := range k.all() {
			allInstrs(f.fn, func(_ *ssa.BasicBlock, _ int, in ssa.Instruction) {
				call, ok := in.(*ssa.Call)
				if ok && call.Call.IsInvoke() && call.Call.Method.Name() == "Close" && f.res(call.Call.Value) == want {
					hit = true
				}
			})
		}
		if hit {
			out = append(out, d)
		}
	}
	return out
}

// C20-R4: the standard-mode race between the reverse connection and the broker's reply.
func c20r4(c *Ctx) {
	defer c05timer("c20r4")()
	const rule = "C20-R4"
	c.Doc(rule, "dialStandard returns a non-nil connection only from the accept channel, whose only sender sends the result of acceptReversed(ctx, this listener, this connectID), and only when that result's error is nil; a non-nil broker reply ends the attempt with that error and no connection; a success reply returns nothing; every exit after acquisition runs the deferred Close of the listener and of the broker connection")
	ds := c.needFn(rule, "ccb", "dialStandard")
	acc := c.needFn(rule, "ccb", "acceptReversed")
	if ds == nil || acc == nil {
		return
	}
	if len(ds.Params) != 4 {
		c.Undecided(rule, fnName(ds)+"#signature", "unexpected parameter list", ds.Pos())
		return
	}
	idP := ds.Params[2]
	dsRoot := c.c05rootFrame(ds, acc)
	// the listener of this attempt: the call in dialStandard whose result is handed to acceptReversed;
	// the broker connection(s): calls in dialStandard that yield a net.Conn (and an error) which is not
	// what dialStandard returns
	var lnCall *ssa.Call
	lnOK := true
	for _, ac := range dsRoot.allAnyCalls(acc.Object()) {
		a := ac.call.Common().Args
		if len(a) != 3 {
			continue
		}
		lv := ac.fr.res(a[1])
		cl, idx := c05resultOf(lv.v)
		if cl == nil || idx != 0 || lv.fr != dsRoot || types.TypeString(lv.v.Type(), nil) != "net.Listener" || (lnCall != nil && lnCall != cl) {
			lnOK = false
			continue
		}
		lnCall = cl
	}
	returned := map[ssa.Value]bool{}
	for _, r := range c20results(ds, 0) {
		for _, o := range dsRoot.origins(r.val) {
			returned[o.v] = true
		}
		returned[c05resolve(r.val)] = true
	}
	var brCalls []*ssa.Call
	allInstrs(ds, func(_ *ssa.BasicBlock, _ int, in ssa.Instruction) {
		cl, ok := in.(*ssa.Call)
		if !ok {
			return
		}
		tup, isTuple := cl.Type().(*types.Tuple)
		if !isTuple || tup.Len() < 2 || types.TypeString(tup.At(0).Type(), nil) != "net.Conn" || !isErrorType(tup.At(tup.Len()-1).Type()) {
			return
		}
		if ex := extractN(cl, 0); ex != nil && !returned[ex] {
			brCalls = append(brCalls, cl)
		}
	})
	if lnCall == nil || !lnOK || len(brCalls) == 0 {
		c.Undecided(rule, fnName(ds)+"#acquire", "listener / broker acquisition calls not found", ds.Pos())
		return
	}
	n := 0
	var recv *c20Recv
	var connTgs []c05Tg
	for _, r := range c20results(ds, 0) {
		if isNilConst(r.val) {
			continue
		}
		n++
		tg := c20connTg(dsRoot, r)
		connTgs = append(connTgs, tg)
		key := fmt.Sprintf("%s#return-conn", fnName(ds))
		if n > 1 {
			key = fmt.Sprintf("%s/%d", key, n)
		}
		rv, field, ok := c20recvOrigin(dsRoot, r.val)
		if !ok {
			c.Violate(rule, key+":from-accept-channel", "a connection is returned that was not received from the accept channel", r.at.Pos())
			continue
		}
		recv = &rv
		sends := c20sends(dsRoot, rv.ch)
		good := len(sends) > 0
		for _, s := range sends {
			v := c20sentField(s, field)
			call, ridx := c05resultOf(v.v)
			if call == nil || ridx != 0 || v.fr == nil || calleeFn(call) != acc {
				good = false
				continue
			}
			a := call.Call.Args
			lnv, _ := v.fr.res(a[1]).v.(*ssa.Extract)
			if v.fr.res(a[2]).v != ssa.Value(idP) || lnv == nil || lnv.Tuple != ssa.Value(lnCall) || lnv.Index != 0 {
				good = false
			}
		}
		c.Check(good, rule, key+":from-accept-channel", "the returned connection was sent by the accept goroutine: acceptReversed(ctx, this attempt's listener, this attempt's connectID)", "the channel the returned connection comes from is also fed by something other than acceptReversed on this attempt's listener and connect id", r.at.Pos())
		okE, p := c05dominated(tg, c05newCuts(c20errNil(rv)))
		c.Check(okE, rule, key+":accept-ok", "returned only when the accept result's error is nil", "a connection is returned without testing the error that came with it", r.at.Pos(), c.describePath(p)...)
	}
	c.MinCount(rule, "connection-returning exits of dialStandard", n, 1)
	// the reply channel
	if recv != nil {
		sel, sf := recv.sel, recv.fr
		found := 0
		for i, st := range sel.States {
			if st.Dir != types.RecvOnly {
				continue
			}
			ch := c20chanF(sf, st.Chan)
			sends := c20sends(dsRoot, ch)
			// the broker's reply: the other receive case of the same select that carries an error value
			chT, _ := st.Chan.Type().Underlying().(*types.Chan)
			if i == recv.state || chT == nil || !isErrorType(chT.Elem()) || len(sends) == 0 {
				continue
			}
			found++
			// the Extract holding this state's received value
			ridx := 2
			for j := 0; j < i; j++ {
				if sel.States[j].Dir == types.RecvOnly {
					ridx++
				}
			}
			var rv ssa.Value
			for _, r := range *sel.Referrers() {
				if ex, ok := r.(*ssa.Extract); ok && ex.Index == ridx {
					rv = ex
				}
			}
			if rv == nil {
				c.Violate(rule, fnName(ds)+"#broker-reply:examined", "the broker's reply is received but never examined", sel.Pos())
				continue
			}
			// outcomes of the nil tests on the received reply
			al := aliases(sf.fn, rv)
			var nilPts, nonNilPts []c05Pt
			for _, b := range sf.fn.Blocks {
				for _, o := range c05staticTests(sf, b) {
					if !o.t.hasNil || o.t.x.fr != sf || !al[o.t.x.v] {
						continue
					}
					if o.t.isNil {
						nilPts = append(nilPts, c05edgePt(sf, b, o.succ))
					} else {
						nonNilPts = append(nonNilPts, c05edgePt(sf, b, o.succ))
					}
				}
			}
			isReplyVal := func(v c05V) bool { return v.fr == sf && v.v == rv }
			// failure: ends the attempt, with that error, without a connection
			var wit []*ssa.BasicBlock
			carries := false
			for _, start := range nonNilPts {
				if p := c05path(start, c05Tg{fr: sf, in: sel}, nil); p != nil {
					wit = p
				}
				for _, tg := range connTgs {
					if p := c05path(start, tg, nil); p != nil {
						wit = p
					}
				}
				if sf == dsRoot {
					for _, er := range c20results(ds, 1) {
						if c05path(start, c05Tg{fr: dsRoot, in: er.at}, nil) != nil && c05dependsOn(dsRoot, er.val, isReplyVal) {
							carries = true
						}
					}
				} else {
					// the loop lives in a helper: the helper returns the reply's error and the function hands it up
					for _, kr := range sf.retVals(sf.fn.Signature.Results().Len() - 1) {
						if c05path(start, c05Tg{fr: sf, in: kr.ret, pred: kr.pred}, nil) == nil || !c05dependsOn(sf, kr.val, isReplyVal) {
							continue
						}
						want := sf.res(kr.val)
						for _, er := range c20results(ds, 1) {
							for _, o := range dsRoot.origins(er.val) {
								if o == want {
									carries = true
								}
							}
						}
					}
				}
			}
			c.Check(len(nonNilPts) > 0 && wit == nil, rule, fnName(ds)+"#broker-failure:ends-attempt", "a failure reply leaves the wait loop and returns no connection", "after a failure reply the dial keeps waiting or can still return a connection", sel.Pos(), c.describePath(wit)...)
			c.Check(carries, rule, fnName(ds)+"#broker-failure:error", "the broker's error is what the attempt returns", "a failure reported by the broker is not the error returned", sel.Pos())
			// success: returns nothing by itself
			wit = nil
			for _, start := range nilPts {
				for _, ret := range c05returns(ds) {
					if p := c05path(start, c05Tg{fr: dsRoot, in: ret}, c05newCuts().addInstr(sf, sel)); p != nil {
						wit = p
					}
				}
			}
			c.Check(len(nilPts) > 0 && wit == nil, rule, fnName(ds)+"#broker-success:keeps-waiting", "a success reply only continues the wait for the reverse connection", "a success reply from the broker makes dialStandard return by itself", sel.Pos(), c.describePath(wit)...)
		}
		c.MinCount(rule, "broker-reply receive states", found, 1)
	}
	// deferred cleanup
	type acq struct {
		name string
		call *ssa.Call
		idx  int
	}
	acqs := []acq{{"listener", lnCall, 0}}
	for i, b := range brCalls {
		name := "broker-conn"
		if i > 0 {
			name = fmt.Sprintf("broker-conn/%d", i+1)
		}
		acqs = append(acqs, acq{name, b, 0})
	}
	for _, q := range acqs {
		defs := c.c20deferCloses(ds, q.call, q.idx)
		succ, _, _ := callErrEdges(ds, q.call)
		var wit []*ssa.BasicBlock
		for _, e := range succ {
			for _, ret := range c05returns(ds) {
				if p := findPath(Point{e.To(), 0}, Target{Instr: ret}, newCuts().AddInstrs(defs...)); p != nil {
					wit = p
				}
			}
		}
		c.Check(len(defs) > 0 && len(succ) > 0 && wit == nil, rule, fnName(ds)+"#cleanup:"+q.name, "every exit after acquisition runs a deferred Close of it", "an exit of dialStandard leaves the "+q.name+" open (no deferred Close registered on that path)", q.call.Pos(), c.describePath(wit)...)
	}
}

// C20-R5: single winner among brokers.
func c20r5(c *Ctx) {
	defer c05timer("c20r5")()
	const rule = "C20-R5"
	c.Doc(rule, "Dial has exactly one exit that returns a non-nil connection; its value was received from the results channel, whose only senders send dialOne(attemptCtx, …) results, and the exit is on the nil-error edge of that result; attemptCtx comes from a context.WithCancel whose cancel function is deferred")
	dial := c.needFn(rule, "ccb", "Dial")
	one := c.needFn(rule, "ccb", "dialOne")
	if dial == nil || one == nil {
		return
	}
	n := 0
	for _, r := range c20results(dial, 0) {
		if isNilConst(r.val) {
			continue
		}
		n++
		key := fmt.Sprintf("%s#return-conn", fnName(dial))
		if n > 1 {
			key = fmt.Sprintf("%s/%d", key, n)
		}
		droot := c.c05rootFrame(dial, one)
		rv, field, ok := c20recvOrigin(droot, r.val)
		if !ok {
			c.Violate(rule, key+":from-results-channel", "Dial returns a connection that was not received from the results channel", r.at.Pos())
			continue
		}
		sends := c20sends(droot, rv.ch)
		good := len(sends) > 0
		cancelled := len(sends) > 0
		for _, s := range sends {
			v := c20sentField(s, field)
			call, ridx := c05resultOf(v.v)
			if call == nil || ridx != 0 || v.fr == nil || calleeFn(call) != one {
				good = false
				continue
			}
			// the attempt's context is cancelled when Dial returns
			cx, _ := v.fr.res(call.Call.Args[0]).v.(*ssa.Extract)
			var wc *ssa.Call
			if cx != nil {
				wc, _ = cx.Tuple.(*ssa.Call)
			}
			okCtx := false
			if wc != nil && cx.Index == 0 {
				if o := calleeObj(wc); o != nil && o.Pkg() != nil && o.Pkg().Path() == "context" && (o.Name() == "WithCancel" || o.Name() == "WithTimeout" || o.Name() == "WithDeadline") {
					if cf := extractN(wc, 1); cf != nil {
						for _, d := range deferredCallees(dial) {
							if d.Call.Value == cf {
								okCtx = true
							}
						}
					}
				}
			}
			cancelled = cancelled && okCtx
		}
		c.Check(good, rule, key+":from-results-channel", "the returned connection is a dialOne result sent by an attempt goroutine", "the results channel is fed by something other than dialOne results", r.at.Pos())
		c.Check(cancelled, rule, key+":attempts-cancelled", "attempts run under a context whose cancel is deferred in Dial", "attempts do not run under a context that Dial cancels on return: losing attempts keep running", r.at.Pos())
		okE, p := c05dominated(c20connTg(droot, r), c05newCuts(c20errNil(rv)))
		c.Check(okE, rule, key+":attempt-ok", "returned only when the attempt's error is nil", "a connection is returned without testing the attempt's error", r.at.Pos(), c.describePath(p)...)
	}
	c.Check(n == 1, rule, fnName(dial)+"#single-winner", "exactly one exit returns a connection", fmt.Sprintf("%d exits of Dial return a connection (expected exactly one)", n), dial.Pos())
	c.MinCount(rule, "connection-returning exits of Dial", n, 1)
}
