package main

// Must-not-flow taint for C16-R4: forward def-use closure from seed values inside a function,
// through local cells/buffers, into same-module callees via their parameters (bounded depth),
// with call results tainted whenever an argument is (summary: "result may carry any argument").
// Comparisons, len/cap and error-typed values do not carry the secret.

import (
	"fmt"
	"go/token"
	"go/types"

	"golang.org/x/tools/go/ssa"
)

type c16Sink struct {
	Fn   *ssa.Function
	At   ssa.Instruction
	What string
}

type c16Taint struct {
	c       *Ctx
	isSink  func(fn *ssa.Function, in ssa.Instruction, tainted func(ssa.Value) bool) string
	visited map[string]bool
	// cleanFns: module functions whose results do not carry a tainted receiver/argument
	// (accessors checked separately not to read the secret fields).
	cleanFns map[*ssa.Function]bool
	Hits     []c16Sink
	Fns      map[*ssa.Function]bool
	Values   int
}

func c16carries(t types.Type) bool {
	if isErrorType(t) {
		return false
	}
	if b, ok := t.Underlying().(*types.Basic); ok {
		switch {
		case b.Info()&types.IsBoolean != 0, b.Info()&types.IsNumeric != 0 && b.Kind() != types.Uint8:
			return false
		}
	}
	return true
}

// run propagates from seeds within fn and recurses into module callees (depth-bounded).
func (t *c16Taint) run(fn *ssa.Function, seeds []ssa.Value, depth int) {
	if fn == nil || fn.Blocks == nil || depth < 0 {
		return
	}
	key := fnName(fn) + "|"
	for _, s := range seeds {
		key += s.Name() + ","
	}
	if t.visited[key] {
		return
	}
	t.visited[key] = true
	t.Fns[fn] = true
	tainted := map[ssa.Value]bool{}
	var work []ssa.Value
	add := func(v ssa.Value) {
		if v == nil || tainted[v] {
			return
		}
		tainted[v] = true
		t.Values++
		work = append(work, v)
	}
	for _, s := range seeds {
		add(s)
	}
	for len(work) > 0 {
		v := work[len(work)-1]
		work = work[:len(work)-1]
		refs := v.Referrers()
		if refs == nil {
			continue
		}
		for _, r := range *refs {
			switch x := r.(type) {
			case *ssa.Store:
				if x.Val == v {
					// the cell / buffer / struct the value is written into now carries it
					root := memRoot(x.Addr)
					if fa, ok := root.(*ssa.FieldAddr); ok {
						add(fa) // loads through this very field address
						// other FieldAddr of the same field on the same base
						if base := fa.X; base != nil && base.Referrers() != nil {
							for _, o := range *base.Referrers() {
								if fb, ok := o.(*ssa.FieldAddr); ok && fb.Field == fa.Field {
									add(fb)
								}
							}
						}
					} else {
						add(root)
					}
				}
			case *ssa.BinOp:
				switch x.Op {
				case token.EQL, token.NEQ, token.LSS, token.LEQ, token.GTR, token.GEQ:
				default:
					add(x)
				}
			case *ssa.Call:
				if b, ok := x.Call.Value.(*ssa.Builtin); ok {
					switch b.Name() {
					case "len", "cap":
						continue
					case "copy":
						if len(x.Call.Args) == 2 && x.Call.Args[1] == v {
							add(memRoot(x.Call.Args[0]))
						}
						continue
					case "append":
						add(x)
						continue
					}
				}
				if g := calleeFn(x); g != nil && t.cleanFns[g] {
					continue
				}
				t.call(fn, x, v, tainted, depth)
				if c16carries(x.Type()) || c16IsTuple(x.Type()) {
					add(x)
				}
				// a buffer argument of the same call may be filled from the tainted one
				for _, a := range callArgs(x) {
					if a == v {
						continue
					}
					switch rt := memRoot(a).(type) {
					case *ssa.Alloc, *ssa.MakeSlice:
						add(rt)
					}
				}
			case *ssa.Defer:
				t.call(fn, x, v, tainted, depth)
			case *ssa.Go:
				t.call(fn, x, v, tainted, depth)
			case *ssa.Extract:
				if c16carries(x.Type()) {
					add(x)
				}
			case *ssa.MakeClosure:
				// captured cell: the closure body sees it through its free variable
				if g, ok := x.Fn.(*ssa.Function); ok {
					for i, b := range x.Bindings {
						if b == v && i < len(g.FreeVars) {
							t.run(g, []ssa.Value{g.FreeVars[i]}, depth-1)
						}
					}
				}
			case *ssa.Return, *ssa.If, *ssa.DebugRef, *ssa.RunDefers, *ssa.Jump, *ssa.Panic:
			case ssa.Value:
				// Phi, UnOp (load), Convert, ChangeType, MakeInterface, Slice, IndexAddr, FieldAddr, Field, Index, Lookup, TypeAssert…
				if u, ok := x.(*ssa.UnOp); ok && u.Op == token.NOT {
					continue
				}
				if fa, ok := x.(*ssa.FieldAddr); ok && fa.X == v {
					// taking the address of a field of a tainted struct pointer: field-sensitive only for
					// struct values we tainted as a whole (call results); keep it tainted (over-approximate)
					add(fa)
					continue
				}
				if c16carries(x.Type()) || c16IsPointerLike(x.Type()) {
					add(x)
				}
			}
		}
	}
	isT := func(v ssa.Value) bool { return tainted[v] }
	allInstrs(fn, func(_ *ssa.BasicBlock, _ int, in ssa.Instruction) {
		if what := t.isSink(fn, in, isT); what != "" {
			t.Hits = append(t.Hits, c16Sink{fn, in, what})
		}
	})
}

func c16IsTuple(t types.Type) bool { _, ok := t.(*types.Tuple); return ok }

func c16IsPointerLike(t types.Type) bool {
	switch t.Underlying().(type) {
	case *types.Pointer, *types.Slice, *types.Map, *types.Interface, *types.Struct, *types.Array:
		return true
	}
	return false
}

// call: a tainted value is an argument of a call: continue in the module callee with the matching parameters.
func (t *c16Taint) call(fn *ssa.Function, cl ssa.CallInstruction, v ssa.Value, tainted map[ssa.Value]bool, depth int) {
	g := calleeFn(cl)
	if g == nil || g.Blocks == nil || fnPkg(g) == nil || !inModule(fnPkg(g).Path()) {
		return
	}
	var seeds []ssa.Value
	for i, a := range cl.Common().Args {
		if (a == v || tainted[a]) && i < len(g.Params) {
			seeds = append(seeds, g.Params[i])
		}
	}
	if len(seeds) > 0 {
		t.run(g, seeds, depth-1)
	}
}

// c16LogSink: in is a call to slog.*, log.*, fmt.Print*/Fprint* with a tainted argument.
func c16LogSink(in ssa.Instruction, tainted func(ssa.Value) bool) string {
	cl, ok := in.(ssa.CallInstruction)
	if !ok {
		return ""
	}
	o := calleeObj(cl)
	if o == nil || o.Pkg() == nil {
		return ""
	}
	name := ""
	switch o.Pkg().Path() {
	case "log/slog", "log":
		name = o.Pkg().Name() + "." + o.Name()
	case "fmt":
		switch o.Name() {
		case "Print", "Printf", "Println", "Fprint", "Fprintf", "Fprintln":
			name = "fmt." + o.Name()
		}
	}
	if name == "" {
		return ""
	}
	for i, a := range callArgs(cl) {
		if tainted(a) {
			return fmt.Sprintf("argument %d of %s", i, name)
		}
	}
	return ""
}
