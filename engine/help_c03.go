package main

// Helpers shared by the C03 and C10 rules (the security handshake in security/auth.go).

import (
	"go/constant"
	"go/token"
	"go/types"
	"strconv"
	"time"

	"golang.org/x/tools/go/ssa"
)

// c03Timed records a rule's own running time as an evidence note: defer c03Timed(c, rule)().
func c03Timed(c *Ctx, rule string) func() {
	t := time.Now()
	return func() { c.Note("%s: rule time %.2fs", rule, time.Since(t).Seconds()) }
}

// roles: whose configuration is "local" inside a function
const (
	c03RoleAny    = iota // only a.config is known to be the local policy
	c03RoleClient        // a.config and negotiation.ClientConfig
	c03RoleServer        // a.config, negotiation.ServerConfig and the result of a.ServerConfigForCommand
)

// c03Anchors resolves every object the handshake rules talk about.
type c03Anchors struct {
	// SecurityConfig fields
	cfgAuthentication, cfgEncryption, cfgIntegrity, cfgAuthMethods, cfgCryptoMethods, cfgECDH *types.Var
	// SecurityNegotiation fields
	negAuthentication, negEncryption, negEnact, negNegotiatedAuth, negNegotiatedCrypto *types.Var
	negClientConfig, negServerConfig, negSessionId                                     *types.Var
	// Authenticator fields
	aConfig, aStream, aPerCmd *types.Var
	// level constants (values)
	required, preferred, optional, never string
	authNone                             string
	// functions
	perfAuth, negotiate, hClient, hServer, setup, fullClient, fullServer, resumeC, resumeS *ssa.Function
	mkServerAd, parseAd, mkClientAd, mkPostAuth, sendFail, storeS, storeC                  *ssa.Function
	bitToMethod, methodToBit                                                               *ssa.Function
	setKey, isEnc, setEnc                                                                  *ssa.Function
	ok                                                                                     bool
}

func (c *Ctx) constStr(rule, rel, name string) string {
	o := c.needObj(rule, rel, name)
	if k, ok := o.(*types.Const); ok && k.Val().Kind() == constant.String {
		return constant.StringVal(k.Val())
	}
	if o != nil {
		c.AnchorMissing(rule, rel+"."+name+" (not a string constant)")
	}
	return ""
}

func (c *Ctx) handshakeAnchors(rule string) *c03Anchors {
	A := &c03Anchors{ok: true}
	fld := func(t, f string) *types.Var {
		v := c.needField(rule, "security", t, f)
		if v == nil {
			A.ok = false
		}
		return v
	}
	fn := func(rel, name string) *ssa.Function {
		f := c.needFn(rule, rel, name)
		if f == nil {
			A.ok = false
		}
		return f
	}
	A.cfgAuthentication = fld("SecurityConfig", "Authentication")
	A.cfgEncryption = fld("SecurityConfig", "Encryption")
	A.cfgIntegrity = fld("SecurityConfig", "Integrity")
	A.cfgAuthMethods = fld("SecurityConfig", "AuthMethods")
	A.cfgCryptoMethods = fld("SecurityConfig", "CryptoMethods")
	A.cfgECDH = fld("SecurityConfig", "ECDHPublicKey")
	A.negAuthentication = fld("SecurityNegotiation", "Authentication")
	A.negEncryption = fld("SecurityNegotiation", "Encryption")
	A.negEnact = fld("SecurityNegotiation", "Enact")
	A.negNegotiatedAuth = fld("SecurityNegotiation", "NegotiatedAuth")
	A.negNegotiatedCrypto = fld("SecurityNegotiation", "NegotiatedCrypto")
	A.negClientConfig = fld("SecurityNegotiation", "ClientConfig")
	A.negServerConfig = fld("SecurityNegotiation", "ServerConfig")
	A.negSessionId = fld("SecurityNegotiation", "SessionId")
	A.aConfig = fld("Authenticator", "config")
	A.aStream = fld("Authenticator", "stream")
	A.aPerCmd = fld("Authenticator", "ServerConfigForCommand")
	A.required = c.constStr(rule, "security", "SecurityRequired")
	A.preferred = c.constStr(rule, "security", "SecurityPreferred")
	A.optional = c.constStr(rule, "security", "SecurityOptional")
	A.never = c.constStr(rule, "security", "SecurityNever")
	A.authNone = c.constStr(rule, "security", "AuthNone")
	if A.required == "" || A.preferred == "" || A.optional == "" || A.never == "" || A.authNone == "" {
		A.ok = false
	}
	A.perfAuth = fn("security", "(*Authenticator).performAuthentication")
	A.negotiate = fn("security", "(*Authenticator).negotiateSecurity")
	A.hClient = fn("security", "(*Authenticator).handleClientAuthentication")
	A.hServer = fn("security", "(*Authenticator).handleServerAuthentication")
	A.setup = fn("security", "(*Authenticator).setupStreamEncryption")
	A.fullClient = fn("security", "(*Authenticator).performFullAuthentication")
	A.fullServer = fn("security", "(*Authenticator).ServerHandshakeWithMessage")
	A.resumeC = fn("security", "(*Authenticator).resumeSession")
	A.resumeS = fn("security", "(*Authenticator).handleSessionResumption")
	A.mkServerAd = fn("security", "(*Authenticator).createServerSecurityAd")
	A.parseAd = fn("security", "(*Authenticator).parseServerSecurityAd")
	A.mkClientAd = fn("security", "(*Authenticator).createClientSecurityAd")
	A.mkPostAuth = fn("security", "(*Authenticator).createPostAuthAd")
	A.sendFail = fn("security", "(*Authenticator).sendNegotiationFailureResponse")
	A.storeS = fn("security", "(*Authenticator).storeSession")
	A.storeC = fn("security", "(*Authenticator).storeClientSession")
	A.bitToMethod = fn("security", "bitmaskToAuthMethod")
	A.methodToBit = fn("security", "authMethodToBitmask")
	A.setKey = fn("stream", "(*Stream).SetSymmetricKey")
	A.isEnc = fn("stream", "(*Stream).IsEncrypted")
	A.setEnc = fn("stream", "(*Stream).SetEncrypted")
	return A
}

// c03MsgMethod resolves (*message.Message).<name>.
func c03MsgMethod(c *Ctx, rule, name string) types.Object {
	return c.needObj(rule, "message", "(*Message)."+name)
}

// roleOf: which configuration objects are the local policy inside fn.
func (A *c03Anchors) roleOf(fn *ssa.Function) int {
	switch topFn(fn) {
	case A.hClient, A.fullClient, A.resumeC:
		return c03RoleClient
	case A.hServer, A.fullServer, A.resumeS:
		return c03RoleServer
	}
	return c03RoleAny
}

// isLoadOf: v is a load of field f (any base); returns the base.
func c03LoadOf(v ssa.Value, f *types.Var) (ssa.Value, bool) {
	base, g, ok := fieldRead(stripConv(v))
	if ok && g == f {
		return base, true
	}
	return nil, false
}

// localCfg: every origin of v is a pointer to the endpoint's OWN SecurityConfig.
func (A *c03Anchors) localCfg(fn *ssa.Function, v ssa.Value, role int) bool {
	os := origins(fn, v)
	if len(os) == 0 {
		return false
	}
	for _, o := range os {
		if _, ok := c03LoadOf(o, A.aConfig); ok {
			continue
		}
		if role == c03RoleClient {
			if _, ok := c03LoadOf(o, A.negClientConfig); ok {
				continue
			}
		}
		if role == c03RoleServer {
			if _, ok := c03LoadOf(o, A.negServerConfig); ok {
				continue
			}
			// perCmd := a.ServerConfigForCommand(cmd)
			if call, idx := originCall(o); call != nil && idx == 0 && !call.Common().IsInvoke() && call.Common().StaticCallee() == nil {
				all := true
				cos := origins(fn, call.Common().Value)
				for _, co := range cos {
					if _, ok := c03LoadOf(co, A.aPerCmd); !ok {
						all = false
					}
				}
				if all && len(cos) > 0 {
					continue
				}
			}
		}
		if isNilConst(o) {
			continue // a nil alternative is excluded by the dereference itself
		}
		return false
	}
	return true
}

// localLevel: v is (a copy of) the local policy's level field `field`.
func (A *c03Anchors) localLevel(fn *ssa.Function, v ssa.Value, field *types.Var, role int) bool {
	os := origins(fn, stripConv(v))
	if len(os) == 0 {
		return false
	}
	for _, o := range os {
		base, ok := c03LoadOf(o, field)
		if !ok || !A.localCfg(fn, base, role) {
			return false
		}
	}
	return true
}

// levelEdges: the edges of fn on which the local policy level `field` is known to differ from
// REQUIRED (notReq) resp. to equal it (req). Recognises ==/!= against the constant in if/switch form.
func (A *c03Anchors) levelEdges(fn *ssa.Function, field *types.Var, role int) (notReq, req []Edge) {
	for _, b := range fn.Blocks {
		ifi := blockIf(b)
		if ifi == nil {
			continue
		}
		a := condAtom(ifi.Cond)
		if a.Op != token.EQL && a.Op != token.NEQ {
			continue
		}
		var lv ssa.Value
		if s, ok := constString(a.Y); ok && s == A.required {
			lv = a.X
		} else if s, ok := constString(a.X); ok && s == A.required {
			lv = a.Y
		} else {
			continue
		}
		if !A.localLevel(fn, lv, field, role) {
			continue
		}
		eq := a.Op == token.EQL
		if a.Neg {
			eq = !eq
		}
		if eq {
			req = append(req, Edge{b, 0})
			notReq = append(notReq, Edge{b, 1})
		} else {
			req = append(req, Edge{b, 1})
			notReq = append(notReq, Edge{b, 0})
		}
	}
	return
}

// storesTo lists the stores in fn whose address is field f of any base.
func c03StoresTo(fn *ssa.Function, f *types.Var) []*ssa.Store {
	var out []*ssa.Store
	allInstrs(fn, func(_ *ssa.BasicBlock, _ int, in ssa.Instruction) {
		if st, ok := in.(*ssa.Store); ok {
			if fa, ok := st.Addr.(*ssa.FieldAddr); ok && fieldOfAddr(fa) == f {
				out = append(out, st)
			}
		}
	})
	return out
}

// isCallOf: every origin of v is result #0 of a static call to g.
func c03AllOriginsCallTo(fn *ssa.Function, v ssa.Value, g *ssa.Function) bool {
	os := origins(fn, v)
	if len(os) == 0 {
		return false
	}
	for _, o := range os {
		call, idx := originCall(o)
		if call == nil || idx != 0 || calleeFn(call) != g {
			return false
		}
	}
	return true
}

// pkgFn: g is a function (with a body) of the same package as ref.
func c03SamePkg(g, ref *ssa.Function) bool {
	return g != nil && g.Blocks != nil && fnPkg(g) != nil && fnPkg(g) == fnPkg(ref)
}

// callSuccessCuts adds to cuts what "call cs returned without error" looks like in fn: the nil-error
// edges when the error is tested, the call itself when its error is returned unchanged or it has none.
func c03AddCallSuccess(fn *ssa.Function, cs ssa.CallInstruction, cuts *Cuts) {
	v := cs.Value()
	if v != nil && len(errResults(v)) > 0 {
		if succ, _, checked := callErrEdges(fn, v); checked {
			cuts.AddEdges(succ...)
			return
		}
		// unchecked: counts only when the error result is handed straight to a return
		for _, e := range errResults(v) {
			for _, r := range *e.Referrers() {
				if _, ok := r.(*ssa.Return); ok {
					cuts.AddInstrs(cs)
					return
				}
			}
		}
		return
	}
	cuts.AddInstrs(cs)
}

// attrReads lists (attribute name -> call) for every classad Evaluate*/Lookup call in fn with a
// constant name whose receiver satisfies recv (nil = any).
func c03AttrCalls(fn *ssa.Function, method func(string) bool, recv func(ssa.Value) bool) map[string][]ssa.CallInstruction {
	out := map[string][]ssa.CallInstruction{}
	allInstrs(fn, func(_ *ssa.BasicBlock, _ int, in ssa.Instruction) {
		call, ok := in.(ssa.CallInstruction)
		if !ok {
			return
		}
		o := calleeObj(call)
		if o == nil || o.Pkg() == nil || o.Pkg().Name() != "classad" || !method(o.Name()) {
			return
		}
		args := callArgs(call)
		if len(args) < 2 {
			return
		}
		if recv != nil && !recv(args[0]) {
			return
		}
		if name, ok := constString(args[1]); ok {
			out[name] = append(out[name], call)
		}
	})
	return out
}

func c03IsEvaluate(n string) bool {
	switch n {
	case "EvaluateAttrString", "EvaluateAttrBool", "EvaluateAttrInt", "EvaluateAttrReal", "EvaluateAttrNumber", "Lookup", "EvaluateAttr":
		return true
	}
	return false
}

func c03IsSet(n string) bool { return n == "Set" || n == "InsertAttr" || n == "Insert" }

// ---------------------------------------------------------------------------
// return classification, corrected for `return fail(...)` with a multi-result closure

// c03Success lists the (possibly) success returns of fn. It is ssahelp's successTargets with one more
// idiom recognised as an error return: the error operand is `extract #i` of a call to a module
// function or closure whose i-th result is never nil (resumeSession's `return fail(reason, err)`).
// The shared classifyErr only follows a direct *ssa.Call operand, not an Extract of one.
func (c *Ctx) c03Success(fn *ssa.Function) []RetPoint {
	var out []RetPoint
	for _, r := range c.returnsOf(fn) {
		if r.Class == "error" {
			continue
		}
		if r.Class == "maybe" && r.Pred == nil {
			sig := fn.Signature
			ei := -1
			for i := 0; i < sig.Results().Len(); i++ {
				if isErrorType(sig.Results().At(i).Type()) {
					ei = i
				}
			}
			if ei >= 0 && c.c03SpilledError(fn, r.Ret, ei) {
				continue
			}
			if ei >= 0 {
				if ex, ok := r.Ret.Results[ei].(*ssa.Extract); ok {
					if call, ok := ex.Tuple.(*ssa.Call); ok {
						if g := calleeFn(call); g != nil && g.Blocks != nil && fnPkg(g) != nil && inModule(fnPkg(g).Path()) {
							gi := -1
							gs := g.Signature
							for i := 0; i < gs.Results().Len(); i++ {
								if isErrorType(gs.Results().At(i).Type()) {
									gi = i
								}
							}
							if gi == ex.Index && c.neverNil(g, map[int]bool{}, 0) {
								continue
							}
						}
					}
				}
			}
		}
		out = append(out, r)
	}
	return out
}

// c03SpilledError: functions with a defer spill their results into local cells ("*t0 = err; rundefers;
// t = *t0; return t"). The returned load is classified by the store that precedes it in the same
// block, provided the cell is only ever stored to and loaded (no closure can change it in between).
func (c *Ctx) c03SpilledError(fn *ssa.Function, ret *ssa.Return, ei int) bool {
	ld, ok := ret.Results[ei].(*ssa.UnOp)
	if !ok || ld.Op != token.MUL || ld.Block() != ret.Block() {
		return false
	}
	al, ok := ld.X.(*ssa.Alloc)
	if !ok {
		return false
	}
	for _, r := range *al.Referrers() {
		switch x := r.(type) {
		case *ssa.Store:
			if x.Addr != al {
				return false
			}
		case *ssa.UnOp, *ssa.DebugRef:
		default:
			return false
		}
	}
	b := ld.Block()
	for i := pointOf(ld).Idx - 1; i >= 0; i-- {
		if st, ok := b.Instrs[i].(*ssa.Store); ok && st.Addr == al {
			return c.classifyErr(fn, st.Val, b, 0) == "error"
		}
	}
	return false
}

// ---------------------------------------------------------------------------
// must-pass with same-package helper inlining (memoised; the shared satisfyingCuts explores every
// module callee of every call, which is too slow for the big handshake functions)

type c03MustPass struct {
	c      *Ctx
	pkgOf  *ssa.Function                           // helpers are inlined only within this function's package
	edges  func(f *ssa.Function) []Edge            // satisfying edges of f
	instrs func(f *ssa.Function) []ssa.Instruction // satisfying instructions of f
	memo   map[*ssa.Function]int                   // 1 active, 2 holds, 3 does not hold
}

// cuts: the edges/instructions of f that satisfy the obligation, including successful calls of
// same-package helpers that satisfy it on every success return of their own.
func (m *c03MustPass) cuts(f *ssa.Function, depth int) *Cuts {
	cuts := newCuts()
	if m.edges != nil {
		cuts.AddEdges(m.edges(f)...)
	}
	if m.instrs != nil {
		cuts.AddInstrs(m.instrs(f)...)
	}
	allInstrs(f, func(_ *ssa.BasicBlock, _ int, in ssa.Instruction) {
		call, ok := in.(*ssa.Call)
		if !ok {
			return
		}
		g := calleeFn(call)
		if g == nil || g == f || !c03SamePkg(g, m.pkgOf) {
			return
		}
		if m.holds(g, depth-1) {
			c03AddCallSuccess(f, call, cuts)
		}
	})
	return cuts
}

// holds: every (possibly) success return of f passes a satisfying edge/instruction.
func (m *c03MustPass) holds(f *ssa.Function, depth int) bool {
	if m.memo == nil {
		m.memo = map[*ssa.Function]int{}
	}
	switch m.memo[f] {
	case 1:
		return false
	case 2:
		return true
	case 3:
		return false
	}
	if depth < 0 || f.Blocks == nil {
		return false
	}
	m.memo[f] = 1
	cuts := m.cuts(f, depth)
	res := true
	tg := m.c.c03Success(f)
	if len(tg) == 0 {
		res = false // a function that cannot succeed satisfies nothing
	}
	for _, t := range tg {
		if findPath(entryPoint(f), t.Target(), cuts) != nil {
			res = false
			break
		}
	}
	if res {
		m.memo[f] = 2
	} else {
		m.memo[f] = 3
	}
	return res
}

// check reports one obligation per success return of fn (construct fn#returnN+suffix).
func (m *c03MustPass) check(rule string, fn *ssa.Function, suffix, what string) int {
	cuts := m.cuts(fn, InlineDepth)
	tg := m.c.c03Success(fn)
	seen := map[int]bool{}
	for _, t := range tg {
		o := retOrdinal(fn, t.Ret)
		if seen[o] {
			continue
		}
		seen[o] = true
		var wit []*ssa.BasicBlock
		for _, u := range tg {
			if u.Ret == t.Ret {
				if p := findPath(entryPoint(fn), u.Target(), cuts); p != nil {
					wit = p
					break
				}
			}
		}
		construct := c03Construct(fn, o, suffix)
		if wit == nil {
			m.c.Ok(rule, construct, "every path to this return passes "+what, t.Ret.Pos())
		} else {
			m.c.Violate(rule, construct, "a path reaches this return without passing "+what, t.Ret.Pos(), m.c.describePath(wit)...)
		}
	}
	return len(seen)
}

func c03Construct(fn *ssa.Function, ord int, suffix string) string {
	s := fnName(fn) + "#return" + c03Itoa(ord)
	if suffix != "" {
		s += "[" + suffix + "]"
	}
	return s
}

func c03Itoa(i int) string { return strconv.Itoa(i) }

// encKnownEdges: edges of f on which the STREAM is known to be encrypting: the nil-error edges of
// SetSymmetricKey, the true edges of a test of a.stream.IsEncrypted(), and the true edges of a test
// of negotiation.Encryption loaded right after it was assigned IsEncrypted() in the same block.
func (A *c03Anchors) encKnownEdges(f *ssa.Function) []Edge {
	var out []Edge
	for _, cs := range callsIn(f, A.setKey.Object()) {
		succ, _, _ := callErrEdges(f, cs.Value())
		out = append(out, succ...)
	}
	for _, b := range f.Blocks {
		ifi := blockIf(b)
		if ifi == nil {
			continue
		}
		a := condAtom(ifi.Cond)
		if a.Op != token.ILLEGAL {
			continue
		}
		if !A.isStreamState(f, a.X) {
			continue
		}
		if a.Neg {
			out = append(out, Edge{b, 1})
		} else {
			out = append(out, Edge{b, 0})
		}
	}
	return out
}

// isSyncValue: every origin of v is a call of (*Stream).IsEncrypted.
func (A *c03Anchors) isSyncValue(f *ssa.Function, v ssa.Value) bool {
	return c03AllOriginsCallTo(f, v, A.isEnc)
}

// isStreamState: v is IsEncrypted(), or a load of negotiation.Encryption that directly follows (same
// block, no call or other store in between) a store of IsEncrypted() to that field.
func (A *c03Anchors) isStreamState(f *ssa.Function, v ssa.Value) bool {
	if A.isSyncValue(f, v) {
		return true
	}
	ld, ok := stripConv(v).(*ssa.UnOp)
	if !ok || ld.Op != token.MUL {
		return false
	}
	fa, ok := ld.X.(*ssa.FieldAddr)
	if !ok || fieldOfAddr(fa) != A.negEncryption {
		return false
	}
	b := ld.Block()
	idx := pointOf(ld).Idx
	for i := idx - 1; i >= 0; i-- {
		switch x := b.Instrs[i].(type) {
		case *ssa.Store:
			if sfa, ok := x.Addr.(*ssa.FieldAddr); ok && fieldOfAddr(sfa) == A.negEncryption {
				return sfa.X == fa.X && A.isSyncValue(f, x.Val)
			}
		case ssa.CallInstruction:
			return false
		}
	}
	return false
}

// c03SubsetEdges finds, in fn, tests that the peer's selection resp is inside the mask that was sent:
// (resp &^ mask) ==/!= 0, (resp & ^mask) ==/!= 0, (resp & mask) ==/!= resp, and the membership form
// (resp & mask) ==/!= 0 (sufficient because bitmaskToAuthMethod maps exact single-bit constants only,
// C10-R6). Returns the edges on which the selection is known to be offered.
func c03SubsetEdges(fn *ssa.Function, resp ssa.Value, masks map[ssa.Value]bool) []Edge {
	isResp := func(v ssa.Value) bool { return stripConv(v) == resp }
	isMask := func(v ssa.Value) bool { return masks[stripConv(v)] }
	isNotMask := func(v ssa.Value) bool {
		u, ok := stripConv(v).(*ssa.UnOp)
		return ok && u.Op == token.XOR && isMask(u.X)
	}
	var out []Edge
	for _, b := range fn.Blocks {
		ifi := blockIf(b)
		if ifi == nil {
			continue
		}
		a := condAtom(ifi.Cond)
		if a.Op != token.EQL && a.Op != token.NEQ {
			continue
		}
		for _, pair := range [][2]ssa.Value{{a.X, a.Y}, {a.Y, a.X}} {
			bo, ok := stripConv(pair[0]).(*ssa.BinOp)
			if !ok {
				continue
			}
			other := pair[1]
			zero := false
			if k, ok := constInt(other); ok && k == 0 {
				zero = true
			}
			// onEq: the selection is offered on the edge where the comparison is "equal"
			var onEq, found bool
			switch {
			case bo.Op == token.AND_NOT && isResp(bo.X) && isMask(bo.Y) && zero:
				onEq, found = true, true
			case bo.Op == token.AND && ((isResp(bo.X) && isNotMask(bo.Y)) || (isResp(bo.Y) && isNotMask(bo.X))) && zero:
				onEq, found = true, true
			case bo.Op == token.AND && ((isResp(bo.X) && isMask(bo.Y)) || (isResp(bo.Y) && isMask(bo.X))) && isResp(other):
				onEq, found = true, true
			case bo.Op == token.AND && ((isResp(bo.X) && isMask(bo.Y)) || (isResp(bo.Y) && isMask(bo.X))) && zero:
				onEq, found = false, true
			}
			if !found {
				continue
			}
			eqEdge := Edge{b, 0}
			neEdge := Edge{b, 1}
			if (a.Op == token.NEQ) != a.Neg {
				eqEdge, neEdge = neEdge, eqEdge
			}
			if onEq {
				out = append(out, eqEdge)
			} else {
				out = append(out, neEdge)
			}
		}
	}
	return out
}
