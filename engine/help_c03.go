package main

// Helpers shared by the C03 and C10 rules (the security handshake in security/auth.go).

import (
	"fmt"
	"go/constant"
	"go/token"
	"go/types"
	"strconv"
	"time"

	"golang.org/x/tools/go/ssa"
)

// c03Timed records a rule's own running time as an evidence note: defer c03Timed(c, rule)().
func c03Timed(c *Ctx, rule string) func() {
	t := time.Now()
	return func() { c.Note("%s: rule time %.2fs", rule, time.Since(t).Seconds()) }
}

// roles: whose configuration is "local" inside a function
const (
	c03RoleAny    = iota // only a.config is known to be the local policy
	c03RoleClient        // a.config and negotiation.ClientConfig
	c03RoleServer        // a.config, negotiation.ServerConfig and the result of a.ServerConfigForCommand
)

// c03Anchors resolves every object the handshake rules talk about.
type c03Anchors struct {
	// SecurityConfig fields
	cfgAuthentication, cfgEncryption, cfgIntegrity, cfgAuthMethods, cfgCryptoMethods, cfgECDH *types.Var
	// SecurityNegotiation fields
	negAuthentication, negEncryption, negEnact, negNegotiatedAuth, negNegotiatedCrypto *types.Var
	negClientConfig, negServerConfig, negSessionId                                     *types.Var
	// Authenticator fields
	aConfig, aStream, aPerCmd *types.Var
	// level constants (values)
	required, preferred, optional, never string
	authNone                             string
	// functions
	perfAuth, negotiate, hClient, hServer, setup, fullClient, fullServer, resumeC, resumeS *ssa.Function
	mkServerAd, parseAd, mkClientAd, mkPostAuth, sendFail, storeS, storeC                  *ssa.Function
	bitToMethod, methodToBit                                                               *ssa.Function
	setKey, isEnc, setEnc                                                                  *ssa.Function
	ok                                                                                     bool
	enc                                                                                    *c03Enc // summaries "helper leaves Encryption freshly copied from the stream" (set by the rules that need them)
}

func (c *Ctx) constStr(rule, rel, name string) string {
	o := c.needObj(rule, rel, name)
	if k, ok := o.(*types.Const); ok && k.Val().Kind() == constant.String {
		return constant.StringVal(k.Val())
	}
	if o != nil {
		c.AnchorMissing(rule, rel+"."+name+" (not a string constant)")
	}
	return ""
}

func (c *Ctx) handshakeAnchors(rule string) *c03Anchors {
	A := &c03Anchors{ok: true}
	c03Prog = c.Prog
	fld := func(t, f string) *types.Var {
		v := c.needField(rule, "security", t, f)
		if v == nil {
			A.ok = false
		}
		return v
	}
	fn := func(rel, name string) *ssa.Function {
		f := c.needFn(rule, rel, name)
		if f == nil {
			A.ok = false
		}
		return f
	}
	A.cfgAuthentication = fld("SecurityConfig", "Authentication")
	A.cfgEncryption = fld("SecurityConfig", "Encryption")
	A.cfgIntegrity = fld("SecurityConfig", "Integrity")
	A.cfgAuthMethods = fld("SecurityConfig", "AuthMethods")
	A.cfgCryptoMethods = fld("SecurityConfig", "CryptoMethods")
	A.cfgECDH = fld("SecurityConfig", "ECDHPublicKey")
	A.negAuthentication = fld("SecurityNegotiation", "Authentication")
	A.negEncryption = fld("SecurityNegotiation", "Encryption")
	A.negEnact = fld("SecurityNegotiation", "Enact")
	A.negNegotiatedAuth = fld("SecurityNegotiation", "NegotiatedAuth")
	A.negNegotiatedCrypto = fld("SecurityNegotiation", "NegotiatedCrypto")
	A.negClientConfig = fld("SecurityNegotiation", "ClientConfig")
	A.negServerConfig = fld("SecurityNegotiation", "ServerConfig")
	A.negSessionId = fld("SecurityNegotiation", "SessionId")
	A.aConfig = fld("Authenticator", "config")
	A.aStream = fld("Authenticator", "stream")
	A.aPerCmd = fld("Authenticator", "ServerConfigForCommand")
	A.required = c.constStr(rule, "security", "SecurityRequired")
	A.preferred = c.constStr(rule, "security", "SecurityPreferred")
	A.optional = c.constStr(rule, "security", "SecurityOptional")
	A.never = c.constStr(rule, "security", "SecurityNever")
	A.authNone = c.constStr(rule, "security", "AuthNone")
	if A.required == "" || A.preferred == "" || A.optional == "" || A.never == "" || A.authNone == "" {
		A.ok = false
	}
	A.perfAuth = fn("security", "(*Authenticator).performAuthentication")
	A.negotiate = fn("security", "(*Authenticator).negotiateSecurity")
	A.hClient = fn("security", "(*Authenticator).handleClientAuthentication")
	A.hServer = fn("security", "(*Authenticator).handleServerAuthentication")
	A.setup = fn("security", "(*Authenticator).setupStreamEncryption")
	A.fullClient = fn("security", "(*Authenticator).performFullAuthentication")
	A.fullServer = fn("security", "(*Authenticator).ServerHandshakeWithMessage")
	A.resumeC = fn("security", "(*Authenticator).resumeSession")
	A.resumeS = fn("security", "(*Authenticator).handleSessionResumption")
	A.mkServerAd = fn("security", "(*Authenticator).createServerSecurityAd")
	A.parseAd = fn("security", "(*Authenticator).parseServerSecurityAd")
	A.mkClientAd = fn("security", "(*Authenticator).createClientSecurityAd")
	A.mkPostAuth = fn("security", "(*Authenticator).createPostAuthAd")
	A.sendFail = fn("security", "(*Authenticator).sendNegotiationFailureResponse")
	A.storeS = fn("security", "(*Authenticator).storeSession")
	A.storeC = fn("security", "(*Authenticator).storeClientSession")
	A.bitToMethod = fn("security", "bitmaskToAuthMethod")
	A.methodToBit = fn("security", "authMethodToBitmask")
	A.setKey = fn("stream", "(*Stream).SetSymmetricKey")
	A.isEnc = fn("stream", "(*Stream).IsEncrypted")
	A.setEnc = fn("stream", "(*Stream).SetEncrypted")
	return A
}

// c03MsgMethod resolves (*message.Message).<name>.
func c03MsgMethod(c *Ctx, rule, name string) types.Object {
	return c.needObj(rule, "message", "(*Message)."+name)
}

// roleOf: which configuration objects are the local policy inside fn.
func (A *c03Anchors) roleOf(fn *ssa.Function) int {
	switch topFn(fn) {
	case A.hClient, A.fullClient, A.resumeC:
		return c03RoleClient
	case A.hServer, A.fullServer, A.resumeS:
		return c03RoleServer
	}
	return c03RoleAny
}

// isLoadOf: v is a load of field f (any base); returns the base.
func c03LoadOf(v ssa.Value, f *types.Var) (ssa.Value, bool) {
	base, g, ok := fieldRead(stripConv(v))
	if ok && g == f {
		return base, true
	}
	return nil, false
}

// localCfg: every origin of v is a pointer to the endpoint's OWN SecurityConfig.
func (A *c03Anchors) localCfg(fn *ssa.Function, v ssa.Value, role int) bool {
	return A.localCfgF(c03Root(fn), v, role)
}

// localCfgF is localCfg across helpers (a configuration handed to a helper as an argument, or
// produced by a same-module accessor, is followed to where it comes from).
func (A *c03Anchors) localCfgF(fr *c03Frame, v ssa.Value, role int) bool {
	os := c03OriginsF(fr, v, nil)
	if len(os) == 0 {
		return false
	}
	for _, lf := range os {
		o := lf.v
		if _, ok := c03LoadOf(o, A.aConfig); ok {
			continue
		}
		if role == c03RoleClient {
			if _, ok := c03LoadOf(o, A.negClientConfig); ok {
				continue
			}
		}
		if role == c03RoleServer {
			if _, ok := c03LoadOf(o, A.negServerConfig); ok {
				continue
			}
			// perCmd := a.ServerConfigForCommand(cmd)
			if call, idx := originCall(o); call != nil && idx == 0 && !call.Common().IsInvoke() && call.Common().StaticCallee() == nil {
				all := true
				cos := c03OriginsF(lf.fr, call.Common().Value, nil)
				for _, co := range cos {
					if _, ok := c03LoadOf(co.v, A.aPerCmd); !ok {
						all = false
					}
				}
				if all && len(cos) > 0 {
					continue
				}
			}
		}
		if isNilConst(o) {
			continue // a nil alternative is excluded by the dereference itself
		}
		return false
	}
	return true
}

// localLevel: v is (a copy of) the local policy's level field `field`.
func (A *c03Anchors) localLevel(fn *ssa.Function, v ssa.Value, field *types.Var, role int) bool {
	return A.localLevelF(c03Root(fn), v, field, role)
}

func (A *c03Anchors) localLevelF(fr *c03Frame, v ssa.Value, field *types.Var, role int) bool {
	os := c03OriginsF(fr, stripConv(v), nil)
	if len(os) == 0 {
		return false
	}
	for _, lf := range os {
		base, ok := c03LoadOf(lf.v, field)
		if !ok || !A.localCfgF(lf.fr, base, role) {
			return false
		}
	}
	return true
}

// levelAtom: condition atom a (negation stripped) compares the local policy level `field` with
// REQUIRED; reqOnTrue tells on which outcome the level equals REQUIRED. The local policy is the one
// of the outermost function of the frame chain.
func (A *c03Anchors) levelAtom(fr *c03Frame, a Atom, field *types.Var) (reqOnTrue, ok bool) {
	if a.Op != token.EQL && a.Op != token.NEQ {
		return false, false
	}
	var lv ssa.Value
	if s, isC := constString(a.Y); isC && s == A.required {
		lv = a.X
	} else if s, isC := constString(a.X); isC && s == A.required {
		lv = a.Y
	} else {
		return false, false
	}
	if !A.localLevelF(fr, lv, field, A.roleOf(fr.root())) {
		return false, false
	}
	return a.Op == token.EQL, true
}

// notRequiredAtom is the c03MustPass recogniser of "the local level `field` differs from REQUIRED".
func (A *c03Anchors) notRequiredAtom(fr *c03Frame, a Atom, field *types.Var) (onTrue, onFalse bool) {
	if reqOnTrue, ok := A.levelAtom(fr, a, field); ok {
		return !reqOnTrue, reqOnTrue
	}
	return false, false
}

// levelEdges: the edges of fn on which the local policy level `field` is known to differ from
// REQUIRED (notReq) resp. to equal it (req). Recognises ==/!= against the constant in if/switch form.
func (A *c03Anchors) levelEdges(fn *ssa.Function, field *types.Var, role int) (notReq, req []Edge) {
	fr := c03Root(fn)
	for _, b := range fn.Blocks {
		ifi := blockIf(b)
		if ifi == nil {
			continue
		}
		a := condAtom(ifi.Cond)
		neg := a.Neg
		a.Neg = false
		reqOnTrue, ok := A.levelAtom(fr, a, field)
		if !ok {
			continue
		}
		if neg {
			reqOnTrue = !reqOnTrue
		}
		if reqOnTrue {
			req = append(req, Edge{b, 0})
			notReq = append(notReq, Edge{b, 1})
		} else {
			req = append(req, Edge{b, 1})
			notReq = append(notReq, Edge{b, 0})
		}
	}
	return
}

// storesTo lists the stores in fn whose address is field f of any base.
func c03StoresTo(fn *ssa.Function, f *types.Var) []*ssa.Store {
	var out []*ssa.Store
	allInstrs(fn, func(_ *ssa.BasicBlock, _ int, in ssa.Instruction) {
		if st, ok := in.(*ssa.Store); ok {
			if fa, ok := st.Addr.(*ssa.FieldAddr); ok && fieldOfAddr(fa) == f {
				out = append(out, st)
			}
		}
	})
	return out
}

// isCallOf: every origin of v (value helpers followed) is result #0 of a static call to g.
func c03AllOriginsCallTo(fn *ssa.Function, v ssa.Value, g *ssa.Function) bool {
	os := c03OriginsF(c03Root(fn), v, func(h *ssa.Function) bool { return h == g })
	if len(os) == 0 {
		return false
	}
	for _, lf := range os {
		call, idx := originCall(lf.v)
		if call == nil || idx != 0 || calleeFn(call) != g {
			return false
		}
	}
	return true
}

// pkgFn: g is a function (with a body) of the same package as ref.
func c03SamePkg(g, ref *ssa.Function) bool {
	return g != nil && g.Blocks != nil && fnPkg(g) != nil && fnPkg(g) == fnPkg(ref)
}

// callSuccessCuts adds to cuts what "call cs returned without error" looks like in fn: the nil-error
// edges when the error is tested, the call itself when its error is returned unchanged or it has none.
func c03AddCallSuccess(fn *ssa.Function, cs ssa.CallInstruction, cuts *Cuts) {
	v := cs.Value()
	if v != nil && len(errResults(v)) > 0 {
		if succ, _, checked := callErrEdges(fn, v); checked {
			cuts.AddEdges(succ...)
			return
		}
		// unchecked: counts only when the error result is handed straight to a return
		for _, e := range errResults(v) {
			for _, r := range *e.Referrers() {
				if _, ok := r.(*ssa.Return); ok {
					cuts.AddInstrs(cs)
					return
				}
			}
		}
		return
	}
	cuts.AddInstrs(cs)
}

// c03AttrCalls lists (attribute name -> calls) for every classad Evaluate*/Lookup/Set call in fn and
// in the same-package helpers it reaches whose attribute name is a constant - written at the call, or
// handed to the helper as an argument (each call site of a helper is visited with its own arguments).
// recv (nil = any) filters on the receiver, given with the frame it is evaluated in.
func c03AttrCalls(fn *ssa.Function, method func(string) bool, recv func(fr *c03Frame, v ssa.Value) bool) map[string][]c03CallAt {
	return c03AttrCallsF(c03Root(fn), method, recv)
}

// c03BuiltAdCalls: c03AttrCalls restricted to the ClassAd the builder function fn returns (a Set on
// another ad built on the way - e.g. a session policy - is not an attribute of the ad it publishes).
func c03BuiltAdCalls(fn *ssa.Function, method func(string) bool) map[string][]c03CallAt {
	root := c03Root(fn)
	ad := c03ReturnedValue(fn, 0)
	if ad == nil {
		return c03AttrCallsF(root, method, nil)
	}
	return c03AttrCallsF(root, method, c03SameAs(root, ad))
}

func c03AttrCallsF(root *c03Frame, method func(string) bool, recv func(fr *c03Frame, v ssa.Value) bool) map[string][]c03CallAt {
	out := map[string][]c03CallAt{}
	seen := map[string]bool{}
	var walk func(fr *c03Frame)
	walk = func(fr *c03Frame) {
		if k := fr.key(); seen[k] {
			return
		} else {
			seen[k] = true
		}
		allInstrs(fr.fn, func(_ *ssa.BasicBlock, _ int, in ssa.Instruction) {
			call, ok := in.(ssa.CallInstruction)
			if !ok {
				return
			}
			if o := calleeObj(call); o != nil && o.Pkg() != nil && o.Pkg().Name() == "classad" && method(o.Name()) {
				args := callArgs(call)
				if len(args) < 2 || (recv != nil && !recv(fr, args[0])) {
					return
				}
				if name, ok := c03ConstStringF(fr, args[1]); ok {
					out[name] = append(out[name], c03CallAt{fr, call})
				} else {
					out[c03UnresolvedAttr] = append(out[c03UnresolvedAttr], c03CallAt{fr, call})
				}
				return
			}
			h := calleeFn(call)
			if h == nil || !c03SamePkg(h, fr.root()) {
				return
			}
			if sub := fr.enter(call); sub != nil {
				walk(sub)
			}
		})
	}
	walk(root)
	return out
}

// c03UnresolvedAttr is the key under which c03AttrCalls files the calls whose attribute name it could
// not resolve to a constant (the caller decides whether that leaves its question undecided).
const c03UnresolvedAttr = "\x00unresolved"

// c03ConstStringF: v is a string constant, possibly a helper's parameter bound to one by its caller.
func c03ConstStringF(fr *c03Frame, v ssa.Value) (string, bool) {
	for i := 0; i < 8; i++ {
		if s, ok := constString(v); ok {
			return s, true
		}
		par, ok := stripConv(v).(*ssa.Parameter)
		if !ok || fr.call == nil || fr.call.Common().IsInvoke() {
			return "", false
		}
		k := c03ParamIndex(fr.fn, par)
		if k < 0 || k >= len(fr.call.Common().Args) {
			return "", false
		}
		fr, v = fr.up, fr.call.Common().Args[k]
	}
	return "", false
}

func c03IsEvaluate(n string) bool {
	switch n {
	case "EvaluateAttrString", "EvaluateAttrBool", "EvaluateAttrInt", "EvaluateAttrReal", "EvaluateAttrNumber", "Lookup", "EvaluateAttr":
		return true
	}
	return false
}

func c03IsSet(n string) bool { return n == "Set" || n == "InsertAttr" || n == "Insert" }

// ---------------------------------------------------------------------------
// return classification, corrected for `return fail(...)` with a multi-result closure

// c03Success lists the (possibly) success returns of fn. It is ssahelp's successTargets with one more
// idiom recognised as an error return: the error operand is `extract #i` of a call to a module
// function or closure whose i-th result is never nil (resumeSession's `return fail(reason, err)`).
// The shared classifyErr only follows a direct *ssa.Call operand, not an Extract of one.
func (c *Ctx) c03Success(fn *ssa.Function) []RetPoint {
	var out []RetPoint
	for _, r := range c.returnsOf(fn) {
		if r.Class == "error" {
			continue
		}
		if r.Class == "maybe" && r.Pred == nil {
			sig := fn.Signature
			ei := -1
			for i := 0; i < sig.Results().Len(); i++ {
				if isErrorType(sig.Results().At(i).Type()) {
					ei = i
				}
			}
			if ei >= 0 && c.c03SpilledError(fn, r.Ret, ei) {
				continue
			}
			if ei >= 0 {
				if ex, ok := r.Ret.Results[ei].(*ssa.Extract); ok {
					if call, ok := ex.Tuple.(*ssa.Call); ok {
						if g := calleeFn(call); g != nil && g.Blocks != nil && fnPkg(g) != nil && inModule(fnPkg(g).Path()) {
							gi := -1
							gs := g.Signature
							for i := 0; i < gs.Results().Len(); i++ {
								if isErrorType(gs.Results().At(i).Type()) {
									gi = i
								}
							}
							if gi == ex.Index && c.neverNil(g, map[int]bool{}, 0) {
								continue
							}
						}
					}
				}
			}
		}
		out = append(out, r)
	}
	return out
}

// c03SpilledError: functions with a defer spill their results into local cells ("*t0 = err; rundefers;
// t = *t0; return t"). The returned load is classified by the store that precedes it in the same
// block, provided the cell is only ever stored to and loaded (no closure can change it in between).
func (c *Ctx) c03SpilledError(fn *ssa.Function, ret *ssa.Return, ei int) bool {
	ld, ok := ret.Results[ei].(*ssa.UnOp)
	if !ok || ld.Op != token.MUL || ld.Block() != ret.Block() {
		return false
	}
	al, ok := ld.X.(*ssa.Alloc)
	if !ok {
		return false
	}
	for _, r := range *al.Referrers() {
		switch x := r.(type) {
		case *ssa.Store:
			if x.Addr != al {
				return false
			}
		case *ssa.UnOp, *ssa.DebugRef:
		default:
			return false
		}
	}
	b := ld.Block()
	for i := pointOf(ld).Idx - 1; i >= 0; i-- {
		if st, ok := b.Instrs[i].(*ssa.Store); ok && st.Addr == al {
			return c.classifyErr(fn, st.Val, b, 0) == "error"
		}
	}
	return false
}

// ---------------------------------------------------------------------------
// frames: a function analysed as the callee of a call (helper following with parameter mapping)

// c03Frame is function fn analysed in the context of the call that entered it (call == nil, up == nil:
// fn is analysed on its own). Helpers are followed to InlineDepth, never recursively.
type c03Frame struct {
	fn   *ssa.Function
	call ssa.CallInstruction
	up   *c03Frame
	kids map[ssa.CallInstruction]*c03Frame
}

func c03Root(fn *ssa.Function) *c03Frame { return &c03Frame{fn: fn} }

// key identifies the frame by its chain of call sites (memoisation).
func (fr *c03Frame) key() string {
	k := ""
	for f := fr; f != nil; f = f.up {
		k += fmt.Sprintf("%p/%p;", f.fn, f.call)
	}
	return k
}

// root is the outermost function of the chain (it decides whose configuration is "local").
func (fr *c03Frame) root() *ssa.Function {
	f := fr
	for f.up != nil {
		f = f.up
	}
	return f.fn
}

// enter returns the frame of the static callee of call (a function, method or closure of the analysed
// module with a body), nil when the call cannot be followed: dynamic, outside the module, recursive,
// or deeper than InlineDepth.
func (fr *c03Frame) enter(call ssa.CallInstruction) *c03Frame {
	if k, ok := fr.kids[call]; ok {
		return k
	}
	g := calleeFn(call)
	if g == nil || g.Blocks == nil || fnPkg(g) == nil || !inModule(fnPkg(g).Path()) {
		return nil
	}
	depth := 0
	for f := fr; f != nil; f = f.up {
		if f.fn == g {
			return nil
		}
		depth++
	}
	if depth > InlineDepth {
		return nil
	}
	k := &c03Frame{fn: g, call: call, up: fr}
	if fr.kids == nil {
		fr.kids = map[ssa.CallInstruction]*c03Frame{}
	}
	fr.kids[call] = k
	return k
}

// c03Leaf is a leaf origin and the frame it lives in.
type c03Leaf struct {
	fr *c03Frame
	v  ssa.Value
}

func c03ParamIndex(fn *ssa.Function, p *ssa.Parameter) int {
	for i, q := range fn.Params {
		if q == p {
			return i
		}
	}
	return -1
}

// c03OriginsF is origins() across helpers: result #i of a call to a followable function is replaced by
// the origins of the callee's i-th returned expressions (value helper), a parameter of a followed
// callee by the origins of the call's argument in the caller, a captured variable of a closure by the
// values stored into the captured cell. stop(g) keeps calls to g as leaves (functions the rule wants
// to see, e.g. an accessor it recognises).
func c03OriginsF(fr *c03Frame, v ssa.Value, stop func(*ssa.Function) bool) []c03Leaf {
	var out []c03Leaf
	seen := map[c03Leaf]bool{}
	var walk func(fr *c03Frame, v ssa.Value, d int)
	walk = func(fr *c03Frame, v ssa.Value, d int) {
		for _, o := range origins(fr.fn, v) {
			k := c03Leaf{fr, o}
			if seen[k] {
				continue
			}
			seen[k] = true
			if d > 12 {
				out = append(out, k)
				continue
			}
			if call, idx := originCall(o); call != nil {
				if g := calleeFn(call); g != nil && (stop == nil || !stop(g)) {
					if sub := fr.enter(call); sub != nil {
						n := 0
						for _, rp := range c03ValueReturns(fr.fn, call, g) {
							if idx < len(rp.Ret.Results) {
								n++
								v := rp.Ret.Results[idx]
								if phi, ok := v.(*ssa.Phi); ok && rp.Pred != nil && phi.Block() == rp.Ret.Block() {
									for k, pb := range phi.Block().Preds {
										if pb == rp.Pred {
											v = phi.Edges[k]
										}
									}
								}
								walk(sub, v, d+1)
							}
						}
						if n > 0 {
							continue
						}
					}
				}
			}
			if par, ok := o.(*ssa.Parameter); ok && fr.call != nil {
				if i := c03ParamIndex(fr.fn, par); i >= 0 && i < len(fr.call.Common().Args) && !fr.call.Common().IsInvoke() {
					walk(fr.up, fr.call.Common().Args[i], d+1)
					continue
				}
			}
			// load of a captured variable: the values stored into the cell by the enclosing function / this closure
			if ld, ok := o.(*ssa.UnOp); ok && ld.Op == token.MUL && fr.call != nil {
				if fv, ok := ld.X.(*ssa.FreeVar); ok {
					if mc, ok := fr.call.Common().Value.(*ssa.MakeClosure); ok {
						n := 0
						for i, q := range fr.fn.FreeVars {
							if q != fv || i >= len(mc.Bindings) {
								continue
							}
							if al, ok := mc.Bindings[i].(*ssa.Alloc); ok {
								for _, r := range *al.Referrers() {
									if st, ok := r.(*ssa.Store); ok && st.Addr == al {
										n++
										walk(fr.up, st.Val, d+1)
									}
								}
							}
						}
						for _, r := range *fv.Referrers() {
							if st, ok := r.(*ssa.Store); ok && st.Addr == ssa.Value(fv) {
								n++
								walk(fr, st.Val, d+1)
							}
						}
						if n > 0 {
							continue
						}
					}
				}
			}
			out = append(out, k)
		}
	}
	walk(fr, v, 0)
	return out
}

// c03Resolve looks through what carries a value unchanged across helpers: conversions, a parameter of
// a followed helper (the caller's argument), a call of a value helper with a single return statement
// (its returned expression). keep(g) leaves calls of g alone.
func c03Resolve(fr *c03Frame, v ssa.Value, keep func(*ssa.Function) bool) (*c03Frame, ssa.Value) {
	for i := 0; i < 16; i++ {
		v = stripConv(v)
		if cv, ok := v.(*ssa.Convert); ok {
			if _, isC := cv.X.(*ssa.Const); !isC && isBasic(cv.X.Type()) && isBasic(cv.Type()) {
				v = cv.X
				continue
			}
		}
		if par, ok := v.(*ssa.Parameter); ok && fr.call != nil && !fr.call.Common().IsInvoke() {
			if k := c03ParamIndex(fr.fn, par); k >= 0 && k < len(fr.call.Common().Args) {
				fr, v = fr.up, fr.call.Common().Args[k]
				continue
			}
		}
		call, idx := originCall(v)
		if call == nil {
			return fr, v
		}
		g := calleeFn(call)
		if g == nil || (keep != nil && keep(g)) || !c03SamePkg(g, fr.root()) {
			return fr, v // (only helpers of the analysed function's own package are looked through)
		}
		sub := fr.enter(call)
		if sub == nil {
			return fr, v
		}
		var rets []*ssa.Return
		for _, b := range g.Blocks {
			if len(b.Instrs) > 0 {
				if r, ok := b.Instrs[len(b.Instrs)-1].(*ssa.Return); ok {
					rets = append(rets, r)
				}
			}
		}
		if len(rets) != 1 || idx >= len(rets[0].Results) {
			return fr, v
		}
		fr, v = sub, rets[0].Results[idx]
	}
	return fr, v
}

// c03SameAs returns a predicate "value v of frame fr is value want of frame root" (parameters of
// helpers mapped to their arguments, single-return value helpers looked through).
func c03SameAs(root *c03Frame, want ssa.Value) func(fr *c03Frame, v ssa.Value) bool {
	return func(fr *c03Frame, v ssa.Value) bool {
		rf, rv := c03Resolve(fr, v, nil)
		return rf == root && rv == stripConv(want)
	}
}

// c03ReturnedValue: the single value (conversions stripped) every return of fn hands back as result i.
func c03ReturnedValue(fn *ssa.Function, i int) ssa.Value {
	var out ssa.Value
	for _, b := range fn.Blocks {
		if len(b.Instrs) == 0 {
			continue
		}
		ret, ok := b.Instrs[len(b.Instrs)-1].(*ssa.Return)
		if !ok || i >= len(ret.Results) {
			continue
		}
		v := stripConv(ret.Results[i])
		if out != nil && out != v {
			return nil
		}
		out = v
	}
	return out
}

// c03Prog is the loaded program (set by handshakeAnchors; the return classification needs it).
var c03Prog *Prog

// c03ValueReturns: the returns of value helper g whose results the caller of call (in fn) goes on to
// use. When g also returns an error that the caller tests (or hands on), the values g returns next to
// a non-nil error (`return 0, err`) are not used and do not count as origins.
func c03ValueReturns(fn *ssa.Function, call ssa.CallInstruction, g *ssa.Function) []RetPoint {
	var all []RetPoint
	if c03Prog != nil {
		all = c03Prog.returnsOf(g)
	} else {
		for _, b := range g.Blocks {
			if len(b.Instrs) > 0 {
				if ret, ok := b.Instrs[len(b.Instrs)-1].(*ssa.Return); ok {
					all = append(all, RetPoint{Ret: ret, Class: "maybe"})
				}
			}
		}
	}
	v := call.Value()
	if v == nil || len(errResults(v)) == 0 {
		return all
	}
	if _, _, checked := callErrEdges(fn, v); !checked && !c03ErrReturned(call) {
		return all
	}
	var out []RetPoint
	for _, rp := range all {
		if rp.Class != "error" {
			out = append(out, rp)
		}
	}
	if len(out) == 0 {
		return all
	}
	return out
}

// c03StoreAt is a store found in a frame.
type c03StoreAt struct {
	fr *c03Frame
	st *ssa.Store
}

// c03ReachStores lists the stores to field f in fr.fn and in the same-package helpers it reaches by
// static calls (effect helper: "fn stores X" may happen in a callee of fn). skip(g) excludes functions
// the rule treats separately.
func c03ReachStores(fr *c03Frame, f *types.Var, skip func(*ssa.Function) bool) []c03StoreAt {
	var out []c03StoreAt
	seenFn := map[*ssa.Function]bool{}
	var walk func(fr *c03Frame)
	walk = func(fr *c03Frame) {
		if seenFn[fr.fn] {
			return
		}
		seenFn[fr.fn] = true
		for _, st := range c03StoresTo(fr.fn, f) {
			out = append(out, c03StoreAt{fr, st})
		}
		allInstrs(fr.fn, func(_ *ssa.BasicBlock, _ int, in ssa.Instruction) {
			call, ok := in.(ssa.CallInstruction)
			if !ok {
				return
			}
			g := calleeFn(call)
			if g == nil || !c03SamePkg(g, fr.root()) || (skip != nil && skip(g)) {
				return
			}
			if sub := fr.enter(call); sub != nil {
				walk(sub)
			}
		})
	}
	walk(fr)
	return out
}

// c03CallAt is a call found in a frame.
type c03CallAt struct {
	fr   *c03Frame
	call ssa.CallInstruction
}

// c03ReachCalls lists the static calls of g in fr.fn and in the same-package helpers it reaches (the
// call a rule requires "in function f" may sit in a helper of f). It does not descend into g itself.
func c03ReachCalls(fr *c03Frame, g *ssa.Function, skip func(*ssa.Function) bool) []c03CallAt {
	return c03ReachCallsWhere(fr, func(call ssa.CallInstruction) bool { return calleeFn(call) == g }, skip)
}

// c03ReachCallsObj: the same for calls of the function / method object o (a callee of another package).
func c03ReachCallsObj(fr *c03Frame, o types.Object, skip func(*ssa.Function) bool) []c03CallAt {
	return c03ReachCallsWhere(fr, func(call ssa.CallInstruction) bool {
		co := calleeObj(call)
		return co != nil && o != nil && types.Object(co) == o
	}, skip)
}

func c03ReachCallsWhere(fr *c03Frame, match func(ssa.CallInstruction) bool, skip func(*ssa.Function) bool) []c03CallAt {
	var out []c03CallAt
	seenFn := map[*ssa.Function]bool{}
	var walk func(fr *c03Frame)
	walk = func(fr *c03Frame) {
		if seenFn[fr.fn] {
			return
		}
		seenFn[fr.fn] = true
		allInstrs(fr.fn, func(_ *ssa.BasicBlock, _ int, in ssa.Instruction) {
			call, ok := in.(ssa.CallInstruction)
			if !ok {
				return
			}
			if match(call) {
				out = append(out, c03CallAt{fr, call})
				return
			}
			h := calleeFn(call)
			if h == nil || !c03SamePkg(h, fr.root()) || (skip != nil && skip(h)) {
				return
			}
			if sub := fr.enter(call); sub != nil {
				walk(sub)
			}
		})
	}
	walk(fr)
	return out
}

// c03ErrReturned: the error result of the call is handed straight to a return of its function.
func c03ErrReturned(cs ssa.CallInstruction) bool {
	v := cs.Value()
	if v == nil {
		return false
	}
	for _, e := range errResults(v) {
		for _, r := range *e.Referrers() {
			if _, ok := r.(*ssa.Return); ok {
				return true
			}
		}
	}
	return false
}

// ---------------------------------------------------------------------------
// must-pass with helper following (memoised; the shared satisfyingCuts explores every module callee of
// every call, which is too slow for the big handshake functions)

// c03MustPass decides "every path to a success return of fn establishes fact F". What establishes F is
// described once, independently of where it is written:
//   - atom: a branch condition (negations stripped) whose being true / false establishes F;
//   - edges / instrs: further edges and instructions of a function that establish F;
//
// and the machinery finds it
//   - inline in the function (`if cond`, `switch`), also when the condition is materialised in a local
//     boolean first (`ok := a && b; if !ok`: per incoming edge of the phi, Cuts.AddVia);
//   - behind a boolean helper (`if helper(args)`): the true (false) edge establishes F when every
//     `return true` (`return false`) of the helper - a constant, or a result that is itself such a
//     condition - is only reached through F, parameters mapped to the call's arguments;
//   - behind an error-returning / plain helper of the same package: the nil-error edge of the call (the
//     call itself when it returns no error) establishes F when every success return of the helper
//     passes F.
type c03MustPass struct {
	c      *Ctx
	pkgOf  *ssa.Function                                     // error-returning helpers are inlined only within this function's package
	atom   func(fr *c03Frame, a Atom) (onTrue, onFalse bool) // optional
	edges  func(f *ssa.Function) []Edge                      // satisfying edges of f (optional)
	instrs func(fr *c03Frame) []ssa.Instruction              // satisfying instructions of fr.fn (optional)
	calls  func(fr *c03Frame, call ssa.CallInstruction) bool // calls whose success establishes F (optional)
	all    bool                                              // the obligation is on every return of a helper, not only its success returns
	memo   map[string]int                                    // holds: 1 active, 2 holds, 3 does not hold
	bmemo  map[string]int                                    // boolHelper
	cmemo  map[string]*Cuts
}

// atomOf asks the rule's recogniser about condition value v taken as a boolean atom.
func (m *c03MustPass) atomOf(fr *c03Frame, v ssa.Value) (onTrue, onFalse bool) {
	if m.atom == nil {
		return false, false
	}
	a := condAtom(v)
	neg := a.Neg
	a.Neg = false
	t, f := m.atom(fr, a)
	if neg {
		t, f = f, t
	}
	return t, f
}

// implies: boolean value v being `want` establishes F.
func (m *c03MustPass) implies(fr *c03Frame, v ssa.Value, want bool, d int) bool {
	if d > 8 || v == nil {
		return false
	}
	if t, f := m.atomOf(fr, v); (want && t) || (!want && f) {
		return true
	}
	switch x := v.(type) {
	case *ssa.UnOp:
		if x.Op == token.NOT {
			return m.implies(fr, x.X, !want, d+1)
		}
		if x.Op == token.MUL {
			if al, ok := x.X.(*ssa.Alloc); ok {
				// local cell: every value stored that can be `want` must imply F
				n := 0
				for _, r := range *al.Referrers() {
					if st, ok := r.(*ssa.Store); ok && st.Addr == al {
						if b, isC := constBool(st.Val); isC {
							if b == want {
								return false
							}
							continue
						}
						if !m.implies(fr, st.Val, want, d+1) {
							return false
						}
						n++
					}
				}
				return n > 0
			}
		}
	case *ssa.Phi:
		n := 0
		for i, e := range x.Edges {
			if b, isC := constBool(e); isC {
				if b != want {
					continue
				}
				// the constant arrives only over paths that established F already
				if len(x.Block().Instrs) > 0 && findPath(entryPoint(fr.fn), Target{Instr: x.Block().Instrs[0], Pred: x.Block().Preds[i]}, m.baseCuts(fr)) == nil {
					n++
					continue
				}
				return false
			}
			if !m.implies(fr, e, want, d+1) {
				// ... or this incoming value, too, arrives only over paths that established F
				if len(x.Block().Instrs) > 0 && findPath(entryPoint(fr.fn), Target{Instr: x.Block().Instrs[0], Pred: x.Block().Preds[i]}, m.baseCuts(fr)) == nil {
					n++
					continue
				}
				return false
			}
			n++
		}
		return n > 0
	case *ssa.Call:
		if sub := fr.enter(x); sub != nil {
			return m.boolHelper(sub, 0, want)
		}
	case *ssa.Extract:
		// `done, err := helper()`: the boolean is one of several results
		if call, ok := x.Tuple.(*ssa.Call); ok {
			if sub := fr.enter(call); sub != nil {
				return m.boolHelper(sub, x.Index, want)
			}
		}
	case *ssa.Parameter:
		if fr.call != nil && !fr.call.Common().IsInvoke() {
			if i := c03ParamIndex(fr.fn, x); i >= 0 && i < len(fr.call.Common().Args) {
				return m.implies(fr.up, fr.call.Common().Args[i], want, d+1)
			}
		}
	}
	return false
}

// boolHelper: the helper of frame fr returning `want` as its idx-th result establishes F.
func (m *c03MustPass) boolHelper(fr *c03Frame, idx int, want bool) bool {
	g := fr.fn
	res := g.Signature.Results()
	if idx >= res.Len() {
		return false
	}
	if bt, ok := res.At(idx).Type().Underlying().(*types.Basic); !ok || bt.Info()&types.IsBoolean == 0 {
		return false
	}
	if m.bmemo == nil {
		m.bmemo = map[string]int{}
	}
	key := fr.key() + fmt.Sprint(idx, want)
	switch m.bmemo[key] {
	case 1, 3:
		return false
	case 2:
		return true
	}
	m.bmemo[key] = 1
	ok := true
	var cuts *Cuts
	for _, b := range g.Blocks {
		if len(b.Instrs) == 0 {
			continue
		}
		ret, isRet := b.Instrs[len(b.Instrs)-1].(*ssa.Return)
		if !isRet {
			continue
		}
		type alt struct {
			v    ssa.Value
			pred *ssa.BasicBlock
		}
		alts := []alt{{ret.Results[idx], nil}}
		if phi, isPhi := ret.Results[idx].(*ssa.Phi); isPhi && phi.Block() == b {
			alts = alts[:0]
			for i, e := range phi.Edges {
				alts = append(alts, alt{e, b.Preds[i]})
			}
		}
		for _, a := range alts {
			if k, isC := constBool(a.v); isC && k != want {
				continue
			}
			if _, isC := constBool(a.v); !isC && m.implies(fr, a.v, want, 0) {
				continue
			}
			if cuts == nil {
				cuts = m.cutsF(fr)
			}
			if findPath(entryPoint(g), Target{Instr: ret, Pred: a.pred}, cuts) != nil {
				ok = false
			}
		}
	}
	if ok {
		m.bmemo[key] = 2
	} else {
		m.bmemo[key] = 3
	}
	return ok
}

// baseCuts: the edges of fr.fn whose own condition atom establishes F (no phis, no helpers).
func (m *c03MustPass) baseCuts(fr *c03Frame) *Cuts {
	cuts := newCuts()
	if m.edges != nil {
		cuts.AddEdges(m.edges(fr.fn)...)
	}
	for _, b := range fr.fn.Blocks {
		ifi := blockIf(b)
		if ifi == nil {
			continue
		}
		t, f := m.atomOf(fr, ifi.Cond)
		if t {
			cuts.AddEdges(Edge{b, 0})
		}
		if f {
			cuts.AddEdges(Edge{b, 1})
		}
	}
	return cuts
}

// cuts: the edges/instructions of f (analysed on its own) that establish F.
func (m *c03MustPass) cuts(f *ssa.Function, depth int) *Cuts { return m.cutsF(c03Root(f)) }

// cutsF: the edges/instructions of fr.fn that establish F, see the type comment.
func (m *c03MustPass) cutsF(fr *c03Frame) *Cuts {
	if m.cmemo == nil {
		m.cmemo = map[string]*Cuts{}
	}
	key := fr.key()
	if c, ok := m.cmemo[key]; ok {
		return c
	}
	f := fr.fn
	cuts := m.baseCuts(fr)
	m.cmemo[key] = cuts // a helper reached again below sees the direct edges only
	if m.instrs != nil {
		cuts.AddInstrs(m.instrs(fr)...)
	}
	for _, b := range f.Blocks {
		ifi := blockIf(b)
		if ifi == nil {
			continue
		}
		a := condAtom(ifi.Cond)
		if a.Op != token.ILLEGAL {
			continue
		}
		tE, fE := Edge{b, 0}, Edge{b, 1}
		if a.Neg {
			tE, fE = fE, tE
		}
		if phi, ok := a.X.(*ssa.Phi); ok && phi.Block() == b {
			// local boolean: decided per incoming edge
			for i, e := range phi.Edges {
				if _, isC := constBool(e); isC {
					continue // findPath prunes the infeasible successor itself
				}
				if m.implies(fr, e, true, 0) {
					cuts.AddVia(b.Preds[i], tE)
				}
				if m.implies(fr, e, false, 0) {
					cuts.AddVia(b.Preds[i], fE)
				}
			}
			continue
		}
		if m.implies(fr, a.X, true, 0) {
			cuts.AddEdges(tE)
		}
		if m.implies(fr, a.X, false, 0) {
			cuts.AddEdges(fE)
		}
	}
	allInstrs(f, func(_ *ssa.BasicBlock, _ int, in ssa.Instruction) {
		call, ok := in.(*ssa.Call)
		if !ok {
			return
		}
		if m.calls != nil && m.calls(fr, call) {
			c03AddCallSuccess(f, call, cuts)
			return
		}
		g := calleeFn(call)
		if g == nil || g == f || !c03SamePkg(g, m.pkgOf) {
			return
		}
		if sub := fr.enter(call); sub != nil && m.holdsF(sub) {
			if m.all {
				cuts.AddInstrs(call) // established on every return of the helper, whatever it returns
			} else {
				c03AddCallSuccess(f, call, cuts)
			}
		}
	})
	return cuts
}

// holds: every (possibly) success return of f passes a satisfying edge/instruction.
func (m *c03MustPass) holds(f *ssa.Function, depth int) bool { return m.holdsF(c03Root(f)) }

func (m *c03MustPass) holdsF(fr *c03Frame) bool {
	f := fr.fn
	if m.memo == nil {
		m.memo = map[string]int{}
	}
	key := fr.key()
	switch m.memo[key] {
	case 1:
		return false
	case 2:
		return true
	case 3:
		return false
	}
	if f.Blocks == nil {
		return false
	}
	m.memo[key] = 1
	cuts := m.cutsF(fr)
	res := true
	tg := m.c.c03Success(f)
	if m.all {
		tg = m.c.returnsOf(f)
	}
	if len(tg) == 0 {
		res = false // a function that cannot succeed satisfies nothing
	}
	for _, t := range tg {
		if findPath(entryPoint(f), t.Target(), cuts) != nil {
			res = false
			break
		}
	}
	if res {
		m.memo[key] = 2
	} else {
		m.memo[key] = 3
	}
	return res
}

// c03AfterSuccess: the points of fn at which call cs is known to have returned without error: the
// targets of its nil-error edges when the error is tested, the point after the call when its error is
// returned unchanged or it has none.
func c03AfterSuccess(fn *ssa.Function, cs ssa.CallInstruction) []Point {
	v := cs.Value()
	if v != nil && len(errResults(v)) > 0 {
		if succ, _, checked := callErrEdges(fn, v); checked {
			var out []Point
			for _, e := range succ {
				if len(e.To().Instrs) > 0 {
					out = append(out, Point{e.To(), 0})
				}
			}
			return out
		}
		if !c03ErrReturned(cs) {
			return nil
		}
	}
	return []Point{after(cs)}
}

// afterMustPass: from the given points of fr.fn every way to a success return passes F - in fr.fn, or,
// when fr.fn is a helper and can return successfully without it, in its caller after the helper's
// call succeeded (and so on up the chain). Returns a witness path, nil when the obligation holds.
func (m *c03MustPass) afterMustPass(fr *c03Frame, starts []Point) []*ssa.BasicBlock {
	cuts := m.cutsF(fr)
	var wit []*ssa.BasicBlock
	for _, st := range starts {
		for _, t := range m.c.c03Success(fr.fn) {
			if p := findPath(st, t.Target(), cuts); p != nil {
				wit = p
			}
		}
	}
	if wit == nil || fr.up == nil {
		return wit
	}
	up := c03AfterSuccess(fr.up.fn, fr.call)
	if len(up) == 0 {
		return wit
	}
	return m.afterMustPass(fr.up, up)
}

// c03SameValue: value a of frame fa is value b of frame fb: the same SSA value, or the same leaf
// origins once helpers' parameters are mapped to the arguments they were called with.
func c03SameValue(fa *c03Frame, a ssa.Value, fb *c03Frame, b ssa.Value) bool {
	return c03SameValueStop(fa, a, fb, b, nil)
}

func c03SameValueStop(fa *c03Frame, a ssa.Value, fb *c03Frame, b ssa.Value, stop func(*ssa.Function) bool) bool {
	if fa == fb && stripConv(a) == stripConv(b) {
		return true
	}
	la, lb := c03OriginsF(fa, stripConv(a), stop), c03OriginsF(fb, stripConv(b), stop)
	if len(la) == 0 || len(la) != len(lb) {
		return false
	}
	set := map[c03Leaf]bool{}
	for _, l := range lb {
		set[l] = true
	}
	for _, l := range la {
		if !set[l] {
			return false
		}
	}
	return true
}

// dominates: every way to instruction in of fr.fn establishes F first - inside fr.fn, or, when fr.fn
// is a helper, on every way to the call that entered it (and so on up the chain).
func (m *c03MustPass) dominates(fr *c03Frame, in ssa.Instruction) bool {
	if findPath(entryPoint(fr.fn), Target{Instr: in}, m.cutsF(fr)) == nil {
		return true
	}
	return fr.up != nil && m.dominates(fr.up, fr.call)
}

// check reports one obligation per success return of fn (construct fn#returnN+suffix).
func (m *c03MustPass) check(rule string, fn *ssa.Function, suffix, what string) int {
	cuts := m.cuts(fn, InlineDepth)
	tg := m.c.c03Success(fn)
	seen := map[int]bool{}
	for _, t := range tg {
		o := retOrdinal(fn, t.Ret)
		if seen[o] {
			continue
		}
		seen[o] = true
		var wit []*ssa.BasicBlock
		for _, u := range tg {
			if u.Ret == t.Ret {
				if p := findPath(entryPoint(fn), u.Target(), cuts); p != nil {
					wit = p
					break
				}
			}
		}
		construct := c03Construct(fn, o, suffix)
		if wit == nil {
			m.c.Ok(rule, construct, "every path to this return passes "+what, t.Ret.Pos())
		} else {
			m.c.Violate(rule, construct, "a path reaches this return without passing "+what, t.Ret.Pos(), m.c.describePath(wit)...)
		}
	}
	return len(seen)
}

func c03Construct(fn *ssa.Function, ord int, suffix string) string {
	s := fnName(fn) + "#return" + c03Itoa(ord)
	if suffix != "" {
		s += "[" + suffix + "]"
	}
	return s
}

func c03Itoa(i int) string { return strconv.Itoa(i) }

// setKeyEdges: the nil-error edges of SetSymmetricKey in f (the stream is known to encrypt there). The
// other way to know it - a true test of a.stream.IsEncrypted() or of the flag just copied from it - is
// a condition atom (isStreamState).
func (A *c03Anchors) setKeyEdges(f *ssa.Function) []Edge {
	var out []Edge
	for _, cs := range callsIn(f, A.setKey.Object()) {
		succ, _, _ := callErrEdges(f, cs.Value())
		out = append(out, succ...)
	}
	return out
}

// isSyncValue: every origin of v is a call of (*Stream).IsEncrypted.
func (A *c03Anchors) isSyncValue(f *ssa.Function, v ssa.Value) bool {
	return c03AllOriginsCallTo(f, v, A.isEnc)
}

// isStreamState: v is IsEncrypted(), or a load of negotiation.Encryption that directly follows (same
// block, no other call or store in between) a store of IsEncrypted() to that field - written inline,
// or performed by a same-package helper the negotiation is handed to that leaves the flag freshly
// copied from the stream on every return (A.enc, the summaries of C03-R3).
func (A *c03Anchors) isStreamState(f *ssa.Function, v ssa.Value) bool {
	if A.isSyncValue(f, v) {
		return true
	}
	ld, ok := stripConv(v).(*ssa.UnOp)
	if !ok || ld.Op != token.MUL {
		return false
	}
	fa, ok := ld.X.(*ssa.FieldAddr)
	if !ok || fieldOfAddr(fa) != A.negEncryption {
		return false
	}
	b := ld.Block()
	idx := pointOf(ld).Idx
	for i := idx - 1; i >= 0; i-- {
		switch x := b.Instrs[i].(type) {
		case *ssa.Store:
			if sfa, ok := x.Addr.(*ssa.FieldAddr); ok && fieldOfAddr(sfa) == A.negEncryption {
				return sfa.X == fa.X && A.isSyncValue(f, x.Val)
			}
		case ssa.CallInstruction:
			g := calleeFn(x)
			if _, isCall := x.(*ssa.Call); !isCall || A.enc == nil || g == nil || g == f || !c03SamePkg(g, A.setup) {
				return false
			}
			passed := false
			for _, a := range x.Common().Args {
				if a == fa.X {
					passed = true
				}
			}
			sum := A.enc.summary(g, InlineDepth)
			return passed && sum.syncs && len(errResults(x.Value())) == 0
		}
	}
	return false
}

// c03SubsetAtom recognises, in frame fr, a test that the peer's selection is inside the mask that was
// sent: (resp &^ mask) ==/!= 0, (resp & ^mask) ==/!= 0, (resp & mask) ==/!= resp, and the membership form
// (resp & mask) ==/!= 0 (sufficient because bitmaskToAuthMethod maps exact single-bit constants only,
// C10-R6). a is the condition atom with its negation stripped; the result tells on which outcome the
// selection is known to be offered. isResp / isMask identify the two values in any frame (a helper
// sees them as parameters).
func c03SubsetAtom(fr *c03Frame, a Atom, isResp, isMask func(fr *c03Frame, v ssa.Value) bool) (onTrue, onFalse bool) {
	if a.Op != token.EQL && a.Op != token.NEQ {
		return false, false
	}
	isNotMask := func(v ssa.Value) bool {
		u, ok := stripConv(v).(*ssa.UnOp)
		return ok && u.Op == token.XOR && isMask(fr, u.X)
	}
	r := func(v ssa.Value) bool { return isResp(fr, v) }
	m := func(v ssa.Value) bool { return isMask(fr, v) }
	for _, pair := range [][2]ssa.Value{{a.X, a.Y}, {a.Y, a.X}} {
		bo, ok := stripConv(pair[0]).(*ssa.BinOp)
		if !ok {
			continue
		}
		other := pair[1]
		zero := false
		if k, ok := constInt(other); ok && k == 0 {
			zero = true
		}
		// onEq: the selection is offered on the outcome where the comparison is "equal"
		var onEq, found bool
		switch {
		case bo.Op == token.AND_NOT && r(bo.X) && m(bo.Y) && zero:
			onEq, found = true, true
		case bo.Op == token.AND && ((r(bo.X) && isNotMask(bo.Y)) || (r(bo.Y) && isNotMask(bo.X))) && zero:
			onEq, found = true, true
		case bo.Op == token.AND && ((r(bo.X) && m(bo.Y)) || (r(bo.Y) && m(bo.X))) && r(other):
			onEq, found = true, true
		case bo.Op == token.AND && ((r(bo.X) && m(bo.Y)) || (r(bo.Y) && m(bo.X))) && zero:
			onEq, found = false, true
		}
		if !found {
			continue
		}
		if onEq == (a.Op == token.EQL) {
			return true, false
		}
		return false, true
	}
	return false, false
}
