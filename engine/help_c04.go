package main

import (
	"fmt"
	"go/token"
	"go/types"
	"sort"

	"golang.org/x/tools/go/ssa"
)

// ---------------------------------------------------------------------------
// C04 helpers (shared with C12): connection choke points, digest plumbing of the Stream type,
// and the extraction of the associated-data layout built by encryptDataWithAAD/decryptDataWithAAD.

// c04ChokePoints decides, under the given rule id, that the Stream's connection is read and written
// at single choke points: Stream.writer is read only by writeWithContext and Stream.reader only by
// readWithContext; both are assigned only by NewStream and SetConnection; writeWithContext is called
// only by sendMessageWithEnd and readWithContext only by the two frame receivers; no Read/Write is
// invoked on a value loaded from Stream.conn or obtained from GetConnection().
// It returns the number of instances inspected (for the caller's MinCount).
func c04ChokePoints(c *Ctx, rule string) int {
	wwc := c.needFn(rule, "stream", "(*Stream).writeWithContext")
	rwc := c.needFn(rule, "stream", "(*Stream).readWithContext")
	send := c.needFn(rule, "stream", "(*Stream).sendMessageWithEnd")
	rf := c.needFn(rule, "stream", "(*Stream).ReceiveFrame")
	rfe := c.needFn(rule, "stream", "(*Stream).ReceiveFrameWithEnd")
	ns := c.needFn(rule, "stream", "NewStream")
	sc := c.needFn(rule, "stream", "(*Stream).SetConnection")
	getc := c.needFn(rule, "stream", "(*Stream).GetConnection")
	writer := c.needField(rule, "stream", "Stream", "writer")
	reader := c.needField(rule, "stream", "Stream", "reader")
	conn := c.needField(rule, "stream", "Stream", "conn")
	if wwc == nil || rwc == nil || send == nil || rf == nil || rfe == nil || ns == nil || sc == nil || getc == nil || writer == nil || reader == nil || conn == nil {
		return 0
	}
	n := 0
	poss := map[*ssa.Function]token.Pos{}
	who := func(what string, obj types.Object, allow map[*ssa.Function]bool) {
		var fns []*ssa.Function
		for _, cs := range c.callSites(obj) {
			n++
			fns = append(fns, cs.Fn)
			poss[cs.Fn] = cs.Call.Pos()
		}
		c.whoMay(rule, what, fns, poss, allow)
	}
	who("call writeWithContext", wwc.Object(), fnSet(send))
	who("call readWithContext", rwc.Object(), fnSet(rf, rfe))
	for _, f := range []struct {
		v     *types.Var
		name  string
		rdOK  *ssa.Function
		rdTxt string
	}{{writer, "Stream.writer", wwc, "writeWithContext"}, {reader, "Stream.reader", rwc, "readWithContext"}} {
		var rd, wr []*ssa.Function
		for _, a := range c.fieldAccesses(f.v) {
			n++
			poss[a.Fn] = a.Instr.Pos()
			if a.Write {
				wr = append(wr, a.Fn)
			}
			if a.Read {
				rd = append(rd, a.Fn)
			}
		}
		c.whoMay(rule, "read "+f.name, rd, poss, fnSet(f.rdOK))
		c.whoMay(rule, "write "+f.name, wr, poss, fnSet(ns, sc))
	}
	// direct I/O on the raw connection
	ioMethod := func(m string) bool {
		switch m {
		case "Read", "Write", "ReadFrom", "WriteTo":
			return true
		}
		return false
	}
	bad := 0
	checkUses := func(fn *ssa.Function, v ssa.Value, how string) {
		for _, u := range *v.Referrers() {
			call, ok := u.(ssa.CallInstruction)
			if !ok {
				continue
			}
			cc := call.Common()
			if cc.IsInvoke() && cc.Value == v && ioMethod(cc.Method.Name()) {
				bad++
				c.Violate(rule, "conn."+cc.Method.Name()+"@"+fnName(topFn(fn)), "direct "+cc.Method.Name()+" on the connection ("+how+") bypasses the frame sender/receivers and the handshake digest", call.Pos())
				continue
			}
			// handed to an io helper as reader/writer (io.ReadFull, io.Copy, ...)
			if o := calleeObj(call); o != nil && o.Pkg() != nil && (o.Pkg().Path() == "io" || o.Pkg().Path() == "bufio") {
				for _, a := range cc.Args {
					if stripConv(a) == v {
						bad++
						c.Violate(rule, "conn->"+o.Pkg().Path()+"."+o.Name()+"@"+fnName(topFn(fn)), "the connection ("+how+") is handed to "+o.FullName()+": I/O that bypasses the frame sender/receivers and the handshake digest", call.Pos())
					}
				}
			}
		}
	}
	for _, a := range c.fieldAccesses(conn) {
		fa, ok := a.Instr.(*ssa.FieldAddr)
		if !ok {
			continue
		}
		for _, r := range *fa.Referrers() {
			if ld, ok := r.(*ssa.UnOp); ok {
				n++
				checkUses(a.Fn, ld, "Stream.conn")
				for _, u := range *ld.Referrers() {
					if cv, ok := u.(ssa.Value); ok {
						switch cv.(type) {
						case *ssa.ChangeInterface, *ssa.MakeInterface:
							checkUses(a.Fn, cv, "Stream.conn")
						}
					}
				}
			}
		}
	}
	for _, cs := range c.callSites(getc.Object()) {
		if v := cs.Call.Value(); v != nil {
			n++
			checkUses(cs.Fn, v, "GetConnection()")
			for _, u := range *v.Referrers() {
				if cv, ok := u.(ssa.Value); ok {
					switch cv.(type) {
					case *ssa.ChangeInterface, *ssa.MakeInterface:
						checkUses(cs.Fn, cv, "GetConnection()")
					}
				}
			}
		}
	}
	if bad == 0 {
		c.Ok(rule, "conn-direct-io", "no Read/Write is invoked on, and no io helper is handed, a value loaded from Stream.conn or returned by GetConnection()", token.NoPos)
	}
	return n
}

// c04Stream bundles the resolved anchors of the digest machinery.
type c04Stream struct {
	send, rf, rfe, wwc, rwc, enc, dec, ssk, imp, ns, finS, finR *ssa.Function
	sendDigest, recvDigest, finalSend, finalRecv                *types.Var
	sendWritten, recvWritten, finishedSend, finishedRecv        *types.Var
	encrypted, gcm                                              *types.Var
	ok                                                          bool
}

func c04Anchors(c *Ctx, rule string) *c04Stream {
	s := &c04Stream{}
	fn := func(name string) *ssa.Function { return c.needFn(rule, "stream", name) }
	fd := func(name string) *types.Var { return c.needField(rule, "stream", "Stream", name) }
	s.send, s.rf, s.rfe = fn("(*Stream).sendMessageWithEnd"), fn("(*Stream).ReceiveFrame"), fn("(*Stream).ReceiveFrameWithEnd")
	s.wwc, s.rwc = fn("(*Stream).writeWithContext"), fn("(*Stream).readWithContext")
	s.enc, s.dec = fn("(*Stream).encryptDataWithAAD"), fn("(*Stream).decryptDataWithAAD")
	s.ssk, s.imp, s.ns = fn("(*Stream).SetSymmetricKey"), fn("NewStreamWithCryptoState"), fn("NewStream")
	s.finS, s.finR = fn("(*Stream).finalizeSendDigest"), fn("(*Stream).finalizeRecvDigest")
	s.sendDigest, s.recvDigest = fd("sendDigest"), fd("recvDigest")
	s.finalSend, s.finalRecv = fd("finalSendDigest"), fd("finalRecvDigest")
	s.sendWritten, s.recvWritten = fd("sendDigestWritten"), fd("recvDigestWritten")
	s.finishedSend, s.finishedRecv = fd("finishedSendAAD"), fd("finishedRecvAAD")
	s.encrypted, s.gcm = fd("encrypted"), fd("gcm")
	s.ok = true
	for _, f := range []*ssa.Function{s.send, s.rf, s.rfe, s.wwc, s.rwc, s.enc, s.dec, s.ssk, s.imp, s.ns, s.finS, s.finR} {
		if f == nil {
			s.ok = false
		}
	}
	for _, v := range []*types.Var{s.sendDigest, s.recvDigest, s.finalSend, s.finalRecv, s.sendWritten, s.recvWritten, s.finishedSend, s.finishedRecv, s.encrypted, s.gcm} {
		if v == nil {
			s.ok = false
		}
	}
	return s
}

// c04DigestCtor decides the constructor invariant "Stream.<digest field> is never nil": its only
// writer is NewStream, which stores the result of crypto/sha256.New(), and no Stream value is
// allocated anywhere else in the module. When it holds, branches on "<field> == nil" are dead and
// may be pruned by the caller.
func c04DigestCtor(c *Ctx, rule string, a *c04Stream, field *types.Var) bool {
	good := true
	var wr []*ssa.Function
	poss := map[*ssa.Function]token.Pos{}
	for _, acc := range c.fieldAccesses(field) {
		if acc.Write {
			wr = append(wr, acc.Fn)
			poss[acc.Fn] = acc.Instr.Pos()
			if topFn(acc.Fn) != a.ns {
				good = false
			}
		}
	}
	c.whoMay(rule, "write Stream."+field.Name(), wr, poss, fnSet(a.ns))
	// the stored value is sha256.New()
	stored := 0
	allInstrs(a.ns, func(_ *ssa.BasicBlock, _ int, in ssa.Instruction) {
		st, ok := in.(*ssa.Store)
		if !ok {
			return
		}
		fa, ok := st.Addr.(*ssa.FieldAddr)
		if !ok || fieldOfAddr(fa) != field {
			return
		}
		stored++
		isNew := false
		for _, o := range origins(a.ns, st.Val) {
			if call, _ := originCall(o); call != nil {
				if f := calleeObj(call); f != nil && f.Pkg() != nil && f.Pkg().Path() == "crypto/sha256" && f.Name() == "New" {
					isNew = true
					continue
				}
			}
			isNew = false
			break
		}
		if !c.Check(isNew, rule, "NewStream#"+field.Name()+"<-sha256.New", "initialised with sha256.New()", "Stream."+field.Name()+" is not initialised with crypto/sha256.New(): cleartext frames would not feed a SHA-256 digest", st.Pos()) {
			good = false
		}
	})
	if stored == 0 {
		c.Violate(rule, "NewStream#"+field.Name()+"<-sha256.New", "NewStream does not initialise Stream."+field.Name(), a.ns.Pos())
		good = false
	}
	// no other allocation of a Stream
	streamT := field.Pkg().Scope().Lookup("Stream").Type()
	for _, fn := range c.ModFns {
		allInstrs(fn, func(_ *ssa.BasicBlock, _ int, in ssa.Instruction) {
			al, ok := in.(*ssa.Alloc)
			if !ok {
				return
			}
			if types.Identical(al.Type().Underlying().(*types.Pointer).Elem(), streamT) && topFn(fn) != a.ns {
				good = false
				c.Violate(rule, "alloc-Stream@"+fnName(topFn(fn)), "a Stream is allocated outside NewStream: its handshake digests are nil and nothing it sends or receives in the clear is bound into the channel", al.Pos())
			}
		})
	}
	return good
}

// c04HashWrites lists the invocations of Write on a value loaded from the given digest field.
func c04HashWrites(fn *ssa.Function, digest *types.Var) []ssa.CallInstruction {
	var out []ssa.CallInstruction
	allInstrs(fn, func(_ *ssa.BasicBlock, _ int, in ssa.Instruction) {
		call, ok := in.(ssa.CallInstruction)
		if !ok {
			return
		}
		cc := call.Common()
		if cc.IsInvoke() && cc.Method.Name() == "Write" && readsField(cc.Value, digest) && len(cc.Args) == 1 {
			out = append(out, call)
		}
	})
	return out
}

// c04TrueStores lists the stores of the constant true to field f in fn.
func c04TrueStores(fn *ssa.Function, f *types.Var) []ssa.Instruction {
	var out []ssa.Instruction
	allInstrs(fn, func(_ *ssa.BasicBlock, _ int, in ssa.Instruction) {
		if st, ok := in.(*ssa.Store); ok {
			if fa, ok := st.Addr.(*ssa.FieldAddr); ok && fieldOfAddr(fa) == f {
				if b, isC := constBool(st.Val); isC && b {
					out = append(out, st)
				}
			}
		}
	})
	return out
}

// c04SameData: a and b carry the same bytes on some path: identical value, or they share a leaf
// origin (the returned slice is a phi of the decrypted and the undecrypted buffer; hashing either
// leaf is accepted - with the digest frozen at key installation the two are never both live).
func c04SameData(fn *ssa.Function, a, b ssa.Value) bool {
	if stripConv(a) == stripConv(b) {
		return true
	}
	set := map[ssa.Value]bool{}
	for _, v := range origins(fn, a) {
		set[v] = true
	}
	for _, v := range origins(fn, b) {
		if set[v] {
			return true
		}
	}
	return false
}

// c04WholeOf: v is the whole of the local buffer root (root itself, or root[:] / root[:len]).
func c04WholeOf(v, root ssa.Value) bool {
	for {
		if v == root {
			return true
		}
		sl, ok := v.(*ssa.Slice)
		if !ok {
			return false
		}
		if sl.Low != nil {
			if lo, isC := constInt(sl.Low); !isC || lo != 0 {
				return false
			}
		}
		if sl.High != nil {
			hi, isC := constInt(sl.High)
			n := int64(-1)
			if al, ok := memRoot(sl.X).(*ssa.Alloc); ok {
				if arr, ok := al.Type().Underlying().(*types.Pointer).Elem().Underlying().(*types.Array); ok {
					n = arr.Len()
				}
			}
			if !isC || hi != n {
				return false
			}
		}
		v = sl.X
	}
}

// ---------------------------------------------------------------------------
// associated-data layout

// c04AADPart is one copy into the AAD buffer: aad[Lo:Hi] <- Src (Hi = -1: open ended).
type c04AADPart struct {
	Lo, Hi int64
	Src    string // "field:<name>", "param:<name>", "other"
	Pos    token.Pos
}

// c04AADBranch is one way the AAD argument of Seal/Open is built.
type c04AADBranch struct {
	Buf      *ssa.MakeSlice
	LenConst int64 // constant part of the buffer length
	LenOfHdr bool  // length includes len(frameHeader)
	Parts    []c04AADPart
	First    bool // built on the edge on which the first-frame flag is still false
}

func (b c04AADBranch) String() string {
	s := ""
	for i, p := range b.Parts {
		if i > 0 {
			s += ", "
		}
		hi := ""
		if p.Hi >= 0 {
			hi = fmt.Sprint(p.Hi)
		}
		s += fmt.Sprintf("[%d:%s]<-%s", p.Lo, hi, p.Src)
	}
	return s
}

// c04AADLayout extracts, for the AEAD call (Seal or Open) in fn, how each possible AAD buffer is
// filled. flag is the per-direction first-frame field (finishedSendAAD / finishedRecvAAD).
// ok=false when the AAD argument is not a (phi of) locally made buffer(s) filled by copy().
func c04AADLayout(fn *ssa.Function, aead ssa.CallInstruction, flag *types.Var) (out []c04AADBranch, ok bool) {
	args := aead.Common().Args
	if len(args) != 4 {
		return nil, false
	}
	off, _ := fieldCondEdges(fn, flag)
	for _, o := range origins(fn, args[3]) {
		ms, isMS := o.(*ssa.MakeSlice)
		if !isMS {
			return nil, false
		}
		br := c04AADBranch{Buf: ms}
		// length: const, len(param), or const + len(param)
		var walkLen func(v ssa.Value) bool
		walkLen = func(v ssa.Value) bool {
			v = c01Strip(v)
			if k, isC := constInt(v); isC {
				br.LenConst += k
				return true
			}
			if call, isLen := c01IsBuiltin(v, "len"); isLen {
				if _, isPar := call.Call.Args[0].(*ssa.Parameter); isPar {
					br.LenOfHdr = true
					return true
				}
				return false
			}
			if bo, isBO := v.(*ssa.BinOp); isBO && bo.Op == token.ADD {
				return walkLen(bo.X) && walkLen(bo.Y)
			}
			return false
		}
		if !walkLen(ms.Len) {
			return nil, false
		}
		bad := false
		allInstrs(fn, func(_ *ssa.BasicBlock, _ int, in ssa.Instruction) {
			cp, isCall := in.(*ssa.Call)
			if !isCall {
				return
			}
			if _, isCopy := c01IsBuiltin(cp, "copy"); !isCopy || memRoot(cp.Call.Args[0]) != ssa.Value(ms) {
				return
			}
			p := c04AADPart{Lo: 0, Hi: -1, Pos: cp.Pos(), Src: "other"}
			if sl, isSl := cp.Call.Args[0].(*ssa.Slice); isSl {
				if sl.X != ssa.Value(ms) {
					bad = true
				}
				if sl.Low != nil {
					lo, isC := constInt(sl.Low)
					if !isC {
						bad = true
					}
					p.Lo = lo
				}
				if sl.High != nil {
					hi, isC := constInt(sl.High)
					if !isC {
						bad = true
					}
					p.Hi = hi
				}
			} else if cp.Call.Args[0] != ssa.Value(ms) {
				bad = true
			}
			src := cp.Call.Args[1]
			if _, f, isF := fieldRead(stripConv(src)); isF {
				p.Src = "field:" + f.Name()
			} else if par, isPar := src.(*ssa.Parameter); isPar {
				p.Src = "param:" + par.Name()
			}
			br.Parts = append(br.Parts, p)
		})
		// other writers of the buffer (index stores, calls) make the layout unknown
		for _, r := range *ms.Referrers() {
			switch u := r.(type) {
			case *ssa.Slice, *ssa.Phi, *ssa.DebugRef:
			case *ssa.Call:
				if _, isCopy := c01IsBuiltin(u, "copy"); !isCopy && ssa.CallInstruction(u) != aead {
					bad = true
				}
			default:
				bad = true
			}
		}
		if bad {
			return nil, false
		}
		sort.Slice(br.Parts, func(i, j int) bool { return br.Parts[i].Lo < br.Parts[j].Lo })
		for _, e := range off {
			if instrDominatedByEdge(fn, e, ms) {
				br.First = true
			}
		}
		out = append(out, br)
	}
	sort.Slice(out, func(i, j int) bool { return out[i].First && !out[j].First })
	return out, len(out) > 0
}

// c04LayoutIs compares a branch with an expected list of parts.
func c04LayoutIs(b c04AADBranch, want []c04AADPart) bool {
	if len(b.Parts) != len(want) {
		return false
	}
	for i, p := range b.Parts {
		if p.Lo != want[i].Lo || p.Hi != want[i].Hi || p.Src != want[i].Src {
			return false
		}
	}
	return true
}
