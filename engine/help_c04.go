package main

import (
	"fmt"
	"go/token"
	"go/types"
	"sort"

	"golang.org/x/tools/go/ssa"
)

// ---------------------------------------------------------------------------
// C04 helpers (shared with C12): connection choke points, digest plumbing of the Stream type,
// and the extraction of the associated-data layout built by encryptDataWithAAD/decryptDataWithAAD.

// c04ChokePoints decides, under the given rule id, that the Stream's connection is read and written
// at single choke points: Stream.writer is read only by writeWithContext and Stream.reader only by
// readWithContext; both are assigned only by NewStream and SetConnection; writeWithContext is called
// only by sendMessageWithEnd and readWithContext only by the two frame receivers; no Read/Write is
// invoked on a value loaded from Stream.conn or obtained from GetConnection().
// It returns the number of instances inspected (for the caller's MinCount).
func c04ChokePoints(c *Ctx, rule string) int {
	wwc := c.needFn(rule, "stream", "(*Stream).writeWithContext")
	rwc := c.needFn(rule, "stream", "(*Stream).readWithContext")
	send := c.needFn(rule, "stream", "(*Stream).sendMessageWithEnd")
	rf := c.needFn(rule, "stream", "(*Stream).ReceiveFrame")
	rfe := c.needFn(rule, "stream", "(*Stream).ReceiveFrameWithEnd")
	ns := c.needFn(rule, "stream", "NewStream")
	sc := c.needFn(rule, "stream", "(*Stream).SetConnection")
	getc := c.needFn(rule, "stream", "(*Stream).GetConnection")
	writer := c.needField(rule, "stream", "Stream", "writer")
	reader := c.needField(rule, "stream", "Stream", "reader")
	conn := c.needField(rule, "stream", "Stream", "conn")
	if wwc == nil || rwc == nil || send == nil || rf == nil || rfe == nil || ns == nil || sc == nil || getc == nil || writer == nil || reader == nil || conn == nil {
		return 0
	}
	n := 0
	poss := map[*ssa.Function]token.Pos{}
	who := func(what string, obj types.Object, allow map[*ssa.Function]bool) {
		var fns []*ssa.Function
		for _, cs := range c.callSites(obj) {
			n++
			fns = append(fns, cs.Fn)
			poss[cs.Fn] = cs.Call.Pos()
		}
		c.whoMayDeep(rule, what, fns, poss, allow)
	}
	who("call writeWithContext", wwc.Object(), fnSet(send))
	who("call readWithContext", rwc.Object(), fnSet(rf, rfe))
	for _, f := range []struct {
		v     *types.Var
		name  string
		rdOK  *ssa.Function
		rdTxt string
	}{{writer, "Stream.writer", wwc, "writeWithContext"}, {reader, "Stream.reader", rwc, "readWithContext"}} {
		var rd, wr []*ssa.Function
		for _, a := range c.fieldAccesses(f.v) {
			n++
			poss[a.Fn] = a.Instr.Pos()
			if a.Write {
				wr = append(wr, a.Fn)
			}
			if a.Read {
				rd = append(rd, a.Fn)
			}
		}
		c.whoMayDeep(rule, "read "+f.name, rd, poss, fnSet(f.rdOK))
		c.whoMayDeep(rule, "write "+f.name, wr, poss, fnSet(ns, sc))
	}
	// direct I/O on the raw connection
	ioMethod := func(m string) bool {
		switch m {
		case "Read", "Write", "ReadFrom", "WriteTo":
			return true
		}
		return false
	}
	bad := 0
	checkUses := func(fn *ssa.Function, v ssa.Value, how string) {
		for _, u := range *v.Referrers() {
			call, ok := u.(ssa.CallInstruction)
			if !ok {
				continue
			}
			cc := call.Common()
			if cc.IsInvoke() && cc.Value == v && ioMethod(cc.Method.Name()) {
				bad++
				c.Violate(rule, "conn."+cc.Method.Name()+"@"+fnName(topFn(fn)), "direct "+cc.Method.Name()+" on the connection ("+how+") bypasses the frame sender/receivers and the handshake digest", call.Pos())
				continue
			}
			// handed to an io helper as reader/writer (io.ReadFull, io.Copy, ...)
			if o := calleeObj(call); o != nil && o.Pkg() != nil && (o.Pkg().Path() == "io" || o.Pkg().Path() == "bufio") {
				for _, a := range cc.Args {
					if stripConv(a) == v {
						bad++
						c.Violate(rule, "conn->"+o.Pkg().Path()+"."+o.Name()+"@"+fnName(topFn(fn)), "the connection ("+how+") is handed to "+o.FullName()+": I/O that bypasses the frame sender/receivers and the handshake digest", call.Pos())
					}
				}
			}
		}
	}
	for _, a := range c.fieldAccesses(conn) {
		fa, ok := a.Instr.(*ssa.FieldAddr)
		if !ok {
			continue
		}
		for _, r := range *fa.Referrers() {
			if ld, ok := r.(*ssa.UnOp); ok {
				n++
				checkUses(a.Fn, ld, "Stream.conn")
				for _, u := range *ld.Referrers() {
					if cv, ok := u.(ssa.Value); ok {
						switch cv.(type) {
						case *ssa.ChangeInterface, *ssa.MakeInterface:
							checkUses(a.Fn, cv, "Stream.conn")
						}
					}
				}
			}
		}
	}
	for _, cs := range c.callSites(getc.Object()) {
		if v := cs.Call.Value(); v != nil {
			n++
			checkUses(cs.Fn, v, "GetConnection()")
			for _, u := range *v.Referrers() {
				if cv, ok := u.(ssa.Value); ok {
					switch cv.(type) {
					case *ssa.ChangeInterface, *ssa.MakeInterface:
						checkUses(cs.Fn, cv, "GetConnection()")
					}
				}
			}
		}
	}
	if bad == 0 {
		c.Ok(rule, "conn-direct-io", "no Read/Write is invoked on, and no io helper is handed, a value loaded from Stream.conn or returned by GetConnection()", token.NoPos)
	}
	return n
}

// c04Stream bundles the resolved anchors of the digest machinery.
type c04Stream struct {
	send, rf, rfe, wwc, rwc, enc, dec, ssk, imp, ns, finS, finR *ssa.Function
	sendDigest, recvDigest, finalSend, finalRecv                *types.Var
	sendWritten, recvWritten, finishedSend, finishedRecv        *types.Var
	encrypted, gcm                                              *types.Var
	ok                                                          bool
}

func c04Anchors(c *Ctx, rule string) *c04Stream {
	s := &c04Stream{}
	fn := func(name string) *ssa.Function { return c.needFn(rule, "stream", name) }
	fd := func(name string) *types.Var { return c.needField(rule, "stream", "Stream", name) }
	s.send, s.rf, s.rfe = fn("(*Stream).sendMessageWithEnd"), fn("(*Stream).ReceiveFrame"), fn("(*Stream).ReceiveFrameWithEnd")
	s.wwc, s.rwc = fn("(*Stream).writeWithContext"), fn("(*Stream).readWithContext")
	s.enc, s.dec = fn("(*Stream).encryptDataWithAAD"), fn("(*Stream).decryptDataWithAAD")
	s.ssk, s.imp, s.ns = fn("(*Stream).SetSymmetricKey"), fn("NewStreamWithCryptoState"), fn("NewStream")
	s.finS, s.finR = fn("(*Stream).finalizeSendDigest"), fn("(*Stream).finalizeRecvDigest")
	s.sendDigest, s.recvDigest = fd("sendDigest"), fd("recvDigest")
	s.finalSend, s.finalRecv = fd("finalSendDigest"), fd("finalRecvDigest")
	s.sendWritten, s.recvWritten = fd("sendDigestWritten"), fd("recvDigestWritten")
	s.finishedSend, s.finishedRecv = fd("finishedSendAAD"), fd("finishedRecvAAD")
	s.encrypted, s.gcm = fd("encrypted"), fd("gcm")
	s.ok = true
	for _, f := range []*ssa.Function{s.send, s.rf, s.rfe, s.wwc, s.rwc, s.enc, s.dec, s.ssk, s.imp, s.ns, s.finS, s.finR} {
		if f == nil {
			s.ok = false
		}
	}
	for _, v := range []*types.Var{s.sendDigest, s.recvDigest, s.finalSend, s.finalRecv, s.sendWritten, s.recvWritten, s.finishedSend, s.finishedRecv, s.encrypted, s.gcm} {
		if v == nil {
			s.ok = false
		}
	}
	return s
}

// c04DigestCtor decides the constructor invariant "Stream.<digest field> is never nil": its only
// writer is NewStream, which stores the result of crypto/sha256.New(), and no Stream value is
// allocated anywhere else in the module. When it holds, branches on "<field> == nil" are dead and
// may be pruned by the caller.
func c04DigestCtor(c *Ctx, rule string, a *c04Stream, field *types.Var) bool {
	good := true
	allow := fnSet(a.ns)
	inCtor := func(fn *ssa.Function) bool {
		t := topFn(fn)
		return t == a.ns || c.onlyReachableFrom(t, allow)
	}
	var wr []*ssa.Function
	poss := map[*ssa.Function]token.Pos{}
	for _, acc := range c.fieldAccesses(field) {
		if acc.Write {
			wr = append(wr, acc.Fn)
			poss[acc.Fn] = acc.Instr.Pos()
			if !inCtor(acc.Fn) {
				good = false
			}
		}
	}
	c.whoMayDeep(rule, "write Stream."+field.Name(), wr, poss, allow)
	// the stored value is sha256.New() (directly or through a value helper of the constructor)
	stored := 0
	x := c04NewX(c.Prog)
	x.Root(a.ns).Walk(func(fr *c04Frame, in ssa.Instruction) {
		st, ok := in.(*ssa.Store)
		if !ok {
			return
		}
		fa, ok := st.Addr.(*ssa.FieldAddr)
		if !ok || fieldOfAddr(fa) != field {
			return
		}
		stored++
		isNew := false
		for _, o := range x.Origins(nil, fr, st.Val) {
			if call, _ := originCall(o.V); call != nil && c12PkgFunc(call, "crypto/sha256", "New") {
				isNew = true
				continue
			}
			isNew = false
			break
		}
		if !c.Check(isNew, rule, "NewStream#"+field.Name()+"<-sha256.New", "initialised with sha256.New()", "Stream."+field.Name()+" is not initialised with crypto/sha256.New(): cleartext frames would not feed a SHA-256 digest", st.Pos()) {
			good = false
		}
	})
	if stored == 0 {
		c.Violate(rule, "NewStream#"+field.Name()+"<-sha256.New", "NewStream does not initialise Stream."+field.Name(), a.ns.Pos())
		good = false
	}
	// no other allocation of a Stream
	streamT := field.Pkg().Scope().Lookup("Stream").Type()
	for _, fn := range c.ModFns {
		allInstrs(fn, func(_ *ssa.BasicBlock, _ int, in ssa.Instruction) {
			al, ok := in.(*ssa.Alloc)
			if !ok {
				return
			}
			if types.Identical(al.Type().Underlying().(*types.Pointer).Elem(), streamT) && !inCtor(fn) {
				good = false
				c.Violate(rule, "alloc-Stream@"+fnName(topFn(fn)), "a Stream is allocated outside NewStream: its handshake digests are nil and nothing it sends or receives in the clear is bound into the channel", al.Pos())
			}
		})
	}
	return good
}

// ---------------------------------------------------------------------------
// associated-data layout

// c04AADPart is one copy into the AAD buffer: aad[Lo:Hi] <- Src (Hi = -1: open ended).
type c04AADPart struct {
	Lo, Hi int64
	Src    string // "field:<name>", "param:<name>", "other"
	Pos    token.Pos
}

// c04AEADSite is a Seal/Open call in the inlined view of the encrypt/decrypt function.
type c04AEADSite struct {
	fr   *c04Frame
	call ssa.CallInstruction
}

// c04AADView builds the inlined view of encryptDataWithAAD / decryptDataWithAAD in which the AAD rules
// (C04-R4, C12-R5) look for the AEAD call, the buffers, the copies and the first-frame flag.
func c04AADView(c *Ctx, a *c04Stream, fn *ssa.Function, aead *types.Func, flag *types.Var) (*c04X, *c04Frame, []c04AEADSite) {
	x := c04NewX(c.Prog)
	root := x.Root(fn)
	var aeads []c04AEADSite
	root.Walk(func(fr *c04Frame, in ssa.Instruction) {
		if call, ok := isCallTo(in, aead); ok {
			aeads = append(aeads, c04AEADSite{fr, call})
		}
	})
	return x, root, aeads
}

// c04AADBranch is one way the AAD argument of Seal/Open is built.
type c04AADBranch struct {
	Buf      *ssa.MakeSlice
	BufFr    *c04Frame // frame in which the buffer is made (the AEAD function or a helper of it)
	LenConst int64     // constant part of the buffer length
	LenOfHdr bool      // length includes len(frameHeader)
	Parts    []c04AADPart
	First    bool // built only on the edge on which the first-frame flag is still false
	Later    bool // built only on the edge on which the first-frame flag is already true
}

func (b c04AADBranch) String() string {
	s := ""
	for i, p := range b.Parts {
		if i > 0 {
			s += ", "
		}
		hi := ""
		if p.Hi >= 0 {
			hi = fmt.Sprint(p.Hi)
		}
		s += fmt.Sprintf("[%d:%s]<-%s", p.Lo, hi, p.Src)
	}
	return s
}

// c04AADLayout extracts, for the AEAD call (Seal or Open) found in frame afr of the inlined view rooted at
// root, how each possible AAD buffer is filled. flag is the per-direction first-frame field (finishedSendAAD /
// finishedRecvAAD), hdr the frame-header parameter of the root function. The buffer may be made and filled in
// the root function or in helpers it calls (a value helper returning the buffer, a helper filling it).
// ok=false when the AAD argument is not a (phi of) locally made buffer(s) filled by copy() at constant offsets.
func c04AADLayout(x *c04X, root, afr *c04Frame, aead ssa.CallInstruction, flag *types.Var, hdr *ssa.Parameter) (out []c04AADBranch, ok bool) {
	args := aead.Common().Args
	if len(args) != 4 {
		return nil, false
	}
	hdrV := c04XV{root, hdr}
	for _, o := range x.Origins(nil, afr, args[3]) {
		ms, isMS := o.V.(*ssa.MakeSlice)
		if !isMS {
			return nil, false
		}
		buf := c04XV{o.Fr, ms}
		br := c04AADBranch{Buf: ms, BufFr: o.Fr}
		// length: const, len(header), or const + len(header)
		var walkLen func(fr *c04Frame, v ssa.Value) bool
		walkLen = func(fr *c04Frame, v ssa.Value) bool {
			cv := x.CanonInt(nil, fr, v)
			if k, isC := constInt(cv.V); isC {
				br.LenConst += k
				return true
			}
			if call, isLen := c01IsBuiltin(cv.V, "len"); isLen {
				if x.Canon(nil, cv.Fr, call.Call.Args[0]) == hdrV {
					br.LenOfHdr = true
					return true
				}
				return false
			}
			if bo, isBO := cv.V.(*ssa.BinOp); isBO && bo.Op == token.ADD {
				return walkLen(cv.Fr, bo.X) && walkLen(cv.Fr, bo.Y)
			}
			return false
		}
		if !walkLen(o.Fr, ms.Len) {
			return nil, false
		}
		bad := false
		root.Walk(func(fr *c04Frame, in ssa.Instruction) {
			cp, isCall := in.(*ssa.Call)
			if !isCall {
				return
			}
			if _, isCopy := c01IsBuiltin(cp, "copy"); !isCopy {
				return
			}
			if r, _ := x.WholeOf(nil, fr, cp.Call.Args[0]); r != buf {
				return
			}
			p := c04AADPart{Lo: 0, Hi: -1, Pos: cp.Pos(), Src: "other"}
			dst := cp.Call.Args[0]
			if sl, isSl := dst.(*ssa.Slice); isSl {
				if x.Canon(nil, fr, sl.X) != buf {
					bad = true // a slice of a slice: offsets not evident
				}
				if sl.Low != nil {
					lo, isC := x.constOf(nil, fr, sl.Low)
					if !isC {
						bad = true
					}
					p.Lo = lo
				}
				if sl.High != nil {
					hi, isC := x.constOf(nil, fr, sl.High)
					if !isC {
						bad = true
					}
					p.Hi = hi
				}
			} else if x.Canon(nil, fr, dst) != buf {
				bad = true
			}
			src := x.Canon(nil, fr, cp.Call.Args[1])
			if _, f, isF := fieldRead(src.V); isF {
				p.Src = "field:" + f.Name()
			} else if src == hdrV {
				p.Src = "param:" + hdr.Name()
			}
			br.Parts = append(br.Parts, p)
		})
		// other writers of the buffer (index stores, calls that are not followed) make the layout unknown
		if !c04BufOnlyCopied(x, buf, aead, 0) {
			bad = true
		}
		if bad {
			return nil, false
		}
		sort.Slice(br.Parts, func(i, j int) bool { return br.Parts[i].Lo < br.Parts[j].Lo })
		made := func(st *c04XState, in ssa.Instruction) bool { return in == ssa.Instruction(ms) && st.Fr == o.Fr }
		flagCut := func(want bool) func(*c04XState, c04XAtom, bool) bool {
			return func(_ *c04XState, at c04XAtom, truth bool) bool {
				on, isTest := c04AtomField(at, flag, truth)
				return isTest && on == want
			}
		}
		if dead, _ := x.Blocked(root.Entry(), &c04XQuery{Target: made}); !dead {
			br.First, _ = x.Blocked(root.Entry(), &c04XQuery{Target: made, CutCond: flagCut(false)})
			br.Later, _ = x.Blocked(root.Entry(), &c04XQuery{Target: made, CutCond: flagCut(true)})
		}
		out = append(out, br)
	}
	sort.SliceStable(out, func(i, j int) bool { return out[i].First && !out[j].First })
	return out, len(out) > 0
}

// c04BufOnlyCopied: the buffer value v (in its frame) is only sliced, merged, copied into/from with copy(),
// returned to the caller, handed to followed helpers that do the same, or passed to the AEAD call.
func c04BufOnlyCopied(x *c04X, v c04XV, aead ssa.CallInstruction, depth int) bool {
	if depth > 8 || v.V.Referrers() == nil {
		return depth <= 8
	}
	for _, r := range *v.V.Referrers() {
		switch u := r.(type) {
		case *ssa.Slice:
			if !c04BufOnlyCopied(x, c04XV{v.Fr, u}, aead, depth+1) {
				return false
			}
		case *ssa.Phi:
			if depth < 4 && !c04BufOnlyCopied(x, c04XV{v.Fr, u}, aead, depth+4) {
				return false
			}
		case *ssa.DebugRef:
		case *ssa.Return:
			if v.Fr.Call == nil {
				return false
			}
			cv := v.Fr.Call.Value()
			if cv == nil {
				return false
			}
			if _, isTuple := cv.Type().(*types.Tuple); isTuple {
				for i, res := range u.Results {
					if res == v.V {
						if ex := extractN(cv, i); ex != nil && !c04BufOnlyCopied(x, c04XV{v.Fr.Parent, ex}, aead, depth+1) {
							return false
						}
					}
				}
			} else if !c04BufOnlyCopied(x, c04XV{v.Fr.Parent, cv}, aead, depth+1) {
				return false
			}
		case *ssa.Call:
			if _, isCopy := c01IsBuiltin(u, "copy"); isCopy || ssa.CallInstruction(u) == aead {
				continue
			}
			if _, isLen := c01IsBuiltin(u, "len"); isLen {
				continue
			}
			k := v.Fr.EnterV(u)
			if k == nil {
				return false
			}
			for i, a := range u.Call.Args {
				if a == v.V && i < len(k.Fn.Params) {
					if !c04BufOnlyCopied(x, c04XV{k, k.Fn.Params[i]}, aead, depth+1) {
						return false
					}
				}
			}
		default:
			return false
		}
	}
	return true
}

// c04LayoutIs compares a branch with an expected list of parts.
func c04LayoutIs(b c04AADBranch, want []c04AADPart) bool {
	if len(b.Parts) != len(want) {
		return false
	}
	for i, p := range b.Parts {
		if p.Lo != want[i].Lo || p.Hi != want[i].Hi || p.Src != want[i].Src {
			return false
		}
	}
	return true
}
