package main

import (
	"go/token"
	"go/types"
	"sort"
	"strconv"

	"golang.org/x/tools/go/ssa"
)

// Helpers of the C15 rules (crypto-state export / import). Names are prefixed c15.

type c15env struct {
	ok     bool
	pkg    *types.Package
	fields map[*types.Var]bool // the fields of stream.Stream
	byName map[string]*types.Var
	exp    *ssa.Function // (*Stream).ExportCryptoState
	imp    *ssa.Function // NewStreamWithCryptoState
}

func (c *Ctx) c15load(rule string) *c15env {
	e := &c15env{fields: map[*types.Var]bool{}, byName: map[string]*types.Var{}}
	e.pkg = c.PkgTypes("stream")
	e.exp = c.needFn(rule, "stream", "(*Stream).ExportCryptoState")
	e.imp = c.needFn(rule, "stream", "NewStreamWithCryptoState")
	if e.pkg == nil {
		c.AnchorMissing(rule, "stream")
		return e
	}
	tn := e.pkg.Scope().Lookup("Stream")
	if tn == nil {
		c.AnchorMissing(rule, "stream.Stream")
		return e
	}
	st, ok := tn.Type().Underlying().(*types.Struct)
	if !ok {
		c.AnchorMissing(rule, "stream.Stream (struct)")
		return e
	}
	for i := 0; i < st.NumFields(); i++ {
		e.fields[st.Field(i)] = true
		e.byName[st.Field(i).Name()] = st.Field(i)
	}
	e.ok = e.exp != nil && e.imp != nil
	return e
}

// c15fieldOf returns the Stream field an instruction addresses/reads (FieldAddr or Field), or nil.
func (e *c15env) c15fieldOf(in ssa.Instruction) *types.Var {
	switch x := in.(type) {
	case *ssa.FieldAddr:
		if f := fieldOfAddr(x); e.fields[f] {
			return f
		}
	case *ssa.Field:
		if f := x.X.Type().Underlying().(*types.Struct).Field(x.Field); e.fields[f] {
			return f
		}
	}
	return nil
}

// c15classify: is the field address read through, written through (same conventions as Prog.fieldAccesses).
func c15classify(fa *ssa.FieldAddr) (read, write bool) {
	for _, r := range *fa.Referrers() {
		switch u := r.(type) {
		case *ssa.Store:
			if u.Addr == fa {
				write = true
			} else {
				read, write = true, true
			}
		case *ssa.UnOp:
			read = true
		case *ssa.Slice, *ssa.IndexAddr, *ssa.FieldAddr:
			w, rd := addrUses(u.(ssa.Value))
			write = write || w
			read = read || rd
		case ssa.CallInstruction:
			read, write = true, true
		case *ssa.DebugRef:
		default:
			read = true
		}
	}
	return
}

// c15rw lists, per Stream field, the instructions of fn that read resp. write it.
type c15rwSet struct {
	reads, writes map[*types.Var][]ssa.Instruction
}

func (e *c15env) c15rw(fn *ssa.Function) c15rwSet {
	s := c15rwSet{map[*types.Var][]ssa.Instruction{}, map[*types.Var][]ssa.Instruction{}}
	allInstrs(fn, func(_ *ssa.BasicBlock, _ int, in ssa.Instruction) {
		f := e.c15fieldOf(in)
		if f == nil {
			return
		}
		if fa, ok := in.(*ssa.FieldAddr); ok {
			r, w := c15classify(fa)
			if r {
				s.reads[f] = append(s.reads[f], in)
			}
			if w {
				s.writes[f] = append(s.writes[f], in)
			}
			return
		}
		s.reads[f] = append(s.reads[f], in)
	})
	return s
}

// c15condReads: the Stream fields read directly in branch conditions of fn.
func (e *c15env) c15condReads(fn *ssa.Function) map[*types.Var]bool {
	out := map[*types.Var]bool{}
	for _, b := range fn.Blocks {
		ifi := blockIf(b)
		if ifi == nil {
			continue
		}
		a := condAtom(ifi.Cond)
		for _, v := range []ssa.Value{a.X, a.Y} {
			if v == nil {
				continue
			}
			if _, f, ok := fieldRead(stripConv(v)); ok && e.fields[f] {
				out[f] = true
			}
		}
	}
	return out
}

func c15sortedFields(m map[*types.Var]bool) []*types.Var {
	var out []*types.Var
	for f := range m {
		out = append(out, f)
	}
	sort.Slice(out, func(i, j int) bool { return out[i].Name() < out[j].Name() })
	return out
}

// ---------------------------------------------------------------------------
// backward slice of a value inside one function: data operands, phi inputs, stores into local cells
// and buffers; plus the fields that *control* a phi of the slice (if f { x |= bit } idiom).

type c15sliceInfo struct {
	seen     map[ssa.Value]bool
	dataFlds map[*types.Var]bool     // fields whose value flows into v
	ctrlFlds map[*types.Var]*ssa.Phi // fields tested by the If that immediately dominates a phi of the slice
	bits     map[*types.Var]int64    // for ctrl fields: the constant OR-ed in on the field's true side (-1 unknown)
}

func (e *c15env) c15slice(fn *ssa.Function, v ssa.Value) *c15sliceInfo {
	si := &c15sliceInfo{map[ssa.Value]bool{}, map[*types.Var]bool{}, map[*types.Var]*ssa.Phi{}, map[*types.Var]int64{}}
	writers := map[ssa.Value][]ssa.Value{}
	allInstrs(fn, func(_ *ssa.BasicBlock, _ int, in ssa.Instruction) {
		switch x := in.(type) {
		case *ssa.Store:
			r := memRoot(x.Addr)
			if _, isFA := r.(*ssa.FieldAddr); !isFA {
				writers[r] = append(writers[r], x.Val)
			}
		case ssa.CallInstruction:
			args := callArgs(x)
			for i, a := range args {
				r := memRoot(a)
				switch r.(type) {
				case *ssa.Alloc, *ssa.MakeSlice:
					for j, o := range args {
						if j != i {
							writers[r] = append(writers[r], o)
						}
					}
				}
			}
		}
	})
	var walk func(v ssa.Value, d int)
	walk = func(v ssa.Value, d int) {
		if v == nil || si.seen[v] || d > 80 {
			return
		}
		si.seen[v] = true
		if in, ok := v.(ssa.Instruction); ok {
			if f := e.c15fieldOf(in); f != nil {
				si.dataFlds[f] = true
			}
		}
		switch x := v.(type) {
		case *ssa.Phi:
			if idom := x.Block().Idom(); idom != nil {
				if ifi := blockIf(idom); ifi != nil {
					a := condAtom(ifi.Cond)
					for _, cv := range []ssa.Value{a.X, a.Y} {
						if cv == nil {
							continue
						}
						if _, f, ok := fieldRead(stripConv(cv)); ok && e.fields[f] {
							si.ctrlFlds[f] = x
							si.bits[f] = c15orBit(x, idom, a)
						}
					}
				}
			}
			for _, ed := range x.Edges {
				walk(ed, d+1)
			}
			return
		case *ssa.Alloc, *ssa.MakeSlice:
			for _, w := range writers[v] {
				walk(w, d+1)
			}
		}
		if in, ok := v.(ssa.Instruction); ok {
			for _, op := range in.Operands(nil) {
				if *op != nil {
					walk(*op, d+1)
				}
			}
		}
	}
	walk(v, 0)
	return si
}

// c15orBit: phi merges (prev, prev|k) under `if cond`: returns k when the OR-ed value arrives from the
// side on which the plain boolean condition is true, else -1.
func c15orBit(phi *ssa.Phi, ifBlock *ssa.BasicBlock, a Atom) int64 {
	if a.Op != token.ILLEGAL {
		return -1
	}
	onSucc := 0
	if a.Neg {
		onSucc = 1
	}
	for i, ed := range phi.Edges {
		or, ok := ed.(*ssa.BinOp)
		if !ok || or.Op != token.OR {
			continue
		}
		k, isC := constInt(or.Y)
		if !isC {
			k, isC = constInt(or.X)
		}
		if !isC {
			continue
		}
		if phi.Block().Preds[i] == ifBlock.Succs[onSucc] && or.Block() == ifBlock.Succs[onSucc] {
			return k
		}
	}
	return -1
}

func (si *c15sliceInfo) fieldsAll() map[*types.Var]bool {
	out := map[*types.Var]bool{}
	for f := range si.dataFlds {
		out[f] = true
	}
	for f := range si.ctrlFlds {
		out[f] = true
	}
	return out
}

// ---------------------------------------------------------------------------
// blob layout items

type c15lin struct { // c + v (v nil = constant)
	c  int64
	v  ssa.Value
	ok bool
}

func c15add(a, b c15lin) c15lin {
	if !a.ok || !b.ok || (a.v != nil && b.v != nil) {
		return c15lin{}
	}
	v := a.v
	if v == nil {
		v = b.v
	}
	return c15lin{a.c + b.c, v, true}
}

func c15sub(a, b c15lin) c15lin {
	if !a.ok || !b.ok {
		return c15lin{}
	}
	if b.v == nil {
		return c15lin{a.c - b.c, a.v, true}
	}
	if a.v == b.v {
		return c15lin{a.c - b.c, nil, true}
	}
	return c15lin{}
}

type c15item struct {
	width  int64 // -1 = uint16-length-prefixed variable field
	off    int64 // importer: absolute offset (fixed part), -1 otherwise
	val    ssa.Value
	instr  ssa.Instruction
	fields map[*types.Var]bool
	konst  string // constant written / compared (magic, version) when known
	note   string
}

func c15isGlobalLoad(v ssa.Value, pkg, name string) bool {
	ld, ok := stripConv(v).(*ssa.UnOp)
	if !ok || ld.Op != token.MUL {
		return false
	}
	g, ok := ld.X.(*ssa.Global)
	return ok && g.Pkg != nil && g.Pkg.Pkg.Path() == pkg && g.Name() == name
}

func c15calleeIs(call ssa.CallInstruction, pkg, name string) bool {
	o := calleeObj(call)
	return o != nil && o.Pkg() != nil && o.Pkg().Path() == pkg && o.Name() == name
}

func c15isBuiltin(v ssa.Value, name string) (*ssa.Call, bool) {
	call, ok := v.(*ssa.Call)
	if !ok {
		return nil, false
	}
	b, ok := call.Call.Value.(*ssa.Builtin)
	if !ok || b.Name() != name {
		return nil, false
	}
	return call, true
}

// c15guardedLen: the constant k such that fn refuses (error return) unless len(s.f) == k.
func (c *Ctx) c15guardedLen(fn *ssa.Function, f *types.Var) (int64, bool) {
	for _, b := range fn.Blocks {
		ifi := blockIf(b)
		if ifi == nil {
			continue
		}
		a := condAtom(ifi.Cond)
		if a.Op != token.NEQ && a.Op != token.EQL {
			continue
		}
		call, ok := c15isBuiltin(a.X, "len")
		if !ok || !readsField(call.Call.Args[0], f) {
			continue
		}
		k, isC := constInt(a.Y)
		if !isC {
			continue
		}
		neq := a.Op == token.NEQ
		if a.Neg {
			neq = !neq
		}
		bad := Edge{b, 1}
		if neq {
			bad = Edge{b, 0}
		}
		// the "different length" edge must not reach a success return
		reach := false
		for _, t := range c.successTargets(fn) {
			if len(bad.To().Instrs) > 0 && findPath(Point{bad.To(), 0}, t.Target(), nil) != nil {
				reach = true
			}
		}
		if !reach {
			return k, true
		}
	}
	return 0, false
}

// c15exportItems extracts the sequence of items ExportCryptoState writes into its blob buffer.
func (c *Ctx) c15exportItems(e *c15env) (items []c15item, problems []string) {
	fn := e.exp
	// the buffer: success returns give buf.Bytes()
	var cell ssa.Value
	for _, t := range c.successTargets(fn) {
		call, ok := t.Ret.Results[0].(*ssa.Call)
		if !ok || !c15calleeIs(call, "bytes", "Bytes") {
			return nil, []string{"a success return does not return buf.Bytes()"}
		}
		v := call.Call.Args[0]
		if ld, ok := v.(*ssa.UnOp); ok && ld.Op == token.MUL {
			v = ld.X
		}
		if cell != nil && cell != v {
			return nil, []string{"success returns use different buffers"}
		}
		cell = v
	}
	if cell == nil {
		return nil, []string{"no success return"}
	}
	isBuf := func(v ssa.Value) bool {
		v = stripConv(v)
		if v == cell {
			return true
		}
		ld, ok := v.(*ssa.UnOp)
		return ok && ld.Op == token.MUL && ld.X == cell
	}
	var block *ssa.BasicBlock
	// item of one write call; inClosure: the closure's parameter (var16 pattern extraction)
	one := func(f *ssa.Function, call ssa.CallInstruction, isB func(ssa.Value) bool) (*c15item, string) {
		cc := call.Common()
		switch {
		case !cc.IsInvoke() && len(cc.Args) >= 1 && isB(cc.Args[0]) && calleeObj(call) != nil && calleeObj(call).Pkg() != nil && calleeObj(call).Pkg().Path() == "bytes":
			switch calleeObj(call).Name() {
			case "WriteString":
				if s, ok := constString(cc.Args[1]); ok {
					return &c15item{width: int64(len(s)), val: cc.Args[1], instr: call, konst: s}, ""
				}
				return nil, "WriteString of a non-constant"
			case "WriteByte":
				return &c15item{width: 1, val: cc.Args[1], instr: call}, ""
			case "Write":
				d := cc.Args[1]
				if sl, ok := d.(*ssa.Slice); ok && sl.Low == nil && sl.High == nil {
					if pt, ok := sl.X.Type().Underlying().(*types.Pointer); ok {
						if arr, ok := pt.Elem().Underlying().(*types.Array); ok {
							return &c15item{width: arr.Len(), val: d, instr: call}, ""
						}
					}
				}
				if _, fld, ok := fieldRead(d); ok && e.fields[fld] {
					if k, ok := c.c15guardedLen(fn, fld); ok {
						return &c15item{width: k, val: d, instr: call}, ""
					}
					return nil, "Write of " + fld.Name() + " whose length is not pinned by a refusal test"
				}
				return &c15item{width: -2, val: d, instr: call}, "" // raw data of unknown width (only legal inside the var16 closure)
			case "Len", "Bytes", "Cap":
				return nil, ""
			}
			return nil, "unmodelled bytes.Buffer method " + calleeObj(call).Name()
		case c15calleeIs(call, "encoding/binary", "Write") && len(cc.Args) == 3 && isB(cc.Args[0]):
			if !c15isGlobalLoad(cc.Args[1], "encoding/binary", "BigEndian") {
				return nil, "binary.Write with a byte order other than binary.BigEndian"
			}
			mi, ok := cc.Args[2].(*ssa.MakeInterface)
			if !ok {
				return nil, "binary.Write of a non-concrete value"
			}
			b, ok := mi.X.Type().Underlying().(*types.Basic)
			if !ok || b.Info()&types.IsInteger == 0 {
				return nil, "binary.Write of a non-integer"
			}
			w := int64(types.SizesFor("gc", "amd64").Sizeof(b))
			it := &c15item{width: w, val: mi.X, instr: call}
			if k, ok := constInt(mi.X); ok {
				it.konst = "int:" + strconv.FormatInt(k, 10)
			}
			return it, ""
		}
		return nil, ""
	}
	for _, b := range fn.Blocks {
		for _, in := range b.Instrs {
			call, ok := in.(ssa.CallInstruction)
			if !ok {
				continue
			}
			var it *c15item
			why := ""
			if mc, ok := call.Common().Value.(*ssa.MakeClosure); ok {
				g := mc.Fn.(*ssa.Function)
				bi := -1
				for i, bnd := range mc.Bindings {
					if bnd == cell {
						bi = i
					}
				}
				if bi < 0 {
					continue
				}
				fv := g.FreeVars[bi]
				isB := func(v ssa.Value) bool {
					ld, ok := stripConv(v).(*ssa.UnOp)
					return ok && ld.Op == token.MUL && ld.X == ssa.Value(fv)
				}
				// the closure must be: binary.Write(buf, BigEndian, uint16(len(p))); buf.Write(p)
				var inner []*c15item
				for _, gb := range g.Blocks {
					for _, gin := range gb.Instrs {
						if gc, ok := gin.(ssa.CallInstruction); ok {
							x, w := one(g, gc, isB)
							if w != "" {
								why = w
							}
							if x != nil {
								inner = append(inner, x)
							}
						}
					}
				}
				okShape := why == "" && len(g.Blocks) == 1 && len(inner) == 2 && len(g.Params) == 1 && inner[0].width == 2 && inner[1].width == -2 && inner[1].val == ssa.Value(g.Params[0])
				if okShape {
					cv, isConv := inner[0].val.(*ssa.Convert)
					okShape = isConv
					if isConv {
						l, isLen := c15isBuiltin(cv.X, "len")
						okShape = isLen && l.Call.Args[0] == ssa.Value(g.Params[0])
					}
				}
				if !okShape {
					problems = append(problems, "closure "+fnName(g)+" is not the uint16-length-prefixed writer (binary.Write(buf, BigEndian, uint16(len(b))); buf.Write(b)) "+why)
					continue
				}
				it = &c15item{width: -1, val: call.Common().Args[0], instr: call}
			} else {
				it, why = one(fn, call, isBuf)
				if why != "" {
					problems = append(problems, why)
				}
				if it != nil && it.width == -2 {
					problems = append(problems, "a Write of data whose width is unknown")
					it = nil
				}
			}
			if it == nil {
				continue
			}
			if block != nil && block != b {
				problems = append(problems, "blob writes are spread over several basic blocks")
			}
			block = b
			it.off = -1
			it.fields = e.c15slice(fn, it.val).fieldsAll()
			items = append(items, *it)
		}
	}
	return
}

// c15importItems walks the success path of NewStreamWithCryptoState with a tiny abstract interpreter for the
// offset cell and returns the sequence of blob reads (fixed offsets, then the uint16-prefixed closure reads).
func (c *Ctx) c15importItems(e *c15env) (items []c15item, problems []string, blobCell ssa.Value, stores map[*types.Var][]*ssa.Store, unchecked []string) {
	fn := e.imp
	stores = map[*types.Var][]*ssa.Store{}
	if len(fn.Params) != 2 {
		return nil, []string{"unexpected signature"}, nil, stores, nil
	}
	blob := ssa.Value(fn.Params[1])
	// blob may live in a cell because the closure captures it
	blobCell = blob
	for _, r := range *blob.Referrers() {
		if st, ok := r.(*ssa.Store); ok && st.Val == blob {
			if al, ok := st.Addr.(*ssa.Alloc); ok {
				blobCell = al
			}
		}
	}
	isBlob := func(v ssa.Value) bool {
		if v == blob {
			return true
		}
		ld, ok := v.(*ssa.UnOp)
		return ok && ld.Op == token.MUL && ld.X == blobCell
	}
	allInstrs(fn, func(_ *ssa.BasicBlock, _ int, in ssa.Instruction) {
		if st, ok := in.(*ssa.Store); ok {
			if fa, ok := st.Addr.(*ssa.FieldAddr); ok {
				if f := e.c15fieldOf(fa); f != nil {
					stores[f] = append(stores[f], st)
				}
			}
		}
	})
	cells := map[ssa.Value]c15lin{}
	var eval func(v ssa.Value) c15lin
	eval = func(v ssa.Value) c15lin {
		if k, ok := v.(*ssa.Const); ok {
			if i, ok := constInt(k); ok {
				return c15lin{i, nil, true}
			}
		}
		switch x := v.(type) {
		case *ssa.UnOp:
			if x.Op == token.MUL {
				if l, ok := cells[x.X]; ok {
					return l
				}
			}
		case *ssa.BinOp:
			if x.Op == token.ADD {
				return c15add(eval(x.X), eval(x.Y))
			}
		case *ssa.Convert:
			return eval(x.X)
		}
		return c15lin{0, v, true}
	}
	// closure analysis: relative layout [uint16 n][n bytes], off advanced by 2+n
	closureOK := func(mc *ssa.MakeClosure) string {
		g := mc.Fn.(*ssa.Function)
		var offFV, blobFV ssa.Value
		for i, b := range mc.Bindings {
			if b == blobCell {
				blobFV = g.FreeVars[i]
			} else if _, tracked := cells[b]; tracked {
				offFV = g.FreeVars[i]
			}
		}
		if offFV == nil || blobFV == nil {
			return "the closure does not capture the blob and the offset"
		}
		saved := cells
		cells = map[ssa.Value]c15lin{offFV: {0, nil, true}}
		defer func() { cells = saved }()
		gIsBlob := func(v ssa.Value) bool {
			ld, ok := v.(*ssa.UnOp)
			return ok && ld.Op == token.MUL && ld.X == blobFV
		}
		type rd struct {
			low, width c15lin
			sl         *ssa.Slice
		}
		var reads []rd
		var bounds []c15lin // values known <= len(blob) on the path walked
		isLenBlob := func(v ssa.Value) bool {
			l, ok := c15isBuiltin(v, "len")
			return ok && gIsBlob(l.Call.Args[0])
		}
		cur := g.Blocks[0]
		seen := map[*ssa.BasicBlock]bool{}
		for cur != nil && !seen[cur] {
			seen[cur] = true
			var next *ssa.BasicBlock
			for _, in := range cur.Instrs {
				switch x := in.(type) {
				case *ssa.Store:
					if x.Addr == offFV {
						cells[offFV] = eval(x.Val)
					}
				case *ssa.Slice:
					if gIsBlob(x.X) {
						low := c15lin{0, nil, true}
						if x.Low != nil {
							low = eval(x.Low)
						}
						if x.High == nil {
							return "open-ended slice of the blob in the closure"
						}
						high := eval(x.High)
						checked := false
						for _, b := range bounds {
							if b == high {
								checked = true
							}
						}
						if !checked {
							unchecked = append(unchecked, "the closure slices the blob at "+c.Pos(x.Pos())+" without first testing the upper bound against len(blob)")
						}
						reads = append(reads, rd{low, c15sub(high, low), x})
					}
				case *ssa.If:
					var can []*ssa.BasicBlock
					for _, s := range cur.Succs {
						for _, t := range c.successTargets(g) {
							if len(s.Instrs) > 0 && findPath(Point{s, 0}, t.Target(), nil) != nil {
								can = append(can, s)
								break
							}
						}
					}
					if len(can) != 1 {
						return "cannot follow the closure's success path"
					}
					next = can[0]
					a := condAtom(x.Cond)
					if !a.Neg && a.Op == token.GTR && isLenBlob(a.Y) && next == cur.Succs[1] {
						bounds = append(bounds, eval(a.X))
					}
					if !a.Neg && a.Op == token.LEQ && isLenBlob(a.Y) && next == cur.Succs[0] {
						bounds = append(bounds, eval(a.X))
					}
				case *ssa.Jump:
					next = cur.Succs[0]
				}
			}
			cur = next
		}
		if len(reads) != 2 {
			return "the closure does not read exactly a length and a body from the blob"
		}
		var n ssa.Value
		for _, r := range *reads[0].sl.Referrers() {
			if call, ok := r.(*ssa.Call); ok && c15calleeIs(call, "encoding/binary", "Uint16") && c15isGlobalLoad(call.Call.Args[0], "encoding/binary", "BigEndian") {
				n = call
			}
		}
		z := c15lin{0, nil, true}
		two := c15lin{2, nil, true}
		if n == nil || reads[0].low != z || reads[0].width != two {
			return "the closure does not decode a big-endian uint16 length at the current offset"
		}
		if reads[1].low != two || reads[1].width != (c15lin{0, n, true}) {
			return "the closure's body read is not [off+2, off+2+n)"
		}
		if cells[offFV] != (c15lin{2, n, true}) {
			return "the closure does not advance the offset by 2+n"
		}
		// the body must be what the closure returns
		for _, t := range c.successTargets(g) {
			if !mustDepend(g, t.Ret.Results[0], func(v ssa.Value) bool { return v == ssa.Value(reads[1].sl) }) {
				return "the closure does not return the body it read"
			}
		}
		return ""
	}
	walked := map[*ssa.BasicBlock]bool{}
	cur := fn.Blocks[0]
	fixedDone := false
	for cur != nil && !walked[cur] {
		walked[cur] = true
		var next *ssa.BasicBlock
		for _, in := range cur.Instrs {
			switch x := in.(type) {
			case *ssa.Store:
				if al, ok := x.Addr.(*ssa.Alloc); ok && al != blobCell {
					if b, ok := al.Type().Underlying().(*types.Pointer).Elem().Underlying().(*types.Basic); ok && b.Info()&types.IsInteger != 0 {
						cells[al] = eval(x.Val)
					}
				}
			case *ssa.Slice:
				if !isBlob(x.X) {
					continue
				}
				low := c15lin{0, nil, true}
				if x.Low != nil {
					low = eval(x.Low)
				}
				if x.High == nil {
					problems = append(problems, "open-ended slice of the blob at "+c.Pos(x.Pos()))
					continue
				}
				w := c15sub(eval(x.High), low)
				if !low.ok || low.v != nil || !w.ok || w.v != nil || fixedDone {
					problems = append(problems, "blob read with a non-constant offset or width at "+c.Pos(x.Pos()))
					continue
				}
				items = append(items, c15item{width: w.c, off: low.c, val: x, instr: x})
			case *ssa.IndexAddr:
				if !isBlob(x.X) {
					continue
				}
				i := eval(x.Index)
				if !i.ok || i.v != nil || fixedDone {
					problems = append(problems, "blob index with a non-constant offset at "+c.Pos(x.Pos()))
					continue
				}
				items = append(items, c15item{width: 1, off: i.c, val: x, instr: x})
			case *ssa.Call:
				if mc, ok := x.Call.Value.(*ssa.MakeClosure); ok {
					uses := false
					for _, b := range mc.Bindings {
						if b == blobCell {
							uses = true
						}
					}
					if !uses {
						continue
					}
					if why := closureOK(mc); why != "" {
						problems = append(problems, why)
						continue
					}
					fixedDone = true
					items = append(items, c15item{width: -1, off: -1, val: extractN(x, 0), instr: x})
				}
			case *ssa.If:
				var can []*ssa.BasicBlock
				for _, s := range cur.Succs {
					for _, t := range c.successTargets(fn) {
						if len(s.Instrs) > 0 && findPath(Point{s, 0}, t.Target(), nil) != nil {
							can = append(can, s)
							break
						}
					}
				}
				if len(can) == 1 {
					next = can[0]
				}
			case *ssa.Jump:
				next = cur.Succs[0]
			}
		}
		cur = next
	}
	// no blob read may live in a block that was not walked but can still reach a success return
	for _, b := range fn.Blocks {
		if walked[b] {
			continue
		}
		live := false
		for _, t := range c.successTargets(fn) {
			if len(b.Instrs) > 0 && findPath(Point{b, 0}, t.Target(), nil) != nil {
				live = true
			}
		}
		if !live {
			continue
		}
		for _, in := range b.Instrs {
			switch x := in.(type) {
			case *ssa.Slice:
				if isBlob(x.X) {
					problems = append(problems, "blob read outside the straight-line prefix at "+c.Pos(x.Pos()))
				}
			case *ssa.IndexAddr:
				if isBlob(x.X) {
					problems = append(problems, "blob read outside the straight-line prefix at "+c.Pos(x.Pos()))
				}
			case *ssa.Call:
				if mc, ok := x.Call.Value.(*ssa.MakeClosure); ok {
					for _, bnd := range mc.Bindings {
						if bnd == blobCell {
							problems = append(problems, "blob read (closure) outside the straight-line prefix at "+c.Pos(x.Pos()))
						}
					}
				}
			}
		}
	}
	// destination fields per item
	for i := range items {
		items[i].fields = map[*types.Var]bool{}
		iv := items[i].val
		if iv == nil {
			continue
		}
		for f, sts := range stores {
			for _, st := range sts {
				if mustDepend(fn, st.Val, func(v ssa.Value) bool { return v == iv }) {
					items[i].fields[f] = true
				}
			}
		}
		// constants the item is compared with (magic / version)
		var scan func(v ssa.Value, d int)
		scan = func(v ssa.Value, d int) {
			if d > 4 {
				return
			}
			for _, r := range *v.Referrers() {
				switch u := r.(type) {
				case *ssa.Convert:
					scan(u, d+1)
				case *ssa.Call:
					if c15calleeIs(u, "encoding/binary", "Uint16") || c15calleeIs(u, "encoding/binary", "Uint32") {
						scan(u, d+1)
					}
				case *ssa.BinOp:
					if u.Op == token.NEQ || u.Op == token.EQL {
						if s, ok := constString(u.Y); ok {
							items[i].konst = s
						} else if k, ok := constInt(u.Y); ok {
							items[i].konst = "int:" + strconv.FormatInt(k, 10)
						}
					}
				}
			}
		}
		scan(iv, 0)
	}
	return
}

// c15bitOfStore: the store assigns (x & k) != 0 (or == k): returns k, else -1.
func c15bitOfStore(st *ssa.Store) int64 {
	cmp, ok := st.Val.(*ssa.BinOp)
	if !ok {
		return -1
	}
	and, ok := cmp.X.(*ssa.BinOp)
	if !ok || and.Op != token.AND {
		return -1
	}
	k, isC := constInt(and.Y)
	if !isC {
		return -1
	}
	r, isR := constInt(cmp.Y)
	if !isR {
		return -1
	}
	if (cmp.Op == token.NEQ && r == 0) || (cmp.Op == token.EQL && r == k) {
		return k
	}
	return -1
}

// c15cleanEdges: the edges of fn on which Stream field f is known "clean": false, 0, nil or of length 0.
func c15cleanEdges(fn *ssa.Function, f *types.Var) (clean, dirty []Edge) {
	off, on := fieldCondEdges(fn, f)
	clean = append(clean, off...)
	dirty = append(dirty, on...)
	for _, b := range fn.Blocks {
		ifi := blockIf(b)
		if ifi == nil {
			continue
		}
		a := condAtom(ifi.Cond)
		if a.Op == token.ILLEGAL {
			continue
		}
		x := stripConv(a.X)
		if l, ok := c15isBuiltin(x, "len"); ok {
			x = l.Call.Args[0]
		} else if isNilConst(a.Y) {
			continue // handled by fieldCondEdges
		}
		if !readsField(x, f) {
			continue
		}
		k, isC := constInt(a.Y)
		if !isC || k != 0 {
			continue
		}
		var zeroOnTrue bool
		switch a.Op {
		case token.EQL, token.LEQ:
			zeroOnTrue = true
		case token.NEQ, token.GTR:
			zeroOnTrue = false
		default:
			continue
		}
		if a.Neg {
			zeroOnTrue = !zeroOnTrue
		}
		if zeroOnTrue {
			clean, dirty = append(clean, Edge{b, 0}), append(dirty, Edge{b, 1})
		} else {
			clean, dirty = append(clean, Edge{b, 1}), append(dirty, Edge{b, 0})
		}
	}
	return
}
