package main

import (
	"go/token"
	"go/types"
	"sort"
	"strconv"
	"strings"

	"golang.org/x/tools/go/ssa"
)

// Helpers of the C15 rules (crypto-state export / import). Names are prefixed c15.

type c15env struct {
	ok     bool
	pkg    *types.Package
	fields map[*types.Var]bool // the fields of stream.Stream
	byName map[string]*types.Var
	exp    *ssa.Function // (*Stream).ExportCryptoState
	imp    *ssa.Function // NewStreamWithCryptoState
}

func (c *Ctx) c15load(rule string) *c15env {
	e := &c15env{fields: map[*types.Var]bool{}, byName: map[string]*types.Var{}}
	e.pkg = c.PkgTypes("stream")
	e.exp = c.needFn(rule, "stream", "(*Stream).ExportCryptoState")
	e.imp = c.needFn(rule, "stream", "NewStreamWithCryptoState")
	if e.pkg == nil {
		c.AnchorMissing(rule, "stream")
		return e
	}
	tn := e.pkg.Scope().Lookup("Stream")
	if tn == nil {
		c.AnchorMissing(rule, "stream.Stream")
		return e
	}
	st, ok := tn.Type().Underlying().(*types.Struct)
	if !ok {
		c.AnchorMissing(rule, "stream.Stream (struct)")
		return e
	}
	for i := 0; i < st.NumFields(); i++ {
		e.fields[st.Field(i)] = true
		e.byName[st.Field(i).Name()] = st.Field(i)
	}
	e.ok = e.exp != nil && e.imp != nil
	return e
}

// c15fieldOf returns the Stream field an instruction addresses/reads (FieldAddr or Field), or nil.
func (e *c15env) c15fieldOf(in ssa.Instruction) *types.Var {
	switch x := in.(type) {
	case *ssa.FieldAddr:
		if f := fieldOfAddr(x); e.fields[f] {
			return f
		}
	case *ssa.Field:
		if f := x.X.Type().Underlying().(*types.Struct).Field(x.Field); e.fields[f] {
			return f
		}
	}
	return nil
}

// c15classify: is the field address read through, written through (same conventions as Prog.fieldAccesses).
func c15classify(fa *ssa.FieldAddr) (read, write bool) {
	for _, r := range *fa.Referrers() {
		switch u := r.(type) {
		case *ssa.Store:
			if u.Addr == fa {
				write = true
			} else {
				read, write = true, true
			}
		case *ssa.UnOp:
			read = true
		case *ssa.Slice, *ssa.IndexAddr, *ssa.FieldAddr:
			w, rd := addrUses(u.(ssa.Value))
			write = write || w
			read = read || rd
		case ssa.CallInstruction:
			read, write = true, true
		case *ssa.DebugRef:
		default:
			read = true
		}
	}
	return
}

// c15rw lists, per Stream field, the instructions of fn that read resp. write it.
type c15rwSet struct {
	reads, writes map[*types.Var][]ssa.Instruction
}

func (e *c15env) c15rw(fn *ssa.Function) c15rwSet {
	s := c15rwSet{map[*types.Var][]ssa.Instruction{}, map[*types.Var][]ssa.Instruction{}}
	allInstrs(fn, func(_ *ssa.BasicBlock, _ int, in ssa.Instruction) {
		f := e.c15fieldOf(in)
		if f == nil {
			return
		}
		if fa, ok := in.(*ssa.FieldAddr); ok {
			r, w := c15classify(fa)
			if r {
				s.reads[f] = append(s.reads[f], in)
			}
			if w {
				s.writes[f] = append(s.writes[f], in)
			}
			return
		}
		s.reads[f] = append(s.reads[f], in)
	})
	return s
}

// c15condReads: the Stream fields read directly in branch conditions of fn.
func (e *c15env) c15condReads(fn *ssa.Function) map[*types.Var]bool {
	out := map[*types.Var]bool{}
	for _, b := range fn.Blocks {
		ifi := blockIf(b)
		if ifi == nil {
			continue
		}
		a := condAtom(ifi.Cond)
		for _, v := range []ssa.Value{a.X, a.Y} {
			if v == nil {
				continue
			}
			if _, f, ok := fieldRead(stripConv(v)); ok && e.fields[f] {
				out[f] = true
			}
		}
	}
	return out
}

func c15sortedFields(m map[*types.Var]bool) []*types.Var {
	var out []*types.Var
	for f := range m {
		out = append(out, f)
	}
	sort.Slice(out, func(i, j int) bool { return out[i].Name() < out[j].Name() })
	return out
}

// ---------------------------------------------------------------------------
// frames: the exporter / importer and the same-package helpers and closures they delegate to. A rule that
// looks for a write to the blob buffer, a read of the blob, a refusal test or a field store follows static
// calls into helpers with the helper's parameters (and a closure's free variables) bound to the values of
// the calling frame, so that extracting a step into a helper, or inlining one, does not change what is seen.

type c15frame struct {
	fn     *ssa.Function
	site   ssa.CallInstruction // the call in parent.fn through which fn is entered (nil at the root)
	parent *c15frame
}

func (fr *c15frame) depth() int {
	n := 0
	for f := fr; f.parent != nil; f = f.parent {
		n++
	}
	return n
}

// rootSite: the call in the root function through which this frame is (transitively) entered.
func (fr *c15frame) rootSite() ssa.CallInstruction {
	f := fr
	for f.parent != nil && f.parent.parent != nil {
		f = f.parent
	}
	return f.site
}

// bind: the value of the calling frame that parameter / free variable v of fr.fn stands for.
func (fr *c15frame) bind(v ssa.Value) (ssa.Value, bool) {
	if fr.parent == nil || fr.site == nil {
		return nil, false
	}
	switch x := v.(type) {
	case *ssa.Parameter:
		args := fr.site.Common().Args
		for i, p := range fr.fn.Params {
			if p == x && i < len(args) {
				return args[i], true
			}
		}
	case *ssa.FreeVar:
		if mc, ok := fr.site.Common().Value.(*ssa.MakeClosure); ok {
			for i, fv := range fr.fn.FreeVars {
				if fv == x && i < len(mc.Bindings) {
					return mc.Bindings[i], true
				}
			}
		}
	}
	return nil, false
}

// child: the frame of the static same-package callee of call (nil when there is none or the chain is too deep
// or recursive).
func (e *c15env) child(fr *c15frame, call ssa.CallInstruction) *c15frame {
	g := calleeFn(call)
	if g == nil || g.Blocks == nil || fnPkg(g) != e.pkg || fr.depth() >= 3 {
		return nil
	}
	if _, isGo := call.(*ssa.Go); isGo {
		return nil
	}
	for f := fr; f != nil; f = f.parent {
		if f.fn == g {
			return nil
		}
	}
	return &c15frame{fn: g, site: call, parent: fr}
}

// cellOf: the local cell (Alloc of some frame on the chain) that address addr denotes: an Alloc, a closure's
// free variable bound to one, or a pointer parameter handed one.
func (fr *c15frame) cellOf(addr ssa.Value) ssa.Value {
	switch a := addr.(type) {
	case *ssa.Alloc:
		return a
	case *ssa.FreeVar, *ssa.Parameter:
		if up, ok := fr.bind(a); ok {
			return fr.parent.cellOf(up)
		}
	}
	return nil
}

// c15dep: does v (of frame fr) depend on a value satisfying pred, looking through helper results, helper
// parameters (the argument of the calling frame) and captured variables?
func (c *Ctx) c15dep(fr *c15frame, v ssa.Value, pred func(ssa.Value) bool, depth int) bool {
	if depth > 6 || fr == nil {
		return false
	}
	return c.mustDependDeep(fr.fn, v, func(x ssa.Value) bool {
		if pred(x) {
			return true
		}
		if up, ok := fr.bind(x); ok {
			return c.c15dep(fr.parent, up, pred, depth+1)
		}
		return false
	})
}

// ---------------------------------------------------------------------------
// facts on control-flow edges, followed through local booleans, predicates and error-returning helpers

// c15test: does atom a (evaluated in frame fr) establish the fact when it is true (onTrue) / false (onFalse)?
type c15test func(fr *c15frame, a Atom) (onTrue, onFalse bool)

// factCuts returns the edges of fr.fn on which the fact holds: branches whose condition is a matching atom;
// branches on a boolean phi, per incoming value ("ok := a && b; if !ok": cut only for paths that enter
// through the predecessor that evaluated the matching atom); branches on a same-package predicate every
// matching return of which establishes the fact; nil-error edges of same-package helpers every success
// return of which passes such an edge.
func (e *c15env) factCuts(p *Prog, fr *c15frame, test c15test, depth int) *Cuts {
	cuts := newCuts()
	fn := fr.fn
	var addCond func(v ssa.Value, t, f Edge, via *ssa.BasicBlock, d int)
	addCond = func(v ssa.Value, t, f Edge, via *ssa.BasicBlock, d int) {
		if d > 3 {
			return
		}
		for {
			u, ok := v.(*ssa.UnOp)
			if !ok || u.Op != token.NOT {
				break
			}
			v, t, f = u.X, f, t
		}
		add := func(ed Edge) {
			if via != nil {
				cuts.AddVia(via, ed)
			} else {
				cuts.AddEdges(ed)
			}
		}
		switch x := v.(type) {
		case *ssa.Phi:
			if via == nil && x.Block() == t.From {
				for i, ev := range x.Edges {
					if _, isC := ev.(*ssa.Const); !isC {
						addCond(ev, t, f, x.Block().Preds[i], d+1)
					}
				}
			}
			return
		case *ssa.Call:
			if ch := e.child(fr, x); ch != nil && depth > 0 && e.sameStream(fr, x) {
				if e.boolHelper(p, ch, true, test, depth-1) {
					add(t)
				}
				if e.boolHelper(p, ch, false, test, depth-1) {
					add(f)
				}
			}
		}
		onT, onF := test(fr, condAtom(v))
		if onT {
			add(t)
		}
		if onF {
			add(f)
		}
	}
	for _, b := range fn.Blocks {
		if ifi := blockIf(b); ifi != nil && len(b.Succs) == 2 && b.Succs[0] != b.Succs[1] {
			addCond(ifi.Cond, Edge{b, 0}, Edge{b, 1}, nil, 0)
		}
	}
	if depth > 0 {
		allInstrs(fn, func(_ *ssa.BasicBlock, _ int, in ssa.Instruction) {
			call, ok := in.(*ssa.Call)
			if !ok || len(errResults(call)) == 0 {
				return
			}
			ch := e.child(fr, call)
			if ch == nil || !e.sameStream(fr, call) || !e.onSuccess(p, ch, test, depth-1) {
				return
			}
			if succ, _, checked := callErrEdges(fn, call); checked {
				cuts.AddEdges(succ...)
			} else {
				only := true
				for _, ev := range errResults(call) {
					for _, r := range *ev.Referrers() {
						switch r.(type) {
						case *ssa.Return, *ssa.DebugRef:
						default:
							only = false
						}
					}
				}
				if only {
					cuts.AddInstrs(call) // "return helper(...)": succeeds only if the helper did
				}
			}
		})
	}
	return cuts
}

// sameStream: every *Stream the helper is handed is the calling function's own (a parameter of the same
// type): what the helper tests, it tests about the stream the caller's facts are about.
func (e *c15env) sameStream(fr *c15frame, call ssa.CallInstruction) bool {
	for _, a := range call.Common().Args {
		pt, ok := a.Type().Underlying().(*types.Pointer)
		if !ok {
			continue
		}
		nt, ok := pt.Elem().(*types.Named)
		if !ok || nt.Obj().Pkg() != e.pkg || nt.Obj().Name() != "Stream" {
			continue
		}
		if _, isParam := a.(*ssa.Parameter); !isParam {
			return false
		}
	}
	return true
}

// onSuccess: every (possibly) success return of fr.fn passes an edge on which the fact holds.
func (e *c15env) onSuccess(p *Prog, fr *c15frame, test c15test, depth int) bool {
	tg := p.successTargets(fr.fn)
	if len(tg) == 0 {
		return false
	}
	cuts := e.factCuts(p, fr, test, depth)
	for _, t := range tg {
		if findPath(entryPoint(fr.fn), t.Target(), cuts) != nil {
			return false
		}
	}
	return true
}

// boolHelper: whenever predicate fr.fn returns pol the fact holds: every return whose value may be pol is
// preceded by an edge that establishes it, or returns a condition that itself does.
func (e *c15env) boolHelper(p *Prog, fr *c15frame, pol bool, test c15test, depth int) bool {
	fn := fr.fn
	res := fn.Signature.Results()
	if res.Len() != 1 {
		return false
	}
	if b, ok := res.At(0).Type().Underlying().(*types.Basic); !ok || b.Info()&types.IsBoolean == 0 {
		return false
	}
	cuts := e.factCuts(p, fr, test, depth)
	any := false
	for _, ret := range c15rets(fn) {
		type tv struct {
			v    ssa.Value
			pred *ssa.BasicBlock
		}
		var tvs []tv
		if phi, ok := ret.Results[0].(*ssa.Phi); ok && phi.Block() == ret.Block() {
			for i, ev := range phi.Edges {
				tvs = append(tvs, tv{ev, phi.Block().Preds[i]})
			}
		} else {
			tvs = append(tvs, tv{ret.Results[0], nil})
		}
		for _, x := range tvs {
			if bv, isC := constBool(x.v); isC {
				if bv != pol {
					continue
				}
			} else {
				v, want := x.v, pol
				for {
					u, ok := v.(*ssa.UnOp)
					if !ok || u.Op != token.NOT {
						break
					}
					v, want = u.X, !want
				}
				onT, onF := test(fr, condAtom(v))
				if (want && onT) || (!want && onF) {
					any = true
					continue
				}
			}
			any = true
			if findPath(entryPoint(fn), Target{Instr: ret, Pred: x.pred}, cuts) != nil {
				return false
			}
		}
	}
	return any
}

func c15rets(fn *ssa.Function) []*ssa.Return {
	var out []*ssa.Return
	for _, b := range fn.Blocks {
		if len(b.Instrs) > 0 {
			if r, ok := b.Instrs[len(b.Instrs)-1].(*ssa.Return); ok {
				out = append(out, r)
			}
		}
	}
	return out
}

// mustPass: every success return of the root function passes an edge on which the fact holds; otherwise a
// witness path.
func (c *Ctx) c15mustPass(e *c15env, fn *ssa.Function, test c15test) (bool, []*ssa.BasicBlock, *ssa.Return) {
	cuts := e.factCuts(c.Prog, &c15frame{fn: fn}, test, 3)
	for _, t := range c.successTargets(fn) {
		if p := findPath(entryPoint(fn), t.Target(), cuts); p != nil {
			return false, p, t.Ret
		}
	}
	return true, nil, nil
}

// c15fieldOn: the atom establishes that field f (of any base) is true / non-nil.
func c15fieldOn(f *types.Var) c15test {
	return func(_ *c15frame, a Atom) (bool, bool) {
		switch a.Op {
		case token.ILLEGAL:
			if readsField(a.X, f) {
				return !a.Neg, a.Neg
			}
		case token.EQL, token.NEQ:
			var other ssa.Value
			if readsField(a.X, f) {
				other = a.Y
			} else if readsField(a.Y, f) {
				other = a.X
			} else {
				return false, false
			}
			if !isNilConst(other) {
				return false, false
			}
			eqNil := a.Op == token.EQL
			if a.Neg {
				eqNil = !eqNil
			}
			return !eqNil, eqNil
		}
		return false, false
	}
}

// c15fieldClean: the atom establishes that field f is false, nil, 0 or of length 0.
func c15fieldClean(f *types.Var) c15test {
	on := c15fieldOn(f)
	return func(fr *c15frame, a Atom) (bool, bool) {
		if t, fl := on(fr, a); t || fl {
			return fl, t
		}
		if a.Op == token.ILLEGAL {
			return false, false
		}
		x := stripConv(a.X)
		if l, ok := c15isBuiltin(x, "len"); ok {
			x = l.Call.Args[0]
		} else if isNilConst(a.Y) {
			return false, false
		}
		if !readsField(x, f) {
			return false, false
		}
		k, isC := constInt(a.Y)
		if !isC || k != 0 {
			return false, false
		}
		var zeroOnTrue bool
		switch a.Op {
		case token.EQL, token.LEQ:
			zeroOnTrue = true
		case token.NEQ, token.GTR:
			zeroOnTrue = false
		default:
			return false, false
		}
		if a.Neg {
			zeroOnTrue = !zeroOnTrue
		}
		return zeroOnTrue, !zeroOnTrue
	}
}

// c15lenIs: the atom establishes len(s.f) == k.
func c15lenIs(f *types.Var, k int64) c15test {
	return func(_ *c15frame, a Atom) (bool, bool) {
		if a.Op != token.NEQ && a.Op != token.EQL {
			return false, false
		}
		call, ok := c15isBuiltin(a.X, "len")
		if !ok || !readsField(call.Call.Args[0], f) {
			return false, false
		}
		if kk, isC := constInt(a.Y); !isC || kk != k {
			return false, false
		}
		eq := a.Op == token.EQL
		if a.Neg {
			eq = !eq
		}
		return eq, !eq
	}
}

// ---------------------------------------------------------------------------
// backward slice of a value: data operands, phi inputs, stores into local cells and buffers; plus the fields
// that *control* a phi of the slice (if f { x |= bit } idiom). The slice continues through the results of
// same-package helpers (what they return) and through helper parameters (the argument of the calling frame).

type c15sliceInfo struct {
	seen     map[ssa.Value]bool
	dataFlds map[*types.Var]bool     // fields whose value flows into v
	ctrlFlds map[*types.Var]*ssa.Phi // fields tested by the If that immediately dominates a phi of the slice
	bits     map[*types.Var]int64    // for ctrl fields: the constant OR-ed in on the field's true side (-1 unknown)
}

func (e *c15env) c15slice(fn *ssa.Function, v ssa.Value) *c15sliceInfo {
	return e.c15sliceFr(&c15frame{fn: fn}, v)
}

func c15writersOf(fn *ssa.Function) map[ssa.Value][]ssa.Value {
	writers := map[ssa.Value][]ssa.Value{}
	allInstrs(fn, func(_ *ssa.BasicBlock, _ int, in ssa.Instruction) {
		switch x := in.(type) {
		case *ssa.Store:
			r := memRoot(x.Addr)
			if _, isFA := r.(*ssa.FieldAddr); !isFA {
				writers[r] = append(writers[r], x.Val)
			}
		case ssa.CallInstruction:
			args := callArgs(x)
			for i, a := range args {
				r := memRoot(a)
				switch r.(type) {
				case *ssa.Alloc, *ssa.MakeSlice:
					for j, o := range args {
						if j != i {
							writers[r] = append(writers[r], o)
						}
					}
				}
			}
		}
	})
	return writers
}

func (e *c15env) c15sliceFr(root *c15frame, v ssa.Value) *c15sliceInfo {
	si := &c15sliceInfo{map[ssa.Value]bool{}, map[*types.Var]bool{}, map[*types.Var]*ssa.Phi{}, map[*types.Var]int64{}}
	if root == nil {
		return si
	}
	wcache := map[*ssa.Function]map[ssa.Value][]ssa.Value{}
	writers := func(fn *ssa.Function) map[ssa.Value][]ssa.Value {
		if w, ok := wcache[fn]; ok {
			return w
		}
		w := c15writersOf(fn)
		wcache[fn] = w
		return w
	}
	var walk func(fr *c15frame, v ssa.Value, d int)
	walk = func(fr *c15frame, v ssa.Value, d int) {
		if v == nil || si.seen[v] || d > 80 {
			return
		}
		si.seen[v] = true
		if in, ok := v.(ssa.Instruction); ok {
			if f := e.c15fieldOf(in); f != nil {
				si.dataFlds[f] = true
			}
		}
		switch x := v.(type) {
		case *ssa.Parameter, *ssa.FreeVar:
			if up, ok := fr.bind(x); ok {
				walk(fr.parent, up, d+1)
			}
			return
		case *ssa.Phi:
			if idom := x.Block().Idom(); idom != nil {
				if ifi := blockIf(idom); ifi != nil {
					a := condAtom(ifi.Cond)
					for _, cv := range []ssa.Value{a.X, a.Y} {
						if cv == nil {
							continue
						}
						if _, f, ok := fieldRead(stripConv(cv)); ok && e.fields[f] {
							si.ctrlFlds[f] = x
							si.bits[f] = c15orBit(x, idom, a)
						}
					}
				}
			}
			for _, ed := range x.Edges {
				walk(fr, ed, d+1)
			}
			return
		case *ssa.Alloc, *ssa.MakeSlice:
			for _, w := range writers(fr.fn)[v] {
				walk(fr, w, d+1)
			}
		case *ssa.Extract:
			if call, ok := x.Tuple.(*ssa.Call); ok {
				if ch := e.child(fr, call); ch != nil {
					for _, r := range c15rets(ch.fn) {
						if x.Index < len(r.Results) {
							walk(ch, r.Results[x.Index], d+1)
						}
					}
				}
			}
		case *ssa.Call:
			if ch := e.child(fr, x); ch != nil {
				for _, r := range c15rets(ch.fn) {
					if len(r.Results) == 1 {
						walk(ch, r.Results[0], d+1)
					}
				}
			}
		}
		if in, ok := v.(ssa.Instruction); ok {
			for _, op := range in.Operands(nil) {
				if *op != nil {
					walk(fr, *op, d+1)
				}
			}
		}
	}
	walk(root, v, 0)
	return si
}

// c15orBit: phi merges (prev, prev|k) under `if cond`: returns k when the OR-ed value arrives from the
// side on which the plain boolean condition is true, else -1.
func c15orBit(phi *ssa.Phi, ifBlock *ssa.BasicBlock, a Atom) int64 {
	if a.Op != token.ILLEGAL {
		return -1
	}
	onSucc := 0
	if a.Neg {
		onSucc = 1
	}
	for i, ed := range phi.Edges {
		or, ok := ed.(*ssa.BinOp)
		if !ok || or.Op != token.OR {
			continue
		}
		k, isC := constInt(or.Y)
		if !isC {
			k, isC = constInt(or.X)
		}
		if !isC {
			continue
		}
		if phi.Block().Preds[i] == ifBlock.Succs[onSucc] && or.Block() == ifBlock.Succs[onSucc] {
			return k
		}
	}
	return -1
}

func (si *c15sliceInfo) fieldsAll() map[*types.Var]bool {
	out := map[*types.Var]bool{}
	for f := range si.dataFlds {
		out[f] = true
	}
	for f := range si.ctrlFlds {
		out[f] = true
	}
	return out
}

// ---------------------------------------------------------------------------
// blob layout items

// c15lin: c + the sum of the symbols named in v ("" = constant). Symbols are the canonical names of
// SSA values (see c15sym); a sum is kept as the sorted, "+"-joined list of its symbols.
type c15lin struct {
	c  int64
	v  string
	ok bool
}

var c15symIDs = map[ssa.Value]string{}

// c15sym: the symbol standing for SSA value v.
func c15sym(v ssa.Value) string {
	if s, ok := c15symIDs[v]; ok {
		return s
	}
	s := "s" + strconv.Itoa(len(c15symIDs)+1)
	c15symIDs[v] = s
	return s
}

func c15syms(v string) []string {
	if v == "" {
		return nil
	}
	return strings.Split(v, "+")
}

func c15add(a, b c15lin) c15lin {
	if !a.ok || !b.ok {
		return c15lin{}
	}
	all := append(c15syms(a.v), c15syms(b.v)...)
	sort.Strings(all)
	return c15lin{a.c + b.c, strings.Join(all, "+"), true}
}

func c15sub(a, b c15lin) c15lin {
	if !a.ok || !b.ok {
		return c15lin{}
	}
	rest := c15syms(a.v)
	for _, s := range c15syms(b.v) {
		found := false
		for i, r := range rest {
			if r == s {
				rest = append(rest[:i:i], rest[i+1:]...)
				found = true
				break
			}
		}
		if !found {
			return c15lin{}
		}
	}
	return c15lin{a.c - b.c, strings.Join(rest, "+"), true}
}

type c15item struct {
	fr     *c15frame // the frame val and instr live in
	width  int64     // -1 = uint16-length-prefixed variable field
	off    int64     // importer: absolute offset (fixed part), -1 otherwise
	val    ssa.Value
	instr  ssa.Instruction
	fields map[*types.Var]bool
	konst  string // constant written / compared (magic, version) when known
	note   string
}

func c15isGlobalLoad(v ssa.Value, pkg, name string) bool {
	ld, ok := stripConv(v).(*ssa.UnOp)
	if !ok || ld.Op != token.MUL {
		return false
	}
	g, ok := ld.X.(*ssa.Global)
	return ok && g.Pkg != nil && g.Pkg.Pkg.Path() == pkg && g.Name() == name
}

func c15calleeIs(call ssa.CallInstruction, pkg, name string) bool {
	o := calleeObj(call)
	return o != nil && o.Pkg() != nil && o.Pkg().Path() == pkg && o.Name() == name
}

func c15isBuiltin(v ssa.Value, name string) (*ssa.Call, bool) {
	call, ok := v.(*ssa.Call)
	if !ok {
		return nil, false
	}
	b, ok := call.Call.Value.(*ssa.Builtin)
	if !ok || b.Name() != name {
		return nil, false
	}
	return call, true
}

// c15guardedLen: the constant k such that fn refuses (error return) unless len(s.f) == k: a comparison of
// len(s.f) with a constant somewhere in fn (or in a helper it calls) whose "equal" outcome every success
// return passes.
func (c *Ctx) c15guardedLen(e *c15env, fn *ssa.Function, f *types.Var) (int64, bool) {
	cands := map[int64]bool{}
	var scan func(g *ssa.Function, d int)
	scan = func(g *ssa.Function, d int) {
		allInstrs(g, func(_ *ssa.BasicBlock, _ int, in ssa.Instruction) {
			if bo, ok := in.(*ssa.BinOp); ok && (bo.Op == token.EQL || bo.Op == token.NEQ) {
				if call, ok := c15isBuiltin(bo.X, "len"); ok && readsField(call.Call.Args[0], f) {
					if k, isC := constInt(bo.Y); isC {
						cands[k] = true
					}
				}
			}
			if call, ok := in.(ssa.CallInstruction); ok && d < 2 {
				if h := calleeFn(call); h != nil && h.Blocks != nil && fnPkg(h) == e.pkg && h != g {
					scan(h, d+1)
				}
			}
		})
	}
	scan(fn, 0)
	var ks []int64
	for k := range cands {
		ks = append(ks, k)
	}
	sort.Slice(ks, func(i, j int) bool { return ks[i] < ks[j] })
	for _, k := range ks {
		if ok, _, _ := c.c15mustPass(e, fn, c15lenIs(f, k)); ok {
			return k, true
		}
	}
	return 0, false
}

// c15exportItems extracts the sequence of items ExportCryptoState writes into its blob buffer, following the
// buffer into closures that capture it and same-package helpers that are handed it.
func (c *Ctx) c15exportItems(e *c15env) (items []c15item, problems []string) {
	fn := e.exp
	// the buffer: success returns give buf.Bytes()
	var cell ssa.Value
	for _, t := range c.successTargets(fn) {
		call, ok := t.Ret.Results[0].(*ssa.Call)
		if !ok || !c15calleeIs(call, "bytes", "Bytes") {
			return nil, []string{"a success return does not return buf.Bytes()"}
		}
		v := call.Call.Args[0]
		if ld, ok := v.(*ssa.UnOp); ok && ld.Op == token.MUL {
			v = ld.X
		}
		if cell != nil && cell != v {
			return nil, []string{"success returns use different buffers"}
		}
		cell = v
	}
	if cell == nil {
		return nil, []string{"no success return"}
	}
	// isBuf: v (of frame fr) denotes the buffer: the buffer value / a load of its cell in the root frame, a
	// parameter bound to it, or a load of a free variable bound to its cell
	var isBuf func(fr *c15frame, v ssa.Value) bool
	isBuf = func(fr *c15frame, v ssa.Value) bool {
		v = stripConv(v)
		if v == cell {
			return true
		}
		switch x := v.(type) {
		case *ssa.UnOp:
			if x.Op != token.MUL {
				return false
			}
			if x.X == cell {
				return true
			}
			if up, ok := fr.bind(x.X); ok {
				return up == cell || isBuf(fr.parent, up)
			}
		case *ssa.Parameter, *ssa.FreeVar:
			if up, ok := fr.bind(x); ok {
				return isBuf(fr.parent, up)
			}
		}
		return false
	}
	// item of one direct write call
	one := func(fr *c15frame, call ssa.CallInstruction) (*c15item, string) {
		cc := call.Common()
		switch {
		case !cc.IsInvoke() && len(cc.Args) >= 1 && isBuf(fr, cc.Args[0]) && calleeObj(call) != nil && calleeObj(call).Pkg() != nil && calleeObj(call).Pkg().Path() == "bytes":
			switch calleeObj(call).Name() {
			case "WriteString":
				if s, ok := constString(cc.Args[1]); ok {
					return &c15item{fr: fr, width: int64(len(s)), val: cc.Args[1], instr: call, konst: s}, ""
				}
				return nil, "WriteString of a non-constant"
			case "WriteByte":
				return &c15item{fr: fr, width: 1, val: cc.Args[1], instr: call}, ""
			case "Write":
				d := cc.Args[1]
				if sl, ok := d.(*ssa.Slice); ok && sl.Low == nil && sl.High == nil {
					if pt, ok := sl.X.Type().Underlying().(*types.Pointer); ok {
						if arr, ok := pt.Elem().Underlying().(*types.Array); ok {
							return &c15item{fr: fr, width: arr.Len(), val: d, instr: call}, ""
						}
					}
				}
				return &c15item{fr: fr, width: -2, val: d, instr: call}, "" // raw data: width decided by the caller of one
			case "Len", "Bytes", "Cap":
				return nil, ""
			}
			return nil, "unmodelled bytes.Buffer method " + calleeObj(call).Name()
		case c15calleeIs(call, "encoding/binary", "Write") && len(cc.Args) == 3 && isBuf(fr, cc.Args[0]):
			if !c15isGlobalLoad(cc.Args[1], "encoding/binary", "BigEndian") {
				return nil, "binary.Write with a byte order other than binary.BigEndian"
			}
			mi, ok := cc.Args[2].(*ssa.MakeInterface)
			if !ok {
				return nil, "binary.Write of a non-concrete value"
			}
			b, ok := mi.X.Type().Underlying().(*types.Basic)
			if !ok || b.Info()&types.IsInteger == 0 {
				return nil, "binary.Write of a non-integer"
			}
			w := int64(types.SizesFor("gc", "amd64").Sizeof(b))
			it := &c15item{fr: fr, width: w, val: mi.X, instr: call}
			if k, ok := constInt(mi.X); ok {
				it.konst = "int:" + strconv.FormatInt(k, 10)
			}
			return it, ""
		}
		return nil, ""
	}
	// up: the value of an enclosing frame a helper's parameter stands for (identity otherwise)
	up := func(fr *c15frame, v ssa.Value) (*c15frame, ssa.Value) {
		for {
			w, ok := fr.bind(v)
			if !ok {
				return fr, v
			}
			fr, v = fr.parent, w
		}
	}
	// sameData: a and b denote the same byte slice (same value, or loads of the same field / conversions of the same value)
	sameData := func(a, b ssa.Value) bool {
		if a == b {
			return true
		}
		_, fa, oka := fieldRead(a)
		_, fb, okb := fieldRead(b)
		if oka && okb && fa == fb {
			return true
		}
		ca, oka2 := a.(*ssa.Convert)
		cb, okb2 := b.(*ssa.Convert)
		if oka2 && okb2 {
			_, fa, oka = fieldRead(ca.X)
			_, fb, okb = fieldRead(cb.X)
			return ca.X == cb.X || (oka && okb && fa == fb)
		}
		return false
	}
	var collect func(fr *c15frame) []c15item
	collect = func(fr *c15frame) []c15item {
		var out []c15item
		var block *ssa.BasicBlock
		for _, b := range fr.fn.Blocks {
			for _, in := range b.Instrs {
				call, ok := in.(ssa.CallInstruction)
				if !ok {
					continue
				}
				var got []c15item
				it, why := one(fr, call)
				if why != "" {
					problems = append(problems, why)
				}
				if it != nil {
					got = append(got, *it)
				} else if ch := e.child(fr, call); ch != nil {
					// a closure that captures the buffer cell, or a helper that is handed the buffer
					uses := false
					for _, a := range call.Common().Args {
						if isBuf(fr, a) {
							uses = true
						}
					}
					if mc, ok := call.Common().Value.(*ssa.MakeClosure); ok {
						for _, bnd := range mc.Bindings {
							if bnd == cell || isBuf(fr, bnd) {
								uses = true
							}
						}
					}
					if uses {
						got = collect(ch)
					}
				}
				if len(got) == 0 {
					continue
				}
				if block != nil && block != b {
					problems = append(problems, "blob writes of "+fnName(fr.fn)+" are spread over several basic blocks")
				}
				block = b
				out = append(out, got...)
			}
		}
		return out
	}
	raw := collect(&c15frame{fn: fn})
	// fold "uint16(len(x)) ; Write(x)" pairs into one uint16-length-prefixed item; pin the width of other raw writes
	for i := 0; i < len(raw); i++ {
		it := raw[i]
		if it.width == 2 && i+1 < len(raw) && raw[i+1].width == -2 {
			if cv, ok := it.val.(*ssa.Convert); ok {
				if l, ok := c15isBuiltin(cv.X, "len"); ok {
					_, lv := up(it.fr, l.Call.Args[0])
					bfr, bv := up(raw[i+1].fr, raw[i+1].val)
					if sameData(lv, bv) {
						items = append(items, c15item{fr: bfr, width: -1, off: -1, val: bv, instr: raw[i+1].instr})
						i++
						continue
					}
				}
			}
		}
		if it.width == -2 {
			vfr, v := up(it.fr, it.val)
			if _, fld, ok := fieldRead(v); ok && e.fields[fld] {
				if k, ok := c.c15guardedLen(e, fn, fld); ok {
					it.fr, it.val, it.width = vfr, v, k
				} else {
					problems = append(problems, "Write of "+fld.Name()+" whose length is not pinned by a refusal test")
					continue
				}
			} else {
				problems = append(problems, "a Write of data whose width is unknown")
				continue
			}
		}
		it.off = -1
		items = append(items, it)
	}
	for i := range items {
		items[i].fields = e.c15sliceFr(items[i].fr, items[i].val).fieldsAll()
	}
	return
}

// c15store: a store to a Stream field made by the importer or by a helper it hands blob-derived data to.
type c15store struct {
	st *ssa.Store
	fr *c15frame
}

// c15importItems walks the success path of NewStreamWithCryptoState - into the closures and same-package
// helpers that receive the blob or the running offset - with a tiny abstract interpreter for the offset cell
// and returns the sequence of blob reads (fixed offsets, then the uint16-prefixed trailing fields), the
// stores to Stream fields, and the variable reads whose upper bound was not compared with len(blob).
func (c *Ctx) c15importItems(e *c15env) (items []c15item, problems []string, blobCell ssa.Value, stores map[*types.Var][]c15store, unchecked []string) {
	fn := e.imp
	stores = map[*types.Var][]c15store{}
	if len(fn.Params) != 2 {
		return nil, []string{"unexpected signature"}, nil, stores, nil
	}
	blob := ssa.Value(fn.Params[1])
	// blob may live in a cell because a closure captures it
	blobCell = blob
	for _, r := range *blob.Referrers() {
		if st, ok := r.(*ssa.Store); ok && st.Val == blob {
			if al, ok := st.Addr.(*ssa.Alloc); ok {
				blobCell = al
			}
		}
	}
	root := &c15frame{fn: fn}
	isBlob := func(fr *c15frame, v ssa.Value) bool { return c15isBlob(blob, blobCell, fr, v) }
	isLenBlob := func(fr *c15frame, v ssa.Value) bool {
		l, ok := c15isBuiltin(v, "len")
		return ok && isBlob(fr, l.Call.Args[0])
	}
	blobDerived := func(fr *c15frame, v ssa.Value) bool {
		return c.c15dep(fr, v, func(x ssa.Value) bool { return x == blob || x == blobCell }, 0)
	}
	cells := map[ssa.Value]c15lin{} // keyed by the root Alloc of the cell
	var eval func(fr *c15frame, v ssa.Value) c15lin
	eval = func(fr *c15frame, v ssa.Value) c15lin {
		if k, ok := v.(*ssa.Const); ok {
			if i, ok := constInt(k); ok {
				return c15lin{i, "", true}
			}
		}
		switch x := v.(type) {
		case *ssa.UnOp:
			if x.Op == token.MUL {
				if cell := fr.cellOf(x.X); cell != nil {
					if l, ok := cells[cell]; ok {
						return l
					}
				}
			}
		case *ssa.BinOp:
			if x.Op == token.ADD {
				return c15add(eval(fr, x.X), eval(fr, x.Y))
			}
		case *ssa.Convert:
			return eval(fr, x.X)
		case *ssa.Parameter:
			if up, ok := fr.bind(x); ok {
				return eval(fr.parent, up)
			}
		case *ssa.Extract:
			// "field, off, err := readField(blob, off)": the offset a helper returns on success
			if call, ok := x.Tuple.(*ssa.Call); ok {
				if ch := e.child(fr, call); ch != nil {
					var got *c15lin
					same := true
					for _, t := range c.successTargets(ch.fn) {
						if x.Index >= len(t.Ret.Results) {
							same = false
							break
						}
						l := eval(ch, t.Ret.Results[x.Index])
						if got == nil {
							got = &l
						} else if *got != l {
							same = false
						}
					}
					if same && got != nil && got.ok {
						return *got
					}
				}
			}
		}
		return c15lin{0, c15sym(v), true}
	}
	type rd struct {
		low, width c15lin
		val        ssa.Value
		instr      ssa.Instruction
		fr         *c15frame
		checked    bool // the upper bound was compared with len(blob) on the way here
	}
	var reads []rd
	var bounds []c15lin // values known <= len(blob) on the path walked
	canSucceed := func(g *ssa.Function, s *ssa.BasicBlock) bool {
		for _, t := range c.successTargets(g) {
			if len(s.Instrs) > 0 && findPath(Point{s, 0}, t.Target(), nil) != nil {
				return true
			}
		}
		return false
	}
	relevant := func(fr *c15frame, call ssa.CallInstruction) bool {
		for _, a := range call.Common().Args {
			if isBlob(fr, a) {
				return true
			}
			if cell := fr.cellOf(a); cell != nil {
				if _, tracked := cells[cell]; tracked {
					return true
				}
			}
		}
		if mc, ok := call.Common().Value.(*ssa.MakeClosure); ok {
			for _, bnd := range mc.Bindings {
				if bnd == blobCell {
					return true
				}
				if cell := fr.cellOf(bnd); cell != nil && cell == blobCell {
					return true
				}
			}
		}
		return false
	}
	walked := map[*ssa.BasicBlock]bool{}
	visited := map[*ssa.Function]*c15frame{}
	var walk func(fr *c15frame)
	walk = func(fr *c15frame) {
		g := fr.fn
		if visited[g] == nil {
			visited[g] = fr
		}
		cur := g.Blocks[0]
		var prev *ssa.BasicBlock
		local := map[*ssa.BasicBlock]bool{} // a helper is walked once per call
		for cur != nil && !local[cur] {
			local[cur] = true
			walked[cur] = true
			var next *ssa.BasicBlock
			for _, in := range cur.Instrs {
				switch x := in.(type) {
				case *ssa.Store:
					if cell := fr.cellOf(x.Addr); cell != nil && cell != blobCell {
						if b, ok := cell.Type().Underlying().(*types.Pointer).Elem().Underlying().(*types.Basic); ok && b.Info()&types.IsInteger != 0 {
							cells[cell] = eval(fr, x.Val)
						}
					}
				case *ssa.Slice:
					if !isBlob(fr, x.X) {
						continue
					}
					low := c15lin{0, "", true}
					if x.Low != nil {
						low = eval(fr, x.Low)
					}
					if x.High == nil {
						problems = append(problems, "open-ended slice of the blob at "+c.Pos(x.Pos()))
						continue
					}
					high := eval(fr, x.High)
					w := c15sub(high, low)
					if !low.ok || !w.ok {
						problems = append(problems, "blob read with an offset or width the rule cannot follow at "+c.Pos(x.Pos()))
						continue
					}
					checked := false
					for _, b := range bounds {
						if b == high {
							checked = true
						}
					}
					if high.v != "" && !checked {
						unchecked = append(unchecked, "the blob is sliced at "+c.Pos(x.Pos())+" without first testing the upper bound against len(blob)")
					}
					reads = append(reads, rd{low, w, x, x, fr, checked})
				case *ssa.IndexAddr:
					if !isBlob(fr, x.X) {
						continue
					}
					i := eval(fr, x.Index)
					if !i.ok || i.v != "" {
						problems = append(problems, "blob index with a non-constant offset at "+c.Pos(x.Pos()))
						continue
					}
					reads = append(reads, rd{i, c15lin{1, "", true}, x, x, fr, false})
				case *ssa.Call:
					if ch := e.child(fr, x); ch != nil && relevant(fr, x) {
						walk(ch)
					}
				case *ssa.If:
					// a branch on a local boolean is a branch on the value it received on the way here
					cond, t, f := x.Cond, cur.Succs[0], cur.Succs[1]
					for {
						u, ok := cond.(*ssa.UnOp)
						if !ok || u.Op != token.NOT {
							break
						}
						cond, t, f = u.X, f, t
					}
					if phi, ok := cond.(*ssa.Phi); ok && phi.Block() == cur && prev != nil {
						for i, p := range cur.Preds {
							if p == prev {
								cond = phi.Edges[i]
							}
						}
						for {
							u, ok := cond.(*ssa.UnOp)
							if !ok || u.Op != token.NOT {
								break
							}
							cond, t, f = u.X, f, t
						}
					}
					var can []*ssa.BasicBlock
					if bv, isC := constBool(cond); isC {
						if bv {
							can = []*ssa.BasicBlock{t}
						} else {
							can = []*ssa.BasicBlock{f}
						}
					} else {
						for _, s := range []*ssa.BasicBlock{t, f} {
							if canSucceed(g, s) {
								can = append(can, s)
							}
						}
					}
					if len(can) != 1 {
						if fr.parent != nil {
							problems = append(problems, "cannot follow the success path of "+fnName(g))
						}
						break
					}
					next = can[0]
					a := condAtom(cond)
					if !a.Neg && a.Y != nil && isLenBlob(fr, a.Y) {
						if (a.Op == token.GTR && next == f) || (a.Op == token.LEQ && next == t) {
							bounds = append(bounds, eval(fr, a.X))
						}
					}
				case *ssa.Jump:
					next = cur.Succs[0]
				}
			}
			prev, cur = cur, next
		}
	}
	walk(root)
	// no blob read may live in a block that was not walked but can still reach a success return
	readsBlob := func(fr *c15frame) bool {
		found := false
		allInstrs(fr.fn, func(_ *ssa.BasicBlock, _ int, in ssa.Instruction) {
			switch x := in.(type) {
			case *ssa.Slice:
				found = found || isBlob(fr, x.X)
			case *ssa.IndexAddr:
				found = found || isBlob(fr, x.X)
			}
		})
		return found
	}
	var vfns []*ssa.Function
	for g := range visited {
		vfns = append(vfns, g)
	}
	sort.Slice(vfns, func(i, j int) bool { return fnName(vfns[i]) < fnName(vfns[j]) })
	for _, g := range vfns {
		fr := visited[g]
		for _, b := range g.Blocks {
			if walked[b] || !canSucceed(g, b) {
				continue
			}
			for _, in := range b.Instrs {
				bad := false
				switch x := in.(type) {
				case *ssa.Slice:
					bad = isBlob(fr, x.X)
				case *ssa.IndexAddr:
					bad = isBlob(fr, x.X)
				case *ssa.Call:
					if ch := e.child(fr, x); ch != nil && relevant(fr, x) && readsBlob(ch) {
						bad = true
					}
				}
				if bad {
					problems = append(problems, "blob read outside the straight-line prefix at "+c.Pos(in.Pos()))
				}
			}
		}
	}
	// fold the reads into items: fixed reads, and [uint16 n][n bytes] pairs; a trailing field starts where the
	// previous read ended
	contiguous := func(i int) {
		if i == 0 {
			return
		}
		p := reads[i-1]
		if end := c15add(p.low, p.width); end != reads[i].low {
			problems = append(problems, "the trailing field read at "+c.Pos(reads[i].val.Pos())+" does not start where the previous item ended (the offset is not advanced by what was read)")
		}
	}
	for i := 0; i < len(reads); i++ {
		r := reads[i]
		if r.low.v == "" && r.width.v == "" {
			// a big-endian uint16 length at a fixed offset followed by its body is a trailing field too
			if n := c15lenPrefix(r.val); n != "" && r.width.c == 2 && i+1 < len(reads) {
				nx := reads[i+1]
				if nx.low == (c15lin{r.low.c + 2, "", true}) && nx.width == (c15lin{0, n, true}) {
					if !r.checked {
						unchecked = append(unchecked, "the blob is sliced at "+c.Pos(r.val.Pos())+" (length prefix of a trailing field) without first testing the upper bound against len(blob)")
					}
					contiguous(i)
					items = append(items, c15varItem(nx.fr, nx.val, nx.instr))
					i++
					continue
				}
			}
			items = append(items, c15item{fr: r.fr, width: r.width.c, off: r.low.c, val: r.val, instr: r.instr})
			continue
		}
		n := c15lenPrefix(r.val)
		if n == "" || r.width != (c15lin{2, "", true}) || i+1 >= len(reads) {
			problems = append(problems, "blob read at a variable offset that is not a big-endian uint16 length followed by its body at "+c.Pos(r.val.Pos()))
			continue
		}
		nx := reads[i+1]
		if nx.low != (c15lin{r.low.c + 2, r.low.v, true}) || nx.width != (c15lin{0, n, true}) {
			problems = append(problems, "the body of the trailing field read at "+c.Pos(nx.val.Pos())+" is not [off+2, off+2+n)")
			continue
		}
		contiguous(i)
		items = append(items, c15varItem(nx.fr, nx.val, nx.instr))
		i++
	}
	// a trailing field read by a helper or closure must be handed back: the item's value becomes what the
	// call in the importer returns
	for i := range items {
		it := &items[i]
		if it.width != -1 || it.fr.parent == nil {
			continue
		}
		cur := it.val
		okRet := true
		for f := it.fr; f.parent != nil && okRet; f = f.parent {
			want := cur
			for _, t := range c.successTargets(f.fn) {
				if len(t.Ret.Results) == 0 || !mustDepend(f.fn, t.Ret.Results[0], func(v ssa.Value) bool { return v == want }) {
					okRet = false
				}
			}
			sv, isVal := f.site.(ssa.Value)
			if !isVal {
				okRet = false
				break
			}
			cur = extractN(sv, 0)
			if cur == nil {
				okRet = false
			}
		}
		if !okRet {
			problems = append(problems, "the trailing-field reader does not return the body it read ("+c.Pos(it.val.Pos())+")")
			continue
		}
		it.val, it.instr, it.fr = cur, it.fr.rootSite().(ssa.Instruction), root
	}
	// stores to Stream fields: in the importer, its closures, and helpers that are handed blob-derived data
	var collect func(fr *c15frame)
	seenFn := map[*ssa.Function]bool{}
	collect = func(fr *c15frame) {
		if seenFn[fr.fn] {
			return
		}
		seenFn[fr.fn] = true
		allInstrs(fr.fn, func(_ *ssa.BasicBlock, _ int, in ssa.Instruction) {
			switch x := in.(type) {
			case *ssa.Store:
				if fa, ok := x.Addr.(*ssa.FieldAddr); ok {
					if f := e.c15fieldOf(fa); f != nil {
						stores[f] = append(stores[f], c15store{x, fr})
					}
				}
			case *ssa.Call:
				ch := e.child(fr, x)
				if ch == nil {
					return
				}
				dep := relevant(fr, x)
				for _, a := range x.Call.Args {
					if !dep && blobDerived(fr, a) {
						dep = true
					}
				}
				if dep {
					collect(ch)
				}
			}
		})
	}
	collect(root)
	// destination fields per item
	for i := range items {
		items[i].fields = map[*types.Var]bool{}
		iv := items[i].val
		if iv == nil {
			continue
		}
		for f, sts := range stores {
			for _, st := range sts {
				if c.c15dep(st.fr, st.st.Val, func(v ssa.Value) bool { return v == iv }, 0) {
					items[i].fields[f] = true
				}
			}
		}
		// constants the item is compared with (magic / version)
		var scan func(v ssa.Value, d int)
		scan = func(v ssa.Value, d int) {
			if d > 4 {
				return
			}
			for _, r := range *v.Referrers() {
				switch u := r.(type) {
				case *ssa.Convert:
					scan(u, d+1)
				case *ssa.Call:
					if c15calleeIs(u, "encoding/binary", "Uint16") || c15calleeIs(u, "encoding/binary", "Uint32") {
						scan(u, d+1)
					}
				case *ssa.BinOp:
					if u.Op == token.NEQ || u.Op == token.EQL {
						if s, ok := constString(u.Y); ok {
							items[i].konst = s
						} else if k, ok := constInt(u.Y); ok {
							items[i].konst = "int:" + strconv.FormatInt(k, 10)
						}
					}
				}
			}
		}
		scan(iv, 0)
	}
	return
}

// c15isBlob: v (of frame fr) denotes the importer's blob: the parameter, a load of the cell a closure
// captured it in, or a helper parameter / free variable bound to one of those.
func c15isBlob(blob, blobCell ssa.Value, fr *c15frame, v ssa.Value) bool {
	if v == blob {
		return true
	}
	switch x := v.(type) {
	case *ssa.UnOp:
		if x.Op != token.MUL {
			return false
		}
		if x.X == blobCell {
			return true
		}
		if cell := fr.cellOf(x.X); cell != nil {
			return cell == blobCell
		}
	case *ssa.Parameter, *ssa.FreeVar:
		if up, ok := fr.bind(x); ok {
			return c15isBlob(blob, blobCell, fr.parent, up)
		}
	}
	return false
}

func c15varItem(fr *c15frame, val ssa.Value, instr ssa.Instruction) c15item {
	return c15item{fr: fr, width: -1, off: -1, val: val, instr: instr}
}

// c15lenPrefix: sl (a two-byte slice of the blob) is decoded as a big-endian uint16: the symbol of the decoded
// length (eval looks through conversions, so widths are expressed in terms of the Uint16 call), else "".
func c15lenPrefix(sl ssa.Value) string {
	for _, r := range *sl.Referrers() {
		call, ok := r.(*ssa.Call)
		if !ok || !c15calleeIs(call, "encoding/binary", "Uint16") || !c15isGlobalLoad(call.Call.Args[0], "encoding/binary", "BigEndian") {
			continue
		}
		return c15sym(call)
	}
	return ""
}

// c15bitOfStore: the store assigns (x & k) != 0 (or == k): returns k, else -1.
func c15bitOfStore(st *ssa.Store) int64 {
	cmp, ok := st.Val.(*ssa.BinOp)
	if !ok {
		return -1
	}
	and, ok := cmp.X.(*ssa.BinOp)
	if !ok || and.Op != token.AND {
		return -1
	}
	k, isC := constInt(and.Y)
	if !isC {
		return -1
	}
	r, isR := constInt(cmp.Y)
	if !isR {
		return -1
	}
	if (cmp.Op == token.NEQ && r == 0) || (cmp.Op == token.EQL && r == k) {
		return k
	}
	return -1
}
