package main

import (
	"fmt"
	"go/token"
	"go/types"
	"sort"
	"strings"

	"golang.org/x/tools/go/ssa"
)

// C09 -- private attributes are never serialised unless asked for, nor sent in the clear (DESIGN.md section 5).
//
//	R1 taint: message writes of the serialiser reach the ad only through the filtered name list / the two type names
//	R2 decision table of the option bits and the peer-version gate, folded from SSA (help_c09.go)
//	R3 keep/drop table of both filters, predicates resolved to the classad module, applied to the appended value
//	R4 case-insensitivity of the classad module's predicates; message's wrappers only delegate
//	R5 putSecretExpr bracket (marker, flush, Prepare, secret, flush, Restore) and the caller's secret branch
//	R6 the stream's crypto-for-secret toggle as a 2x2 table
//	R7 the two ad-returning receivers reassemble marker + secret (shares C08-R1's machinery)
//
// Not decided: private names nested inside expression values, callers that bypass the serialiser with
// PutClassAdRaw* (pre-rendered text), and the byte-level canary search itself.
func init() { register("C09", c09r1, c09r2, c09r3, c09r4, c09r5, c09r6, c09r7) }

const classadPkgSuffix = "PelicanPlatform/classad/classad"

// ---------------------------------------------------------------------------
// shared anchors

type c09Anchors struct {
	ok                bool
	put               *ssa.Function // putClassAdToMessageWithOptions
	byPriv, byWhite   *ssa.Function // the two filters
	putSecret         *ssa.Function
	inList            *ssa.Function
	m, ad, cfg        *ssa.Parameter
	w                 *wireAnchors
	incBit, noPrivBit int64
}

func (c *Ctx) c09Anchors(rule string) *c09Anchors {
	a := &c09Anchors{ok: true}
	a.w = c.wireAnchors(rule)
	a.put = c.needFn(rule, "message", "putClassAdToMessageWithOptions")
	a.byPriv = c.needFn(rule, "message", "filterAttributesByPrivacy")
	a.byWhite = c.needFn(rule, "message", "filterAttributesByWhitelist")
	a.putSecret = c.needFn(rule, "message", "(*Message).putSecretExpr")
	a.inList = c.needFn(rule, "message", "isAttrInList")
	if !a.w.ok || a.put == nil || a.byPriv == nil || a.byWhite == nil || a.putSecret == nil || a.inList == nil {
		a.ok = false
		return a
	}
	for _, p := range a.put.Params {
		switch {
		case a.w.isMessage(p.Type()):
			a.m = p
		case c09IsNamedPtr(p.Type(), classadPkgSuffix, "ClassAd"):
			a.ad = p
		case c09IsNamedPtr(p.Type(), ModPath+"/message", "PutClassAdConfig"):
			a.cfg = p
		}
	}
	if a.m == nil || a.ad == nil || a.cfg == nil {
		c.AnchorMissing(rule, "parameters (m, ad, config) of putClassAdToMessageWithOptions")
		a.ok = false
	}
	bit := func(name string) int64 {
		k, _ := c.needObj(rule, "message", name).(*types.Const)
		if k == nil {
			a.ok = false
			return 0
		}
		v, ok := constInt(ssa.NewConst(k.Val(), k.Type()))
		if !ok || v == 0 {
			a.ok = false
		}
		return v
	}
	a.incBit = bit("PutClassAdIncludePrivate")
	a.noPrivBit = bit("PutClassAdNoPrivate")
	return a
}

func c09IsNamedPtr(t types.Type, pkgSuffix, name string) bool {
	p, ok := t.Underlying().(*types.Pointer)
	if !ok {
		return false
	}
	n, ok := p.Elem().(*types.Named)
	return ok && n.Obj().Name() == name && n.Obj().Pkg() != nil && strings.HasSuffix(n.Obj().Pkg().Path(), pkgSuffix)
}

// c09PredKind resolves a callee to the classad module's private-attribute predicates, looking through thin
// wrappers (a function whose only return is a call of a resolved predicate on its own first parameter).
func c09PredKind(g *ssa.Function, depth int) string {
	if g == nil || depth > 3 {
		return ""
	}
	if pk := fnPkg(g); pk != nil && strings.HasSuffix(pk.Path(), classadPkgSuffix) {
		switch g.Name() {
		case "IsPrivateAttributeV1":
			return "V1"
		case "IsPrivateAttributeV2":
			return "V2"
		case "IsPrivateAttribute":
			return "ANY"
		}
		return ""
	}
	if g.Blocks == nil || len(g.Blocks) != 1 || len(g.Params) != 1 {
		return ""
	}
	ret, ok := g.Blocks[0].Instrs[len(g.Blocks[0].Instrs)-1].(*ssa.Return)
	if !ok || len(ret.Results) != 1 {
		return ""
	}
	call, ok := ret.Results[0].(*ssa.Call)
	if !ok || len(call.Call.Args) != 1 || call.Call.Args[0] != ssa.Value(g.Params[0]) {
		return ""
	}
	return c09PredKind(calleeFn(call), depth+1)
}

// c09OrdinalKeys labels the calls of one callee in source order: name#1, name#2, ...
func c09OrdinalKeys(calls []ssa.CallInstruction, name func(ssa.CallInstruction) string) map[ssa.CallInstruction]string {
	sorted := append([]ssa.CallInstruction{}, calls...)
	sort.SliceStable(sorted, func(i, j int) bool { return sorted[i].Pos() < sorted[j].Pos() })
	cnt := map[string]int{}
	out := map[ssa.CallInstruction]string{}
	for _, cs := range sorted {
		n := name(cs)
		cnt[n]++
		out[cs] = fmt.Sprintf("%s#%d", n, cnt[n])
	}
	return out
}

// ---------------------------------------------------------------------------
// C09-R1: only filtered names are written

// c09AdAccesses walks the backward slice of v inside fn (through phis, conversions, local arrays/cells and call
// arguments) and returns the calls that take the ad as an argument, whether the ad itself flows into v, and
// stops at sanitiser calls.
func c09AdAccesses(fn *ssa.Function, v ssa.Value, ad ssa.Value, sanitiser func(*ssa.Call) bool) (accesses []*ssa.Call, rawAd bool) {
	seen := map[ssa.Value]bool{}
	var walk func(v ssa.Value, d int)
	storesInto := func(addr ssa.Value, d int) {
		var visitAddr func(a ssa.Value, dd int)
		visitAddr = func(a ssa.Value, dd int) {
			if dd > 4 {
				return
			}
			refs := a.Referrers()
			if refs == nil {
				return
			}
			for _, r := range *refs {
				switch x := r.(type) {
				case *ssa.Store:
					if x.Addr == a {
						walk(x.Val, d+1)
					}
				case *ssa.IndexAddr:
					if x.X == a {
						visitAddr(x, dd+1)
					}
				case *ssa.FieldAddr:
					if x.X == a {
						visitAddr(x, dd+1)
					}
				}
			}
		}
		visitAddr(addr, 0)
	}
	walk = func(v ssa.Value, d int) {
		if v == nil || seen[v] || d > 80 {
			return
		}
		seen[v] = true
		if stripConv(v) == ad {
			rawAd = true
			return
		}
		switch x := v.(type) {
		case *ssa.Const, *ssa.Parameter, *ssa.Global, *ssa.FreeVar, *ssa.Builtin, *ssa.Function:
			return
		case *ssa.Alloc:
			storesInto(x, d)
			return
		case *ssa.Call:
			if sanitiser(x) {
				return
			}
			takesAd := false
			for _, a := range callArgs(x) {
				if stripConv(a) == ad {
					takesAd = true
				}
			}
			if takesAd {
				accesses = append(accesses, x)
			}
			for _, a := range callArgs(x) {
				if stripConv(a) != ad {
					walk(a, d+1)
				}
			}
			return
		}
		if in, ok := v.(ssa.Instruction); ok {
			for _, op := range in.Operands(nil) {
				if *op != nil {
					walk(*op, d+1)
				}
			}
		}
	}
	walk(v, 0)
	return
}

func c09r1(c *Ctx) {
	const rule = "C09-R1"
	defer c08RuleTimer(rule)()
	c.Doc(rule, "taint in putClassAdToMessageWithOptions: every value handed to a message write (PutInt/PutString/PutStringBytes/putSecretExpr/any call that receives the message) reaches the ad only through ad.Lookup(name) with name an element of the slice returned by filterAttributesByWhitelist/filterAttributesByPrivacy, or through EvaluateAttrString of the constants MyType/TargetType; the ad itself is never handed to a writer")
	a := c.c09Anchors(rule)
	if !a.ok {
		return
	}
	fn := a.put
	if len(fn.AnonFuncs) > 0 {
		c.Undecided(rule, fnName(fn)+"#closures", "the serialiser contains closures; writes inside them are not followed", fn.Pos())
	}
	sanitiser := func(call *ssa.Call) bool {
		g := calleeFn(call)
		return g != nil && (g == a.byPriv || g == a.byWhite)
	}
	// sinks: calls that receive the message (as receiver or argument)
	var sinks []ssa.CallInstruction
	allInstrs(fn, func(_ *ssa.BasicBlock, _ int, in ssa.Instruction) {
		call, ok := in.(ssa.CallInstruction)
		if !ok {
			return
		}
		for _, arg := range callArgs(call) {
			if stripConv(arg) == ssa.Value(a.m) {
				sinks = append(sinks, call)
				return
			}
		}
		// raw access to the message's buffer would bypass the writers
	})
	allInstrs(fn, func(_ *ssa.BasicBlock, _ int, in ssa.Instruction) {
		if f := a.w.msgField(in); f == a.w.bufF {
			c.Undecided(rule, fnName(fn)+"#raw-buffer", "the serialiser touches Message.buffer directly; such writes are not followed", in.Pos())
		}
	})
	keys := c09OrdinalKeys(sinks, func(cs ssa.CallInstruction) string {
		if o := calleeObj(cs); o != nil {
			return o.Name()
		}
		return "dynamic"
	})
	filteredElem := func(name ssa.Value) bool {
		os := origins(fn, name)
		if len(os) == 0 {
			return false
		}
		for _, o := range os {
			ld, ok := o.(*ssa.UnOp)
			if !ok || ld.Op != token.MUL {
				return false
			}
			ia, ok := ld.X.(*ssa.IndexAddr)
			if !ok {
				return false
			}
			srcs := origins(fn, ia.X)
			if len(srcs) == 0 {
				return false
			}
			for _, s := range srcs {
				call, idx := originCall(s)
				cc, isCall := call.(*ssa.Call)
				if call == nil || idx != 0 || !isCall || !sanitiser(cc) {
					return false
				}
			}
		}
		return true
	}
	n := 0
	for _, sink := range sinks {
		n++
		key := fnName(fn) + "#write:" + keys[sink]
		bad := ""
		for _, arg := range callArgs(sink) {
			if stripConv(arg) == ssa.Value(a.m) {
				continue
			}
			acc, raw := c09AdAccesses(fn, arg, a.ad, sanitiser)
			if raw {
				bad = "the ad itself is handed to this writer"
			}
			for _, call := range acc {
				o := calleeObj(call)
				args := call.Call.Args
				switch {
				case o != nil && o.Name() == "Lookup" && len(args) == 2:
					if !filteredElem(args[1]) {
						bad = "it looks up an attribute name that is not an element of the filtered list (line " + c.Pos(call.Pos()) + ")"
					}
				case o != nil && o.Name() == "EvaluateAttrString" && len(args) == 2:
					if s, ok := constString(args[1]); !ok || (s != "MyType" && s != "TargetType") {
						bad = "it evaluates an attribute other than MyType/TargetType (line " + c.Pos(call.Pos()) + ")"
					}
				default:
					name := "a call"
					if o != nil {
						name = o.Name()
					}
					bad = "attribute data reaches it through " + name + " (line " + c.Pos(call.Pos()) + "), which is not filtered by the privacy filters"
				}
			}
		}
		c.Check(bad == "", rule, key, "its data reaches the ad only through the filtered attribute list or the two type names",
			"a message write in the serialiser can carry unfiltered attribute data: "+bad, sink.Pos())
	}
	c.MinCount(rule, "message writes in the serialiser", n, 6)
}

// ---------------------------------------------------------------------------
// C09-R2: decision table of the option bits

type c09Version struct {
	nilV          bool
	maj, min, pat int64
}

func (v c09Version) String() string {
	if v.nilV {
		return "nil"
	}
	return fmt.Sprintf("%d.%d.%d", v.maj, v.min, v.pat)
}

func (v c09Version) since990() bool {
	if v.maj != 9 {
		return v.maj > 9
	}
	if v.min != 9 {
		return v.min > 9
	}
	return v.pat >= 0
}

func c09BoolParams(fn *ssa.Function) []int {
	var out []int
	for i, p := range fn.Params {
		if b, ok := p.Type().Underlying().(*types.Basic); ok && b.Kind() == types.Bool {
			out = append(out, i)
		}
	}
	return out
}

func c09r2(c *Ctx) {
	const rule = "C09-R2"
	defer c08RuleTimer(rule)()
	c.Doc(rule, "finite table by constant folding of the serialiser's SSA: for every combination of the IncludePrivate and NoPrivate bits (with and without unrelated bits) and PeerVersion in {nil, below, at and above 9.9.0} the two booleans handed to the privacy filters fold to excludePrivate = !(Include && !NoPrivate) and excludePrivateV2 = excludePrivate || (PeerVersion != nil && PeerVersion < 9.9.0) (BuiltSinceVersion folded from its own SSA); the cut-off passed is the constant triple (9,9,0); a nil config behaves as the zero config")
	a := c.c09Anchors(rule)
	if !a.ok {
		return
	}
	fn := a.put
	optF := c.needField(rule, "message", "PutClassAdConfig", "Options")
	pvF := c.needField(rule, "message", "PutClassAdConfig", "PeerVersion")
	majF := c.needField(rule, "message", "HTCondorVersion", "Major")
	minF := c.needField(rule, "message", "HTCondorVersion", "Minor")
	patF := c.needField(rule, "message", "HTCondorVersion", "Patch")
	bsv := c.needFn(rule, "message", "(*HTCondorVersion).BuiltSinceVersion")
	if optF == nil || pvF == nil || majF == nil || minF == nil || patF == nil || bsv == nil {
		return
	}
	// cut-off triple
	nb := 0
	for _, cs := range callsIn(fn, bsv.Object()) {
		nb++
		args := cs.Common().Args
		okT := len(args) == 4
		want := []int64{9, 9, 0}
		for i := 1; okT && i < 4; i++ {
			k, isC := constInt(args[i])
			okT = isC && k == want[i-1]
		}
		c.Check(okT, rule, fnName(fn)+"#BuiltSinceVersion(9,9,0)", "the reserved-prefix cut-off is the constant version 9.9.0",
			"the version cut-off for reserved-prefix private attributes is not the constant triple (9,9,0)", cs.Pos())
	}
	c.MinCount(rule, "BuiltSinceVersion call sites in the serialiser", nb, 1)

	filterArgs := map[*ssa.Function][]int{}
	for _, f := range []*ssa.Function{a.byPriv, a.byWhite} {
		bp := c09BoolParams(f)
		if len(bp) != 2 {
			c.Undecided(rule, fnName(f)+"#bool-params", "expected exactly two boolean parameters (excludePrivate, excludePrivateV2)", f.Pos())
			return
		}
		filterArgs[f] = bp
	}
	versions := []c09Version{{nilV: true}, {maj: 9, min: 9, pat: 0}, {maj: 9, min: 9, pat: 1}, {maj: 9, min: 10, pat: 0}, {maj: 10, min: 0, pat: 0}, {maj: 23, min: 0, pat: 0},
		{maj: 9, min: 8, pat: 9}, {maj: 9, min: 0, pat: 0}, {maj: 8, min: 9, pat: 9}, {maj: 8, min: 99, pat: 99}}
	other := int64(1 | 4 | 16) // NoTypes, ServerTime, NoExpandWhitelist: must not matter
	rows, sites := 0, map[string]bool{}
	var failures []string
	undecided := ""
	for _, nilCfg := range []bool{false, true} {
		for _, inc := range []bool{false, true} {
			for _, nop := range []bool{false, true} {
				for _, extra := range []int64{0, other} {
					for _, ver := range versions {
						if nilCfg && (inc || nop || extra != 0 || !ver.nilV) {
							continue
						}
						opts := extra
						if inc {
							opts |= a.incBit
						}
						if nop {
							opts |= a.noPrivBit
						}
						pv := avNilV()
						if !ver.nilV {
							pv = avO(&aobj{Name: "version", Fields: map[*types.Var]aval{majF: avI(ver.maj), minF: avI(ver.min), patF: avI(ver.pat)}})
						}
						cfg := avO(&aobj{Name: "config", Fields: map[*types.Var]aval{optF: avI(opts), pvF: pv}})
						if nilCfg {
							cfg = avNilV()
						}
						wantEx := !(inc && !nop)
						wantV2 := wantEx || (!ver.nilV && !ver.since990())
						rowName := fmt.Sprintf("config=%v Include=%v NoPrivate=%v otherbits=%d PeerVersion=%s", !nilCfg, inc, nop, extra, ver)
						params := make([]aval, len(fn.Params))
						for i, p := range fn.Params {
							if p == a.cfg {
								params[i] = cfg
							}
						}
						reached := 0
						it := &ainterp{foldCallees: true}
						it.oracle = func(_ *ssa.Function, v ssa.Value, _ []aval) (aval, bool) {
							// never fold the filters or writers themselves
							if call, ok := v.(*ssa.Call); ok {
								if g := calleeFn(call); g != nil && g != bsv {
									return avU, true
								}
							}
							return avU, false
						}
						it.at = func(f *ssa.Function, in ssa.Instruction, env *aenv, it *ainterp) string {
							call, ok := in.(*ssa.Call)
							if !ok || f != fn {
								return ""
							}
							g := calleeFn(call)
							bp, isFilter := filterArgs[g]
							if !isFilter {
								return ""
							}
							reached++
							sites[fnName(g)] = true
							ex := it.eval(f, call.Call.Args[bp[0]], env)
							v2 := it.eval(f, call.Call.Args[bp[1]], env)
							if ex.K != avBool || v2.K != avBool {
								undecided = "cannot fold the privacy arguments of " + fnName(g) + " for row " + rowName
								return "stop"
							}
							if ex.B != wantEx || v2.B != wantV2 {
								failures = append(failures, fmt.Sprintf("%s: %s receives excludePrivate=%v excludePrivateV2=%v, required %v/%v", rowName, fnName(g), ex.B, v2.B, wantEx, wantV2))
							}
							return "stop"
						}
						it.run(fn, params)
						rows++
						if reached == 0 || it.Overflow {
							undecided = "no filter call reached for row " + rowName
						}
					}
				}
			}
		}
	}
	key := fnName(fn) + "#privacy-decision-table"
	switch {
	case undecided != "":
		c.Undecided(rule, key, undecided, fn.Pos())
	case len(failures) > 0:
		sort.Strings(failures)
		more := ""
		if len(failures) > 1 {
			more = fmt.Sprintf(" (and %d more rows)", len(failures)-1)
		}
		c.Violate(rule, key, "the privacy decision differs from the stated table: "+failures[0]+more, fn.Pos(), failures...)
	default:
		c.Ok(rule, key, fmt.Sprintf("%d rows folded; both filters receive exactly the stated decision", rows), fn.Pos())
	}
	c.MinCount(rule, "decision-table rows", rows, 80)
	c.MinCount(rule, "filter call sites reached", len(sites), 2)
}

// ---------------------------------------------------------------------------
// C09-R3: both filters apply the same predicate

func c09r3(c *Ctx) {
	const rule = "C09-R3"
	defer c08RuleTimer(rule)()
	c.Doc(rule, "finite table per filter (one loop iteration folded over excludePrivate, excludePrivateV2 and the outcomes of the resolved predicates): an attribute is appended iff it is whitelisted/present (whitelist filter) and not ((excludePrivate && (V1 || V2)) || (excludePrivateV2 && V2)), where V1/V2 are calls resolving through thin wrappers to classad.IsPrivateAttributeV1/V2 applied to the very value that is appended; both filters yield the same table")
	a := c.c09Anchors(rule)
	if !a.ok {
		return
	}
	tables := map[*ssa.Function]string{}
	n := 0
	for _, fn := range []*ssa.Function{a.byPriv, a.byWhite} {
		bp := c09BoolParams(fn)
		if len(bp) != 2 {
			c.Undecided(rule, fnName(fn)+"#bool-params", "expected exactly two boolean parameters", fn.Pos())
			continue
		}
		// the append and the appended element
		var app *ssa.Call
		var elem ssa.Value
		allInstrs(fn, func(_ *ssa.BasicBlock, _ int, in ssa.Instruction) {
			call, ok := in.(*ssa.Call)
			if !ok {
				return
			}
			if b, ok := call.Call.Value.(*ssa.Builtin); ok && b.Name() == "append" && types.Identical(call.Type(), fn.Signature.Results().At(0).Type()) {
				if app != nil {
					app, elem = nil, nil // more than one append: handled below as undecided
					return
				}
				app = call
				if al, ok := memRoot(call.Call.Args[1]).(*ssa.Alloc); ok {
					for _, r := range *al.Referrers() {
						if ia, ok := r.(*ssa.IndexAddr); ok {
							for _, rr := range *ia.Referrers() {
								if st, ok := rr.(*ssa.Store); ok && st.Addr == ia {
									elem = st.Val
								}
							}
						}
					}
				}
			}
		})
		if app == nil || elem == nil {
			c.Undecided(rule, fnName(fn)+"#append", "expected exactly one append(result, attr) in the filter", fn.Pos())
			continue
		}
		loop := c08LoopOf(fn, app.Block())
		if loop == nil {
			c.Undecided(rule, fnName(fn)+"#append", "the append is not inside a loop", app.Pos())
			continue
		}
		// predicate calls: resolved kind and argument identity
		kinds := map[string]int{}
		argOK := true
		allInstrs(fn, func(_ *ssa.BasicBlock, _ int, in ssa.Instruction) {
			call, ok := in.(*ssa.Call)
			if !ok {
				return
			}
			if k := c09PredKind(calleeFn(call), 0); k != "" {
				kinds[k]++
				if len(call.Call.Args) != 1 || call.Call.Args[0] != elem {
					argOK = false
				}
			}
		})
		c.Check(kinds["V1"]+kinds["ANY"] > 0 && kinds["V2"]+kinds["ANY"] > 0, rule, fnName(fn)+"#predicates-resolve",
			"the filter consults predicates that resolve to classad.IsPrivateAttributeV1 and V2",
			"the filter does not consult predicates resolving to classad.IsPrivateAttributeV1 and IsPrivateAttributeV2 (a local re-implementation is not accepted: the earlier one matched case-sensitively)", fn.Pos())
		c.Check(argOK, rule, fnName(fn)+"#predicate-argument", "the predicates are applied to the value that is appended",
			"a privacy predicate is applied to a different value than the attribute name that is appended", fn.Pos())

		var rowsOut []string
		var bad []string
		und := ""
		for mask := 0; mask < 1<<7; mask++ {
			eP, eP2, v1, v2, inl, white, exists := mask&1 != 0, mask&2 != 0, mask&4 != 0, mask&8 != 0, mask&16 != 0, mask&32 != 0, mask&64 != 0
			if fn == a.byPriv && (!white || !exists) {
				continue
			}
			params := make([]aval, len(fn.Params))
			params[bp[0]], params[bp[1]] = avB(eP), avB(eP2)
			it := &ainterp{}
			it.oracle = func(f *ssa.Function, v ssa.Value, _ []aval) (aval, bool) {
				switch x := v.(type) {
				case *ssa.Call:
					g := calleeFn(x)
					switch c09PredKind(g, 0) {
					case "V1":
						return avB(v1), true
					case "V2":
						return avB(v2), true
					case "ANY":
						return avB(v1 || v2), true
					}
					if g == a.inList {
						return avB(inl), true
					}
					if o := calleeObj(x); o != nil && o.Name() == "Lookup" && o.Pkg() != nil && strings.HasSuffix(o.Pkg().Path(), classadPkgSuffix) {
						return avT(avU, avB(exists)), true
					}
					return avU, true
				case *ssa.Lookup:
					if x.CommaOk {
						return avT(avB(white), avB(white)), true
					}
					return avB(white), true
				}
				return avU, false
			}
			it.at = func(f *ssa.Function, in ssa.Instruction, _ *aenv, _ *ainterp) string {
				if in == ssa.Instruction(app) {
					return "kept"
				}
				return ""
			}
			it.revisit = func(f *ssa.Function, b *ssa.BasicBlock) string {
				if loop[b] {
					return "dropped"
				}
				return ""
			}
			out := it.run(fn, params)
			row := fmt.Sprintf("excludePrivate=%v excludePrivateV2=%v V1=%v V2=%v inEncryptedList=%v", eP, eP2, v1, v2, inl)
			if fn == a.byWhite {
				row += fmt.Sprintf(" whitelisted=%v present=%v", white, exists)
			}
			n++
			got := ""
			switch {
			case it.Overflow || (out["kept"] > 0 && out["dropped"] > 0) || (out["kept"] == 0 && out["dropped"] == 0):
				und = "cannot fold the filter's decision for row " + row
				continue
			case out["kept"] > 0:
				got = "kept"
			default:
				got = "dropped"
			}
			private := (eP && (v1 || v2)) || (eP2 && v2)
			want := "kept"
			if private || !white || !exists {
				want = "dropped"
			}
			dontCare := inl && eP && !v1 && !v2 && white && exists // EncryptedAttrs members under exclusion: not stated by the property
			if got != want && !dontCare {
				bad = append(bad, row+": "+got+", required "+want)
			}
			if white && exists && !dontCare {
				rowsOut = append(rowsOut, fmt.Sprintf("%v%v%v%v%v=%s", eP, eP2, v1, v2, inl, got))
			}
		}
		key := fnName(fn) + "#filter-table"
		switch {
		case und != "":
			c.Undecided(rule, key, und, fn.Pos())
		case len(bad) > 0:
			more := ""
			if len(bad) > 1 {
				more = fmt.Sprintf(" (and %d more rows)", len(bad)-1)
			}
			c.Violate(rule, key, "the filter's keep/drop decision differs from the stated predicate: "+bad[0]+more, app.Pos(), bad...)
		default:
			c.Ok(rule, key, "keep/drop decision equals the stated predicate on every row", app.Pos())
		}
		tables[fn] = strings.Join(rowsOut, ";")
	}
	if len(tables) == 2 {
		c.Check(tables[a.byPriv] == tables[a.byWhite], rule, "filters-agree", "both filters have the same privacy table",
			"filterAttributesByPrivacy and filterAttributesByWhitelist decide differently for the same privacy inputs", a.byWhite.Pos())
	}
	c.MinCount(rule, "filter rows folded", n, 32+128)
}

// ---------------------------------------------------------------------------
// C09-R4: case-insensitivity lives in the classad module's predicates

func c09r4(c *Ctx) {
	const rule = "C09-R4"
	defer c08RuleTimer(rule)()
	c.Doc(rule, "in the classad module: IsPrivateAttributeV1 looks its argument up only after strings.ToLower and every key of the looked-up table is lower-case and the six fixed names are present; IsPrivateAttributeV2 compares a prefix of its argument with a lower-case constant through strings.EqualFold; IsPrivateAttribute is V1 || V2 of its argument; message's wrappers resolve to these")
	full := ""
	for path := range c.All {
		if strings.HasSuffix(path, classadPkgSuffix) {
			full = path
		}
	}
	if full == "" {
		c.AnchorMissing(rule, "package "+classadPkgSuffix)
		return
	}
	fnOf := func(name string) *ssa.Function {
		f := c.LookupFn(full, name)
		if f == nil || f.Blocks == nil {
			c.AnchorMissing(rule, full+"."+name)
			return nil
		}
		return f
	}
	v1, v2, anyF := fnOf("IsPrivateAttributeV1"), fnOf("IsPrivateAttributeV2"), fnOf("IsPrivateAttribute")
	if v1 == nil || v2 == nil || anyF == nil {
		return
	}
	isParam0 := func(f *ssa.Function) func(ssa.Value) bool {
		return func(v ssa.Value) bool { return len(f.Params) > 0 && v == ssa.Value(f.Params[0]) }
	}
	stringsCall := func(v ssa.Value, name string) *ssa.Call {
		call, ok := v.(*ssa.Call)
		if !ok {
			return nil
		}
		if o := calleeObj(call); o != nil && o.Pkg() != nil && o.Pkg().Path() == "strings" && o.Name() == name {
			return call
		}
		return nil
	}
	n := 0
	// V1: every map lookup's key is strings.ToLower(param)
	var table *ssa.Global
	nl := 0
	allInstrs(v1, func(_ *ssa.BasicBlock, _ int, in ssa.Instruction) {
		lk, ok := in.(*ssa.Lookup)
		if !ok {
			return
		}
		nl++
		n++
		low := stringsCall(lk.Index, "ToLower")
		c.Check(low != nil && low.Call.Args[0] == ssa.Value(v1.Params[0]), rule, "IsPrivateAttributeV1#lookup-key", "the table is consulted with strings.ToLower(name)",
			"IsPrivateAttributeV1 consults its table with a key that is not strings.ToLower(name): matching would be case-sensitive", lk.Pos())
		if ld, ok := lk.X.(*ssa.UnOp); ok {
			if g, ok := ld.X.(*ssa.Global); ok {
				table = g
			}
		}
	})
	for _, t := range c.successTargets(v1) {
		res := t.Ret.Results[0]
		dep := mustDepend(v1, res, func(v ssa.Value) bool { _, ok := v.(*ssa.Lookup); return ok })
		c.Check(dep, rule, "IsPrivateAttributeV1#result", "the result is the outcome of the table lookup", "IsPrivateAttributeV1 returns a value that does not come from the lower-cased table lookup", t.Ret.Pos())
	}
	if nl == 0 {
		c.Violate(rule, "IsPrivateAttributeV1#lookup-key", "IsPrivateAttributeV1 performs no table lookup (unexpected shape)", v1.Pos())
	}
	// the table's keys: MapUpdate instructions on the global in the package initialiser
	if table == nil {
		c.Undecided(rule, "IsPrivateAttributeV1#table", "cannot identify the looked-up table as a package variable", v1.Pos())
	} else {
		keys := map[string]bool{}
		okKeys := true
		for fnc := range c.allFns {
			if fnc.Pkg == nil || fnc.Pkg.Pkg.Path() != full || fnc.Blocks == nil {
				continue
			}
			allInstrs(fnc, func(_ *ssa.BasicBlock, _ int, in ssa.Instruction) {
				mu, ok := in.(*ssa.MapUpdate)
				if !ok {
					return
				}
				// maps stored into the global, or loaded from it
				if !c09MapIsGlobal(mu.Map, table) {
					return
				}
				k, isC := constString(mu.Key)
				if !isC {
					okKeys = false
					return
				}
				keys[k] = true
				if k != strings.ToLower(k) {
					okKeys = false
				}
			})
		}
		n++
		c.Check(okKeys && len(keys) > 0, rule, "privateAttrsV1#keys-lower-case", fmt.Sprintf("all %d table keys are lower-case constants", len(keys)),
			"a key of the fixed private-attribute table is not a lower-case constant: a lower-cased lookup can never match it", table.Pos())
		var missing []string
		for _, want := range []string{"capability", "childclaimids", "claimid", "claimidlist", "claimids", "transferkey"} {
			if !keys[want] {
				missing = append(missing, want)
			}
		}
		n++
		c.Check(len(missing) == 0, rule, "privateAttrsV1#fixed-names", "the claim / capability / transfer-key names are all present",
			"fixed private attribute name(s) missing from the table: "+strings.Join(missing, ", "), table.Pos())
	}
	// V2: result depends on strings.EqualFold(prefix-of-param, lower-case const)
	nf := 0
	allInstrs(v2, func(_ *ssa.BasicBlock, _ int, in ssa.Instruction) {
		call, ok := in.(*ssa.Call)
		if !ok || stringsCall(call, "EqualFold") == nil {
			return
		}
		nf++
		n++
		args := call.Call.Args
		var k string
		var other ssa.Value
		if s, ok := constString(args[1]); ok {
			k, other = s, args[0]
		} else if s, ok := constString(args[0]); ok {
			k, other = s, args[1]
		}
		okP := other != nil && mustDepend(v2, other, isParam0(v2)) && strings.HasPrefix(strings.ToLower(k), "_condor_priv") && k != ""
		c.Check(okP, rule, "IsPrivateAttributeV2#EqualFold", "the reserved prefix is compared with strings.EqualFold against the argument's prefix",
			"IsPrivateAttributeV2 does not compare a prefix of its argument with the reserved prefix through strings.EqualFold", call.Pos())
	})
	if nf == 0 {
		c.Violate(rule, "IsPrivateAttributeV2#EqualFold", "IsPrivateAttributeV2 does not use strings.EqualFold: prefix matching would be case-sensitive", v2.Pos())
	}
	for _, t := range c.successTargets(v2) {
		// every non-constant-false origin of the result is the EqualFold comparison (a && b is a phi of false and b)
		dep := true
		for _, o := range origins(v2, t.Ret.Results[0]) {
			if k, isC := constBool(o); isC && !k {
				continue
			}
			if stringsCall(o, "EqualFold") == nil {
				dep = false
			}
		}
		c.Check(dep, rule, "IsPrivateAttributeV2#result", "a positive result comes from the EqualFold comparison", "IsPrivateAttributeV2 can return a value that does not come from the case-insensitive comparison", t.Ret.Pos())
	}
	// ANY = V1(name) || V2(name): fold over the two outcomes
	bad := ""
	for mask := 0; mask < 4; mask++ {
		a1, a2 := mask&1 != 0, mask&2 != 0
		it := &ainterp{}
		it.oracle = func(_ *ssa.Function, v ssa.Value, _ []aval) (aval, bool) {
			if call, ok := v.(*ssa.Call); ok {
				if len(call.Call.Args) != 1 || call.Call.Args[0] != ssa.Value(anyF.Params[0]) {
					return avU, true
				}
				switch calleeFn(call) {
				case v1:
					return avB(a1), true
				case v2:
					return avB(a2), true
				}
				return avU, true
			}
			return avU, false
		}
		var res []aval
		it.atReturn = func(_ *ssa.Function, _ *ssa.Return, r []aval, _ *aenv) string {
			res = append(res, r[0])
			return ""
		}
		it.run(anyF, []aval{avU})
		for _, r := range res {
			if r.K != avBool || r.B != (a1 || a2) {
				bad = fmt.Sprintf("V1=%v V2=%v gives %s", a1, a2, r)
			}
		}
		if len(res) == 0 {
			bad = "no return reached"
		}
	}
	n++
	c.Check(bad == "", rule, "IsPrivateAttribute=V1||V2", "IsPrivateAttribute(name) folds to V1(name) || V2(name)", "IsPrivateAttribute is not V1(name) || V2(name): "+bad, anyF.Pos())
	// message's wrappers
	for name, want := range map[string]string{"ClassAdAttributeIsPrivateV1": "V1", "ClassAdAttributeIsPrivateV2": "V2", "ClassAdAttributeIsPrivateAny": "ANY"} {
		w := c.needFn(rule, "message", name)
		if w == nil {
			continue
		}
		n++
		c.Check(c09PredKind(w, 0) == want, rule, "message."+name+"#delegates", "delegates to the classad module's predicate",
			"message."+name+" is not a thin wrapper of the classad module's predicate (a local copy can drift, e.g. match case-sensitively)", w.Pos())
	}
	c.MinCount(rule, "case-insensitivity obligations", n, 8)
}

// c09MapIsGlobal: map value m is (loaded from / about to be stored into) global g.
func c09MapIsGlobal(m ssa.Value, g *ssa.Global) bool {
	if ld, ok := m.(*ssa.UnOp); ok && ld.X == ssa.Value(g) {
		return true
	}
	if refs := m.Referrers(); refs != nil {
		for _, r := range *refs {
			if st, ok := r.(*ssa.Store); ok && st.Addr == ssa.Value(g) && st.Val == m {
				return true
			}
		}
	}
	return false
}

// ---------------------------------------------------------------------------
// C09-R5: secrets only inside the crypto bracket

func c09r5(c *Ctx) {
	const rule = "C09-R5"
	defer c08RuleTimer(rule)()
	c.Doc(rule, "must-pass-through in putSecretExpr: the marker write and a successful FlushFrame precede PrepareCryptoForSecret; the secret's PutString is reached only after Prepare (or on the edge where the stream has no crypto toggle); from that PutString no path reaches RestoreCryptoAfterSecret or a return without a FlushFrame (or the PutString-failed edge); after Prepare every return passes Restore. In the serialiser: encryptSecrets is !CryptoForSecretIsNoop() of the message's stream, and the plain PutString of an attribute expression is reachable only through the encryptSecrets-false edge or the IsPrivate-false edge, never from the IsPrivate-true edge without putSecretExpr")
	a := c.c09Anchors(rule)
	if !a.ok {
		return
	}
	w := a.w
	fn := a.putSecret
	n := 0
	var prep, rest, flushes, markerPut, secretPut []ssa.CallInstruction
	var exprParam ssa.Value
	for _, p := range fn.Params {
		if c08IsStringType(p.Type()) {
			exprParam = p
		}
	}
	allInstrs(fn, func(_ *ssa.BasicBlock, _ int, in ssa.Instruction) {
		call, ok := in.(ssa.CallInstruction)
		if !ok {
			return
		}
		switch w.streamCall(call) {
		case "PREP":
			prep = append(prep, call)
			return
		case "REST":
			rest = append(rest, call)
			return
		}
		g := calleeFn(call)
		switch {
		case g == w.flush:
			flushes = append(flushes, call)
		case g != nil && w.strWriters[g]:
			args := call.Common().Args
			last := args[len(args)-1]
			if w.isMarkerConst(last) {
				markerPut = append(markerPut, call)
			} else if exprParam != nil && mentionsValue(last, exprParam) {
				secretPut = append(secretPut, call)
			}
		}
	})
	if len(prep) == 0 || len(rest) == 0 || len(flushes) == 0 || len(markerPut) == 0 || len(secretPut) == 0 {
		c.Violate(rule, fnName(fn)+"#shape", fmt.Sprintf("putSecretExpr lacks a part of the bracket: Prepare=%d Restore=%d FlushFrame=%d marker write=%d secret write=%d", len(prep), len(rest), len(flushes), len(markerPut), len(secretPut)), fn.Pos())
		return
	}
	for _, d := range rest {
		if _, isDefer := d.(*ssa.Defer); isDefer {
			c.Undecided(rule, fnName(fn)+"#shape", "Restore is deferred; this rule follows only the explicit form (rewrite the rule's bracket clause for defer)", d.Pos())
			return
		}
	}
	succEdges := func(calls []ssa.CallInstruction) []Edge {
		var out []Edge
		for _, cs := range calls {
			s, _, _ := callErrEdges(fn, cs.Value())
			out = append(out, s...)
		}
		return out
	}
	failEdges := func(calls []ssa.CallInstruction) []Edge {
		var out []Edge
		for _, cs := range calls {
			_, f, _ := callErrEdges(fn, cs.Value())
			out = append(out, f...)
		}
		return out
	}
	instrs := func(calls []ssa.CallInstruction) []ssa.Instruction {
		var out []ssa.Instruction
		for _, cs := range calls {
			out = append(out, cs)
		}
		return out
	}
	// flushes before / after the secret write
	var preFlush, postFlush []ssa.CallInstruction
	for _, f := range flushes {
		if findPath(after(f), Target{Instr: secretPut[0]}, nil) != nil {
			preFlush = append(preFlush, f)
		} else {
			postFlush = append(postFlush, f)
		}
	}
	// no-toggle edges: the stream does not implement the toggle
	var noToggle []Edge
	for _, p := range prep {
		if p.Common().IsInvoke() {
			nilE, _ := nilEdges(fn, p.Common().Value)
			noToggle = append(noToggle, nilE...)
			for _, o := range origins(fn, p.Common().Value) {
				if ex, ok := o.(*ssa.Extract); ok {
					if ta, ok := ex.Tuple.(*ssa.TypeAssert); ok && ta.CommaOk {
						if okv := extractN(ta, 1); okv != nil {
							_, f := boolEdges(fn, okv)
							noToggle = append(noToggle, f...)
						}
					}
				}
			}
		}
	}
	for _, p := range prep {
		n++
		c.mustPassInstr(rule, fnName(fn)+"#marker-before-Prepare", fn, p, newCuts().AddEdges(succEdges(markerPut)...), "a successful write of the SecretMarker")
		n++
		c.mustPassInstr(rule, fnName(fn)+"#flush-before-Prepare", fn, p, newCuts().AddEdges(succEdges(preFlush)...), "a successful FlushFrame of everything buffered in the clear")
	}
	for _, sp := range secretPut {
		n++
		c.mustPassInstr(rule, fnName(fn)+"#Prepare-before-secret", fn, sp, newCuts().AddInstrs(instrs(prep)...).AddEdges(noToggle...), "PrepareCryptoForSecret (or the edge on which the stream has no crypto toggle)")
		// after the secret write: no Restore and no return without flushing the secret frame
		cuts := newCuts().AddInstrs(instrs(postFlush)...).AddEdges(failEdges([]ssa.CallInstruction{sp})...)
		if len(postFlush) == 0 {
			c.Violate(rule, fnName(fn)+"#flush-inside-bracket", "no FlushFrame follows the secret's PutString: the secret stays buffered and is emitted later under the restored (cleartext) state", sp.Pos())
			continue
		}
		var wit []*ssa.BasicBlock
		for _, r := range rest {
			if p := findPath(after(sp), Target{Instr: r}, cuts); p != nil {
				wit = p
			}
		}
		n++
		if wit == nil {
			c.Ok(rule, fnName(fn)+"#flush-inside-bracket", "the frame holding the secret is flushed before RestoreCryptoAfterSecret on every path", sp.Pos())
		} else {
			c.Violate(rule, fnName(fn)+"#flush-inside-bracket", "RestoreCryptoAfterSecret can be reached after the secret was buffered without flushing it: the secret is emitted later in a cleartext frame", sp.Pos(), c.describePath(wit)...)
		}
		// the flush itself happens while crypto is still prepared: no Restore between secret write and the flush
		var wit2 []*ssa.BasicBlock
		for _, pf := range postFlush {
			if p := findPath(after(sp), Target{Instr: pf}, nil); p != nil {
				if q := findPath(after(sp), Target{Instr: pf}, newCuts().AddInstrs(instrs(rest)...)); q == nil {
					wit2 = p
				}
			}
		}
		n++
		c.Check(wit2 == nil, rule, fnName(fn)+"#flush-before-Restore", "the flush of the secret frame is reachable without passing Restore",
			"the FlushFrame that emits the secret comes only after RestoreCryptoAfterSecret: the secret frame is sent in the clear", sp.Pos())
	}
	// Restore on every exit after Prepare
	for _, p := range prep {
		var wit []*ssa.BasicBlock
		for _, t := range c.returnsOf(fn) {
			// a path that invoked Prepare on the toggle cannot later take an edge on which that same value is nil
			if pth := findPath(after(p), t.Target(), newCuts().AddInstrs(instrs(rest)...).AddEdges(noToggle...)); pth != nil {
				wit = pth
			}
		}
		n++
		if wit == nil {
			c.Ok(rule, fnName(fn)+"#Restore-on-every-exit", "every return after PrepareCryptoForSecret passes RestoreCryptoAfterSecret", p.Pos())
		} else {
			c.Violate(rule, fnName(fn)+"#Restore-on-every-exit", "a return is reachable after PrepareCryptoForSecret without RestoreCryptoAfterSecret: the stream stays in the secret's crypto state", p.Pos(), c.describePath(wit)...)
		}
	}

	// ---- the caller
	put := a.put
	var secretCalls, plainPuts []ssa.CallInstruction
	cyc := c08CyclicBlocks(put)
	allInstrs(put, func(b *ssa.BasicBlock, _ int, in ssa.Instruction) {
		call, ok := in.(*ssa.Call)
		if !ok || !cyc[b] {
			return
		}
		g := calleeFn(call)
		switch {
		case g == a.putSecret:
			secretCalls = append(secretCalls, call)
		case g != nil && w.strWriters[g]:
			plainPuts = append(plainPuts, call)
		}
	})
	if len(secretCalls) == 0 || len(plainPuts) == 0 {
		c.Violate(rule, fnName(put)+"#secret-branch", "the per-attribute loop of the serialiser has no putSecretExpr branch or no plain write", put.Pos())
		return
	}
	// the private predicate tests in the loop
	var privTrue, privFalse []Edge
	for _, b := range put.Blocks {
		ifi := blockIf(b)
		if ifi == nil || !cyc[b] {
			continue
		}
		at := condAtom(ifi.Cond)
		if at.Op != token.ILLEGAL {
			continue
		}
		call, ok := at.X.(*ssa.Call)
		if !ok || c09PredKind(calleeFn(call), 0) != "ANY" {
			continue
		}
		t, f := Edge{b, 0}, Edge{b, 1}
		if at.Neg {
			t, f = f, t
		}
		privTrue = append(privTrue, t)
		privFalse = append(privFalse, f)
	}
	n++
	if !c.Check(len(privTrue) > 0, rule, fnName(put)+"#private-test", "the loop branches on a predicate resolving to classad.IsPrivateAttribute",
		"the per-attribute loop does not branch on a predicate resolving to classad.IsPrivateAttribute", put.Pos()) {
		return
	}
	// encryptSecrets: the boolean that guards the secret branch
	var encFalse []Edge
	encOK := false
	for _, b := range put.Blocks {
		ifi := blockIf(b)
		if ifi == nil || !cyc[b] {
			continue
		}
		at := condAtom(ifi.Cond)
		if at.Op != token.ILLEGAL {
			continue
		}
		os := origins(put, at.X)
		isEnc := false
		allGood := len(os) > 0
		for _, o := range os {
			if k, isC := constBool(o); isC && !k {
				continue // no toggle available: false
			}
			u, ok := o.(*ssa.UnOp)
			if !ok || u.Op != token.NOT {
				allGood = false
				continue
			}
			call, ok := u.X.(*ssa.Call)
			if !ok || w.streamCall(call) != "NOOP" {
				allGood = false
				continue
			}
			// receiver: the message's own stream
			recvOK := false
			for _, ro := range origins(put, call.Call.Value) {
				if ex, ok := ro.(*ssa.Extract); ok {
					if ta, ok := ex.Tuple.(*ssa.TypeAssert); ok {
						if b, f, ok := fieldRead(ta.X); ok && f == w.strF && b == ssa.Value(a.m) {
							recvOK = true
						}
					}
				}
			}
			if !recvOK {
				allGood = false
			}
			isEnc = true
		}
		if isEnc {
			encOK = allGood
			f := Edge{b, 1}
			if at.Neg {
				f = Edge{b, 0}
			}
			encFalse = append(encFalse, f)
		}
	}
	n++
	c.Check(encOK && len(encFalse) > 0, rule, fnName(put)+"#encryptSecrets", "the secret branch is guarded by !CryptoForSecretIsNoop() of the message's own stream",
		"the guard of the secret branch is not exactly !CryptoForSecretIsNoop() of the message's own stream (false only when the stream has no toggle)", put.Pos())
	loop := c08LoopOf(put, plainPuts[0].Block())
	backCuts := newCuts()
	for b := range loop {
		for i, s := range b.Succs {
			if !loop[s] {
				backCuts.AddEdges(Edge{b, i})
				continue
			}
			for _, p := range s.Preds {
				if !loop[p] { // s is the loop head: edges into it from inside are back edges
					backCuts.AddEdges(Edge{b, i})
				}
			}
		}
	}
	for _, pp := range plainPuts {
		key := fnName(put) + "#plain-write-only-for-non-secret"
		cuts := newCuts().AddEdges(encFalse...).AddEdges(privFalse...)
		n++
		c.mustPassInstr(rule, key, put, pp, cuts, "the edge on which crypto-for-secret is a no-op or the edge on which the attribute is not private")
		// and never from the private-true edge within the same iteration
		var wit []*ssa.BasicBlock
		for _, e := range privTrue {
			cu := newCuts().AddInstrs(instrs(secretCalls)...)
			for k := range backCuts.Edges {
				cu.AddEdges(k)
			}
			if len(e.To().Instrs) == 0 {
				continue
			}
			if p := findPath(Point{e.To(), 0}, Target{Instr: pp}, cu); p != nil {
				wit = p
			}
		}
		n++
		if wit == nil {
			c.Ok(rule, fnName(put)+"#private=>putSecretExpr", "a private attribute on a keyed, non-encrypting stream always takes the putSecretExpr branch", pp.Pos())
		} else {
			c.Violate(rule, fnName(put)+"#private=>putSecretExpr", "a private attribute can reach the plain PutString although crypto-for-secret is available: its value is sent in the clear", pp.Pos(), c.describePath(wit)...)
		}
	}
	c.MinCount(rule, "bracket obligations", n, 10)
}

// ---------------------------------------------------------------------------
// C09-R6: the stream's crypto-for-secret toggle

func c09r6(c *Ctx) {
	const rule = "C09-R6"
	defer c08RuleTimer(rule)()
	c.Doc(rule, "finite table over (gcm nil/non-nil, encrypted false/true) by folding the SSA of the stream's toggle: after prepareCryptoForSecret encrypted is (encrypted || gcm != nil) -- never true without a key; restoreCryptoAfterSecret run on the state prepare left puts encrypted back to its original value; CryptoForSecretIsNoop is gcm == nil || encrypted; the exported Prepare/Restore wrappers only delegate (fields other than gcm/encrypted start unknown, every folded path must satisfy the table)")
	gcm := c.needField(rule, "stream", "Stream", "gcm")
	enc := c.needField(rule, "stream", "Stream", "encrypted")
	prep := c.needFn(rule, "stream", "(*Stream).prepareCryptoForSecret")
	rest := c.needFn(rule, "stream", "(*Stream).restoreCryptoAfterSecret")
	noop := c.needFn(rule, "stream", "(*Stream).CryptoForSecretIsNoop")
	pubPrep := c.needFn(rule, "stream", "(*Stream).PrepareCryptoForSecret")
	pubRest := c.needFn(rule, "stream", "(*Stream).RestoreCryptoAfterSecret")
	if gcm == nil || enc == nil || prep == nil || rest == nil || noop == nil || pubPrep == nil || pubRest == nil {
		return
	}
	n := 0
	// runOn folds fn on a stream object with the given fields; per explored path it returns the fields as
	// they are at the return (initial values overridden by the stores on that path) and the first result.
	runOn := func(fn *ssa.Function, fields map[*types.Var]aval) (finals []map[*types.Var]aval, rets []aval, overflow bool) {
		obj := &aobj{Name: "stream", Fields: fields}
		it := &ainterp{}
		it.oracle = func(_ *ssa.Function, v ssa.Value, _ []aval) (aval, bool) {
			if _, ok := v.(*ssa.Call); ok {
				return avU, true
			}
			return avU, false
		}
		it.atReturn = func(_ *ssa.Function, _ *ssa.Return, res []aval, env *aenv) string {
			f := map[*types.Var]aval{}
			for k, v := range fields {
				f[k] = v
			}
			for k, v := range env.stores {
				if k.o == obj && k.f != nil {
					f[k.f] = v
				}
			}
			finals = append(finals, f)
			if len(res) > 0 {
				rets = append(rets, res[0])
			} else {
				rets = append(rets, avU)
			}
			return ""
		}
		it.run(fn, []aval{avO(obj)})
		return finals, rets, it.Overflow
	}
	keyObj := avO(&aobj{Name: "aead"})
	var bad, und []string
	// bracket-private state: boolean Stream fields written only by prepare/restore themselves (e.g. a
	// "toggled" flag). They are zero when the stream is built and the composition prepare;restore must
	// put them back to zero, so every bracket starts from the zero value.
	var private []*types.Var
	if st, ok := gcm.Pkg().Scope().Lookup("Stream").Type().Underlying().(*types.Struct); ok {
		for i := 0; i < st.NumFields(); i++ {
			f := st.Field(i)
			if b, ok := f.Type().Underlying().(*types.Basic); !ok || b.Kind() != types.Bool || f == enc {
				continue
			}
			nw, okW := 0, true
			for _, a := range c.fieldAccesses(f) {
				if a.Write {
					nw++
					if t := topFn(a.Fn); t != prep && t != rest {
						okW = false
					}
				}
			}
			if nw > 0 && okW {
				private = append(private, f)
			}
		}
	}
	for mask := 0; mask < 4; mask++ {
		hasKey, e := mask&1 != 0, mask&2 != 0
		g := avNilV()
		if hasKey {
			g = keyObj
		}
		row := fmt.Sprintf("gcm!=nil=%v encrypted=%v", hasKey, e)
		init := func() map[*types.Var]aval {
			m := map[*types.Var]aval{gcm: g, enc: avB(e)}
			for _, pf := range private {
				m[pf] = avB(false) // zero value outside a bracket (inductive: checked again after restore)
			}
			return m
		}
		fs, _, ov := runOn(prep, init())
		if ov || len(fs) == 0 {
			und = append(und, "prepareCryptoForSecret "+row)
		}
		for _, f := range fs {
			n++
			if f[enc].K != avBool {
				und = append(und, "prepareCryptoForSecret "+row)
				continue
			}
			if f[enc].B != (e || hasKey) {
				bad = append(bad, fmt.Sprintf("prepareCryptoForSecret %s: leaves encrypted=%v, required %v", row, f[enc].B, e || hasKey))
			}
			// restore on the state prepare left
			f[gcm] = g
			rs, _, ov2 := runOn(rest, f)
			if ov2 || len(rs) == 0 {
				und = append(und, "restoreCryptoAfterSecret after prepare "+row)
			}
			for _, r := range rs {
				n++
				if r[enc].K != avBool {
					und = append(und, "restoreCryptoAfterSecret after prepare "+row)
					continue
				}
				if r[enc].B != e {
					bad = append(bad, fmt.Sprintf("prepare then restore, %s: leaves encrypted=%v, required the original %v", row, r[enc].B, e))
				}
				for _, pf := range private {
					if r[pf].K != avBool || r[pf].B {
						bad = append(bad, fmt.Sprintf("prepare then restore, %s: bracket-private field %s is not reset to false", row, pf.Name()))
					}
				}
			}
		}
		_, rets, ov := runOn(noop, init())
		if ov || len(rets) == 0 {
			und = append(und, "CryptoForSecretIsNoop "+row)
		}
		for _, r := range rets {
			n++
			if r.K != avBool {
				und = append(und, "CryptoForSecretIsNoop "+row)
				continue
			}
			if r.B != (!hasKey || e) {
				bad = append(bad, fmt.Sprintf("CryptoForSecretIsNoop %s: returns %v, required %v", row, r.B, !hasKey || e))
			}
		}
	}
	switch {
	case len(und) > 0:
		c.Undecided(rule, "stream-toggle-table", "cannot fold "+und[0], prep.Pos())
	case len(bad) > 0:
		c.Violate(rule, "stream-toggle-table", "the crypto-for-secret toggle differs from its table: "+bad[0], prep.Pos(), bad...)
	default:
		c.Ok(rule, "stream-toggle-table", "prepare, prepare+restore and is-noop fold to the stated table on all 4 rows", prep.Pos())
	}
	// wrappers only delegate
	for _, p := range []struct{ pub, inner *ssa.Function }{{pubPrep, prep}, {pubRest, rest}} {
		calls := 0
		other := 0
		allInstrs(p.pub, func(_ *ssa.BasicBlock, _ int, in ssa.Instruction) {
			switch x := in.(type) {
			case ssa.CallInstruction:
				if calleeFn(x) == p.inner && len(x.Common().Args) == 1 && x.Common().Args[0] == ssa.Value(p.pub.Params[0]) {
					calls++
				} else {
					other++
				}
			case *ssa.Store:
				other++
			}
		})
		n++
		c.Check(calls == 1 && other == 0 && len(p.pub.Blocks) == 1, rule, fnName(p.pub)+"#delegates", "only delegates to "+p.inner.Name(),
			fnName(p.pub)+" does more (or less) than delegate to "+p.inner.Name()+" on its receiver", p.pub.Pos())
	}
	c.MinCount(rule, "toggle rows and wrappers", n, 14)
}

// ---------------------------------------------------------------------------
// C09-R7: the receivers reassemble an ad that carries secrets

func c09r7(c *Ctx) {
	const rule = "C09-R7"
	defer c08RuleTimer(rule)()
	c.Doc(rule, "the parsing and the raw-text receiver consume, after a string equal to SecretMarker, one more string inside Prepare/RestoreCryptoForSecret and count both as one expression (wire-item language of C08-R1 restricted to the two receivers that return the ad)")
	w := c.wireAnchors(rule)
	if !w.ok {
		return
	}
	n := 0
	for _, r := range c08Receivers[:2] {
		fn := c.needFn(rule, r.rel, r.name)
		if fn == nil {
			continue
		}
		exp := wSeq(wLit("INT"), wStar(recvBodyL()), wLit("STR"), wLit("STR"))
		c08CompareLayout(c, rule, w, fn, exp, recvLayoutText, nil)
		n++
	}
	// the bracket is not optional when the stream has the toggle: Prepare precedes the secret read in getSecretString-like helpers
	c.MinCount(rule, "receivers", n, 2)
}
