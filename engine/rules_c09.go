package main

import (
	"fmt"
	"go/token"
	"go/types"
	"sort"
	"strings"

	"golang.org/x/tools/go/ssa"
)

// C09 -- private attributes are never serialised unless asked for, nor sent in the clear (DESIGN.md section 5).
//
//	R1 taint: message writes of the serialiser reach the ad only through the filtered name list / the two type names
//	R2 decision table of the option bits and the peer-version gate, folded from SSA (help_c09.go)
//	R3 keep/drop table of both filters, predicates resolved to the classad module, applied to the appended value
//	R4 case-insensitivity of the classad module's predicates; message's wrappers only delegate
//	R5 putSecretExpr bracket (marker, flush, Prepare, secret, flush, Restore) and the caller's secret branch
//	R6 the stream's crypto-for-secret toggle as a 2x2 table
//	R7 the two ad-returning receivers reassemble marker + secret (shares C08-R1's machinery)
//
// Not decided: private names nested inside expression values, callers that bypass the serialiser with
// PutClassAdRaw* (pre-rendered text), and the byte-level canary search itself.
func init() { register("C09", c09r1, c09r2, c09r3, c09r4, c09r5, c09r6, c09r7) }

const classadPkgSuffix = "PelicanPlatform/classad/classad"

// ---------------------------------------------------------------------------
// shared anchors

type c09Anchors struct {
	ok                bool
	put               *ssa.Function // putClassAdToMessageWithOptions
	byPriv, byWhite   *ssa.Function // the two filters
	putSecret         *ssa.Function
	inList            *ssa.Function // message.isAttrInList when it exists (the membership test of EncryptedAttrs)
	m, ad, cfg        *ssa.Parameter
	w                 *wireAnchors
	incBit, noPrivBit int64
}

func (c *Ctx) c09Anchors(rule string) *c09Anchors {
	a := &c09Anchors{ok: true}
	a.w = c.wireAnchors(rule)
	a.put = c.needFn(rule, "message", "putClassAdToMessageWithOptions")
	a.byPriv = c.needFn(rule, "message", "filterAttributesByPrivacy")
	a.byWhite = c.needFn(rule, "message", "filterAttributesByWhitelist")
	a.putSecret = c.needFn(rule, "message", "(*Message).putSecretExpr")
	if f := c.LookupFn("message", "isAttrInList"); f != nil && f.Blocks != nil {
		a.inList = f // not named by the property: slices.Contains serves as well (see isMember)
	}
	if !a.w.ok || a.put == nil || a.byPriv == nil || a.byWhite == nil || a.putSecret == nil {
		a.ok = false
		return a
	}
	for _, p := range a.put.Params {
		switch {
		case a.w.isMessage(p.Type()):
			a.m = p
		case c09IsNamedPtr(p.Type(), classadPkgSuffix, "ClassAd"):
			a.ad = p
		case c09IsNamedPtr(p.Type(), ModPath+"/message", "PutClassAdConfig"):
			a.cfg = p
		}
	}
	if a.m == nil || a.ad == nil || a.cfg == nil {
		c.AnchorMissing(rule, "parameters (m, ad, config) of putClassAdToMessageWithOptions")
		a.ok = false
	}
	bit := func(name string) int64 {
		k, _ := c.needObj(rule, "message", name).(*types.Const)
		if k == nil {
			a.ok = false
			return 0
		}
		v, ok := constInt(ssa.NewConst(k.Val(), k.Type()))
		if !ok || v == 0 {
			a.ok = false
		}
		return v
	}
	a.incBit = bit("PutClassAdIncludePrivate")
	a.noPrivBit = bit("PutClassAdNoPrivate")
	return a
}

// isMember: the call is a membership test of a string list (the EncryptedAttrs test): message.isAttrInList, or
// slices.Contains / slices.Index of the standard library.
func (a *c09Anchors) isMember(call ssa.CallInstruction) bool {
	if g := calleeFn(call); g != nil && g == a.inList {
		return true
	}
	if o := calleeObj(call); o != nil && o.Pkg() != nil && o.Pkg().Path() == "slices" && o.Name() == "Contains" {
		return true
	}
	return false
}

func c09IsNamedPtr(t types.Type, pkgSuffix, name string) bool {
	p, ok := t.Underlying().(*types.Pointer)
	if !ok {
		return false
	}
	n, ok := p.Elem().(*types.Named)
	return ok && n.Obj().Name() == name && n.Obj().Pkg() != nil && strings.HasSuffix(n.Obj().Pkg().Path(), pkgSuffix)
}

// c09PredKind resolves a callee to the classad module's private-attribute predicates, looking through thin
// wrappers (a function whose only return is a call of a resolved predicate on its own first parameter).
func c09PredKind(g *ssa.Function, depth int) string {
	if g == nil || depth > 3 {
		return ""
	}
	if pk := fnPkg(g); pk != nil && strings.HasSuffix(pk.Path(), classadPkgSuffix) {
		switch g.Name() {
		case "IsPrivateAttributeV1":
			return "V1"
		case "IsPrivateAttributeV2":
			return "V2"
		case "IsPrivateAttribute":
			return "ANY"
		}
		return ""
	}
	if g.Blocks == nil || len(g.Blocks) != 1 || len(g.Params) != 1 {
		return ""
	}
	ret, ok := g.Blocks[0].Instrs[len(g.Blocks[0].Instrs)-1].(*ssa.Return)
	if !ok || len(ret.Results) != 1 {
		return ""
	}
	call, ok := ret.Results[0].(*ssa.Call)
	if !ok || len(call.Call.Args) != 1 || call.Call.Args[0] != ssa.Value(g.Params[0]) {
		return ""
	}
	return c09PredKind(calleeFn(call), depth+1)
}

// c09OrdinalKeys labels the calls of one callee in source order: name#1, name#2, ...
func c09OrdinalKeys(calls []ssa.CallInstruction, name func(ssa.CallInstruction) string) map[ssa.CallInstruction]string {
	sorted := append([]ssa.CallInstruction{}, calls...)
	sort.SliceStable(sorted, func(i, j int) bool { return sorted[i].Pos() < sorted[j].Pos() })
	cnt := map[string]int{}
	out := map[ssa.CallInstruction]string{}
	for _, cs := range sorted {
		n := name(cs)
		cnt[n]++
		out[cs] = fmt.Sprintf("%s#%d", n, cnt[n])
	}
	return out
}

// ---------------------------------------------------------------------------
// C09-R1: only filtered names are written

// c09Access is a call that takes the ad as an argument, in the frame it occurs in.
type c09Access struct {
	fr   *cxFrame
	call *ssa.Call
}

// c09AdAccesses walks the backward slice of v (through phis, conversions, local arrays/cells and call
// arguments; through the parameters of a helper to the caller's arguments; through the results of same-module
// value helpers that are handed the ad) and returns the calls that take the ad as an argument, whether the ad
// itself flows into v, and stops at sanitiser calls. isAd recognises the ad in any frame.
func c09AdAccesses(fr *cxFrame, v ssa.Value, isAd func(*cxFrame, ssa.Value) bool, sanitiser func(ssa.CallInstruction) bool) (accesses []c09Access, rawAd bool) {
	type key struct {
		fn *ssa.Function
		v  ssa.Value
	}
	seen := map[key]bool{}
	var walk func(fr *cxFrame, v ssa.Value, d int)
	storesInto := func(fr *cxFrame, addr ssa.Value, d int) {
		var visitAddr func(a ssa.Value, dd int)
		visitAddr = func(a ssa.Value, dd int) {
			if dd > 4 {
				return
			}
			refs := a.Referrers()
			if refs == nil {
				return
			}
			for _, r := range *refs {
				switch x := r.(type) {
				case *ssa.Store:
					if x.Addr == a {
						walk(fr, x.Val, d+1)
					}
				case *ssa.IndexAddr:
					if x.X == a {
						visitAddr(x, dd+1)
					}
				case *ssa.FieldAddr:
					if x.X == a {
						visitAddr(x, dd+1)
					}
				}
			}
		}
		visitAddr(addr, 0)
	}
	walk = func(fr *cxFrame, v ssa.Value, d int) {
		if v == nil || seen[key{fr.fn, v}] || d > 80 {
			return
		}
		seen[key{fr.fn, v}] = true
		if isAd(fr, v) {
			rawAd = true
			return
		}
		switch x := v.(type) {
		case *ssa.Parameter, *ssa.FreeVar:
			if r := fr.resolve(v); r.fr != fr {
				walk(r.fr, r.v, d+1)
			}
			return
		case *ssa.Const, *ssa.Global, *ssa.Builtin, *ssa.Function:
			return
		case *ssa.Alloc:
			storesInto(fr, x, d)
			return
		case *ssa.Call:
			if sanitiser(x) {
				return
			}
			takesAd := false
			for _, a := range callArgs(x) {
				if isAd(fr, a) {
					takesAd = true
				}
			}
			if takesAd {
				// a same-module value helper that is handed the ad: what it returns is what matters
				if sub := fr.enter(x); sub != nil {
					for _, ret := range cxReturns(sub.fn) {
						for _, r := range ret.Results {
							walk(sub, r, d+1)
						}
					}
					return
				}
				accesses = append(accesses, c09Access{fr, x})
			}
			for _, a := range callArgs(x) {
				if !isAd(fr, a) {
					walk(fr, a, d+1)
				}
			}
			return
		}
		if in, ok := v.(ssa.Instruction); ok {
			for _, op := range in.Operands(nil) {
				if *op != nil {
					walk(fr, *op, d+1)
				}
			}
		}
	}
	walk(fr, v, 0)
	return
}

// c09Sink is a message write of the serialiser: a call that receives the message, in its frame.
type c09Sink struct {
	fr   *cxFrame
	call ssa.CallInstruction
}

func c09r1(c *Ctx) {
	const rule = "C09-R1"
	defer c08RuleTimer(rule)()
	c.Doc(rule, "taint in putClassAdToMessageWithOptions (and the same-module helpers it hands both the message and the ad to): every value handed to a message write (PutInt/PutString/PutStringBytes/putSecretExpr/any call that receives the message) reaches the ad only through ad.Lookup(name) with name an element of the slice returned by filterAttributesByWhitelist/filterAttributesByPrivacy, or through EvaluateAttrString of the constants MyType/TargetType; the ad itself is never handed to a writer")
	a := c.c09Anchors(rule)
	if !a.ok {
		return
	}
	fn := a.put
	top := cxTop(fn)
	isMsg := func(fr *cxFrame, v ssa.Value) bool {
		r := fr.resolve(v)
		return r.fr == top && r.v == ssa.Value(a.m)
	}
	isAd := func(fr *cxFrame, v ssa.Value) bool {
		r := fr.resolve(v)
		return r.fr == top && r.v == ssa.Value(a.ad)
	}
	sanitiser := func(call ssa.CallInstruction) bool {
		g := calleeFn(call)
		return g != nil && (g == a.byPriv || g == a.byWhite)
	}
	// sinks: calls that receive the message (as receiver or argument). A same-module helper that is handed the
	// message together with the ad is not a sink itself: the writes inside it are (in its frame).
	var sinks []c09Sink
	var collect func(fr *cxFrame)
	collect = func(fr *cxFrame) {
		if len(fr.fn.AnonFuncs) > 0 {
			c.Undecided(rule, fnName(fr.fn)+"#closures", "the serialiser contains closures; writes inside them are not followed", fr.fn.Pos())
		}
		allInstrs(fr.fn, func(_ *ssa.BasicBlock, _ int, in ssa.Instruction) {
			if f := a.w.msgField(in); f == a.w.bufF {
				// raw access to the message's buffer would bypass the writers
				c.Undecided(rule, fnName(fr.fn)+"#raw-buffer", "the serialiser touches Message.buffer directly; such writes are not followed", in.Pos())
			}
			call, ok := in.(ssa.CallInstruction)
			if !ok {
				return
			}
			gets := false
			for _, arg := range callArgs(call) {
				if isMsg(fr, arg) {
					gets = true
				}
			}
			if !gets {
				return
			}
			// a same-module helper that is not one of the wire primitives is not a sink itself: the writes
			// inside it are (in its frame; its parameters are traced back to the arguments handed in here)
			if g := calleeFn(call); g != nil && !a.w.intWriters[g] && !a.w.strWriters[g] && !a.w.rawMsg[g] && !a.w.nbytes[g] && g != a.w.flush && g != a.putSecret {
				if sub := fr.enter(call); sub != nil {
					collect(sub)
					return
				}
			}
			sinks = append(sinks, c09Sink{fr, call})
		})
	}
	collect(top)
	var sinkCalls []ssa.CallInstruction
	for _, sk := range sinks {
		sinkCalls = append(sinkCalls, sk.call)
	}
	keys := c09OrdinalKeys(sinkCalls, func(cs ssa.CallInstruction) string {
		if o := calleeObj(cs); o != nil {
			return o.Name()
		}
		return "dynamic"
	})
	keepSan := func(_ *cxFrame, call ssa.CallInstruction) bool { return sanitiser(call) }
	filteredElem := func(fr *cxFrame, name ssa.Value) bool {
		os := cxOrigins(fr, name, keepSan)
		if len(os) == 0 {
			return false
		}
		for _, o := range os {
			ld, ok := o.v.(*ssa.UnOp)
			if !ok || ld.Op != token.MUL {
				return false
			}
			ia, ok := ld.X.(*ssa.IndexAddr)
			if !ok {
				return false
			}
			srcs := cxOrigins(o.fr, ia.X, keepSan)
			if len(srcs) == 0 {
				return false
			}
			for _, s := range srcs {
				call, idx := originCall(s.v)
				if call == nil || idx != 0 || !sanitiser(call) {
					return false
				}
			}
		}
		return true
	}
	n := 0
	for _, sk := range sinks {
		sink := sk.call
		n++
		key := fnName(fn) + "#write:" + keys[sink]
		bad := ""
		for _, arg := range callArgs(sink) {
			if isMsg(sk.fr, arg) {
				continue
			}
			acc, raw := c09AdAccesses(sk.fr, arg, isAd, sanitiser)
			if raw {
				bad = "the ad itself is handed to this writer"
			}
			for _, ac := range acc {
				call := ac.call
				o := calleeObj(call)
				args := call.Call.Args
				switch {
				case o != nil && o.Name() == "Lookup" && len(args) == 2:
					if !filteredElem(ac.fr, args[1]) {
						bad = "it looks up an attribute name that is not an element of the filtered list (line " + c.Pos(call.Pos()) + ")"
					}
				case o != nil && o.Name() == "EvaluateAttrString" && len(args) == 2:
					if s, ok := constString(ac.fr.resolve(args[1]).v); !ok || (s != "MyType" && s != "TargetType") {
						bad = "it evaluates an attribute other than MyType/TargetType (line " + c.Pos(call.Pos()) + ")"
					}
				default:
					name := "a call"
					if o != nil {
						name = o.Name()
					}
					bad = "attribute data reaches it through " + name + " (line " + c.Pos(call.Pos()) + "), which is not filtered by the privacy filters"
				}
			}
		}
		c.Check(bad == "", rule, key, "its data reaches the ad only through the filtered attribute list or the two type names",
			"a message write in the serialiser can carry unfiltered attribute data: "+bad, sink.Pos())
	}
	c.MinCount(rule, "message writes in the serialiser", n, 2) // at least the count and one expression write
}

// ---------------------------------------------------------------------------
// C09-R2: decision table of the option bits

type c09Version struct {
	nilV          bool
	maj, min, pat int64
}

func (v c09Version) String() string {
	if v.nilV {
		return "nil"
	}
	return fmt.Sprintf("%d.%d.%d", v.maj, v.min, v.pat)
}

func (v c09Version) since990() bool {
	if v.maj != 9 {
		return v.maj > 9
	}
	if v.min != 9 {
		return v.min > 9
	}
	return v.pat >= 0
}

func c09BoolParams(fn *ssa.Function) []int {
	var out []int
	for i, p := range fn.Params {
		if b, ok := p.Type().Underlying().(*types.Basic); ok && b.Kind() == types.Bool {
			out = append(out, i)
		}
	}
	return out
}

func c09r2(c *Ctx) {
	const rule = "C09-R2"
	defer c08RuleTimer(rule)()
	c.Doc(rule, "finite table by constant folding of the serialiser's SSA: for every combination of the IncludePrivate and NoPrivate bits (with and without unrelated bits) and PeerVersion in {nil, below, at and above 9.9.0} the two booleans handed to the privacy filters fold to excludePrivate = !(Include && !NoPrivate) and excludePrivateV2 = excludePrivate || (PeerVersion != nil && PeerVersion < 9.9.0) (BuiltSinceVersion folded from its own SSA); the cut-off passed is the constant triple (9,9,0); a nil config behaves as the zero config")
	a := c.c09Anchors(rule)
	if !a.ok {
		return
	}
	fn := a.put
	optF := c.needField(rule, "message", "PutClassAdConfig", "Options")
	pvF := c.needField(rule, "message", "PutClassAdConfig", "PeerVersion")
	majF := c.needField(rule, "message", "HTCondorVersion", "Major")
	minF := c.needField(rule, "message", "HTCondorVersion", "Minor")
	patF := c.needField(rule, "message", "HTCondorVersion", "Patch")
	bsv := c.needFn(rule, "message", "(*HTCondorVersion).BuiltSinceVersion")
	if optF == nil || pvF == nil || majF == nil || minF == nil || patF == nil || bsv == nil {
		return
	}
	// cut-off triple (the call may sit in a helper the serialiser calls; constants may arrive through its parameters)
	nb := 0
	cxCallsDeep(cxTop(fn), func(_ *cxFrame, call ssa.CallInstruction) bool {
		g := calleeFn(call)
		return g != a.byPriv && g != a.byWhite && g != bsv
	}, func(fr *cxFrame, cs ssa.CallInstruction) {
		if calleeFn(cs) != bsv {
			return
		}
		nb++
		args := cs.Common().Args
		okT := len(args) == 4
		want := []int64{9, 9, 0}
		for i := 1; okT && i < 4; i++ {
			k, isC := constInt(fr.resolve(args[i]).v)
			okT = isC && k == want[i-1]
		}
		c.Check(okT, rule, fnName(fn)+"#BuiltSinceVersion(9,9,0)", "the reserved-prefix cut-off is the constant version 9.9.0",
			"the version cut-off for reserved-prefix private attributes is not the constant triple (9,9,0)", cs.Pos())
	})
	c.MinCount(rule, "BuiltSinceVersion call sites in the serialiser", nb, 1)

	filterArgs := map[*ssa.Function][]int{}
	for _, f := range []*ssa.Function{a.byPriv, a.byWhite} {
		bp := c09BoolParams(f)
		if len(bp) != 2 {
			c.Undecided(rule, fnName(f)+"#bool-params", "expected exactly two boolean parameters (excludePrivate, excludePrivateV2)", f.Pos())
			return
		}
		filterArgs[f] = bp
	}
	versions := []c09Version{{nilV: true}, {maj: 9, min: 9, pat: 0}, {maj: 9, min: 9, pat: 1}, {maj: 9, min: 10, pat: 0}, {maj: 10, min: 0, pat: 0}, {maj: 23, min: 0, pat: 0},
		{maj: 9, min: 8, pat: 9}, {maj: 9, min: 0, pat: 0}, {maj: 8, min: 9, pat: 9}, {maj: 8, min: 99, pat: 99}}
	other := int64(1 | 4 | 16) // NoTypes, ServerTime, NoExpandWhitelist: must not matter
	rows, sites := 0, map[string]bool{}
	var failures []string
	undecided := ""
	for _, nilCfg := range []bool{false, true} {
		for _, inc := range []bool{false, true} {
			for _, nop := range []bool{false, true} {
				for _, extra := range []int64{0, other} {
					for _, ver := range versions {
						if nilCfg && (inc || nop || extra != 0 || !ver.nilV) {
							continue
						}
						opts := extra
						if inc {
							opts |= a.incBit
						}
						if nop {
							opts |= a.noPrivBit
						}
						pv := avNilV()
						if !ver.nilV {
							pv = avO(&aobj{Name: "version", Fields: map[*types.Var]aval{majF: avI(ver.maj), minF: avI(ver.min), patF: avI(ver.pat)}})
						}
						cfg := avO(&aobj{Name: "config", Fields: map[*types.Var]aval{optF: avI(opts), pvF: pv}})
						if nilCfg {
							cfg = avNilV()
						}
						wantEx := !(inc && !nop)
						wantV2 := wantEx || (!ver.nilV && !ver.since990())
						rowName := fmt.Sprintf("config=%v Include=%v NoPrivate=%v otherbits=%d PeerVersion=%s", !nilCfg, inc, nop, extra, ver)
						params := make([]aval, len(fn.Params))
						for i, p := range fn.Params {
							if p == a.cfg {
								params[i] = cfg
							}
						}
						reached := 0
						it := &ainterp{foldCallees: true}
						it.oracle = func(_ *ssa.Function, v ssa.Value, _ []aval) (aval, bool) {
							// never fold the filters or the writers themselves; other same-module callees (helpers that
							// compute the decision, wrap the version test or wrap the filter calls) are explored in place
							if call, ok := v.(*ssa.Call); ok {
								g := calleeFn(call)
								if g == nil || filterArgs[g] != nil {
									return avU, true
								}
								for _, arg := range callArgs(call) {
									if a.w.isMessage(arg.Type()) {
										return avU, true
									}
								}
							}
							return avU, false
						}
						it.at = func(f *ssa.Function, in ssa.Instruction, env *aenv, it *ainterp) string {
							call, ok := in.(*ssa.Call)
							if !ok {
								return ""
							}
							g := calleeFn(call)
							bp, isFilter := filterArgs[g]
							if !isFilter {
								return ""
							}
							reached++
							sites[fnName(g)] = true
							ex := it.eval(f, call.Call.Args[bp[0]], env)
							v2 := it.eval(f, call.Call.Args[bp[1]], env)
							if ex.K != avBool || v2.K != avBool {
								undecided = "cannot fold the privacy arguments of " + fnName(g) + " for row " + rowName
								return "stop"
							}
							if ex.B != wantEx || v2.B != wantV2 {
								failures = append(failures, fmt.Sprintf("%s: %s receives excludePrivate=%v excludePrivateV2=%v, required %v/%v", rowName, fnName(g), ex.B, v2.B, wantEx, wantV2))
							}
							return "stop"
						}
						it.run(fn, params)
						rows++
						if reached == 0 || it.Overflow {
							undecided = "no filter call reached for row " + rowName
						}
					}
				}
			}
		}
	}
	key := fnName(fn) + "#privacy-decision-table"
	switch {
	case undecided != "":
		c.Undecided(rule, key, undecided, fn.Pos())
	case len(failures) > 0:
		sort.Strings(failures)
		more := ""
		if len(failures) > 1 {
			more = fmt.Sprintf(" (and %d more rows)", len(failures)-1)
		}
		c.Violate(rule, key, "the privacy decision differs from the stated table: "+failures[0]+more, fn.Pos(), failures...)
	default:
		c.Ok(rule, key, fmt.Sprintf("%d rows folded; both filters receive exactly the stated decision", rows), fn.Pos())
	}
	c.MinCount(rule, "decision-table rows", rows, 80)
	c.MinCount(rule, "filter call sites reached", len(sites), 2)
}

// ---------------------------------------------------------------------------
// C09-R3: both filters apply the same predicate

func c09r3(c *Ctx) {
	const rule = "C09-R3"
	defer c08RuleTimer(rule)()
	c.Doc(rule, "finite table per filter (one loop iteration folded over excludePrivate, excludePrivateV2 and the outcomes of the resolved predicates): an attribute is appended iff it is whitelisted/present (whitelist filter) and not ((excludePrivate && (V1 || V2)) || (excludePrivateV2 && V2)), where V1/V2 are calls resolving through thin wrappers to classad.IsPrivateAttributeV1/V2 applied to the very value that is appended; both filters yield the same table")
	a := c.c09Anchors(rule)
	if !a.ok {
		return
	}
	tables := map[*ssa.Function]string{}
	// per filter, once decided: the privacy decision per (excludePrivate, excludePrivateV2, V1, V2, inList) and
	// whether its predicates resolve and are applied to the appended value (a filter may hand its result to the
	// other filter instead of repeating the test)
	decided := map[*ssa.Function]map[[5]bool]string{}
	predsOK := map[*ssa.Function]bool{}
	n := 0
	for _, fn := range []*ssa.Function{a.byPriv, a.byWhite} {
		bp := c09BoolParams(fn)
		if len(bp) != 2 {
			c.Undecided(rule, fnName(fn)+"#bool-params", "expected exactly two boolean parameters", fn.Pos())
			continue
		}
		// the append and the appended element
		var app *ssa.Call
		var elem ssa.Value
		allInstrs(fn, func(_ *ssa.BasicBlock, _ int, in ssa.Instruction) {
			call, ok := in.(*ssa.Call)
			if !ok {
				return
			}
			if b, ok := call.Call.Value.(*ssa.Builtin); ok && b.Name() == "append" && types.Identical(call.Type(), fn.Signature.Results().At(0).Type()) {
				if app != nil {
					app, elem = nil, nil // more than one append: handled below as undecided
					return
				}
				app = call
				if al, ok := memRoot(call.Call.Args[1]).(*ssa.Alloc); ok {
					for _, r := range *al.Referrers() {
						if ia, ok := r.(*ssa.IndexAddr); ok {
							for _, rr := range *ia.Referrers() {
								if st, ok := rr.(*ssa.Store); ok && st.Addr == ia {
									elem = st.Val
								}
							}
						}
					}
				}
			}
		})
		if app == nil || elem == nil {
			c.Undecided(rule, fnName(fn)+"#append", "expected exactly one append(result, attr) in the filter", fn.Pos())
			continue
		}
		loop := c08LoopOf(fn, app.Block())
		if loop == nil {
			c.Undecided(rule, fnName(fn)+"#append", "the append is not inside a loop", app.Pos())
			continue
		}
		// delegation: the filter returns what the other (already decided) filter makes of the list it appended to
		var deleg *ssa.Call
		{
			ok := true
			var cand *ssa.Call
			for _, ret := range cxReturns(fn) {
				for _, o := range origins(fn, ret.Results[0]) {
					call, isCall := o.(*ssa.Call)
					var g *ssa.Function
					if isCall {
						g = calleeFn(call)
					}
					if !isCall || g == nil || g == fn || (g != a.byPriv && g != a.byWhite) || decided[g] == nil || (cand != nil && cand != call) {
						ok = false
						continue
					}
					cand = call
				}
			}
			if ok && cand != nil {
				// the list handed over is the one the append builds (or still empty)
				for _, o := range origins(fn, cand.Call.Args[0]) {
					if o != ssa.Value(app) && !isNilConst(o) {
						ok = false
					}
				}
				if ok {
					deleg = cand
				}
			}
		}
		// predicate calls: resolved kind and argument identity. The calls may sit in the filter itself or in a
		// same-module helper it calls (a shared exclusion predicate); a helper's parameter is mapped back to the
		// argument the filter passes.
		kinds := map[string]int{}
		argOK := true
		top := cxTop(fn)
		if deleg != nil && predsOK[calleeFn(deleg)] {
			kinds["ANY"]++ // consulted by the filter the result is handed to, on the appended values
		}
		cxCallsDeep(top, func(_ *cxFrame, call ssa.CallInstruction) bool {
			g := calleeFn(call)
			return c09PredKind(g, 0) == "" && !a.isMember(call) && g != a.byPriv && g != a.byWhite
		}, func(fr *cxFrame, call ssa.CallInstruction) {
			if k := c09PredKind(calleeFn(call), 0); k != "" {
				kinds[k]++
				args := call.Common().Args
				if len(args) != 1 {
					argOK = false
					return
				}
				if r := fr.resolve(args[0]); r.fr != top || r.v != elem {
					argOK = false
				}
			}
		})
		c.Check(kinds["V1"]+kinds["ANY"] > 0 && kinds["V2"]+kinds["ANY"] > 0, rule, fnName(fn)+"#predicates-resolve",
			"the filter consults predicates that resolve to classad.IsPrivateAttributeV1 and V2",
			"the filter does not consult predicates resolving to classad.IsPrivateAttributeV1 and IsPrivateAttributeV2 (a local re-implementation is not accepted: the earlier one matched case-sensitively)", fn.Pos())
		c.Check(argOK, rule, fnName(fn)+"#predicate-argument", "the predicates are applied to the value that is appended",
			"a privacy predicate is applied to a different value than the attribute name that is appended", fn.Pos())
		predsOK[fn] = argOK && kinds["V1"]+kinds["ANY"] > 0 && kinds["V2"]+kinds["ANY"] > 0
		thisTable := map[[5]bool]string{}
		var delegBools []int
		if deleg != nil {
			delegBools = c09BoolParams(calleeFn(deleg))
		}

		var rowsOut []string
		var bad []string
		und := ""
		for mask := 0; mask < 1<<7; mask++ {
			eP, eP2, v1, v2, inl, white, exists := mask&1 != 0, mask&2 != 0, mask&4 != 0, mask&8 != 0, mask&16 != 0, mask&32 != 0, mask&64 != 0
			if fn == a.byPriv && (!white || !exists) {
				continue
			}
			params := make([]aval, len(fn.Params))
			params[bp[0]], params[bp[1]] = avB(eP), avB(eP2)
			it := &ainterp{foldCallees: true}
			it.oracle = func(f *ssa.Function, v ssa.Value, _ []aval) (aval, bool) {
				switch x := v.(type) {
				case *ssa.Call:
					g := calleeFn(x)
					switch c09PredKind(g, 0) {
					case "V1":
						return avB(v1), true
					case "V2":
						return avB(v2), true
					case "ANY":
						return avB(v1 || v2), true
					}
					if a.isMember(x) {
						return avB(inl), true
					}
					if o := calleeObj(x); o != nil && o.Name() == "Lookup" && o.Pkg() != nil && strings.HasSuffix(o.Pkg().Path(), classadPkgSuffix) {
						return avT(avU, avB(exists)), true
					}
					if g == a.byPriv || g == a.byWhite {
						return avU, true // the other filter: its own table is used (see deleg)
					}
					// same-module helpers (an extracted exclusion predicate) are explored in place
					return avU, false
				case *ssa.Lookup:
					if x.CommaOk {
						return avT(avB(white), avB(white)), true
					}
					return avB(white), true
				}
				return avU, false
			}
			var dP, dP2 aval
			it.at = func(f *ssa.Function, in ssa.Instruction, env *aenv, it *ainterp) string {
				if in == ssa.Instruction(app) {
					return "kept"
				}
				if deleg != nil && in == ssa.Instruction(deleg) && len(delegBools) == 2 {
					dP, dP2 = it.eval(f, deleg.Call.Args[delegBools[0]], env), it.eval(f, deleg.Call.Args[delegBools[1]], env)
					return "handed-over"
				}
				return ""
			}
			it.revisit = func(f *ssa.Function, b *ssa.BasicBlock) string {
				if loop[b] {
					return "dropped"
				}
				return ""
			}
			out := it.run(fn, params)
			row := fmt.Sprintf("excludePrivate=%v excludePrivateV2=%v V1=%v V2=%v inEncryptedList=%v", eP, eP2, v1, v2, inl)
			if fn == a.byWhite {
				row += fmt.Sprintf(" whitelisted=%v present=%v", white, exists)
			}
			n++
			got := ""
			switch {
			case it.Overflow || (out["kept"] > 0 && out["dropped"] > 0) || (out["kept"] == 0 && out["dropped"] == 0):
				und = "cannot fold the filter's decision for row " + row
				continue
			case out["kept"] > 0:
				got = "kept"
			default:
				got = "dropped"
			}
			if deleg != nil && got == "kept" {
				// what this filter lets through is then decided by the filter it hands the list to
				if dP.K != avBool || dP2.K != avBool {
					und = "cannot fold the privacy arguments handed to " + fnName(calleeFn(deleg)) + " for row " + row
					continue
				}
				d, ok := decided[calleeFn(deleg)][[5]bool{dP.B, dP2.B, v1, v2, inl}]
				if !ok {
					und = "no decision of " + fnName(calleeFn(deleg)) + " for row " + row
					continue
				}
				got = d
			}
			if white && exists {
				thisTable[[5]bool{eP, eP2, v1, v2, inl}] = got
			}
			private := (eP && (v1 || v2)) || (eP2 && v2)
			want := "kept"
			if private || !white || !exists {
				want = "dropped"
			}
			dontCare := inl && eP && !v1 && !v2 && white && exists // EncryptedAttrs members under exclusion: not stated by the property
			if got != want && !dontCare {
				bad = append(bad, row+": "+got+", required "+want)
			}
			if white && exists && !dontCare {
				rowsOut = append(rowsOut, fmt.Sprintf("%v%v%v%v%v=%s", eP, eP2, v1, v2, inl, got))
			}
		}
		key := fnName(fn) + "#filter-table"
		switch {
		case und != "":
			c.Undecided(rule, key, und, fn.Pos())
		case len(bad) > 0:
			more := ""
			if len(bad) > 1 {
				more = fmt.Sprintf(" (and %d more rows)", len(bad)-1)
			}
			c.Violate(rule, key, "the filter's keep/drop decision differs from the stated predicate: "+bad[0]+more, app.Pos(), bad...)
		default:
			c.Ok(rule, key, "keep/drop decision equals the stated predicate on every row", app.Pos())
		}
		tables[fn] = strings.Join(rowsOut, ";")
		if und == "" {
			decided[fn] = thisTable
		}
	}
	if len(tables) == 2 {
		c.Check(tables[a.byPriv] == tables[a.byWhite], rule, "filters-agree", "both filters have the same privacy table",
			"filterAttributesByPrivacy and filterAttributesByWhitelist decide differently for the same privacy inputs", a.byWhite.Pos())
	}
	c.MinCount(rule, "filter rows folded", n, 32+128)
}

// ---------------------------------------------------------------------------
// C09-R4: case-insensitivity lives in the classad module's predicates

func c09r4(c *Ctx) {
	const rule = "C09-R4"
	defer c08RuleTimer(rule)()
	c.Doc(rule, "in the classad module: IsPrivateAttributeV1 looks its argument up only after strings.ToLower and every key of the looked-up table is lower-case and the six fixed names are present; IsPrivateAttributeV2 compares a prefix of its argument with a lower-case constant through strings.EqualFold; IsPrivateAttribute is V1 || V2 of its argument; message's wrappers resolve to these")
	full := ""
	for path := range c.All {
		if strings.HasSuffix(path, classadPkgSuffix) {
			full = path
		}
	}
	if full == "" {
		c.AnchorMissing(rule, "package "+classadPkgSuffix)
		return
	}
	fnOf := func(name string) *ssa.Function {
		f := c.LookupFn(full, name)
		if f == nil || f.Blocks == nil {
			c.AnchorMissing(rule, full+"."+name)
			return nil
		}
		return f
	}
	v1, v2, anyF := fnOf("IsPrivateAttributeV1"), fnOf("IsPrivateAttributeV2"), fnOf("IsPrivateAttribute")
	if v1 == nil || v2 == nil || anyF == nil {
		return
	}
	isParam0 := func(f *ssa.Function) func(ssa.Value) bool {
		return func(v ssa.Value) bool { return len(f.Params) > 0 && v == ssa.Value(f.Params[0]) }
	}
	stringsCall := func(v ssa.Value, name string) *ssa.Call {
		call, ok := v.(*ssa.Call)
		if !ok {
			return nil
		}
		if o := calleeObj(call); o != nil && o.Pkg() != nil && o.Pkg().Path() == "strings" && o.Name() == name {
			return call
		}
		return nil
	}
	n := 0
	// V1: every map lookup's key is strings.ToLower(param)
	var table *ssa.Global
	nl := 0
	allInstrs(v1, func(_ *ssa.BasicBlock, _ int, in ssa.Instruction) {
		lk, ok := in.(*ssa.Lookup)
		if !ok {
			return
		}
		nl++
		n++
		low := stringsCall(lk.Index, "ToLower")
		c.Check(low != nil && low.Call.Args[0] == ssa.Value(v1.Params[0]), rule, "IsPrivateAttributeV1#lookup-key", "the table is consulted with strings.ToLower(name)",
			"IsPrivateAttributeV1 consults its table with a key that is not strings.ToLower(name): matching would be case-sensitive", lk.Pos())
		if ld, ok := lk.X.(*ssa.UnOp); ok {
			if g, ok := ld.X.(*ssa.Global); ok {
				table = g
			}
		}
	})
	for _, t := range c.successTargets(v1) {
		res := t.Ret.Results[0]
		dep := mustDepend(v1, res, func(v ssa.Value) bool { _, ok := v.(*ssa.Lookup); return ok })
		c.Check(dep, rule, "IsPrivateAttributeV1#result", "the result is the outcome of the table lookup", "IsPrivateAttributeV1 returns a value that does not come from the lower-cased table lookup", t.Ret.Pos())
	}
	if nl == 0 {
		c.Violate(rule, "IsPrivateAttributeV1#lookup-key", "IsPrivateAttributeV1 performs no table lookup (unexpected shape)", v1.Pos())
	}
	// the table's keys: MapUpdate instructions on the global in the package initialiser
	if table == nil {
		c.Undecided(rule, "IsPrivateAttributeV1#table", "cannot identify the looked-up table as a package variable", v1.Pos())
	} else {
		keys := map[string]bool{}
		okKeys := true
		for fnc := range c.allFns {
			if fnc.Pkg == nil || fnc.Pkg.Pkg.Path() != full || fnc.Blocks == nil {
				continue
			}
			allInstrs(fnc, func(_ *ssa.BasicBlock, _ int, in ssa.Instruction) {
				mu, ok := in.(*ssa.MapUpdate)
				if !ok {
					return
				}
				// maps stored into the global, or loaded from it
				if !c09MapIsGlobal(mu.Map, table) {
					return
				}
				k, isC := constString(mu.Key)
				if !isC {
					okKeys = false
					return
				}
				keys[k] = true
				if k != strings.ToLower(k) {
					okKeys = false
				}
			})
		}
		n++
		c.Check(okKeys && len(keys) > 0, rule, "privateAttrsV1#keys-lower-case", fmt.Sprintf("all %d table keys are lower-case constants", len(keys)),
			"a key of the fixed private-attribute table is not a lower-case constant: a lower-cased lookup can never match it", table.Pos())
		var missing []string
		for _, want := range []string{"capability", "childclaimids", "claimid", "claimidlist", "claimids", "transferkey"} {
			if !keys[want] {
				missing = append(missing, want)
			}
		}
		n++
		c.Check(len(missing) == 0, rule, "privateAttrsV1#fixed-names", "the claim / capability / transfer-key names are all present",
			"fixed private attribute name(s) missing from the table: "+strings.Join(missing, ", "), table.Pos())
	}
	// V2: result depends on strings.EqualFold(prefix-of-param, lower-case const)
	nf := 0
	allInstrs(v2, func(_ *ssa.BasicBlock, _ int, in ssa.Instruction) {
		call, ok := in.(*ssa.Call)
		if !ok || stringsCall(call, "EqualFold") == nil {
			return
		}
		nf++
		n++
		args := call.Call.Args
		var k string
		var other ssa.Value
		if s, ok := constString(args[1]); ok {
			k, other = s, args[0]
		} else if s, ok := constString(args[0]); ok {
			k, other = s, args[1]
		}
		okP := other != nil && mustDepend(v2, other, isParam0(v2)) && strings.HasPrefix(strings.ToLower(k), "_condor_priv") && k != ""
		c.Check(okP, rule, "IsPrivateAttributeV2#EqualFold", "the reserved prefix is compared with strings.EqualFold against the argument's prefix",
			"IsPrivateAttributeV2 does not compare a prefix of its argument with the reserved prefix through strings.EqualFold", call.Pos())
	})
	if nf == 0 {
		c.Violate(rule, "IsPrivateAttributeV2#EqualFold", "IsPrivateAttributeV2 does not use strings.EqualFold: prefix matching would be case-sensitive", v2.Pos())
	}
	for _, t := range c.successTargets(v2) {
		// every non-constant-false origin of the result is the EqualFold comparison (a && b is a phi of false and b)
		dep := true
		for _, o := range origins(v2, t.Ret.Results[0]) {
			if k, isC := constBool(o); isC && !k {
				continue
			}
			if stringsCall(o, "EqualFold") == nil {
				dep = false
			}
		}
		c.Check(dep, rule, "IsPrivateAttributeV2#result", "a positive result comes from the EqualFold comparison", "IsPrivateAttributeV2 can return a value that does not come from the case-insensitive comparison", t.Ret.Pos())
	}
	// ANY = V1(name) || V2(name): fold over the two outcomes
	bad := ""
	for mask := 0; mask < 4; mask++ {
		a1, a2 := mask&1 != 0, mask&2 != 0
		it := &ainterp{}
		it.oracle = func(_ *ssa.Function, v ssa.Value, _ []aval) (aval, bool) {
			if call, ok := v.(*ssa.Call); ok {
				if len(call.Call.Args) != 1 || call.Call.Args[0] != ssa.Value(anyF.Params[0]) {
					return avU, true
				}
				switch calleeFn(call) {
				case v1:
					return avB(a1), true
				case v2:
					return avB(a2), true
				}
				return avU, true
			}
			return avU, false
		}
		var res []aval
		it.atReturn = func(_ *ssa.Function, _ *ssa.Return, r []aval, _ *aenv) string {
			res = append(res, r[0])
			return ""
		}
		it.run(anyF, []aval{avU})
		for _, r := range res {
			if r.K != avBool || r.B != (a1 || a2) {
				bad = fmt.Sprintf("V1=%v V2=%v gives %s", a1, a2, r)
			}
		}
		if len(res) == 0 {
			bad = "no return reached"
		}
	}
	n++
	c.Check(bad == "", rule, "IsPrivateAttribute=V1||V2", "IsPrivateAttribute(name) folds to V1(name) || V2(name)", "IsPrivateAttribute is not V1(name) || V2(name): "+bad, anyF.Pos())
	// message's wrappers
	for name, want := range map[string]string{"ClassAdAttributeIsPrivateV1": "V1", "ClassAdAttributeIsPrivateV2": "V2", "ClassAdAttributeIsPrivateAny": "ANY"} {
		w := c.needFn(rule, "message", name)
		if w == nil {
			continue
		}
		n++
		c.Check(c09PredKind(w, 0) == want, rule, "message."+name+"#delegates", "delegates to the classad module's predicate",
			"message."+name+" is not a thin wrapper of the classad module's predicate (a local copy can drift, e.g. match case-sensitively)", w.Pos())
	}
	c.MinCount(rule, "case-insensitivity obligations", n, 8)
}

// c09MapIsGlobal: map value m is (loaded from / about to be stored into) global g.
func c09MapIsGlobal(m ssa.Value, g *ssa.Global) bool {
	if ld, ok := m.(*ssa.UnOp); ok && ld.X == ssa.Value(g) {
		return true
	}
	if refs := m.Referrers(); refs != nil {
		for _, r := range *refs {
			if st, ok := r.(*ssa.Store); ok && st.Addr == ssa.Value(g) && st.Val == m {
				return true
			}
		}
	}
	return false
}

// ---------------------------------------------------------------------------
// C09-R5: secrets only inside the crypto bracket

func c09r5(c *Ctx) {
	const rule = "C09-R5"
	defer c08RuleTimer(rule)()
	c.Doc(rule, "must-pass-through in putSecretExpr: the marker write and a successful FlushFrame precede PrepareCryptoForSecret; the secret's PutString is reached only after Prepare (or on the edge where the stream has no crypto toggle); from that PutString no path reaches RestoreCryptoAfterSecret or a return without a FlushFrame (or the PutString-failed edge); after Prepare every return passes Restore. In the serialiser: encryptSecrets is !CryptoForSecretIsNoop() of the message's stream, and the plain PutString of an attribute expression is reachable only through the encryptSecrets-false edge or the IsPrivate-false edge, never from the IsPrivate-true edge without putSecretExpr")
	a := c.c09Anchors(rule)
	if !a.ok {
		return
	}
	w := a.w
	fn := a.putSecret
	n := 0
	var prep, rest, flushes, secretPut []ssa.CallInstruction
	var exprParam ssa.Value
	for _, p := range fn.Params {
		if c08IsStringType(p.Type()) {
			exprParam = p
		}
	}
	isMarkerPut := func(in ssa.Instruction) bool {
		call, ok := in.(ssa.CallInstruction)
		if !ok {
			return false
		}
		g := calleeFn(call)
		if g == nil || !w.strWriters[g] {
			return false
		}
		args := call.Common().Args
		return len(args) > 0 && w.isMarkerConst(args[len(args)-1])
	}
	isFlush := func(in ssa.Instruction) bool {
		call, ok := in.(ssa.CallInstruction)
		return ok && calleeFn(call) == w.flush
	}
	// no-toggle edges: the stream does not implement the toggle (the receiver of a Prepare/Restore call is nil,
	// or the type assertion that produced it failed)
	var noToggle []Edge
	allInstrs(fn, func(_ *ssa.BasicBlock, _ int, in ssa.Instruction) {
		call, ok := in.(ssa.CallInstruction)
		if !ok {
			return
		}
		switch w.streamCall(call) {
		case "PREP":
			prep = append(prep, call)
			noToggle = append(noToggle, c09NoToggleEdges(fn, call)...)
			return
		case "REST":
			rest = append(rest, call)
			return
		}
		g := calleeFn(call)
		switch {
		case g == w.flush:
			flushes = append(flushes, call)
		case g != nil && w.strWriters[g]:
			args := call.Common().Args
			last := args[len(args)-1]
			if !w.isMarkerConst(last) && exprParam != nil && mentionsValue(last, exprParam) {
				secretPut = append(secretPut, call)
			}
		default:
			// a same-module helper or closure that performs the toggle call on every path (unless the stream has
			// no toggle) stands for it
			if g != nil && g != fn {
				switch {
				case c09Performs(w, g, "REST", cxDepth, map[*ssa.Function]bool{fn: true}):
					rest = append(rest, call)
				case c09Performs(w, g, "PREP", cxDepth, map[*ssa.Function]bool{fn: true}):
					prep = append(prep, call)
				}
			}
		}
	})
	// the marker write and the flush of the cleartext frame may sit in an error-returning helper (followed by
	// c.satisfyingCuts: the helper's nil-error edge counts when every success path inside passes the write)
	markerCuts := c.c09SatisfyingCuts(fn, isMarkerPut, InlineDepth, nil)
	nMarker := len(markerCuts.Edges) + len(markerCuts.Instrs)
	if len(prep) == 0 || len(rest) == 0 || len(secretPut) == 0 || nMarker == 0 {
		c.Violate(rule, fnName(fn)+"#shape", fmt.Sprintf("putSecretExpr lacks a part of the bracket: Prepare=%d Restore=%d FlushFrame=%d marker write=%d secret write=%d", len(prep), len(rest), len(flushes), nMarker, len(secretPut)), fn.Pos())
		return
	}
	// Restore may be called explicitly or registered with defer. restRun: where it executes (the call, or every
	// RunDefers for a deferred one); restReg: what guarantees it on the way out (the call, or the registration).
	var restRun, restReg []ssa.Instruction
	for _, d := range rest {
		if _, isDefer := d.(*ssa.Defer); isDefer {
			restReg = append(restReg, d)
			allInstrs(fn, func(_ *ssa.BasicBlock, _ int, in ssa.Instruction) {
				if rd, ok := in.(*ssa.RunDefers); ok {
					restRun = append(restRun, rd)
				}
			})
			continue
		}
		if _, isGo := d.(*ssa.Go); isGo {
			c.Undecided(rule, fnName(fn)+"#shape", "Restore is started as a goroutine", d.Pos())
			return
		}
		restRun = append(restRun, d)
		restReg = append(restReg, d)
	}
	failEdges := func(calls []ssa.CallInstruction) []Edge {
		var out []Edge
		for _, cs := range calls {
			_, f, _ := callErrEdges(fn, cs.Value())
			out = append(out, f...)
		}
		return out
	}
	instrs := func(calls []ssa.CallInstruction) []ssa.Instruction {
		var out []ssa.Instruction
		for _, cs := range calls {
			out = append(out, cs)
		}
		return out
	}
	// flushes after the secret write (those from which the secret write is no longer reachable)
	var postFlush []ssa.CallInstruction
	for _, f := range flushes {
		if findPath(after(f), Target{Instr: secretPut[0]}, nil) == nil {
			postFlush = append(postFlush, f)
		}
	}
	// successful flushes of the cleartext frame before the secret: every FlushFrame (in putSecretExpr or in an
	// error-returning helper) from which the secret write is still reachable
	preFlushCuts := c.c09SatisfyingCuts(fn, func(in ssa.Instruction) bool {
		if !isFlush(in) {
			return false
		}
		if in.Parent() == fn {
			return findPath(after(in), Target{Instr: secretPut[0]}, nil) != nil
		}
		return true
	}, InlineDepth, nil)
	for _, p := range prep {
		n++
		c.mustPassInstr(rule, fnName(fn)+"#marker-before-Prepare", fn, p, markerCuts, "a successful write of the SecretMarker")
		n++
		c.mustPassInstr(rule, fnName(fn)+"#flush-before-Prepare", fn, p, preFlushCuts, "a successful FlushFrame of everything buffered in the clear")
	}
	for _, sp := range secretPut {
		n++
		c.mustPassInstr(rule, fnName(fn)+"#Prepare-before-secret", fn, sp, newCuts().AddInstrs(instrs(prep)...).AddEdges(noToggle...), "PrepareCryptoForSecret (or the edge on which the stream has no crypto toggle)")
		// after the secret write: no Restore and no return without flushing the secret frame
		cuts := newCuts().AddInstrs(instrs(postFlush)...).AddEdges(failEdges([]ssa.CallInstruction{sp})...)
		if len(postFlush) == 0 {
			c.Violate(rule, fnName(fn)+"#flush-inside-bracket", "no FlushFrame follows the secret's PutString: the secret stays buffered and is emitted later under the restored (cleartext) state", sp.Pos())
			continue
		}
		var wit []*ssa.BasicBlock
		for _, r := range restRun {
			if p := findPath(after(sp), Target{Instr: r}, cuts); p != nil {
				wit = p
			}
		}
		n++
		if wit == nil {
			c.Ok(rule, fnName(fn)+"#flush-inside-bracket", "the frame holding the secret is flushed before RestoreCryptoAfterSecret on every path", sp.Pos())
		} else {
			c.Violate(rule, fnName(fn)+"#flush-inside-bracket", "RestoreCryptoAfterSecret can be reached after the secret was buffered without flushing it: the secret is emitted later in a cleartext frame", sp.Pos(), c.describePath(wit)...)
		}
		// the flush itself happens while crypto is still prepared: no Restore between secret write and the flush
		var wit2 []*ssa.BasicBlock
		for _, pf := range postFlush {
			if p := findPath(after(sp), Target{Instr: pf}, nil); p != nil {
				if q := findPath(after(sp), Target{Instr: pf}, newCuts().AddInstrs(restRun...)); q == nil {
					wit2 = p
				}
			}
		}
		n++
		c.Check(wit2 == nil, rule, fnName(fn)+"#flush-before-Restore", "the flush of the secret frame is reachable without passing Restore",
			"the FlushFrame that emits the secret comes only after RestoreCryptoAfterSecret: the secret frame is sent in the clear", sp.Pos())
	}
	// Restore on every exit after Prepare (an explicit call on the path, or a registered defer)
	for _, p := range prep {
		var wit []*ssa.BasicBlock
		for _, t := range c.returnsOf(fn) {
			// a path that invoked Prepare on the toggle cannot later take an edge on which that same value is nil
			if pth := findPath(after(p), t.Target(), newCuts().AddInstrs(restReg...).AddEdges(noToggle...)); pth != nil {
				wit = pth
			}
		}
		n++
		if wit == nil {
			c.Ok(rule, fnName(fn)+"#Restore-on-every-exit", "every return after PrepareCryptoForSecret passes RestoreCryptoAfterSecret", p.Pos())
		} else {
			c.Violate(rule, fnName(fn)+"#Restore-on-every-exit", "a return is reachable after PrepareCryptoForSecret without RestoreCryptoAfterSecret: the stream stays in the secret's crypto state", p.Pos(), c.describePath(wit)...)
		}
	}

	// ---- the caller
	n += c.c09SecretBranch(rule, a)
	c.MinCount(rule, "bracket obligations", n, 10)
}

// c09SecretBranch decides the serialiser's side of C09-R5: the plain write of an attribute expression happens
// only when the attribute is not private or crypto-for-secret is a no-op, and a private attribute on a keyed,
// non-encrypting stream goes through putSecretExpr. The tests, the guard value and the two writes are followed
// into same-module helpers (boolean predicates, value helpers, a helper holding the loop body) and through
// local booleans. It returns the number of obligations recorded.
func (c *Ctx) c09SecretBranch(rule string, a *c09Anchors) int {
	w := a.w
	put := a.put
	top := cxTop(put)
	n := 0
	isMsg := func(fr *cxFrame, v ssa.Value) bool {
		r := fr.resolve(v)
		return r.fr == top && r.v == ssa.Value(a.m)
	}
	cyc := c08CyclicBlocks(put)
	// the two writes of the per-attribute loop, in the serialiser or in a helper called from its loop
	type site struct {
		fr   *cxFrame
		call ssa.CallInstruction
	}
	var secretCalls, plainPuts []site
	getsMsg := func(fr *cxFrame, call ssa.CallInstruction) bool {
		for _, arg := range callArgs(call) {
			if isMsg(fr, arg) {
				return true
			}
		}
		return false
	}
	cxCallsDeep(top, func(fr *cxFrame, call ssa.CallInstruction) bool {
		if fr == top && !cyc[call.Block()] {
			return false
		}
		g := calleeFn(call)
		if g == nil || g == a.putSecret || w.strWriters[g] || w.intWriters[g] || g == w.flush {
			return false
		}
		return getsMsg(fr, call)
	}, func(fr *cxFrame, call ssa.CallInstruction) {
		if fr == top && !cyc[call.Block()] {
			return
		}
		if _, isCall := call.(*ssa.Call); !isCall || !getsMsg(fr, call) {
			return
		}
		g := calleeFn(call)
		switch {
		case g == a.putSecret:
			secretCalls = append(secretCalls, site{fr, call})
		case g != nil && w.strWriters[g]:
			plainPuts = append(plainPuts, site{fr, call})
		}
	})
	if len(secretCalls) == 0 || len(plainPuts) == 0 {
		c.Violate(rule, fnName(put)+"#secret-branch", "the per-attribute loop of the serialiser has no putSecretExpr branch or no plain write", put.Pos())
		return n
	}
	// encryptSecrets: a value that is !CryptoForSecretIsNoop() of the message's own stream (false when the stream
	// has no toggle). encState: 0 = not such a value, 1 = exactly that, 2 = a no-op test of something else.
	encMemo := map[cxVal]int{}
	encState := func(fr *cxFrame, v ssa.Value) int {
		k := cxVal{fr, v}
		if st, ok := encMemo[k]; ok {
			return st
		}
		encMemo[k] = 0
		os := cxOrigins(fr, v, nil)
		st := 0
		for _, o := range os {
			if kb, isC := constBool(o.v); isC && !kb {
				continue // no toggle available: false
			}
			u, ok := o.v.(*ssa.UnOp)
			if !ok || u.Op != token.NOT {
				st = 0
				break
			}
			call, ok := u.X.(*ssa.Call)
			if !ok || w.streamCall(call) != "NOOP" {
				st = 0
				break
			}
			// receiver: the message's own stream
			recvOK := false
			for _, ro := range cxOrigins(o.fr, call.Call.Value, nil) {
				if ex, ok := ro.v.(*ssa.Extract); ok {
					if ta, ok := ex.Tuple.(*ssa.TypeAssert); ok {
						if b, f, ok := fieldRead(ta.X); ok && f == w.strF && isMsg(ro.fr, b) {
							recvOK = true
						}
					}
				}
			}
			if !recvOK {
				st = 2
				break
			}
			st = 1
		}
		encMemo[k] = st
		return st
	}
	nPriv, nEnc, encBad := 0, 0, false
	atom := func(fr *cxFrame, at Atom) (onTrue, onFalse bool) {
		if at.Op != token.ILLEGAL || at.X == nil {
			return false, false
		}
		if call, ok := at.X.(*ssa.Call); ok && c09PredKind(calleeFn(call), 0) == "ANY" {
			nPriv++
			return at.Neg, !at.Neg // not private on the false edge
		}
		if _, isCall := at.X.(*ssa.Call); isCall {
			if sub := fr.enter(at.X.(*ssa.Call)); sub != nil && sub.fn.Signature.Results().Len() == 1 {
				// a boolean helper: its returned conditions are classified inside it; a helper that only
				// returns the guard value itself is the guard
				if encState(fr, at.X) == 0 {
					return false, false
				}
			}
		}
		switch encState(fr, at.X) {
		case 1:
			nEnc++
			return at.Neg, !at.Neg // crypto-for-secret is a no-op on the false edge
		case 2:
			encBad = true
		}
		return false, false
	}
	factCuts := map[*cxFrame]*Cuts{}
	cutsOf := func(fr *cxFrame) *Cuts {
		if cu, ok := factCuts[fr]; ok {
			return cu
		}
		cu := c.cxFactCuts(fr, atom, cxDepth)
		factCuts[fr] = cu
		return cu
	}
	topCuts := cutsOf(top)
	for _, pp := range plainPuts {
		for fr := pp.fr; fr != nil; fr = fr.up {
			cutsOf(fr)
		}
	}
	n++
	if !c.Check(nPriv > 0, rule, fnName(put)+"#private-test", "the loop branches on a predicate resolving to classad.IsPrivateAttribute",
		"the per-attribute loop does not branch on a predicate resolving to classad.IsPrivateAttribute", put.Pos()) {
		return n
	}
	n++
	c.Check(nEnc > 0 && !encBad, rule, fnName(put)+"#encryptSecrets", "the secret branch is guarded by !CryptoForSecretIsNoop() of the message's own stream",
		"the guard of the secret branch is not exactly !CryptoForSecretIsNoop() of the message's own stream (false only when the stream has no toggle)", put.Pos())
	// one iteration of the serialiser's loop: back edges and loop exits are cut, so a fact established in an
	// earlier iteration does not count for a later one
	loopAnchor := plainPuts[0].call
	for fr := plainPuts[0].fr; fr.up != nil; fr = fr.up {
		loopAnchor = fr.call
	}
	loop := c08LoopOf(put, loopAnchor.Block())
	if loop == nil {
		c.Undecided(rule, fnName(put)+"#secret-branch", "the plain write of an attribute expression is not inside a loop of the serialiser", loopAnchor.Pos())
		return n
	}
	var head *ssa.BasicBlock
	for b := range loop {
		for _, p := range b.Preds {
			if !loop[p] {
				head = b
			}
		}
	}
	if head == nil {
		c.Undecided(rule, fnName(put)+"#secret-branch", "cannot find the head of the per-attribute loop", loopAnchor.Pos())
		return n
	}
	iterCuts := func(extra ...ssa.Instruction) *Cuts {
		cu := newCuts().AddInstrs(extra...)
		for k := range topCuts.Edges {
			cu.AddEdges(k)
		}
		for k := range topCuts.Via {
			cu.Via[k] = true
		}
		for b := range loop {
			for i, s := range b.Succs {
				if !loop[s] || s == head {
					cu.AddEdges(Edge{b, i})
				}
			}
		}
		return cu
	}
	withInstrs := func(cu *Cuts, extra ...ssa.Instruction) *Cuts {
		out := newCuts().AddInstrs(extra...)
		for k := range cu.Edges {
			out.AddEdges(k)
		}
		for k := range cu.Via {
			out.Via[k] = true
		}
		return out
	}
	iterStarts := func() []Point {
		var out []Point
		for i, s := range head.Succs {
			if loop[s] && s != head && len(s.Instrs) > 0 && !topCuts.Edges[Edge{head, i}] {
				out = append(out, Point{s, 0})
			}
		}
		return out
	}
	// (1) the plain write is reached, within one iteration, only behind an edge on which the attribute is not
	// private or crypto-for-secret is a no-op -- in the function holding the write or in a caller on the chain
	for _, pp := range plainPuts {
		key := fnName(put) + "#plain-write-only-for-non-secret"
		var wit []*ssa.BasicBlock
		guarded := false
		var in ssa.Instruction = pp.call
		for fr := pp.fr; fr != nil && !guarded; fr = fr.up {
			var p []*ssa.BasicBlock
			if fr == top {
				for _, st := range iterStarts() {
					if q := findPath(st, Target{Instr: in}, iterCuts()); q != nil {
						p = q
					}
				}
			} else {
				p = findPath(entryPoint(fr.fn), Target{Instr: in}, cutsOf(fr))
			}
			if p == nil {
				guarded = true
			} else if wit == nil || fr == top {
				wit = p
			}
			if fr.call != nil {
				in = fr.call
			}
		}
		n++
		if guarded {
			c.Ok(rule, key, "every path to it within one iteration passes the edge on which crypto-for-secret is a no-op or the edge on which the attribute is not private", pp.call.Pos())
		} else {
			c.Violate(rule, key, "reachable without passing the edge on which crypto-for-secret is a no-op or the edge on which the attribute is not private: a private attribute can reach the plain PutString although crypto-for-secret is available, its value is sent in the clear", pp.call.Pos(), c.describePath(wit)...)
		}
	}
	// (2) and never from the side on which the attribute is known private without putSecretExpr (or the edge on
	// which crypto-for-secret is a no-op) in between, within the same iteration. The "private" side is the edge
	// opposite to each edge that establishes "not private" (directly, through a helper or a local boolean).
	privAtom := func(fr *cxFrame, at Atom) (onTrue, onFalse bool) {
		if at.Op != token.ILLEGAL || at.X == nil {
			return false, false
		}
		if call, ok := at.X.(*ssa.Call); ok && c09PredKind(calleeFn(call), 0) == "ANY" {
			return at.Neg, !at.Neg
		}
		return false, false
	}
	// instrAt: the instruction of frame fr through which site s is reached (s.call itself, or the call that leads to it)
	instrAt := func(s site, fr *cxFrame) ssa.Instruction {
		var in ssa.Instruction = s.call
		for f := s.fr; f != nil; f = f.up {
			if f == fr {
				return in
			}
			if f.call != nil {
				in = f.call
			}
		}
		return nil
	}
	for _, pp := range plainPuts {
		var wit []*ssa.BasicBlock
		nNeg := 0
		for fr := pp.fr; fr != nil; fr = fr.up {
			target := instrAt(pp, fr)
			var sc []ssa.Instruction
			for _, s := range secretCalls {
				if in := instrAt(s, fr); in != nil {
					sc = append(sc, in)
				}
			}
			// when one helper call leads to both writes the choice is made inside the helper from the values
			// handed in; obligation (1) decides it there
			sameInstr := false
			for _, in := range sc {
				if in == target {
					sameInstr = true
				}
			}
			var cu *Cuts
			if fr == top {
				cu = iterCuts(sc...)
			} else {
				cu = withInstrs(cutsOf(fr), sc...)
			}
			pc := c.cxFactCuts(fr, privAtom, cxDepth)
			// the "known private" side: the successor opposite to each edge that establishes "not private"
			type negStart struct {
				from, pred *ssa.BasicBlock
				succ       int // the successor taken when the attribute is private
			}
			var neg []negStart
			for e := range pc.Edges {
				neg = append(neg, negStart{e.From, nil, 1 - e.Succ})
			}
			for v := range pc.Via {
				neg = append(neg, negStart{v.From, v.Pred, 1 - v.Succ})
			}
			for _, st := range neg {
				if len(st.from.Succs) != 2 || len(st.from.Instrs) == 0 || (fr == top && !loop[st.from]) {
					continue
				}
				nNeg++
				if sameInstr {
					continue
				}
				// start at the branch itself (arriving through the predecessor that carries the fact for a local
				// boolean) so that the search knows which way it came
				cu2 := withInstrs(cu)
				start := Point{st.from, len(st.from.Instrs) - 1}
				if st.pred != nil {
					if len(st.pred.Instrs) == 0 {
						continue
					}
					start = Point{st.pred, len(st.pred.Instrs) - 1}
					for i, sx := range st.pred.Succs {
						if sx != st.from {
							cu2.AddEdges(Edge{st.pred, i})
						}
					}
					cu2.AddVia(st.pred, Edge{st.from, 1 - st.succ})
				} else {
					cu2.AddEdges(Edge{st.from, 1 - st.succ})
				}
				if p := findPath(start, Target{Instr: target}, cu2); p != nil {
					wit = p
				}
			}
		}
		n++
		key := fnName(put) + "#private=>putSecretExpr"
		switch {
		case wit != nil:
			c.Violate(rule, key, "a private attribute can reach the plain PutString although crypto-for-secret is available: its value is sent in the clear", pp.call.Pos(), c.describePath(wit)...)
		case nNeg == 0:
			c.Undecided(rule, key, "cannot locate the edge on which the attribute is known private", pp.call.Pos())
		default:
			c.Ok(rule, key, "a private attribute on a keyed, non-encrypting stream always takes the putSecretExpr branch", pp.call.Pos())
		}
	}
	return n
}

// c09NilEdges is nilEdges with one more alias rule: two loads of the same cell (a local captured by a closure, a
// free variable) carry the same value when the cell is stored to at most once.
func c09NilEdges(fn *ssa.Function, v ssa.Value) (nilE, nonNilE []Edge) {
	nilE, nonNilE = nilEdges(fn, v)
	ld, ok := v.(*ssa.UnOp)
	if !ok || ld.Op != token.MUL {
		return
	}
	cell := ld.X
	switch cell.(type) {
	case *ssa.Alloc, *ssa.FreeVar:
	default:
		return
	}
	stores := 0
	var sibs []ssa.Value
	if refs := cell.Referrers(); refs != nil {
		for _, r := range *refs {
			switch x := r.(type) {
			case *ssa.Store:
				if x.Addr == cell {
					stores++
				}
			case *ssa.UnOp:
				if x.Op == token.MUL && x.X == cell && x != ld {
					sibs = append(sibs, x)
				}
			}
		}
	}
	if stores > 1 {
		return
	}
	for _, sv := range sibs {
		n, nn := nilEdges(fn, sv)
		nilE, nonNilE = append(nilE, n...), append(nonNilE, nn...)
	}
	return
}

// c09NoToggleEdges: the edges of fn on which the receiver of the interface call is nil or the type assertion
// that produced it reported false.
func c09NoToggleEdges(fn *ssa.Function, call ssa.CallInstruction) []Edge {
	if !call.Common().IsInvoke() {
		return nil
	}
	recv := call.Common().Value
	out, _ := c09NilEdges(fn, recv)
	srcs := origins(fn, recv)
	for _, o := range srcs {
		if ex, ok := o.(*ssa.Extract); ok {
			if ta, ok := ex.Tuple.(*ssa.TypeAssert); ok && ta.CommaOk {
				if okv := extractN(ta, 1); okv != nil {
					_, f := boolEdges(fn, okv)
					out = append(out, f...)
				}
			}
		}
	}
	return out
}

// c09Performs: every path from g's entry to each of its returns passes a stream call of the given kind
// (PREP/REST), an edge on which that call's receiver is absent, or a call of a helper that performs it.
func c09Performs(w *wireAnchors, g *ssa.Function, kind string, depth int, active map[*ssa.Function]bool) bool {
	if g == nil || g.Blocks == nil || depth < 0 || active[g] {
		return false
	}
	if pk := fnPkg(g); pk == nil || !inModule(pk.Path()) {
		return false
	}
	active[g] = true
	defer delete(active, g)
	cuts := newCuts()
	n := 0
	allInstrs(g, func(_ *ssa.BasicBlock, _ int, in ssa.Instruction) {
		call, ok := in.(*ssa.Call)
		if !ok {
			return
		}
		if w.streamCall(call) == kind {
			n++
			cuts.AddInstrs(call)
			cuts.AddEdges(c09NoToggleEdges(g, call)...)
			return
		}
		if h := calleeFn(call); h != nil && c09Performs(w, h, kind, depth-1, active) {
			n++
			cuts.AddInstrs(call)
		}
	})
	if n == 0 {
		return false
	}
	for _, b := range g.Blocks {
		if len(b.Instrs) == 0 {
			continue
		}
		if ret, ok := b.Instrs[len(b.Instrs)-1].(*ssa.Return); ok {
			if findPath(entryPoint(g), Target{Instr: ret}, cuts) != nil {
				return false
			}
		}
	}
	return true
}

// ---------------------------------------------------------------------------
// C09-R6: the stream's crypto-for-secret toggle

func c09r6(c *Ctx) {
	const rule = "C09-R6"
	defer c08RuleTimer(rule)()
	c.Doc(rule, "finite table over (gcm nil/non-nil, encrypted false/true) by folding the SSA of the stream's exported toggle PrepareCryptoForSecret / RestoreCryptoAfterSecret / CryptoForSecretIsNoop together with the same-module functions they call (explored in place, stores kept): after Prepare encrypted is (encrypted || gcm != nil) -- never true without a key; Restore run on the state Prepare left puts encrypted back to its original value; CryptoForSecretIsNoop is gcm == nil || encrypted (fields other than gcm/encrypted start unknown, every folded path must satisfy the table)")
	gcm := c.needField(rule, "stream", "Stream", "gcm")
	enc := c.needField(rule, "stream", "Stream", "encrypted")
	noop := c.needFn(rule, "stream", "(*Stream).CryptoForSecretIsNoop")
	prep := c.needFn(rule, "stream", "(*Stream).PrepareCryptoForSecret")
	rest := c.needFn(rule, "stream", "(*Stream).RestoreCryptoAfterSecret")
	if gcm == nil || enc == nil || prep == nil || rest == nil || noop == nil {
		return
	}
	// the functions that implement the bracket: the exported pair and the unexported functions they delegate to
	// today (also used by PutSecret/GetSecret), when those exist
	bracket := fnSet(prep, rest)
	for _, name := range []string{"(*Stream).prepareCryptoForSecret", "(*Stream).restoreCryptoAfterSecret"} {
		if f := c.LookupFn("stream", name); f != nil && f.Blocks != nil {
			bracket[f] = true
		}
	}
	n := 0
	// runOn folds fn on a stream object with the given fields; per explored path it returns the fields as
	// they are at the return (initial values overridden by the stores on that path) and the first result.
	runOn := func(fn *ssa.Function, fields map[*types.Var]aval) (finals []map[*types.Var]aval, rets []aval, overflow bool) {
		obj := &aobj{Name: "stream", Fields: fields}
		it := &ainterp{foldCallees: true}
		it.oracle = func(_ *ssa.Function, v ssa.Value, _ []aval) (aval, bool) {
			// same-module callees (the unexported implementation, a shared guard, a setter) are explored in place
			return avU, false
		}
		it.atReturn = func(_ *ssa.Function, _ *ssa.Return, res []aval, env *aenv) string {
			f := map[*types.Var]aval{}
			for k, v := range fields {
				f[k] = v
			}
			for k, v := range env.stores {
				if k.o == obj && k.f != nil {
					f[k.f] = v
				}
			}
			finals = append(finals, f)
			if len(res) > 0 {
				rets = append(rets, res[0])
			} else {
				rets = append(rets, avU)
			}
			return ""
		}
		it.run(fn, []aval{avO(obj)})
		return finals, rets, it.Overflow
	}
	keyObj := avO(&aobj{Name: "aead"})
	var bad, und []string
	// bracket-private state: boolean Stream fields written only by prepare/restore themselves (e.g. a
	// "toggled" flag). They are zero when the stream is built and the composition prepare;restore must
	// put them back to zero, so every bracket starts from the zero value.
	var private []*types.Var
	if st, ok := gcm.Pkg().Scope().Lookup("Stream").Type().Underlying().(*types.Struct); ok {
		for i := 0; i < st.NumFields(); i++ {
			f := st.Field(i)
			if b, ok := f.Type().Underlying().(*types.Basic); !ok || b.Kind() != types.Bool || f == enc {
				continue
			}
			nw, okW := 0, true
			for _, a := range c.fieldAccesses(f) {
				if a.Write {
					nw++
					if t := topFn(a.Fn); !bracket[t] && !c.onlyReachableFrom(t, bracket) {
						okW = false
					}
				}
			}
			if nw > 0 && okW {
				private = append(private, f)
			}
		}
	}
	for mask := 0; mask < 4; mask++ {
		hasKey, e := mask&1 != 0, mask&2 != 0
		g := avNilV()
		if hasKey {
			g = keyObj
		}
		row := fmt.Sprintf("gcm!=nil=%v encrypted=%v", hasKey, e)
		init := func() map[*types.Var]aval {
			m := map[*types.Var]aval{gcm: g, enc: avB(e)}
			for _, pf := range private {
				m[pf] = avB(false) // zero value outside a bracket (inductive: checked again after restore)
			}
			return m
		}
		fs, _, ov := runOn(prep, init())
		if ov || len(fs) == 0 {
			und = append(und, "PrepareCryptoForSecret "+row)
		}
		for _, f := range fs {
			n++
			if f[enc].K != avBool {
				und = append(und, "PrepareCryptoForSecret "+row)
				continue
			}
			if f[enc].B != (e || hasKey) {
				bad = append(bad, fmt.Sprintf("PrepareCryptoForSecret %s: leaves encrypted=%v, required %v", row, f[enc].B, e || hasKey))
			}
			// restore on the state prepare left
			f[gcm] = g
			rs, _, ov2 := runOn(rest, f)
			if ov2 || len(rs) == 0 {
				und = append(und, "RestoreCryptoAfterSecret after Prepare "+row)
			}
			for _, r := range rs {
				n++
				if r[enc].K != avBool {
					und = append(und, "RestoreCryptoAfterSecret after Prepare "+row)
					continue
				}
				if r[enc].B != e {
					bad = append(bad, fmt.Sprintf("prepare then restore, %s: leaves encrypted=%v, required the original %v", row, r[enc].B, e))
				}
				for _, pf := range private {
					if r[pf].K != avBool || r[pf].B {
						bad = append(bad, fmt.Sprintf("prepare then restore, %s: bracket-private field %s is not reset to false", row, pf.Name()))
					}
				}
			}
		}
		_, rets, ov := runOn(noop, init())
		if ov || len(rets) == 0 {
			und = append(und, "CryptoForSecretIsNoop "+row)
		}
		for _, r := range rets {
			n++
			if r.K != avBool {
				und = append(und, "CryptoForSecretIsNoop "+row)
				continue
			}
			if r.B != (!hasKey || e) {
				bad = append(bad, fmt.Sprintf("CryptoForSecretIsNoop %s: returns %v, required %v", row, r.B, !hasKey || e))
			}
		}
	}
	switch {
	case len(und) > 0:
		c.Undecided(rule, "stream-toggle-table", "cannot fold "+und[0], prep.Pos())
	case len(bad) > 0:
		c.Violate(rule, "stream-toggle-table", "the crypto-for-secret toggle differs from its table: "+bad[0], prep.Pos(), bad...)
	default:
		c.Ok(rule, "stream-toggle-table", "prepare, prepare+restore and is-noop fold to the stated table on all 4 rows", prep.Pos())
	}
	c.MinCount(rule, "toggle rows", n, 12)
}

// ---------------------------------------------------------------------------
// C09-R7: the receivers reassemble an ad that carries secrets

func c09r7(c *Ctx) {
	const rule = "C09-R7"
	defer c08RuleTimer(rule)()
	c.Doc(rule, "the parsing and the raw-text receiver consume, after a string equal to SecretMarker, one more string inside Prepare/RestoreCryptoForSecret and count both as one expression (wire-item language of C08-R1 restricted to the two receivers that return the ad)")
	w := c.wireAnchors(rule)
	if !w.ok {
		return
	}
	n := 0
	for _, r := range c08Receivers[:2] {
		fn := c.needFn(rule, r.rel, r.name)
		if fn == nil {
			continue
		}
		c08CompareLayout(c, rule, w, fn, recvLayout(true), recvLayoutText, nil)
		n++
	}
	// the bracket is not optional when the stream has the toggle: Prepare precedes the secret read in getSecretString-like helpers
	c.MinCount(rule, "receivers", n, 2)
}
